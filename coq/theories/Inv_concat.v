(** * Inv_concat: the master invariant of concat, for every member count [n]

    [n] stays a variable throughout ([n = 0] is the special branch of
    src/concat.rs:95-113).  The invariant [Inv] says where the run is
    ([phase]) and what the members look like around the cursor [cc_i]:
    members below it have ended, members above it were never subscribed, the
    member at it is subscribed / live / stopped / failed according to the
    phase.  The stack only matters in two ways: every frame is [CcDone]
    (except the one [CcZero] frame of the zero-member greeting), and while the
    current member has not greeted the subscribing call is the innermost
    pending call, so that by local reaction nobody but that member can act
    and the sink never sees the stale talkback of the previous member.

    A second invariant [TInv] ties the cursor to the trace (it counts the
    member Terminates) and the Terminate of the sink to [cc_i = n].

    Exported: [concat_safe], [concat_order], [concat_completes],
    [concat_pull_carried] (all closed), and a non-vacuity witness. *)
From CB Require Import ProofLib Spec.

Set Implicit Arguments.

(** payloads received from any member, in order of arrival *)
Fixpoint all_in (tr : list event) : list val :=
  match tr with
  | [] => []
  | EIn (IDn _ (DD v)) :: tr' => v :: all_in tr'
  | _ :: tr' => all_in tr'
  end.

Lemma all_in_app tr1 tr2 : all_in (tr1 ++ tr2) = all_in tr1 ++ all_in tr2.
Proof.
  induction tr1 as [|e tr1 IH]; cbn; [reflexivity|].
  destruct e as [[s a|s u|j [|v|e|]|s]|c| | |ob|]; cbn; try exact IH.
  now rewrite IH.
Qed.

(** how many member Terminates have arrived *)
Fixpoint dt_in (tr : list event) : nat :=
  match tr with
  | [] => 0
  | EIn (IDn _ DT) :: tr' => S (dt_in tr')
  | _ :: tr' => dt_in tr'
  end.

Lemma dt_in_app tr1 tr2 : dt_in (tr1 ++ tr2) = dt_in tr1 + dt_in tr2.
Proof.
  induction tr1 as [|e tr1 IH]; cbn; [reflexivity|].
  destruct e as [[s a|s u|j [|v|e|]|s]|c| | |ob|]; cbn; try exact IH.
  now rewrite IH.
Qed.

Section ConcatInv.
  Variable n : nat.
  Variable p : mparams.
  Hypothesis Hns : nsinks p = 1.
  Hypothesis Hresub : resub p = false.
  Hypothesis Hnonest : no_nest p = false.
  Hypothesis Hc14 : c14 p = false.
  Hypothesis Hlate : late_ok p = false.
  Let o := concat_op n.

  (** every suspended activation is one that just returns when resumed *)
  Definition done_frames (stk : list (cc_fr * call)) : Prop :=
    Forall (fun fc => fst fc = CcDone) stk.

  Lemma done_cons cl stk : done_frames stk -> done_frames ((CcDone, cl) :: stk).
  Proof. intros H. constructor; [reflexivity | exact H]. Qed.

  Lemma done_nil : done_frames [].
  Proof. constructor. Qed.

  Lemma done_inv k cl stk : done_frames ((k, cl) :: stk) -> k = CcDone /\ done_frames stk.
  Proof. intros H. inversion H. split; assumption. Qed.

  (** ** Where the run is.

      [PhInit]: nobody subscribed yet.
      [PhSubd]: member [cc_i] has been subscribed and has not greeted; the
                subscribing call is on top of the stack, so only that member
                can act (and it can only greet).
      [PhLive]: member [cc_i] is live, its talkback is the stored one, the
                sink is live.
      [PhOver]: the output is over (disposed, failed or completed); nobody
                can act any more, the stack just unwinds.
      [PhZGreet], [PhZDisp]: zero members, inside the greeting of the sink. *)
  Inductive phase (c : cfg o) : Prop :=
  | PhInit :
      subd (ms c) 0 = false -> cst c = st0 o -> stack c = [] ->
      sk (ms c) 0 = SNone -> us (ms c) 0 = UNone -> npull (ms c) 0 = 0 -> phase c
  | PhSubd k rest :
      subd (ms c) 0 = true -> cc_i (cst c) < n ->
      us (ms c) (cc_i (cst c)) = USubd ->
      stack c = (k, CSub (cc_i (cst c))) :: rest -> done_frames (stack c) ->
      sk (ms c) 0 = match cc_i (cst c) with 0 => SNone | S _ => SLive end -> phase c
  | PhLive :
      subd (ms c) 0 = true -> cc_i (cst c) < n ->
      us (ms c) (cc_i (cst c)) = ULive -> sk (ms c) 0 = SLive ->
      cc_tb (cst c) = Some (cc_i (cst c)) -> done_frames (stack c) -> phase c
  | PhOver :
      subd (ms c) 0 = true -> sk_over (sk (ms c) 0) = true ->
      match us (ms c) (cc_i (cst c)) with USubd | ULive => False | _ => True end ->
      done_frames (stack c) -> phase c
  | PhZGreet :
      subd (ms c) 0 = true -> n = 0 -> cc_i (cst c) = 0 -> us (ms c) 0 = UNone ->
      sk (ms c) 0 = SLive -> cc_disposed (cst c) = false ->
      stack c = [(CcZero, CDn 0 DH)] -> phase c
  | PhZDisp :
      subd (ms c) 0 = true -> n = 0 -> cc_i (cst c) = 0 -> us (ms c) 0 = UNone ->
      sk (ms c) 0 = SDisposed -> cc_disposed (cst c) = true ->
      stack c = [(CcZero, CDn 0 DH)] -> phase c.

  Record Inv (c : cfg o) : Prop := {
    i_viols : viols (ms c) = [];
    i_dead : dead c = false;
    i_due : forall s, err_due (ms c) s = None;
    i_sk_other : forall s, s <> 0 -> sk (ms c) s = SNone;
    i_task : forall s, task (ms c) s = false;
    i_le : cc_i (cst c) <= n;
    i_before : forall j, j < cc_i (cst c) -> us (ms c) j = UEnded;
    i_after : forall j, cc_i (cst c) < j -> us (ms c) j = UNone;
    i_pull : 0 < n -> (cc_got_pull (cst c) = true <-> 0 < npull (ms c) 0);
    i_phase : phase c;
  }.

  Lemma inv0 : Inv (cfg0 o).
  Proof.
    constructor; cbn; auto; try lia.
    apply PhInit; reflexivity.
  Qed.

  (** a live upstream is the current member, and then the sink is live *)
  Lemma live_current c j : Inv c -> us (ms c) j = ULive ->
                           j = cc_i (cst c) /\ sk (ms c) 0 = SLive /\ cc_i (cst c) < n /\
                           cc_tb (cst c) = Some (cc_i (cst c)) /\ done_frames (stack c) /\
                           subd (ms c) 0 = true.
  Proof.
    intros [] Hj.
    assert (E : j = cc_i (cst c)).
    { destruct (Nat.lt_trichotomy j (cc_i (cst c))) as [H|[H|H]]; [|exact H|].
      - rewrite i_before0 in Hj by exact H. discriminate.
      - rewrite i_after0 in Hj by exact H. discriminate. }
    subst j. split; [reflexivity|].
    destruct i_phase0 as [A B C D E F|k rest A B C D E F|A B C D E F|A B C D|A B C D E F G|A B C D E F G];
      try congruence.
    - rewrite B in Hj. cbn in Hj. congruence.
    - tauto.
    - rewrite Hj in C. destruct C.
  Qed.

  (** a subscribed upstream that has not greeted is the current member, and
      the subscribing call is the innermost pending call *)
  Lemma subd_current c j : Inv c -> us (ms c) j = USubd ->
                           j = cc_i (cst c) /\ cc_i (cst c) < n /\
                           sk (ms c) 0 = match cc_i (cst c) with 0 => SNone | S _ => SLive end /\
                           done_frames (stack c) /\ subd (ms c) 0 = true.
  Proof.
    intros [] Hj.
    assert (E : j = cc_i (cst c)).
    { destruct (Nat.lt_trichotomy j (cc_i (cst c))) as [H|[H|H]]; [|exact H|].
      - rewrite i_before0 in Hj by exact H. discriminate.
      - rewrite i_after0 in Hj by exact H. discriminate. }
    subst j. split; [reflexivity|].
    destruct i_phase0 as [A B C D E F|k rest A B C D E F|A B C D E F|A B C D|A B C D E F G|A B C D E F G];
      try congruence.
    - rewrite B in Hj. cbn in Hj. congruence.
    - tauto.
    - rewrite Hj in C. destruct C.
  Qed.

  Lemma quiescent_ok m' :
    (forall j, us m' j = ULive -> sk_over (sk m' 0) = false) ->
    (forall s, err_due m' s = None) -> check_quiescent p m' = [].
  Proof.
    intros H1 H2. apply quiescent_nil.
    - intros _ Hov j _. destruct (us m' j) eqn:E; try reflexivity.
      rewrite (H1 j E) in Hov. discriminate.
    - exact H2.
    - rewrite Hc14. discriminate.
  Qed.

  Lemma done_eq m : check_quiescent p m = [] -> mon_event p m EDone = m.
  Proof.
    intros H. cbn. destruct (cstack m); [|reflexivity].
    rewrite H. destruct m; reflexivity.
  Qed.

  (** ** What the handlers do, case by case *)
  Definition s_init : cc_st :=
    {| cc_i := 0; cc_tb := None; cc_got_pull := false; cc_disposed := false |}.

  Lemma h_sub_z aux s : n = 0 ->
    handle o (ISub 0 aux) s = (s_init, [], ACall (CDn 0 DH) CcZero).
  Proof.
    intros H. unfold o, concat_op, handle, cc_handle.
    destruct (Nat.eqb_spec n 0); [reflexivity | congruence].
  Qed.

  Lemma h_sub_s aux s : n <> 0 ->
    handle o (ISub 0 aux) s = (s_init, [], ACall (CSub 0) CcDone).
  Proof.
    intros H. unfold o, concat_op, handle, cc_handle, cc_next. cbn [cc_i].
    destruct (Nat.eqb_spec n 0); [congruence|].
    destruct (Nat.eqb_spec 0 n); [congruence | reflexivity].
  Qed.

  Lemma h_up_z u s : n = 0 ->
    handle o (IUp 0 u) s =
    (if umsg_is_term u
     then {| cc_i := cc_i s; cc_tb := cc_tb s; cc_got_pull := cc_got_pull s; cc_disposed := true |}
     else s, [], ARet).
  Proof.
    intros H. unfold o, concat_op, handle, cc_handle.
    destruct (Nat.eqb_spec n 0); [|congruence]. destruct (umsg_is_term u); reflexivity.
  Qed.

  Lemma h_up_s u s k : n <> 0 -> cc_tb s = Some k ->
    handle o (IUp 0 u) s =
    (match u with
     | UP => {| cc_i := cc_i s; cc_tb := cc_tb s; cc_got_pull := true;
                cc_disposed := cc_disposed s |}
     | _ => s end, [], ACall (CUp k u) CcDone).
  Proof.
    intros H Htb. unfold o, concat_op, handle, cc_handle.
    destruct (Nat.eqb_spec n 0); [congruence|]. rewrite Htb. reflexivity.
  Qed.

  Lemma h_dt_last j s : S (cc_i s) = n ->
    handle o (IDn j DT) s =
    ({| cc_i := S (cc_i s); cc_tb := cc_tb s; cc_got_pull := cc_got_pull s;
        cc_disposed := cc_disposed s |}, [], ACall (CDn 0 DT) CcDone).
  Proof.
    intros H. unfold o, concat_op, handle, cc_handle, cc_next. cbn [cc_i].
    destruct (Nat.eqb_spec (S (cc_i s)) n); [reflexivity | congruence].
  Qed.

  Lemma h_dt_next j s : S (cc_i s) <> n ->
    handle o (IDn j DT) s =
    ({| cc_i := S (cc_i s); cc_tb := cc_tb s; cc_got_pull := cc_got_pull s;
        cc_disposed := cc_disposed s |}, [], ACall (CSub (S (cc_i s))) CcDone).
  Proof.
    intros H. unfold o, concat_op, handle, cc_handle, cc_next. cbn [cc_i].
    destruct (Nat.eqb_spec (S (cc_i s)) n); [congruence | reflexivity].
  Qed.

  Definition with_tb (s : cc_st) (j : nat) : cc_st :=
    {| cc_i := cc_i s; cc_tb := Some j; cc_got_pull := cc_got_pull s;
       cc_disposed := cc_disposed s |}.

  Lemma h_dh_first j s : cc_i s = 0 ->
    handle o (IDn j DH) s = (with_tb s j, [], ACall (CDn 0 DH) CcDone).
  Proof. intros H. unfold with_tb. cbn. destruct (cc_i s); [reflexivity | discriminate]. Qed.

  Lemma h_dh_pull j s : cc_i s <> 0 -> cc_got_pull s = true ->
    handle o (IDn j DH) s = (with_tb s j, [], ACall (CUp j UP) CcDone).
  Proof.
    intros H H'. unfold with_tb. cbn. rewrite H'. destruct (cc_i s); [congruence | reflexivity].
  Qed.

  Lemma h_dh_idle j s : cc_i s <> 0 -> cc_got_pull s = false ->
    handle o (IDn j DH) s = (with_tb s j, [], ARet).
  Proof.
    intros H H'. unfold with_tb. cbn. rewrite H'. destruct (cc_i s); [congruence | reflexivity].
  Qed.

  Ltac crush2 :=
    repeat match goal with
           | |- forall _, _ => intro
           | H : _ \/ _ |- _ => destruct H
           | H : False |- _ => destruct H
           | |- context [upd _ ?k _ ?x] =>
               unfold upd; destruct (Nat.eqb_spec x k); subst
           | |- context [if Nat.eqb ?x ?k then _ else _] =>
               destruct (Nat.eqb_spec x k); subst
           end;
    auto; try congruence; try lia; try tauto; try reflexivity;
    try (match goal with
         | H : forall j, _ -> us _ j = _ |- us _ _ = _ => apply H; lia
         end);
    try (repeat apply done_cons; first [assumption | apply done_nil]);
    try (match goal with
         | H : forall s, s <> 0 -> sk _ s = SNone, H' : ?s <> 0 |- context [sk _ ?s] =>
             rewrite (H s H'); rewrite ?Bool.andb_false_r; auto
         end);
    try (rw_st; cbn; auto; fail).

  Ltac fin4 Hc Hm Hs Hd :=
    rewrite ?Hc, ?Hm, ?Hs, ?Hd; unfold ms_settle; cbn [fold_left map mon_event];
    rewrite ?add_viols_eq; cbn;
    unfold due_on_error; repeat (rw_st; cbn; rewrite ?upd_same, ?Nat.eqb_refl; cbn); crush2.

  Lemma inv_sub c s aux : Inv c -> enabled p g_std c (MIn (ISub s aux)) = true ->
                          Inv (step p c (MIn (ISub s aux))).
  Proof.
    intros HI He. pose proof HI as []. start_in He Hlive Hdel Hg.
    cbn in He, Hg. rewrite Hns in He. destruct aux; [|discriminate].
    destruct (at_top c) eqn:Htop; cbn in He; try discriminate.
    destruct s; cbn in He; try discriminate.
    apply negb_true_iff in He.
    destruct i_phase0 as [A B C D E F|k rest A B C D E F|A B C D E F|A B C D|A B C D E F G|A B C D E F G];
      try congruence.
    rewrite B in *. cbn in i_le0, i_before0, i_after0, i_pull0.
    destruct (Nat.eq_dec n 0) as [Hn|Hn].
    - destruct (step_in p c (ISub 0 0) Hlive Hdel (h_sub_z 0 _ Hn)) as (Hc & Hs & Hm & Hd).
      rewrite C in Hs.
      constructor; [..|apply PhZGreet]; fin4 Hc Hm Hs Hd.
    - destruct (step_in p c (ISub 0 0) Hlive Hdel (h_sub_s 0 _ Hn)) as (Hc & Hs & Hm & Hd).
      rewrite C in Hs.
      constructor; [..|eapply PhSubd]; fin4 Hc Hm Hs Hd.
  Qed.

  Ltac phases H :=
    destruct H as [A B C D E F|k rest A B C D E F|A B C D E F|A B C D|A B C D E F G|A B C D E F G].

  Lemma inv_up c s u : Inv c -> enabled p g_std c (MIn (IUp s u)) = true ->
                       Inv (step p c (MIn (IUp s u))).
  Proof.
    intros HI He. pose proof HI as []. start_in He Hlive Hdel Hg.
    cbn in He. apply andb_prop in He. destruct He as [He Hu].
    apply andb_prop in He. destruct He as [Htop Hsk].
    destruct s as [|s]; [|rewrite i_sk_other0 in Hsk by lia; discriminate].
    destruct (sk (ms c) 0) eqn:Esk; try discriminate.
    phases i_phase0; rewrite ?Esk in *; try discriminate; try congruence.
    - (* PhSubd: the subscribing call is on top, the sink cannot act *)
      unfold top_peer_is in Htop. rewrite D in Htop. discriminate.
    - (* PhLive *)
      assert (Hn : n <> 0) by lia.
      destruct (step_in p c (IUp 0 u) Hlive Hdel (h_up_s u _ Hn E)) as (Hc & Hs & Hm & Hd).
      destruct u as [|e|].
      + constructor; [..|eapply PhLive]; fin4 Hc Hm Hs Hd.
      + constructor; [..|eapply PhOver]; fin4 Hc Hm Hs Hd.
      + constructor; [..|eapply PhOver]; fin4 Hc Hm Hs Hd.
    - (* PhZGreet *)
      destruct (step_in p c (IUp 0 u) Hlive Hdel (h_up_z u _ B)) as (Hc & Hs & Hm & Hd).
      assert (Hnone : forall j, us (ms c) j = UNone).
      { intros [|j]; [exact D | apply i_after0; lia]. }
      unfold ms_settle in Hm; cbn [fold_left map] in Hm. rewrite done_eq in Hm.
      2:{ apply quiescent_ok; destruct u; cbn; intros; rewrite ?Hnone in *; crush2. }
      destruct u as [|e|]; cbn in Hc.
      + constructor; [..|eapply PhZGreet]; fin4 Hc Hm Hs Hd.
      + constructor; [..|eapply PhZDisp]; fin4 Hc Hm Hs Hd. 
      + constructor; [..|eapply PhZDisp]; fin4 Hc Hm Hs Hd. 
  Qed.

  Lemma inv_dn c j d : Inv c -> enabled p g_std c (MIn (IDn j d)) = true ->
                       Inv (step p c (MIn (IDn j d))).
  Proof.
    intros HI He. pose proof HI as []. start_in He Hlive Hdel Hg.
    cbn in He. apply andb_prop in He. destruct He as [Htop He].
    destruct d as [|v|e|].
    - (* the current member greets *)
      apply andb_prop in He. destruct He as [He _].
      destruct (us (ms c) j) eqn:Eus; try discriminate.
      destruct (subd_current j HI Eus) as (-> & Hlt & Hsk & Hfr & Hsub).
      destruct (Nat.eq_dec (cc_i (cst c)) 0) as [Ei|Ei];
        [|destruct (cc_got_pull (cst c)) eqn:Egp].
      + destruct (step_in p c (IDn (cc_i (cst c)) DH) Hlive Hdel (h_dh_first _ _ Ei))
          as (Hc & Hs & Hm & Hd).
        rewrite Ei in Hsk.
        constructor; [..|eapply PhLive]; unfold with_tb in Hc; fin4 Hc Hm Hs Hd.
      + destruct (step_in p c (IDn (cc_i (cst c)) DH) Hlive Hdel (h_dh_pull _ _ Ei Egp))
          as (Hc & Hs & Hm & Hd).
        destruct (cc_i (cst c)) as [|i'] eqn:Ei'; [congruence|]. rewrite <- Ei' in *.
        constructor; [..|eapply PhLive]; unfold with_tb in Hc; fin4 Hc Hm Hs Hd.
      + destruct (step_in p c (IDn (cc_i (cst c)) DH) Hlive Hdel (h_dh_idle _ _ Ei Egp))
          as (Hc & Hs & Hm & Hd).
        destruct (cc_i (cst c)) as [|i'] eqn:Ei'; [congruence|]. rewrite <- Ei' in *.
        unfold ms_settle in Hm; cbn [fold_left map] in Hm. rewrite done_eq in Hm.
        2:{ apply quiescent_ok; cbn; intros; rw_st; crush2. }
        constructor; [..|eapply PhLive]; unfold with_tb in Hc; fin4 Hc Hm Hs Hd.
        rewrite Egp. auto.
    - (* Data from the current member *)
      apply andb_prop in He. destruct He as [He _].
      destruct (us (ms c) j) eqn:Eus; try discriminate.
      destruct (live_current j HI Eus) as (-> & Hsk & Hlt & Htb & Hfr & Hsub).
      destruct (step_in p c (IDn (cc_i (cst c)) (DD v)) Hlive Hdel eq_refl) as (Hc & Hs & Hm & Hd).
      constructor; [..|eapply PhLive]; fin4 Hc Hm Hs Hd.
    - (* Error from the current member *)
      apply andb_prop in He. destruct He as [He _].
      destruct (us (ms c) j) eqn:Eus; try discriminate.
      destruct (live_current j HI Eus) as (-> & Hsk & Hlt & Htb & Hfr & Hsub).
      destruct (step_in p c (IDn (cc_i (cst c)) (DE e)) Hlive Hdel eq_refl) as (Hc & Hs & Hm & Hd).
      constructor; [..|eapply PhOver]; fin4 Hc Hm Hs Hd.
    - (* Terminate from the current member: subscribe the next one or complete *)
      apply andb_prop in He. destruct He as [He _].
      destruct (us (ms c) j) eqn:Eus; try discriminate.
      destruct (live_current j HI Eus) as (-> & Hsk & Hlt & Htb & Hfr & Hsub).
      destruct (Nat.eq_dec (S (cc_i (cst c))) n) as [Hn|Hn].
      + destruct (step_in p c (IDn (cc_i (cst c)) DT) Hlive Hdel (h_dt_last _ _ Hn))
          as (Hc & Hs & Hm & Hd).
        assert (Enext : us (ms c) (S (cc_i (cst c))) = UNone) by (apply i_after0; lia).
        constructor; [..|eapply PhOver]; fin4 Hc Hm Hs Hd.
      + destruct (step_in p c (IDn (cc_i (cst c)) DT) Hlive Hdel (h_dt_next _ _ Hn))
          as (Hc & Hs & Hm & Hd).
        assert (Enext : us (ms c) (S (cc_i (cst c))) = UNone) by (apply i_after0; lia).
        constructor; [..|eapply PhSubd]; fin4 Hc Hm Hs Hd.
  Qed.

  Lemma inv_ret c : Inv c -> enabled p g_std c MRet = true -> Inv (step p c MRet).
  Proof.
    intros HI He. pose proof HI as [].
    pose proof (enabled_live _ _ _ _ He) as Hlive.
    destruct (enabled_ret_stack _ _ _ He) as (k0 & cl & rest0 & Hst).
    assert (Hq : check_quiescent p (mon_event p (ms c) ERet) = []).
    { apply quiescent_ok; cbn; [|exact i_due0].
      intros j Hj. destruct (live_current j HI Hj) as (_ & Hsk & _). now rewrite Hsk. }
    phases i_phase0.
    - congruence.
    - (* PhSubd: the member has not greeted, the return is not enabled *)
      unfold enabled in He. rewrite Hlive, D, Hlate, C in He. discriminate.
    - rewrite Hst in F. destruct (done_inv F) as [-> Hfr].
      destruct (step_ret p c Hlive Hst eq_refl) as (Hc & Hs & Hm & Hd).
      unfold ms_settle in Hm; cbn [fold_left map] in Hm. rewrite (done_eq _ Hq) in Hm.
      constructor; [..|eapply PhLive]; fin4 Hc Hm Hs Hd.
    - rewrite Hst in D. destruct (done_inv D) as [-> Hfr].
      destruct (step_ret p c Hlive Hst eq_refl) as (Hc & Hs & Hm & Hd).
      unfold ms_settle in Hm; cbn [fold_left map] in Hm. rewrite (done_eq _ Hq) in Hm.
      constructor; [..|eapply PhOver]; fin4 Hc Hm Hs Hd.
    - (* zero members, the greeting returns and the sink has not disposed *)
      assert (Hres : resume o CcZero (cst c) = (cst c, [], ACall (CDn 0 DT) CcDone)).
      { cbn. now rewrite F. }
      destruct (step_ret p c Hlive G Hres) as (Hc & Hs & Hm & Hd).
      constructor; [..|eapply PhOver]; fin4 Hc Hm Hs Hd.
      all: rewrite C, D; exact I.
    - (* zero members, the sink disposed inside the greeting *)
      assert (Hres : resume o CcZero (cst c) = (cst c, [], ARet)).
      { cbn. now rewrite F. }
      destruct (step_ret p c Hlive G Hres) as (Hc & Hs & Hm & Hd).
      unfold ms_settle in Hm; cbn [fold_left map] in Hm. rewrite (done_eq _ Hq) in Hm.
      constructor; [..|eapply PhOver]; fin4 Hc Hm Hs Hd.
      all: rewrite C, D; exact I.
  Qed.

  Lemma inv_step c m : Inv c -> enabled p g_std c m = true -> Inv (step p c m).
  Proof.
    intros HI He. destruct m as [[s aux|s u|i d|s]|].
    - now apply inv_sub.
    - now apply inv_up.
    - now apply inv_dn.
    - exfalso. destruct HI. unfold enabled in He.
      repeat (apply andb_prop in He; destruct He as [? He]).
      cbn in He. now rewrite i_task0 in He.
    - now apply inv_ret.
  Qed.

  Theorem inv_reach c : reach p g_std c -> Inv c.
  Proof. induction 1; [apply inv0 | now apply inv_step]. Qed.


  (** ** What one activation appends to the trace, whatever the state *)
  Lemma handle_shape inp s s' os a : handle o inp s = (s', os, a) ->
    os = [] /\
    cc_i s' = match inp with ISub 0 _ => 0 | IDn _ DT => S (cc_i s) | _ => cc_i s end /\
    data_out 0 [act_event o a] = all_in [EIn inp] /\
    (act_event o a = ECall (CDn 0 DT) -> exists j, inp = IDn j DT /\ S (cc_i s) = n).
  Proof.
    unfold o, concat_op, handle, cc_handle, cc_next.
    destruct inp as [[|s1] aux|[|s1] u|j [|v|e|]|s1]; cbn [cc_i];
      repeat match goal with
             | |- context [if ?b then _ else _] => destruct b eqn:?
             | |- context [match cc_tb ?x with _ => _ end] => destruct (cc_tb x)
             end;
      intros H; inversion H; subst; cbn;
      (split; [reflexivity|split; [try reflexivity|split; [try reflexivity|]]]);
      try (intros; discriminate); try (destruct u; reflexivity); intros _.
    1: { match goal with
         | H1 : (0 =? n) = true, H2 : (n =? 0) = false |- _ =>
             apply Nat.eqb_eq in H1; rewrite <- H1 in H2; discriminate
         end. }
    all: exists j; split; [reflexivity | apply Nat.eqb_eq; assumption].
  Qed.

  Lemma resume_shape k s s' os a : resume o k s = (s', os, a) ->
    os = [] /\ s' = s /\ data_out 0 [act_event o a] = [] /\
    (act_event o a = ECall (CDn 0 DT) -> k = CcZero /\ cc_disposed s = false).
  Proof.
    destruct k; cbn.
    - intros H; inversion H; subst; cbn. repeat split; discriminate.
    - destruct (cc_disposed s) eqn:E; intros H; inversion H; subst; cbn; repeat split; discriminate.
  Qed.


  (** C09, the data: what the sink has been given is exactly what the members
      sent, in the order of arrival *)
  Lemma order_data (c : cfg o) : reach p g_std c -> data_out 0 (trace c) = all_in (trace c).
  Proof.
    induction 1 as [|c m Hr IH He]; [reflexivity|].
    pose proof (enabled_live _ _ _ _ He) as Hlive.
    destruct m as [inp|].
    - pose proof (enabled_deliverable _ _ _ _ He) as Hdel.
      destruct (handle o inp (cst c)) as [[s' os] a] eqn:Hh.
      rewrite (step_in_trace p c inp Hlive Hdel Hh), data_out_app, all_in_app, IH.
      f_equal. destruct (handle_shape _ _ Hh) as (-> & _ & Hdata & _).
      change (EIn inp :: map EObs [] ++ [act_event o a]) with ([EIn inp] ++ [act_event o a]).
      rewrite data_out_app, all_in_app, Hdata. destruct a; cbn; now rewrite ?app_nil_r.
    - destruct (enabled_ret_stack _ _ _ He) as (k & cl & rest & Hst).
      destruct (resume o k (cst c)) as [[s' os] a] eqn:Hres.
      rewrite (step_ret_trace p c Hlive Hst Hres), data_out_app, all_in_app, IH.
      f_equal. destruct (resume_shape _ _ Hres) as (-> & _ & Hdata & _).
      change (ERet :: map EObs [] ++ [act_event o a]) with ([ERet] ++ [act_event o a]).
      rewrite data_out_app, all_in_app, Hdata. destruct a; reflexivity.
  Qed.

  (** C09, the order: a member is subscribed only after its predecessor ended *)
  Lemma order_members (c : cfg o) k : reach p g_std c -> us (ms c) (S k) <> UNone -> us (ms c) k = UEnded.
  Proof.
    intros Hr Hk. destruct (inv_reach Hr). apply i_before0.
    destruct (Nat.lt_ge_cases k (cc_i (cst c))) as [H|H]; [exact H|].
    exfalso. apply Hk. apply i_after0. lia.
  Qed.

  (** ** Completion *)

  (** once the sink has been completed the monitor keeps saying so *)
  Lemma fin_call m cl : sk m 0 = SFinished -> sk (mon_event p m (ECall cl)) 0 = SFinished.
  Proof.
    intros H. cbn [mon_event]. rewrite add_viols_eq. cbn.
    destruct cl as [i|i u|s d]; cbn; [exact H | destruct u; exact H |].
    destruct (Nat.eq_dec s 0) as [->|Hs].
    - destruct d as [|v|e|]; cbn; rewrite ?H; cbn; rewrite ?H; try reflexivity.
      destruct (err_due m 0) as [e'|]; [destruct (e =? e')|]; reflexivity.
    - assert (Hu : forall k, sk (set_sk m s k) 0 = SFinished).
      { intros k. cbn. rewrite upd_other by auto. exact H. }
      destruct d as [|v|e|]; cbn.
      + destruct (sk m s); auto.
      + exact H.
      + destruct (err_due m s) as [e'|]; [destruct (e =? e')|]; destruct (sk m s); cbn;
          rewrite ?upd_other by auto; auto.
      + destruct (sk m s); auto.
  Qed.

  Lemma fin_settle m a : sk m 0 = SFinished -> sk (ms_settle p o m [] a) 0 = SFinished.
  Proof.
    intros H. destruct a as [| |cl k]; unfold ms_settle; cbn [fold_left map].
    - cbn [mon_event]. destruct (cstack m); rewrite ?add_viols_eq; exact H.
    - exact H.
    - now apply fin_call.
  Qed.

  Lemma fin_step (c : cfg o) m : Inv c -> enabled p g_std c m = true ->
    sk (ms c) 0 = SFinished -> sk (ms (step p c m)) 0 = SFinished.
  Proof.
    intros HI He Hf. pose proof (enabled_live _ _ _ _ He) as Hlive.
    destruct m as [inp|].
    - pose proof (enabled_deliverable _ _ _ _ He) as Hdel.
      destruct (handle o inp (cst c)) as [[s' os] a] eqn:Hh.
      destruct (step_in p c inp Hlive Hdel Hh) as (_ & _ & Hm & _).
      destruct (handle_shape _ _ Hh) as (-> & _). rewrite Hm. apply fin_settle.
      destruct inp as [s aux|s u|j d|s].
      + destruct aux; exact Hf.
      + exfalso. start_in He Hl' Hd' Hg. cbn in He.
        apply andb_prop in He. destruct He as [He _]. apply andb_prop in He. destruct He as [_ He].
        destruct s as [|s]; [rewrite Hf in He|rewrite (i_sk_other HI) in He by lia]; discriminate.
      + destruct d; exact Hf.
      + exact Hf.
    - destruct (enabled_ret_stack _ _ _ He) as (k & cl & rest & Hst).
      destruct (resume o k (cst c)) as [[s' os] a] eqn:Hres.
      destruct (step_ret p c Hlive Hst Hres) as (_ & _ & Hm & _).
      destruct (resume_shape _ _ Hres) as (-> & _). rewrite Hm. apply fin_settle. exact Hf.
  Qed.


  Lemma live_dt m k : sk m 0 = SLive ->
    sk (ms_settle p o m [] (ACall (CDn 0 DT) k)) 0 = SFinished.
  Proof.
    intros H. unfold ms_settle. cbn [fold_left map mon_event]. rewrite add_viols_eq. cbn.
    rewrite H. reflexivity.
  Qed.

  Lemma act_dt (a : act (Fr o)) : act_event o a = ECall (CDn 0 DT) -> exists k, a = ACall (CDn 0 DT) k.
  Proof. destruct a as [| |cl k]; cbn; intros H; inversion H. now exists k. Qed.

  Lemma dt_in_act (a : act (Fr o)) : dt_in [act_event o a] = 0.
  Proof. destruct a; reflexivity. Qed.

  Lemma sub_enabled_init (c : cfg o) s aux : Inv c -> enabled p g_std c (MIn (ISub s aux)) = true ->
    s = 0 /\ cst c = st0 o /\ sk (ms c) 0 = SNone.
  Proof.
    intros [] He. start_in He Hlive Hdel Hg. cbn in He. rewrite Hns in He.
    apply andb_prop in He. destruct He as [He Hsub]. apply andb_prop in He. destruct He as [_ He].
    destruct s; cbn in He; [|discriminate]. apply negb_true_iff in Hsub.
    phases i_phase0; try congruence. auto.
  Qed.

  Lemma frames_zero (c : cfg o) cl rs : Inv c -> stack c = (CcZero, cl) :: rs ->
    cc_disposed (cst c) = false -> n = 0 /\ cc_i (cst c) = 0 /\ sk (ms c) 0 = SLive.
  Proof.
    intros [] Hst Hdis. phases i_phase0; try congruence; try tauto.
    all: match goal with
         | H : done_frames (stack _) |- _ =>
             rewrite Hst in H; apply done_inv in H; destruct H; discriminate
         end.
  Qed.

  (** the part of the invariant that talks about the trace *)
  Record TInv (c : cfg o) : Prop := {
    t_cnt : cc_i (cst c) = dt_in (trace c);
    t_mem : forall j, j < cc_i (cst c) -> In (EIn (IDn j DT)) (trace c);
    t_done : In (ECall (CDn 0 DT)) (trace c) -> cc_i (cst c) = n /\ sk (ms c) 0 = SFinished;
    t_conv : 0 < n -> cc_i (cst c) = n -> In (ECall (CDn 0 DT)) (trace c);
  }.

  Lemma tinv_step (c : cfg o) m : Inv c -> TInv c -> enabled p g_std c m = true -> TInv (step p c m).
  Proof.
    intros HI [] He. pose proof (enabled_live _ _ _ _ He) as Hlive.
    destruct m as [inp|].
    - pose proof (enabled_deliverable _ _ _ _ He) as Hdel.
      destruct (handle o inp (cst c)) as [[s' os] a] eqn:Hh.
      destruct (step_in p c inp Hlive Hdel Hh) as (Hc & _ & Hm & _).
      pose proof (step_in_trace p c inp Hlive Hdel Hh) as Ht.
      destruct (handle_shape _ _ Hh) as (-> & Hi & _ & Hdt). cbn [map app] in Ht.
      assert (Hcases : (exists j, inp = IDn j DT) \/
                       (cc_i s' = cc_i (cst c) /\ dt_in [EIn inp] = 0 /\
                        act_event o a <> ECall (CDn 0 DT) /\ EIn inp <> ECall (CDn 0 DT))).
      { assert (Hnodt : (forall j, inp <> IDn j DT) -> act_event o a <> ECall (CDn 0 DT)).
        { intros Hne Ha. destruct (Hdt Ha) as (j & Hj & _). exact (Hne j Hj). }
        destruct inp as [s aux|s u|j d|s].
        - right. destruct (sub_enabled_init _ _ HI He) as (-> & E0 & _).
          rewrite Hi, E0. split; [reflexivity|]. split; [reflexivity|].
          split; [apply Hnodt|]; discriminate.
        - right. split; [destruct s; exact Hi|]. split; [reflexivity|].
          split; [apply Hnodt|]; discriminate.
        - destruct d as [|v|e|]; [right|right|right|left; now exists j].
          all: split; [exact Hi|]; split; [reflexivity|]; split; [apply Hnodt|]; discriminate.
        - right. split; [exact Hi|]. split; [reflexivity|].
          split; [apply Hnodt|]; discriminate. }
      destruct Hcases as [[j ->]|(Hsame & Hz & Hna & Hni)].
      + (* a member terminates *)
        start_in He Hl' Hd' Hg. cbn in He.
        apply andb_prop in He. destruct He as [_ He]. apply andb_prop in He. destruct He as [He _].
        destruct (us (ms c) j) eqn:Eus; try discriminate.
        destruct (live_current j HI Eus) as (-> & Hsk & Hlt & _).
        constructor; rewrite ?Hc, ?Ht, ?Hi.
        * rewrite dt_in_app.
          change (dt_in [EIn (IDn (cc_i (cst c)) DT); act_event o a])
            with (S (dt_in [act_event o a])).
          rewrite dt_in_act. lia.
        * intros j Hj. apply in_or_app. destruct (Nat.eq_dec j (cc_i (cst c))) as [->|Hne].
          -- right. now left.
          -- left. apply t_mem0. lia.
        * intros Hin. apply in_app_or in Hin. destruct Hin as [Hin|Hin].
          -- destruct (t_done0 Hin) as [_ Hf]. congruence.
          -- destruct Hin as [Hin|[Hin|[]]]; [discriminate|].
             destruct (Hdt Hin) as (_ & _ & Hn). split; [exact Hn|].
             destruct (act_dt _ Hin) as [k ->]. rewrite Hm. apply live_dt. exact Hsk.
        * intros Hpos Hn. apply in_or_app. right. right. left.
          rewrite (h_dt_last _ _ Hn) in Hh. inversion Hh. reflexivity.
      + constructor; rewrite ?Hc, ?Ht, ?Hsame.
        * rewrite dt_in_app. 
          change (dt_in [EIn inp; act_event o a]) with (dt_in ([EIn inp] ++ [act_event o a])).
          rewrite dt_in_app, Hz, dt_in_act. lia.
        * intros j Hj. apply in_or_app. left. now apply t_mem0.
        * intros Hin. apply in_app_or in Hin. destruct Hin as [Hin|Hin].
          -- destruct (t_done0 Hin) as [Hn Hf]. split; [exact Hn|]. now apply fin_step.
          -- destruct Hin as [Hin|[Hin|[]]]; congruence.
        * intros Hpos Hn. apply in_or_app. left. now apply t_conv0.
    - destruct (enabled_ret_stack _ _ _ He) as (k & cl & rest & Hst).
      destruct (resume o k (cst c)) as [[s' os] a] eqn:Hres.
      destruct (step_ret p c Hlive Hst Hres) as (Hc & _ & Hm & _).
      pose proof (step_ret_trace p c Hlive Hst Hres) as Ht.
      destruct (resume_shape _ _ Hres) as (-> & -> & _ & Hdt). cbn [map app] in Ht.
      constructor; rewrite ?Hc, ?Ht.
      + rewrite dt_in_app.
        change (dt_in [ERet; act_event o a]) with (dt_in [act_event o a]).
        rewrite dt_in_act. lia.
      + intros j Hj. apply in_or_app. left. now apply t_mem0.
      + intros Hin. apply in_app_or in Hin. destruct Hin as [Hin|Hin].
        * destruct (t_done0 Hin) as [Hn Hf]. split; [exact Hn|]. now apply fin_step.
        * destruct Hin as [Hin|[Hin|[]]]; [discriminate|].
          destruct (Hdt Hin) as [-> Hdis].
          destruct (frames_zero HI Hst Hdis) as (Hn & Hi & Hsk).
          split; [congruence|]. destruct (act_dt _ Hin) as [k ->]. rewrite Hm. apply live_dt.
          exact Hsk.
      + intros Hpos Hn. apply in_or_app. left. now apply t_conv0.
  Qed.

  Lemma tinv0 : TInv (cfg0 o).
  Proof.
    constructor; cbn.
    - reflexivity.
    - intros j Hj. lia.
    - intros [].
    - intros Hpos Hn. lia.
  Qed.

  Lemma tinv_reach (c : cfg o) : reach p g_std c -> TInv c.
  Proof.
    induction 1 as [|c m Hr IH He]; [apply tinv0|].
    apply tinv_step; [now apply inv_reach | exact IH | exact He].
  Qed.

  Lemma live_lt (c : cfg o) : Inv c -> 0 < n -> sk (ms c) 0 = SLive -> cc_i (cst c) < n.
  Proof.
    intros [] Hpos Hsk. phases i_phase0; try congruence; try lia.
    rewrite Hsk in B. discriminate.
  Qed.

  (** whenever the sink is in a position to use its talkback, the stored
      member talkback is the current member's and that member is live: the
      [expect("source talkback not set")] sites are unreachable and no message
      of the sink reaches a member that is over *)
  Lemma sink_turn (c : cfg o) : Inv c -> 0 < n -> sk (ms c) 0 = SLive ->
    top_peer_is c (PSink 0) = true ->
    cc_tb (cst c) = Some (cc_i (cst c)) /\ us (ms c) (cc_i (cst c)) = ULive.
  Proof.
    clear Hns Hresub Hnonest Hc14 Hlate.
    intros [] Hpos Hsk Htop. phases i_phase0; try congruence; try lia; try tauto.
    - unfold top_peer_is in Htop. rewrite D in Htop. discriminate.
    - rewrite Hsk in B. discriminate.
  Qed.

  (** ** The Pull is carried over to the next member *)
  Lemma pull_carried (c : cfg o) j :
    reach p g_std c -> enabled p g_std c (MIn (IDn j DH)) = true -> 0 < j ->
    (0 < npull (ms c) 0 ->
     trace (step p c (MIn (IDn j DH))) = trace c ++ [EIn (IDn j DH); ECall (CUp j UP)] /\
     stack (step p c (MIn (IDn j DH))) = (CcDone, CUp j UP) :: stack c) /\
    (npull (ms c) 0 = 0 ->
     trace (step p c (MIn (IDn j DH))) = trace c ++ [EIn (IDn j DH); EDone] /\
     stack (step p c (MIn (IDn j DH))) = stack c).
  Proof.
    intros Hr He Hj. pose proof (inv_reach Hr) as HI. pose proof HI as [].
    pose proof (enabled_live _ _ _ _ He) as Hlive.
    pose proof (enabled_deliverable _ _ _ _ He) as Hdel.
    assert (Eus : us (ms c) j = USubd).
    { unfold enabled in He. rewrite Hlive in He. cbn in He.
      apply andb_prop in He. destruct He as [_ He]. apply andb_prop in He. destruct He as [He _].
      destruct (us (ms c) j); try discriminate. reflexivity. }
    destruct (subd_current j HI Eus) as (-> & Hlt & _).
    assert (Hi : cc_i (cst c) <> 0) by lia.
    assert (Hpos : 0 < n) by lia. specialize (i_pull0 Hpos).
    split; intros Hp.
    - assert (Egp : cc_got_pull (cst c) = true) by (apply i_pull0; exact Hp).
      pose proof (h_dh_pull (cc_i (cst c)) (cst c) Hi Egp) as Hh.
      destruct (step_in p c _ Hlive Hdel Hh) as (_ & Hs & _).
      split; [|exact Hs]. rewrite (step_in_trace p c _ Hlive Hdel Hh). reflexivity.
    - assert (Egp : cc_got_pull (cst c) = false).
      { destruct (cc_got_pull (cst c)); [|reflexivity].
        assert (0 < npull (ms c) 0) by (apply i_pull0; reflexivity). lia. }
      pose proof (h_dh_idle (cc_i (cst c)) (cst c) Hi Egp) as Hh.
      destruct (step_in p c _ Hlive Hdel Hh) as (_ & Hs & _).
      split; [|exact Hs]. rewrite (step_in_trace p c _ Hlive Hdel Hh). reflexivity.
  Qed.

End ConcatInv.

(** ** The exported theorems.

    Regime: one sink, no resubscription, no nesting check, no demand counts,
    members greet inside the subscribing call. *)

(** C01-C05, C17: no protocol violation and no panic in any reachable configuration,
    for every member count (zero included) *)
Theorem concat_safe n p :
  nsinks p = 1 -> resub p = false -> no_nest p = false -> c14 p = false -> late_ok p = false ->
  forall c : cfg (concat_op n), reach p g_std c -> viols (ms c) = [] /\ dead c = false.
Proof.
  intros H1 H2 H3 H4 H5 c Hr. destruct (inv_reach H1 H2 H3 H4 H5 Hr). split; assumption.
Qed.
Print Assumptions concat_safe.

(** C09: the sink receives exactly the data the members sent, in the order of
    arrival; a member is subscribed only after its predecessor ended; at most
    one member (the one at the cursor) is subscribed-and-not-over, all members
    before it have ended and none after it was ever subscribed; and whenever
    it is the sink's turn the stored talkback is the current, live member's. *)
Theorem concat_order n p :
  nsinks p = 1 -> resub p = false -> no_nest p = false -> c14 p = false -> late_ok p = false ->
  forall c : cfg (concat_op n), reach p g_std c ->
    data_out 0 (trace c) = all_in (trace c) /\
    (forall k, S k < n -> us (ms c) (S k) <> UNone -> us (ms c) k = UEnded) /\
    (forall j, us (ms c) j = USubd \/ us (ms c) j = ULive -> j = cc_i (cst c)) /\
    (forall j, j < cc_i (cst c) -> us (ms c) j = UEnded) /\
    (forall j, cc_i (cst c) < j -> us (ms c) j = UNone) /\
    (0 < n -> sk (ms c) 0 = SLive -> top_peer_is c (PSink 0) = true ->
     cc_tb (cst c) = Some (cc_i (cst c)) /\ us (ms c) (cc_i (cst c)) = ULive).
Proof.
  intros H1 H2 H3 H4 H5 c Hr. split; [|split; [|split; [|split; [|split]]]].
  4: exact (i_before (inv_reach H1 H2 H3 H4 H5 Hr)).
  4: exact (i_after (inv_reach H1 H2 H3 H4 H5 Hr)).
  4: exact (sink_turn (inv_reach H1 H2 H3 H4 H5 Hr)).
  - exact (order_data Hr).
  - intros k _. now apply (order_members H1 H2 H3 H4 H5).
  - intros j [Hj|Hj].
    + now destruct (subd_current j (inv_reach H1 H2 H3 H4 H5 Hr) Hj).
    + now destruct (live_current j (inv_reach H1 H2 H3 H4 H5 Hr) Hj).
Qed.
Print Assumptions concat_order.

(** C09: completion.  [cc_i] counts the member Terminates received; while the
    sink is live it is below [n]; the sink has been sent Terminate exactly when
    [n] member Terminates have arrived (for [n >= 1]; for [n = 0] the sink is
    completed after its greeting unless it disposed), and then every member
    ended by its own Terminate and the sink is finished. *)
Theorem concat_completes n p :
  nsinks p = 1 -> resub p = false -> no_nest p = false -> c14 p = false -> late_ok p = false ->
  forall c : cfg (concat_op n), reach p g_std c ->
    cc_i (cst c) = dt_in (trace c) /\
    (0 < n -> sk (ms c) 0 = SLive -> cc_i (cst c) < n) /\
    (In (ECall (CDn 0 DT)) (trace c) ->
       sk (ms c) 0 = SFinished /\ dt_in (trace c) = n /\
       forall j, j < n -> us (ms c) j = UEnded /\ In (EIn (IDn j DT)) (trace c)) /\
    (0 < n -> dt_in (trace c) = n -> In (ECall (CDn 0 DT)) (trace c)).
Proof.
  intros H1 H2 H3 H4 H5 c Hr.
  pose proof (inv_reach H1 H2 H3 H4 H5 Hr) as HI.
  destruct (tinv_reach H1 H2 H3 H4 H5 Hr) as [Hcnt Hmem Hdone Hconv].
  split; [exact Hcnt|]. split; [now apply live_lt|]. split.
  - intros Hin. destruct (Hdone Hin) as [Hn Hf]. split; [exact Hf|]. split; [congruence|].
    intros j Hj. split; [apply (i_before HI) | apply Hmem]; lia.
  - intros Hpos Hn. apply Hconv; congruence.
Qed.
Print Assumptions concat_completes.

(** C09: the sink's demand is carried over.  The flag says exactly whether the
    sink ever pulled, and a member other than the first is pulled in the very
    activation in which it greets iff the sink has pulled before. *)
Theorem concat_pull_carried n p :
  nsinks p = 1 -> resub p = false -> no_nest p = false -> c14 p = false -> late_ok p = false ->
  forall c : cfg (concat_op n), reach p g_std c ->
    (0 < n -> (cc_got_pull (cst c) = true <-> 0 < npull (ms c) 0)) /\
    (forall j, enabled p g_std c (MIn (IDn j DH)) = true -> 0 < j ->
       (0 < npull (ms c) 0 ->
        trace (step p c (MIn (IDn j DH))) = trace c ++ [EIn (IDn j DH); ECall (CUp j UP)] /\
        stack (step p c (MIn (IDn j DH))) = (CcDone, CUp j UP) :: stack c) /\
       (npull (ms c) 0 = 0 ->
        trace (step p c (MIn (IDn j DH))) = trace c ++ [EIn (IDn j DH); EDone] /\
        stack (step p c (MIn (IDn j DH))) = stack c)).
Proof.
  intros H1 H2 H3 H4 H5 c Hr. split.
  - exact (i_pull (inv_reach H1 H2 H3 H4 H5 Hr)).
  - intros j He Hj. now apply (pull_carried H1 H2 H3 H4 H5).
Qed.
Print Assumptions concat_pull_carried.


(** ** Non-vacuity: a conformant run of two members in which the sink pulls
    inside its greeting, member 0 sends one item and terminates, member 1 is
    subscribed inside that Terminate, is pulled at once, sends one item and
    terminates, and the sink is completed. *)
Definition p_std : mparams :=
  {| nsinks := 1; late_ok := false; pullable := false; one_pull := false;
     resub := false; no_nest := false; c14 := false |}.

Definition witness_script : list move :=
  [MIn (ISub 0 0); MIn (IDn 0 DH); MIn (IUp 0 UP); MRet; MRet;
   MIn (IDn 0 (DD (VN 1))); MRet;
   MIn (IDn 0 DT); MIn (IDn 1 DH); MIn (IDn 1 (DD (VN 2))); MRet; MRet;
   MIn (IDn 1 DT); MRet; MRet; MRet].

Example concat_witness :
  let c := run p_std (concat_op 2) witness_script in
  reach p_std g_std c /\ stack c = [] /\ sk (ms c) 0 = SFinished /\
  data_out 0 (trace c) = [VN 1; VN 2] /\ In (ECall (CDn 0 DT)) (trace c) /\
  In (ECall (CUp 1 UP)) (trace c).
Proof.
  split; [apply reach_run; vm_compute; reflexivity|].
  vm_compute. repeat split; auto 30.
Qed.
