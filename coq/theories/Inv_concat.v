(** * Inv_concat: the master invariant of concat, for every member count [n] *)
From CB Require Import ProofLib Spec.

Set Implicit Arguments.

Section ConcatInv.
  Variable n : nat.
  Variable p : mparams.
  Hypothesis Hns : nsinks p = 1.
  Hypothesis Hresub : resub p = false.
  Hypothesis Hnonest : no_nest p = false.
  Hypothesis Hc14 : c14 p = false.
  Hypothesis Hlate : late_ok p = false.
  Let o := concat_op n.

  (** every suspended activation is one that just returns when resumed *)
  Definition done_frames (stk : list (cc_fr * call)) : Prop :=
    Forall (fun fc => fst fc = CcDone) stk.

  Lemma done_cons cl stk : done_frames stk -> done_frames ((CcDone, cl) :: stk).
  Proof. intros H. constructor; [reflexivity | exact H]. Qed.

  Lemma done_nil : done_frames [].
  Proof. constructor. Qed.

  Lemma done_inv k cl stk : done_frames ((k, cl) :: stk) -> k = CcDone /\ done_frames stk.
  Proof. intros H. inversion H. split; assumption. Qed.

  (** ** Where the run is.

      [PhInit]: nobody subscribed yet.
      [PhSubd]: member [cc_i] has been subscribed and has not greeted; the
                subscribing call is on top of the stack, so only that member
                can act (and it can only greet).
      [PhLive]: member [cc_i] is live, its talkback is the stored one, the
                sink is live.
      [PhOver]: the output is over (disposed, failed or completed); nobody
                can act any more, the stack just unwinds.
      [PhZGreet], [PhZDisp]: zero members, inside the greeting of the sink. *)
  Inductive phase (c : cfg o) : Prop :=
  | PhInit :
      subd (ms c) 0 = false -> cst c = st0 o -> stack c = [] ->
      sk (ms c) 0 = SNone -> us (ms c) 0 = UNone -> npull (ms c) 0 = 0 -> phase c
  | PhSubd k rest :
      subd (ms c) 0 = true -> cc_i (cst c) < n ->
      us (ms c) (cc_i (cst c)) = USubd ->
      stack c = (k, CSub (cc_i (cst c))) :: rest -> done_frames (stack c) ->
      sk (ms c) 0 = match cc_i (cst c) with 0 => SNone | S _ => SLive end -> phase c
  | PhLive :
      subd (ms c) 0 = true -> cc_i (cst c) < n ->
      us (ms c) (cc_i (cst c)) = ULive -> sk (ms c) 0 = SLive ->
      cc_tb (cst c) = Some (cc_i (cst c)) -> done_frames (stack c) -> phase c
  | PhOver :
      subd (ms c) 0 = true -> sk_over (sk (ms c) 0) = true ->
      match us (ms c) (cc_i (cst c)) with USubd | ULive => False | _ => True end ->
      done_frames (stack c) -> phase c
  | PhZGreet :
      subd (ms c) 0 = true -> n = 0 -> cc_i (cst c) = 0 -> us (ms c) 0 = UNone ->
      sk (ms c) 0 = SLive -> cc_disposed (cst c) = false ->
      stack c = [(CcZero, CDn 0 DH)] -> phase c
  | PhZDisp :
      subd (ms c) 0 = true -> n = 0 -> cc_i (cst c) = 0 -> us (ms c) 0 = UNone ->
      sk (ms c) 0 = SDisposed -> cc_disposed (cst c) = true ->
      stack c = [(CcZero, CDn 0 DH)] -> phase c.

  Record Inv (c : cfg o) : Prop := {
    i_viols : viols (ms c) = [];
    i_dead : dead c = false;
    i_due : forall s, err_due (ms c) s = None;
    i_sk_other : forall s, s <> 0 -> sk (ms c) s = SNone;
    i_task : forall s, task (ms c) s = false;
    i_le : cc_i (cst c) <= n;
    i_before : forall j, j < cc_i (cst c) -> us (ms c) j = UEnded;
    i_after : forall j, cc_i (cst c) < j -> us (ms c) j = UNone;
    i_pull : 0 < n -> (cc_got_pull (cst c) = true <-> 0 < npull (ms c) 0);
    i_phase : phase c;
  }.

  Lemma inv0 : Inv (cfg0 o).
  Proof.
    constructor; cbn; auto; try lia.
    apply PhInit; reflexivity.
  Qed.

  (** a live upstream is the current member, and then the sink is live *)
  Lemma live_current c j : Inv c -> us (ms c) j = ULive ->
                           j = cc_i (cst c) /\ sk (ms c) 0 = SLive /\ cc_i (cst c) < n /\
                           cc_tb (cst c) = Some (cc_i (cst c)) /\ done_frames (stack c).
  Proof.
    intros [] Hj.
    assert (E : j = cc_i (cst c)).
    { destruct (Nat.lt_trichotomy j (cc_i (cst c))) as [H|[H|H]]; [|exact H|].
      - rewrite i_before0 in Hj by exact H. discriminate.
      - rewrite i_after0 in Hj by exact H. discriminate. }
    subst j. split; [reflexivity|].
    destruct i_phase0 as [A B C D E F|k rest A B C D E F|A B C D E F|A B C D|A B C D E F G|A B C D E F G];
      try congruence.
    - rewrite B in Hj. cbn in Hj. congruence.
    - tauto.
    - rewrite Hj in C. destruct C.
    - rewrite C in Hj. congruence.
    - rewrite C in Hj. congruence.
  Qed.

  Lemma quiescent_ok c m' : Inv c ->
    (sk_over (sk m' 0) = true -> forall j, us m' j = ULive -> us (ms c) j = ULive /\ sk (ms c) 0 = sk m' 0) ->
    (forall s, err_due m' s = None) -> check_quiescent p m' = [].
  Proof.
    intros HI H1 H2. apply quiescent_nil.
    - intros _ Hov j _. destruct (us m' j) eqn:E; try reflexivity.
      destruct (H1 Hov j E) as [Hl Hsk].
      destruct (live_current HI Hl) as (_ & Hs & _). rewrite <- Hsk, Hs in Hov. discriminate.
    - exact H2.
    - rewrite Hc14. discriminate.
  Qed.

End ConcatInv.
