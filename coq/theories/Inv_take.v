(** * Inv_take: the master invariant of take, over every reachable configuration *)
From CB Require Import ProofLib Spec.

Set Implicit Arguments.

Section TakeInv.
  Variable max : nat.
  Hypothesis Hmax : 1 <= max.
  Variable p : mparams.
  Hypothesis Hns : nsinks p = 1.
  Hypothesis Hresub : resub p = false.
  Hypothesis Hnonest : no_nest p = false.
  Hypothesis Hc14 : c14 p = false.
  Let o := take_op max.

  (** ** The stack part.

      [fr_low]: a suspended activation that will do nothing more when it is
      resumed, whatever the state is then: the pass-through frames and the
      Data frames whose local [taken'] is below [max].
      [fr_nostop]: additionally the Data frame with [taken' = max], which is
      harmless once [tk_end] is set. *)
  Definition fr_low (fc : take_fr * call) : Prop :=
    match fst fc with TkDone => True | TkAfterData t => t <> max | TkAfterStop => False end.
  Definition fr_nostop (fc : take_fr * call) : Prop :=
    match fst fc with TkAfterStop => False | _ => True end.
  Definition low := Forall fr_low.
  Definition nostop := Forall fr_nostop.

  Lemma low_nostop stk : low stk -> nostop stk.
  Proof.
    apply Forall_impl. intros [k cl]. unfold fr_low, fr_nostop. cbn. destruct k; tauto.
  Qed.

  Lemma low_tl stk : low stk -> low (tl stk).
  Proof. intros H. destruct H; cbn; [constructor | assumption]. Qed.

  Lemma nostop_tl stk : nostop stk -> nostop (tl stk).
  Proof. intros H. destruct H; cbn; [constructor | assumption]. Qed.

  Lemma low_cons_done cl stk : low stk -> low ((TkDone, cl) :: stk).
  Proof. intros H. constructor; [exact I | exact H]. Qed.

  Lemma low_cons_data t cl stk : t <> max -> low stk -> low ((TkAfterData t, cl) :: stk).
  Proof. intros Ht H. constructor; [exact Ht | exact H]. Qed.

  Lemma nostop_cons_done cl stk : nostop stk -> nostop ((TkDone, cl) :: stk).
  Proof. intros H. constructor; [exact I | exact H]. Qed.

  Lemma nostop_cons_data t cl stk : nostop stk -> nostop ((TkAfterData t, cl) :: stk).
  Proof. intros H. constructor; [exact I | exact H]. Qed.

  Lemma low_inv k cl stk : low ((k, cl) :: stk) -> fr_low (k, cl) /\ low stk.
  Proof. intros H. inversion H. split; assumption. Qed.

  Lemma nostop_inv k cl stk : nostop ((k, cl) :: stk) -> fr_nostop (k, cl) /\ nostop stk.
  Proof. intros H. inversion H. split; assumption. Qed.

  Hint Resolve low_nostop low_cons_done low_cons_data nostop_cons_done nostop_cons_data : tk.

  (** ** The relation between (sk 0, us 0), the cells and the stack *)
  Definition phase (k : sks) (u : uss) (st : take_st) (stk : list (take_fr * call)) : Prop :=
    match k, u with
    | SNone, UNone => tk_taken st = 0 /\ low stk
    | SNone, USubd => tk_taken st = 0 /\ tk_end st = false /\ low stk
    | SLive, ULive =>
        tk_tb st = true /\ tk_end st = false /\
        ((tk_taken st < max /\ low stk) \/
         (* the nth delivery is pending: its frame is on top, the sink is in control *)
         (tk_taken st = max /\
          exists v rest, stk = (TkAfterData max, CDn 0 (DD v)) :: rest /\ low rest))
    | SFinished, UEnded => low stk                      (* upstream ended by itself *)
    | SDisposed, UStopped => tk_end st = true /\ nostop stk      (* the sink disposed *)
    | SLive, UStopped =>                                (* take completes: upstream is being stopped *)
        tk_end st = true /\ exists rest, stk = (TkAfterStop, CUp 0 UT) :: rest /\ nostop rest
    | SFinished, UStopped => tk_end st = true /\ nostop stk      (* take completed *)
    | _, _ => False
    end.

  Record Inv (c : cfg o) : Prop := {
    i_viols : viols (ms c) = [];
    i_dead : dead c = false;
    i_phase : phase (sk (ms c) 0) (us (ms c) 0) (cst c) (stack c);
    i_le : tk_taken (cst c) <= max;
    i_nd : ndata (ms c) 0 = tk_taken (cst c);
    i_subd : subd (ms c) 0 = false -> us (ms c) 0 = UNone;
    i_due : forall s, err_due (ms c) s = None;
    i_ports : forall i, In i (ports (ms c)) -> i = 0;
    i_sk_other : forall s, s <> 0 -> sk (ms c) s = SNone;
    i_us_other : forall i, i <> 0 -> us (ms c) i = UNone;
    i_task : forall s, task (ms c) s = false;
  }.

  Lemma inv0 : Inv (cfg0 o).
  Proof.
    constructor; cbn; auto; intros; try tauto; try lia.
    split; [reflexivity | constructor].
  Qed.

  (** the quiescence check passes in every phase *)
  Lemma phase_quiescent (c : cfg o) :
    Inv c -> forall m', sk m' = sk (ms c) -> us m' = us (ms c) -> ports m' = ports (ms c) ->
    err_due m' = err_due (ms c) -> check_quiescent p m' = [].
  Proof.
    intros [] m' E1 E2 E3 E4. apply quiescent_nil.
    - intros _ Hov i Hi. rewrite E3 in Hi. rewrite (i_ports0 i Hi), E2.
      rewrite E1 in Hov.
      destruct (sk (ms c) 0), (us (ms c) 0); cbn in *; try discriminate; tauto.
    - intros s. now rewrite E4.
    - rewrite Hc14. discriminate.
  Qed.

  Ltac phase_cases c Esk Eus :=
    destruct (sk (ms c) 0) eqn:Esk; destruct (us (ms c) 0) eqn:Eus;
    match goal with H : phase _ _ _ _ |- _ => cbn in H end.

  (** [crush] of ProofLib, except that implications are only specialised with
      proofs (there is a [nat] in the context here: [max]) *)
  Ltac crush' :=
    repeat match goal with
           | |- forall _, _ => intro
           | H : _ \/ _ |- _ => destruct H
           | H : _ /\ _ |- _ => destruct H
           | H : exists _, _ |- _ => destruct H
           | H : False |- _ => destruct H
           | H : In _ (_ :: _) |- _ => cbn in H
           | H : ?A -> _, H' : ?A |- _ =>
               match type of A with Prop => specialize (H H') end
           | |- context [upd _ ?k _ ?x] =>
               unfold upd; destruct (Nat.eqb_spec x k); subst
           | H : context [upd _ ?k _ ?x] |- _ =>
               unfold upd in H; destruct (Nat.eqb_spec x k); subst
           end;
    auto; try congruence; try lia; try (constructor; fail); try tauto;
    try (repeat split; eauto with tk; fail);
    try (repeat split; auto; left; split; [lia | eauto with tk]; fail);
    try (repeat split; auto; right; split; [lia | eauto 6 with tk]; fail);
    try (match goal with
         | |- context [(?s <=? 0)] => destruct s; cbn; auto; congruence
         end).

  Ltac fin' Hc Hm Hs Hd :=
    constructor; rewrite ?Hc, ?Hm, ?Hs, ?Hd; cbn; rewrite ?add_viols_eq; cbn;
    unfold due_on_error; repeat (rw_st; cbn; rewrite ?Nat.eqb_refl; cbn); crush'.

  Lemma inv_sub c s aux : Inv c -> enabled p g_std c (MIn (ISub s aux)) = true ->
                          Inv (step p c (MIn (ISub s aux))).
  Proof.
    intros [] He. start_in He Hlive Hdel Hg.
    cbn in He, Hg. rewrite Hns in He. destruct aux; [|discriminate].
    destruct (at_top c) eqn:Htop; cbn in He; try discriminate.
    destruct s; cbn in He; try discriminate.
    apply negb_true_iff in He. specialize (i_subd0 He).
    phase_cases c Esk Eus; try congruence; try tauto.
    destruct (step_in p c (ISub 0 0) Hlive Hdel eq_refl) as (Hc & Hs & Hm & Hd).
    fin' Hc Hm Hs Hd.
  Qed.

  Lemma top_sink_not_up (c : cfg o) k s d rest :
    stack c = (k, CDn s d) :: rest -> top_peer_is c (PUp 0) = true -> False.
  Proof. unfold top_peer_is. intros ->. cbn. discriminate. Qed.

  Lemma top_up_not_sink (c : cfg o) k i u rest :
    stack c = (k, CUp i u) :: rest -> top_peer_is c (PSink 0) = true -> False.
  Proof. unfold top_peer_is. intros ->. cbn. discriminate. Qed.

  Lemma inv_up c s u : Inv c -> enabled p g_std c (MIn (IUp s u)) = true ->
                       Inv (step p c (MIn (IUp s u))).
  Proof.
    intros HI He. pose proof (phase_quiescent HI) as Hq. destruct HI.
    start_in He Hlive Hdel Hg.
    cbn in He. apply andb_prop in He. destruct He as [He Hu].
    apply andb_prop in He. destruct He as [Htop Hsk].
    destruct s as [|s]; [|rewrite i_sk_other0 in Hsk by lia; discriminate].
    phase_cases c Esk Eus; try discriminate; try tauto.
    - (* live *)
      destruct i_phase0 as (Htb & Hend & [[Hlt Hlow] | [Heq (v & rest & Hst & Hlow)]]).
      + destruct u as [|e|].
        * assert (Hh : handle o (IUp 0 UP) (cst c) = (cst c, [], ACall (CUp 0 UP) TkDone)).
          { cbn -[Nat.ltb]. apply Nat.ltb_lt in Hlt. now rewrite Hlt, Htb. }
          destruct (step_in p c (IUp 0 UP) Hlive Hdel Hh) as (Hc & Hs & Hm & Hd).
          fin' Hc Hm Hs Hd.
        * assert (Hh : handle o (IUp 0 (UE e)) (cst c) =
                       ({| tk_taken := tk_taken (cst c); tk_tb := tk_tb (cst c); tk_end := true |},
                        [], ACall (CUp 0 (UE e)) TkDone)).
          { cbn. now rewrite Htb. }
          destruct (step_in p c (IUp 0 (UE e)) Hlive Hdel Hh) as (Hc & Hs & Hm & Hd).
          fin' Hc Hm Hs Hd.
        * assert (Hh : handle o (IUp 0 UT) (cst c) =
                       ({| tk_taken := tk_taken (cst c); tk_tb := tk_tb (cst c); tk_end := true |},
                        [], ACall (CUp 0 UT) TkDone)).
          { cbn. now rewrite Htb. }
          destruct (step_in p c (IUp 0 UT) Hlive Hdel Hh) as (Hc & Hs & Hm & Hd).
          fin' Hc Hm Hs Hd.
      + destruct u as [|e|].
        * assert (Hh : handle o (IUp 0 UP) (cst c) = (cst c, [], ARet)).
          { cbn -[Nat.ltb]. rewrite Heq, Nat.ltb_irrefl. reflexivity. }
          destruct (step_in p c (IUp 0 UP) Hlive Hdel Hh) as (Hc & Hs & Hm & Hd).
          constructor; rewrite ?Hc, ?Hm, ?Hs, ?Hd; cbn;
            destruct (cstack (ms c)); rewrite ?add_viols_eq; cbn; rewrite ?Hq; auto.
          all: rw_st; cbn; crush'.
        * assert (Hh : handle o (IUp 0 (UE e)) (cst c) =
                       ({| tk_taken := tk_taken (cst c); tk_tb := tk_tb (cst c); tk_end := true |},
                        [], ACall (CUp 0 (UE e)) TkDone)).
          { cbn. now rewrite Htb. }
          destruct (step_in p c (IUp 0 (UE e)) Hlive Hdel Hh) as (Hc & Hs & Hm & Hd).
          fin' Hc Hm Hs Hd. rewrite Hst. crush'.
        * assert (Hh : handle o (IUp 0 UT) (cst c) =
                       ({| tk_taken := tk_taken (cst c); tk_tb := tk_tb (cst c); tk_end := true |},
                        [], ACall (CUp 0 UT) TkDone)).
          { cbn. now rewrite Htb. }
          destruct (step_in p c (IUp 0 UT) Hlive Hdel Hh) as (Hc & Hs & Hm & Hd).
          fin' Hc Hm Hs Hd. rewrite Hst. crush'.
    - (* stopping: the upstream is in control *)
      destruct i_phase0 as (_ & rest & Hst & _).
      exfalso. eapply top_up_not_sink; eassumption.
  Qed.

  Lemma inv_dn c i d : Inv c -> enabled p g_std c (MIn (IDn i d)) = true ->
                       Inv (step p c (MIn (IDn i d))).
  Proof.
    intros HI He. pose proof (phase_quiescent HI) as Hq. destruct HI.
    start_in He Hlive Hdel Hg.
    cbn in He. apply andb_prop in He. destruct He as [Htop He].
    destruct i as [|i].
    2: { rewrite i_us_other0 in He by lia. destruct d; cbn in He; discriminate. }
    phase_cases c Esk Eus; destruct d as [|v|e|]; cbn in He; try discriminate; try tauto.
    - (* greeting *)
      destruct i_phase0 as (Ht0 & Hend & Hlow).
      destruct (step_in p c (IDn 0 DH) Hlive Hdel eq_refl) as (Hc & Hs & Hm & Hd).
      fin' Hc Hm Hs Hd.
    - (* data *)
      destruct i_phase0 as (Htb & Hend & [[Hlt Hlow] | [Heq (v0 & rest & Hst & Hlow)]]).
      2: { exfalso. eapply top_sink_not_up; eassumption. }
      assert (Hh : handle o (IDn 0 (DD v)) (cst c) =
                   ({| tk_taken := S (tk_taken (cst c)); tk_tb := tk_tb (cst c);
                       tk_end := tk_end (cst c) |}, [],
                    ACall (CDn 0 (DD v)) (TkAfterData (S (tk_taken (cst c)))))).
      { cbn -[Nat.ltb]. apply Nat.ltb_lt in Hlt. now rewrite Hlt. }
      destruct (step_in p c (IDn 0 (DD v)) Hlive Hdel Hh) as (Hc & Hs & Hm & Hd).
      fin' Hc Hm Hs Hd.
      repeat split; auto.
      destruct (Nat.eq_dec (S (tk_taken (cst c))) max) as [E|E].
      + right. split; [exact E|]. rewrite E. eauto.
      + left. split; [lia|]. apply low_cons_data; [exact E | exact Hlow].
    - (* error *)
      destruct i_phase0 as (Htb & Hend & [[Hlt Hlow] | [Heq (v0 & rest & Hst & Hlow)]]).
      2: { exfalso. eapply top_sink_not_up; eassumption. }
      assert (Hh : handle o (IDn 0 (DE e)) (cst c) =
                   ({| tk_taken := tk_taken (cst c); tk_tb := tk_tb (cst c); tk_end := true |}, [],
                    ACall (CDn 0 (DE e)) TkDone)).
      { cbn. now rewrite Hend. }
      destruct (step_in p c (IDn 0 (DE e)) Hlive Hdel Hh) as (Hc & Hs & Hm & Hd).
      fin' Hc Hm Hs Hd.
    - (* completion *)
      destruct i_phase0 as (Htb & Hend & [[Hlt Hlow] | [Heq (v0 & rest & Hst & Hlow)]]).
      2: { exfalso. eapply top_sink_not_up; eassumption. }
      assert (Hh : handle o (IDn 0 DT) (cst c) =
                   ({| tk_taken := tk_taken (cst c); tk_tb := tk_tb (cst c); tk_end := true |}, [],
                    ACall (CDn 0 DT) TkDone)).
      { cbn. now rewrite Hend. }
      destruct (step_in p c (IDn 0 DT) Hlive Hdel Hh) as (Hc & Hs & Hm & Hd).
      fin' Hc Hm Hs Hd.
  Qed.

  (** frames that do nothing when resumed *)
  Lemma resume_low k cl s : fr_low (k, cl) -> resume o k s = (s, [], ARet).
  Proof.
    unfold fr_low. cbn. destruct k as [|t|]; cbn; intros H; try reflexivity; try tauto.
    apply Nat.eqb_neq in H. now rewrite H.
  Qed.

  Lemma resume_nostop k cl s :
    fr_nostop (k, cl) -> tk_end s = true -> resume o k s = (s, [], ARet).
  Proof.
    unfold fr_nostop. cbn. destruct k as [|t|]; cbn; intros H E; try reflexivity; try tauto.
    rewrite E. now rewrite andb_false_r.
  Qed.

  (** the return of a call whose frame does nothing: the phase is kept, with
      the rest of the stack *)
  Lemma inv_ret_quiet c k cl rest :
    Inv c -> stack c = (k, cl) :: rest ->
    resume o k (cst c) = (cst c, [], ARet) ->
    phase (sk (ms c) 0) (us (ms c) 0) (cst c) rest ->
    Inv (step p c MRet).
  Proof.
    intros HI Hst Hres Hph. pose proof (phase_quiescent HI) as Hq. destruct HI.
    destruct (step_ret p c i_dead0 Hst Hres) as (Hc & Hs & Hm & Hd).
    constructor; rewrite ?Hc, ?Hm, ?Hs, ?Hd; cbn;
      destruct (tl (cstack (ms c))); rewrite ?add_viols_eq; cbn; rewrite ?Hq; auto.
  Qed.

  Lemma inv_ret c : Inv c -> enabled p g_std c MRet = true -> Inv (step p c MRet).
  Proof.
    intros HI He.
    pose proof (enabled_live _ _ _ _ He) as Hlive.
    destruct (enabled_ret_stack _ _ _ He) as (k & cl & rest & Hst).
    pose proof (i_phase HI) as Hph.
    destruct (sk (ms c) 0) eqn:Esk; destruct (us (ms c) 0) eqn:Eus; cbn in Hph; try tauto.
    - (* not subscribed *)
      destruct Hph as (Ht0 & Hlow). rewrite Hst in Hlow. apply low_inv in Hlow.
      destruct Hlow as [Hk Hlow].
      apply (inv_ret_quiet HI Hst (@resume_low k cl (cst c) Hk)). rewrite Esk, Eus. cbn. auto.
    - (* subscribed, not greeted *)
      destruct Hph as (Ht0 & Hend & Hlow). rewrite Hst in Hlow. apply low_inv in Hlow.
      destruct Hlow as [Hk Hlow].
      apply (inv_ret_quiet HI Hst (@resume_low k cl (cst c) Hk)). rewrite Esk, Eus. cbn. auto.
    - (* live *)
      destruct Hph as (Htb & Hend & [[Hlt Hlow] | [Heq (v & rest' & Hst' & Hlow)]]).
      + rewrite Hst in Hlow. apply low_inv in Hlow. destruct Hlow as [Hk Hlow].
        apply (inv_ret_quiet HI Hst (@resume_low k cl (cst c) Hk)). rewrite Esk, Eus. cbn. auto.
      + (* the nth delivery returns and the sink did not dispose: stop upstream *)
        rewrite Hst in Hst'. injection Hst' as -> -> ->.
        assert (Hres : resume o (TkAfterData max) (cst c) =
                       ({| tk_taken := tk_taken (cst c); tk_tb := tk_tb (cst c);
                           tk_end := true |}, [], ACall (CUp 0 UT) TkAfterStop)).
        { cbn. now rewrite Nat.eqb_refl, Hend, Htb. }
        destruct HI.
        destruct (step_ret p c Hlive Hst Hres) as (Hc & Hs & Hm & Hd).
        fin' Hc Hm Hs Hd.
    - (* completing: upstream was stopped, now complete the sink *)
      destruct Hph as (Hend & rest' & Hst' & Hns').
      rewrite Hst in Hst'. injection Hst' as -> -> ->.
      destruct HI.
      destruct (step_ret p c Hlive Hst eq_refl) as (Hc & Hs & Hm & Hd).
      fin' Hc Hm Hs Hd.
    - (* disposed *)
      destruct Hph as (Hend & Hns'). rewrite Hst in Hns'. apply nostop_inv in Hns'.
      destruct Hns' as [Hk Hns'].
      apply (inv_ret_quiet HI Hst (@resume_nostop k cl (cst c) Hk Hend)). rewrite Esk, Eus. cbn. auto.
    - (* upstream ended *)
      rewrite Hst in Hph. apply low_inv in Hph. destruct Hph as [Hk Hlow].
      apply (inv_ret_quiet HI Hst (@resume_low k cl (cst c) Hk)). rewrite Esk, Eus. cbn. auto.
    - (* completed *)
      destruct Hph as (Hend & Hns'). rewrite Hst in Hns'. apply nostop_inv in Hns'.
      destruct Hns' as [Hk Hns'].
      apply (inv_ret_quiet HI Hst (@resume_nostop k cl (cst c) Hk Hend)). rewrite Esk, Eus. cbn. auto.
  Qed.

  Lemma inv_step c m : Inv c -> enabled p g_std c m = true -> Inv (step p c m).
  Proof.
    intros HI He. destruct m as [[s aux|s u|i d|s]|].
    - now apply inv_sub.
    - now apply inv_up.
    - now apply inv_dn.
    - exfalso. destruct HI. unfold enabled in He.
      repeat (apply andb_prop in He; destruct He as [? He]).
      cbn in He. now rewrite i_task0 in He.
    - now apply inv_ret.
  Qed.

  Theorem inv_reach c : reach p g_std c -> Inv c.
  Proof. induction 1; [apply inv0 | now apply inv_step]. Qed.

  (** ** The trace part: what went in and what came out *)
  Record TInv (c : cfg o) : Prop := {
    t_len : tk_taken (cst c) = Nat.min max (length (data_in 0 (trace c)));
    t_out : data_out 0 (trace c) = firstn max (data_in 0 (trace c));
  }.

  Lemma tinv_keep (c c' : cfg o) evs :
    TInv c -> trace c' = trace c ++ evs -> data_in 0 evs = [] -> data_out 0 evs = [] ->
    tk_taken (cst c') = tk_taken (cst c) -> TInv c'.
  Proof.
    intros [] Ht Hi Ho Hc.
    constructor; rewrite Ht, ?data_out_app, data_in_app, Hi, ?Ho, !app_nil_r; congruence.
  Qed.

  Ltac inj Hh s' os a := injection Hh as ? ? ?; subst s' os a.
  Ltac keep IH Htr Hc :=
    eapply tinv_keep; [exact IH | exact Htr | reflexivity | reflexivity | rewrite Hc; reflexivity].
  Ltac split_ifs Hh :=
    repeat match type of Hh with
           | context [if ?b then _ else _] => destruct b
           end.

  Theorem tinv_reach c : reach p g_std c -> TInv c.
  Proof.
    induction 1 as [|c m Hr IH He].
    { constructor; cbn; [now rewrite Nat.min_0_r | now rewrite firstn_nil]. }
    pose proof (inv_reach Hr) as HI.
    pose proof (enabled_live _ _ _ _ He) as Hlive.
    destruct m as [inp|].
    - pose proof (enabled_deliverable _ _ _ _ He) as Hdel.
      destruct (handle o inp (cst c)) as [[s' os] a] eqn:Hh.
      pose proof (step_in_trace p c inp Hlive Hdel Hh) as Htr.
      destruct (step_in p c inp Hlive Hdel Hh) as (Hc & _).
      destruct inp as [[|s] aux|[|s] u|[|i] d|s].
      + (* the subscription: nothing was received before *)
        cbn in Hh. inj Hh s' os a.
        start_in He Hlive' Hdel' Hg. cbn in He.
        apply andb_prop in He. destruct He as [_ He]. apply negb_true_iff in He.
        destruct HI. specialize (i_subd0 He).
        rewrite i_subd0 in i_phase0. destruct (sk (ms c) 0); cbn in i_phase0; try tauto.
        destruct i_phase0 as [Ht0 _]. destruct IH as [Hlen Hout].
        assert (Hnil : data_in 0 (trace c) = []).
        { rewrite Ht0 in Hlen. destruct (data_in 0 (trace c)); [reflexivity|]. cbn in Hlen. lia. }
        constructor; rewrite Htr, ?data_out_app, data_in_app, ?Hc; cbn;
          rewrite ?app_nil_r, ?Hnil; cbn; [lia | now rewrite Hout, Hnil].
      + cbn in Hh. inj Hh s' os a. keep IH Htr Hc.
      + destruct u; cbn -[Nat.ltb] in Hh; split_ifs Hh; inj Hh s' os a; keep IH Htr Hc.
      + cbn in Hh. inj Hh s' os a. keep IH Htr Hc.
      + destruct d as [|v|e|].
        1, 3, 4: cbn in Hh; split_ifs Hh; inj Hh s' os a; keep IH Htr Hc.
        (* data *)
        destruct IH as [Hlen Hout]. pose proof (i_le HI) as Hle.
        cbn -[Nat.ltb] in Hh. destruct (tk_taken (cst c) <? max) eqn:Hlt.
        * apply Nat.ltb_lt in Hlt. inj Hh s' os a.
          assert (Hl : length (data_in 0 (trace c)) = tk_taken (cst c)) by lia.
          constructor; rewrite Htr, ?data_out_app, data_in_app, ?Hc; cbn.
          -- rewrite app_length. cbn. lia.
          -- rewrite Hout. rewrite !firstn_all2; [reflexivity| |lia].
             rewrite app_length. cbn. lia.
        * apply Nat.ltb_ge in Hlt. inj Hh s' os a.
          assert (Hl : max <= length (data_in 0 (trace c))) by lia.
          constructor; rewrite Htr, ?data_out_app, data_in_app, ?Hc; cbn.
          -- rewrite app_length. cbn. lia.
          -- rewrite Hout, app_nil_r, firstn_app.
             replace (max - length (data_in 0 (trace c))) with 0 by lia.
             cbn. now rewrite app_nil_r.
      + cbn in Hh. destruct d; inj Hh s' os a; keep IH Htr Hc.
      + cbn in Hh. inj Hh s' os a. keep IH Htr Hc.
    - destruct (enabled_ret_stack _ _ _ He) as (k & cl & rest & Hst).
      destruct (resume o k (cst c)) as [[s' os] a] eqn:Hres.
      pose proof (step_ret_trace p c Hlive Hst Hres) as Htr.
      destruct (step_ret p c Hlive Hst Hres) as (Hc & _).
      destruct k; cbn in Hres; split_ifs Hres; inj Hres s' os a; keep IH Htr Hc.
  Qed.

  (** C07 for take: at every control point the data delivered so far are the
      first [max] of the data received so far *)
  Theorem take_functional_sec (c : cfg o) :
    reach p g_std c -> data_out 0 (trace c) = firstn max (data_in 0 (trace c)).
  Proof. intros Hr. apply (t_out (tinv_reach Hr)). Qed.

  (** completion: never more than [max] items; at a quiescent point after the
      nth item the sink is over and upstream is not live any more *)
  Theorem take_complete_sec (c : cfg o) :
    reach p g_std c ->
    ndata (ms c) 0 <= max /\
    (stack c = [] -> max <= ndata (ms c) 0 ->
     sk (ms c) 0 <> SLive /\ us (ms c) 0 <> ULive).
  Proof.
    intros Hr. destruct (inv_reach Hr). split; [lia|].
    intros Hst Hn. rewrite Hst in i_phase0.
    destruct (sk (ms c) 0), (us (ms c) 0); cbn in i_phase0; try tauto;
      try (split; discriminate).
    - destruct i_phase0 as (_ & _ & [[Hlt _] | [_ (v & rest & Hnil & _)]]);
        [lia | discriminate].
    - destruct i_phase0 as (_ & rest & Hnil & _). discriminate.
  Qed.

End TakeInv.

(** no protocol violation and no panic in any reachable configuration *)
Theorem take_safe p :
  nsinks p = 1 -> resub p = false -> no_nest p = false -> c14 p = false ->
  forall max, 1 <= max ->
  forall c : cfg (take_op max), reach p g_std c -> viols (ms c) = [] /\ dead c = false.
Proof.
  intros H1 H2 H3 H4 max Hmax c Hr. destruct (inv_reach Hmax H1 H2 H3 H4 Hr). split; assumption.
Qed.
Print Assumptions take_safe.

(** C07 *)
Theorem take_functional p :
  nsinks p = 1 -> resub p = false -> no_nest p = false -> c14 p = false ->
  forall max, 1 <= max ->
  forall c : cfg (take_op max), reach p g_std c ->
  data_out 0 (trace c) = firstn max (data_in 0 (trace c)).
Proof. intros H1 H2 H3 H4 max Hmax c Hr. exact (take_functional_sec Hmax H1 H2 H3 H4 Hr). Qed.
Print Assumptions take_functional.

Theorem take_complete p :
  nsinks p = 1 -> resub p = false -> no_nest p = false -> c14 p = false ->
  forall max, 1 <= max ->
  forall c : cfg (take_op max), reach p g_std c ->
  ndata (ms c) 0 <= max /\
  (stack c = [] -> max <= ndata (ms c) 0 -> sk (ms c) 0 <> SLive /\ us (ms c) 0 <> ULive).
Proof. intros H1 H2 H3 H4 max Hmax c Hr. exact (take_complete_sec Hmax H1 H2 H3 H4 Hr). Qed.
Print Assumptions take_complete.

(** a sanity check that the theorems are not vacuous: the fully nested run of
    take(2) (every message is sent from inside the handler of the previous
    one) is a conformant script, it ends quiescent with both items delivered,
    the sink completed and the upstream stopped *)
Module TakeSanity.
  Definition p0 : mparams :=
    {| nsinks := 1; late_ok := false; pullable := false; one_pull := false;
       resub := false; no_nest := false; c14 := false |}.
  Definition script : list move :=
    [MIn (ISub 0 0); MIn (IDn 0 DH); MIn (IUp 0 UP); MIn (IDn 0 (DD (VN 1)));
     MIn (IUp 0 UP); MIn (IDn 0 (DD (VN 2))); MIn (IUp 0 UP);
     MRet; MRet; MRet; MRet; MRet; MRet; MRet; MRet].
  Example script_enabled : all_enabled p0 g_std (cfg0 (take_op 2)) script = true.
  Proof. vm_compute. reflexivity. Qed.
  Example script_end :
    let c := run p0 (take_op 2) script in
    stack c = [] /\ data_out 0 (trace c) = [VN 1; VN 2] /\
    sk (ms c) 0 = SFinished /\ us (ms c) 0 = UStopped /\ viols (ms c) = [].
  Proof. vm_compute. repeat split; reflexivity. Qed.
End TakeSanity.
