(** * Threads: interleaving models of the racing paths of take, merge and combine
      (C18, C19).

    Granularity: one scheduling point before every access to an instrumented
    shared cell (the AtomicUsize / AtomicBool / ArcSwap cells that the hooks
    of /repo/src/verif_hooks.rs wrap) and one inside every delivery to the
    recording sink (between its begin and its end, so that "a delivery is in
    progress" is a visible state).  A step of thread [t] performs the access
    [t] is blocked in front of and runs [t] up to its next scheduling point.
    Everything in between (the un-instrumented ArcSwapOption talkback slots,
    the calls into puppet talkbacks) is local to the step.  This is sequential
    consistency at the granularity the properties name; weaker memory effects
    are not modelled.

    Thread [i] plays member source [i]: it delivers its queue of data and then
    completes (or fails, or just stops).  A member that has been told to stop
    (its talkback received Terminate) starts no further delivery.  The sink is
    passive.

    [fixed] selects the code as repaired by the fix: commits (true) or as it
    was on the pinned tree (false), so that the defects can be replayed. *)

From CB Require Export Base.
From RecordUpdate Require Export RecordSet.
Export RecordSetNotations.

Set Implicit Arguments.

Inductive tev : Type :=
| TBegin (m : dmsg)             (* a delivery to the sink begins *)
| TEnd                          (* ... and returns *)
| TUp (i : nat) (m : umsg)      (* the talkback of member i is called *)
| TPanic.

Definition tevent : Type := (nat * tev)%type.

(** how a member thread ends after its data *)
Inductive final : Type := FinTerm | FinErr (e : nat) | FinNone.

(** ** take(max), fed by several threads through one upstream handler *)

Inductive tk_pc : Type :=
| TkAtLoad                     (* before [taken.load()]            take.rs Data arm *)
| TkAtInc                      (* before [taken.fetch_add(1)]      (only when not fixed) *)
| TkInData (t' : nat)          (* inside the sink's Data handler; t' = the local [taken] *)
| TkAtEndLoad                  (* before [end.swap(true)] (fixed: whoever sets the flag ends the sink, /repo fix H11);
                                  before [end.load()] (not fixed) *)
| TkAtEndStore                 (* before [end.store(true)]         (only when not fixed) *)
| TkInTerm                     (* inside the sink's Terminate handler *)
| TkFinished.

Record tk_thread : Type := mk_tk_thread { tk_pcv : tk_pc; tk_q : list val }.

Record tk_state : Type := mk_tk_state {
  tks_taken : nat;
  tks_end : bool;
  tks_stopped : bool;            (* the upstream talkback received Terminate *)
  tks_th : nat -> tk_thread;
  tks_tr : list tevent;          (* latest first *)
}.

#[export] Instance eta_tk_thread : Settable _ := settable! mk_tk_thread <tk_pcv; tk_q>.
#[export] Instance eta_tk_state : Settable _ :=
  settable! mk_tk_state <tks_taken; tks_end; tks_stopped; tks_th; tks_tr>.

Section TakeThreads.
  Variable fixed : bool.
  Variable max : nat.

  (** the thread has finished an item: start the next one, unless told to stop *)
  Definition tk_next (stopped : bool) (th : tk_thread) : tk_thread :=
    match tk_q th with
    | _ :: q' =>
        match q' with
        | [] => {| tk_pcv := TkFinished; tk_q := [] |}
        | _ => if stopped then {| tk_pcv := TkFinished; tk_q := q' |}
               else {| tk_pcv := TkAtLoad; tk_q := q' |}
        end
    | [] => {| tk_pcv := TkFinished; tk_q := [] |}
    end.

  Definition tk_init_thread (q : list val) : tk_thread :=
    match q with [] => {| tk_pcv := TkFinished; tk_q := [] |}
               | _ => {| tk_pcv := TkAtLoad; tk_q := q |} end.

  Definition tk_init (qs : nat -> list val) : tk_state :=
    {| tks_taken := 0; tks_end := false; tks_stopped := false;
       tks_th := fun t => tk_init_thread (qs t); tks_tr := [] |}.

  Definition tk_set (s : tk_state) (t : nat) (th : tk_thread) : tk_state :=
    s <| tks_th := upd (tks_th s) t th |>.
  Definition tk_emit (s : tk_state) (t : nat) (e : tev) : tk_state :=
    s <| tks_tr := (t, e) :: tks_tr s |>.

  (** the flag is set; the upstream is told to stop; the sink's Terminate begins *)
  Definition tk_end_now (s : tk_state) (t : nat) (th : tk_thread) : tk_state :=
    let s1 := s <| tks_end := true |> <| tks_stopped := true |> in
    tk_set (tk_emit (tk_emit s1 t (TUp 0 UT)) t (TBegin DT)) t (th <| tk_pcv := TkInTerm |>).

  Definition tk_step (s : tk_state) (t : nat) : tk_state :=
    let th := tks_th s t in
    match tk_pcv th, tk_q th with
    | TkAtLoad, v :: _ =>
        if fixed then
          (* fetch_update: test and increment in one access *)
          if tks_taken s <? max then
            let t' := S (tks_taken s) in
            tk_set (tk_emit (s <| tks_taken := t' |>) t (TBegin (DD v))) t
                   (th <| tk_pcv := TkInData t' |>)
          else tk_set s t (tk_next (tks_stopped s) th)
        else
          if tks_taken s <? max then tk_set s t (th <| tk_pcv := TkAtInc |>)
          else tk_set s t (tk_next (tks_stopped s) th)
    | TkAtInc, v :: _ =>
        let t' := S (tks_taken s) in
        tk_set (tk_emit (s <| tks_taken := t' |>) t (TBegin (DD v))) t
               (th <| tk_pcv := TkInData t' |>)
    | TkInData t', _ =>
        let s1 := tk_emit s t TEnd in
        if Nat.eqb t' max then tk_set s1 t (th <| tk_pcv := TkAtEndLoad |>)
        else tk_set s1 t (tk_next (tks_stopped s) th)
    | TkAtEndLoad, _ =>
        if tks_end s then tk_set s t (tk_next (tks_stopped s) th)
        else if fixed then tk_end_now s t th
        else tk_set s t (th <| tk_pcv := TkAtEndStore |>)
    | TkAtEndStore, _ => tk_end_now s t th
    | TkInTerm, _ =>
        tk_set (tk_emit s t TEnd) t (tk_next true th)
    | _, _ => s
    end.

  Definition tk_finished (s : tk_state) (t : nat) : bool :=
    match tk_pcv (tks_th s t) with TkFinished => true | _ => false end.
End TakeThreads.

(** ** merge of n members, member i = thread i *)

Inductive mg_pc : Type :=
| MgAtEndedLoad                (* greeting: talkback published, before [ended.load()]   merge.rs:183-189 *)
| MgAtStartInc                 (* before [start_count.fetch_add(1)]         merge.rs:188 *)
| MgInGreet                    (* inside the sink's Handshake handler *)
| MgInData                     (* inside the sink's Data handler *)
| MgAtEndInc                   (* before [end_count.fetch_add(1)]           merge.rs:224 *)
| MgInTerm
| MgAtEndedStore (e : nat)     (* member fails: before [ended.store(true)]  merge.rs:205 *)
| MgInErr
| MgFinished.

Record mg_thread : Type := mk_mg_thread { mg_pcv : mg_pc; mg_q : list val; mg_fin : final }.

Record mg_state : Type := mk_mg_state {
  mgs_start : nat; mgs_endc : nat; mgs_ended : bool;
  mgs_tbs : nat -> bool;          (* slot of member j holds its talkback *)
  mgs_stopped : nat -> bool;      (* member j's talkback received Terminate *)
  mgs_th : nat -> mg_thread;
  mgs_tr : list tevent;
}.

#[export] Instance eta_mg_thread : Settable _ := settable! mk_mg_thread <mg_pcv; mg_q; mg_fin>.
#[export] Instance eta_mg_state : Settable _ :=
  settable! mk_mg_state <mgs_start; mgs_endc; mgs_ended; mgs_tbs; mgs_stopped; mgs_th; mgs_tr>.

Section MergeThreads.
  Variable n : nat.

  Definition mg_init (qs : nat -> list val) (fins : nat -> final) : mg_state :=
    {| mgs_start := 0; mgs_endc := 0; mgs_ended := false;
       (* a greeting member publishes its talkback before its first instrumented access *)
       mgs_tbs := fun t => t <? n; mgs_stopped := fun _ => false;
       mgs_th := fun t => {| mg_pcv := if t <? n then MgAtEndedLoad else MgFinished;
                             mg_q := qs t; mg_fin := fins t |};
       mgs_tr := [] |}.

  Definition mg_set (s : mg_state) (t : nat) (th : mg_thread) : mg_state :=
    s <| mgs_th := upd (mgs_th s) t th |>.
  Definition mg_emit (s : mg_state) (t : nat) (e : tev) : mg_state :=
    s <| mgs_tr := (t, e) :: mgs_tr s |>.

  (** member [t] is between two deliveries: start the next one (the Data arm
      has no instrumented access, so the delivery begins in the same step) *)
  Definition mg_next (s : mg_state) (t : nat) (th : mg_thread) : mg_state :=
    if mgs_stopped s t then mg_set s t (th <| mg_pcv := MgFinished |>)
    else
      match mg_q th with
      | v :: q' => mg_set (mg_emit s t (TBegin (DD v))) t (th <| mg_pcv := MgInData |> <| mg_q := q' |>)
      | [] =>
          match mg_fin th with
          | FinTerm =>                      (* Terminate arm: slot cleared, then the counter *)
              mg_set (s <| mgs_tbs := upd (mgs_tbs s) t false |>) t (th <| mg_pcv := MgAtEndInc |>)
          | FinErr e => mg_set s t (th <| mg_pcv := MgAtEndedStore e |>)
          | FinNone => mg_set s t (th <| mg_pcv := MgFinished |>)
          end
      end.

  (** terminate every member j <> t whose slot is set, in index order; the talkback is taken out of
      its slot (swap), so that exactly one party disposes a member *)
  Fixpoint mg_stop_siblings (k : nat) (t : nat) (s : mg_state) : mg_state :=
    match k with
    | 0 => s
    | S k' =>
        let s' := mg_stop_siblings k' t s in
        if negb (Nat.eqb k' t) && mgs_tbs s k'
        then mg_emit (s' <| mgs_stopped := upd (mgs_stopped s') k' true |>
                         <| mgs_tbs := upd (mgs_tbs s') k' false |>) t (TUp k' UT)
        else s'
    end.

  Definition mg_step (s : mg_state) (t : nat) : mg_state :=
    let th := mgs_th s t in
    match mg_pcv th with
    | MgAtEndedLoad =>
        if mgs_ended s then
          (* the output ended while this member was greeting: it disposes itself unless the ending
             party already took its talkback out of the slot *)
          if mgs_tbs s t then
            mg_set (mg_emit (s <| mgs_stopped := upd (mgs_stopped s) t true |>
                               <| mgs_tbs := upd (mgs_tbs s) t false |>) t (TUp t UT)) t
                   (th <| mg_pcv := MgFinished |>)
          else mg_set s t (th <| mg_pcv := MgFinished |>)
        else mg_set s t (th <| mg_pcv := MgAtStartInc |>)
    | MgAtStartInc =>
        let sc := S (mgs_start s) in
        let s1 := s <| mgs_start := sc |> in
        if Nat.eqb sc 1 then mg_set (mg_emit s1 t (TBegin DH)) t (th <| mg_pcv := MgInGreet |>)
        else mg_next s1 t th
    | MgInGreet | MgInData => mg_next (mg_emit s t TEnd) t th
    | MgAtEndInc =>
        let ec := S (mgs_endc s) in
        let s1 := s <| mgs_endc := ec |> in
        if Nat.eqb ec n then mg_set (mg_emit s1 t (TBegin DT)) t (th <| mg_pcv := MgInTerm |>)
        else mg_set s1 t (th <| mg_pcv := MgFinished |>)
    | MgInTerm | MgInErr => mg_set (mg_emit s t TEnd) t (th <| mg_pcv := MgFinished |>)
    | MgAtEndedStore e =>
        let s1 := mg_stop_siblings n t (s <| mgs_ended := true |>) in
        mg_set (mg_emit s1 t (TBegin (DE e))) t (th <| mg_pcv := MgInErr |>)
    | MgFinished => s
    end.

  Definition mg_finished (s : mg_state) (t : nat) : bool :=
    match mg_pcv (mgs_th s t) with MgFinished => true | _ => false end.
End MergeThreads.

(** ** combine of n members, member i = thread i *)

Inductive cb_pc : Type :=
| CbAtStartDec                         (* greeting: before [n_start.fetch_sub(1)] *)
| CbInGreet
| CbAtValsLoad (v : val)               (* Data arm: before [vals.load()] (is_none test) *)
| CbAtDataDec (v : val)                (* before [n_data.fetch_sub(1)] *)
| CbAtDataLoad (v : val)               (* before [n_data.load()] *)
| CbAtRcuLoad (v : val) (nd : option nat) (wasnone : bool)   (* before the load of vals.rcu *)
| CbAtRcuCas (v : val) (nd : option nat) (wasnone : bool) (ver : nat)  (* before its compare-and-swap *)
| CbAtEmitLoad                         (* before the [vals.load()] of the emission *)
| CbInData
| CbAtEndDec                           (* before [n_end.fetch_sub(1)] *)
| CbInTerm
| CbFinished.

Record cb_thread : Type := mk_cb_thread { cb_pcv : cb_pc; cb_q : list val; cb_fin : final }.

Record cb_state : Type := mk_cb_state {
  cbs_nstart : nat; cbs_ndata : nat; cbs_nend : nat;
  cbs_vals : nat -> option val;
  cbs_ver : nat;                    (* bumped by every successful compare-and-swap of vals *)
  cbs_stopped : nat -> bool;
  cbs_th : nat -> cb_thread;
  cbs_tr : list tevent;
  cbs_panicked : bool;
}.

#[export] Instance eta_cb_thread : Settable _ := settable! mk_cb_thread <cb_pcv; cb_q; cb_fin>.
#[export] Instance eta_cb_state : Settable _ :=
  settable! mk_cb_state <cbs_nstart; cbs_ndata; cbs_nend; cbs_vals; cbs_ver; cbs_stopped; cbs_th;
                         cbs_tr; cbs_panicked>.

Section CombineThreads.
  Variable fixed : bool.
  Variable n : nat.

  Definition cb_init (qs : nat -> list val) (fins : nat -> final) : cb_state :=
    {| cbs_nstart := n; cbs_ndata := n; cbs_nend := n;
       cbs_vals := fun _ => None; cbs_ver := 0; cbs_stopped := fun _ => false;
       cbs_th := fun t => {| cb_pcv := if t <? n then CbAtStartDec else CbFinished;
                             cb_q := qs t; cb_fin := fins t |};
       cbs_tr := []; cbs_panicked := false |}.

  Definition cb_set (s : cb_state) (t : nat) (th : cb_thread) : cb_state :=
    s <| cbs_th := upd (cbs_th s) t th |>.
  Definition cb_emit (s : cb_state) (t : nat) (e : tev) : cb_state :=
    s <| cbs_tr := (t, e) :: cbs_tr s |>.

  Fixpoint cb_tuple (vals : nat -> option val) (k : nat) : option (list val) :=
    match k with
    | 0 => Some []
    | S k' => match cb_tuple vals k', vals k' with
              | Some l, Some v => Some (l ++ [v])
              | _, _ => None
              end
    end.

  Definition cb_next (s : cb_state) (t : nat) (th : cb_thread) : cb_state :=
    if cbs_stopped s t then cb_set s t (th <| cb_pcv := CbFinished |>)
    else
      match cb_q th with
      | v :: q' => cb_set s t (th <| cb_pcv := CbAtValsLoad v |> <| cb_q := q' |>)
      | [] =>
          match cb_fin th with
          | FinNone => cb_set s t (th <| cb_pcv := CbFinished |>)
          | _ => cb_set s t (th <| cb_pcv := CbAtEndDec |>)     (* Error is counted like Terminate *)
          end
      end.

  (** after the value is stored and the count known: emit or not *)
  Definition cb_after_count (s : cb_state) (t : nat) (th : cb_thread) (nd : nat) : cb_state :=
    if Nat.eqb nd 0 then cb_set s t (th <| cb_pcv := CbAtEmitLoad |>) else cb_next s t th.

  Definition cb_step (s : cb_state) (t : nat) : cb_state :=
    let th := cbs_th s t in
    match cb_pcv th with
    | CbAtStartDec =>
        let ns := pred (cbs_nstart s) in
        let s1 := s <| cbs_nstart := ns |> in
        if Nat.eqb ns 0 then cb_set (cb_emit s1 t (TBegin DH)) t (th <| cb_pcv := CbInGreet |>)
        else cb_next s1 t th
    | CbInGreet | CbInData => cb_next (cb_emit s t TEnd) t th
    | CbAtValsLoad v =>
        let wasnone := match cbs_vals s t with None => true | Some _ => false end in
        if fixed then cb_set s t (th <| cb_pcv := CbAtRcuLoad v None wasnone |>)
        else cb_set s t (th <| cb_pcv := if wasnone then CbAtDataDec v else CbAtDataLoad v |>)
    | CbAtDataDec v =>
        let nd := pred (cbs_ndata s) in
        let s1 := s <| cbs_ndata := nd |> in
        if fixed then cb_after_count s1 t th nd
        else cb_set s1 t (th <| cb_pcv := CbAtRcuLoad v (Some nd) true |>)
    | CbAtDataLoad v =>
        let nd := cbs_ndata s in
        if fixed then cb_after_count s t th nd
        else cb_set s t (th <| cb_pcv := CbAtRcuLoad v (Some nd) false |>)
    | CbAtRcuLoad v nd wn => cb_set s t (th <| cb_pcv := CbAtRcuCas v nd wn (cbs_ver s) |>)
    | CbAtRcuCas v nd wn ver =>
        if Nat.eqb ver (cbs_ver s) then
          let s1 := s <| cbs_vals := upd (cbs_vals s) t (Some v) |> <| cbs_ver := S (cbs_ver s) |> in
          match nd with
          | Some k => cb_after_count s1 t th k                       (* not fixed: count was taken first *)
          | None => cb_set s1 t (th <| cb_pcv := if wn then CbAtDataDec v else CbAtDataLoad v |>)
          end
        else cb_set s t (th <| cb_pcv := CbAtRcuLoad v nd wn |>)     (* lost the race: retry *)
    | CbAtEmitLoad =>
        match cb_tuple (cbs_vals s) n with
        | Some l => cb_set (cb_emit s t (TBegin (DD (VT l)))) t (th <| cb_pcv := CbInData |>)
        | None =>                                                     (* .unwrap() on None *)
            cb_set (cb_emit s t TPanic <| cbs_panicked := true |>) t (th <| cb_pcv := CbFinished |>)
        end
    | CbAtEndDec =>
        let ne := pred (cbs_nend s) in
        let s1 := s <| cbs_nend := ne |> in
        if Nat.eqb ne 0 then cb_set (cb_emit s1 t (TBegin DT)) t (th <| cb_pcv := CbInTerm |>)
        else cb_set s1 t (th <| cb_pcv := CbFinished |>)
    | CbInTerm => cb_set (cb_emit s t TEnd) t (th <| cb_pcv := CbFinished |>)
    | CbFinished => s
    end.

  Definition cb_finished (s : cb_state) (t : nat) : bool :=
    match cb_pcv (cbs_th s t) with CbFinished => true | _ => false end.
End CombineThreads.

(** ** Running a schedule

    A schedule is a list of thread ids.  An entry naming a finished thread is
    skipped; when the schedule is exhausted the remaining threads run to
    completion in index order (the harness applies the same two rules). *)
Section Sched.
  Variable S : Type.
  Variable step : S -> nat -> S.
  Variable finished : S -> nat -> bool.
  Variable nthreads : nat.

  Fixpoint run_sched (sch : list nat) (s : S) : S :=
    match sch with
    | [] => s
    | t :: sch' => run_sched sch' (if finished s t then s else step s t)
    end.

  Fixpoint first_unfinished (k : nat) (s : S) : option nat :=
    match k with
    | 0 => None
    | Datatypes.S k' =>
        match first_unfinished k' s with
        | Some t => Some t
        | None => if finished s k' then None else Some k'
        end
    end.

  Fixpoint drain_threads (fuel : nat) (s : S) : S :=
    match fuel with
    | 0 => s
    | Datatypes.S f =>
        match first_unfinished nthreads s with
        | Some t => drain_threads f (step s t)
        | None => s
        end
    end.

  Definition run_full (sch : list nat) (fuel : nat) (s : S) : S :=
    drain_threads fuel (run_sched sch s).
End Sched.
