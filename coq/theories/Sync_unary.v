(** * Sync_unary: the unary operators and the sources greet synchronously.

    [greets_sync_sig] of Tree.v: in every reachable configuration, a component that has been
    subscribed and has not greeted its sink yet is still inside an activation (its stack of pending
    calls is not empty).  This is what a parent with [late_ok = false] (concat!, combine!) needs of
    its children.

    Two generic arguments, each by induction over [reach]:

    - a *source* (from_iter, interval) answers [ISub 0 _] with a call [CDn 0 d], [d] not Data, in the
      very activation that handles the subscription; so [subd 0 = true] implies [sk 0 <> SNone] and
      the premise of the statement is never met ([subd_sk]);
    - a *pass-through operator* (map, filter, scan, skip, take) answers [ISub 0 _] with [CSub 0];
      so [subd 0 = true] implies [us 0 <> UNone] ([subd_us]).  Its invariant says that an ungreeted
      sink goes with an upstream that is [UNone] or [USubd]; hence [us 0 = USubd], and with
      [late_ok p = false] the generic fact [reach_pend_facts] of Tree.v puts the call [CSub 0] on the
      stack of pending calls. *)
From CB Require Import ProofLib Spec Chain Tree.
From CB Require Inv_map Inv_filter Inv_scan Inv_skip Inv_take Inv_from_iter Inv_interval.

Set Implicit Arguments.

(** ** What the monitor updates do to [subd], [us <> UNone], [sk <> SNone] *)

Lemma callupd_subd m cl : subd (mon_call_upd m cl) = subd m.
Proof.
  destruct cl as [i|i [|e|]|s [|v|e|]]; cbn; try reflexivity.
  - destruct (sk m s); reflexivity.
  - destruct (sk m s), (err_due m s) as [e'|]; try destruct (Nat.eqb e e'); reflexivity.
  - destruct (sk m s); reflexivity.
Qed.

Lemma callupd_us_mono m cl k : us m k <> UNone -> us (mon_call_upd m cl) k <> UNone.
Proof.
  intros H. destruct cl as [i|i [|e|]|s [|v|e|]]; cbn; try exact H.
  - unfold upd. destruct (Nat.eqb k i); [discriminate|exact H].
  - unfold upd. destruct (Nat.eqb k i); [discriminate|exact H].
  - unfold upd. destruct (Nat.eqb k i); [discriminate|exact H].
  - destruct (sk m s); exact H.
  - destruct (sk m s), (err_due m s) as [e'|]; try destruct (Nat.eqb e e'); exact H.
  - destruct (sk m s); exact H.
Qed.

Lemma input_us_mono p m inp k : us m k <> UNone -> us (mon_input p m inp) k <> UNone.
Proof.
  intros H. destruct inp as [s [|a]|s [|e|]|i [|v|e|]|s]; cbn; try exact H;
    unfold upd; destruct (Nat.eqb k i); try exact H; discriminate.
Qed.

Lemma input_subd p m inp :
  match inp with ISub _ _ => True | _ => subd (mon_input p m inp) = subd m end.
Proof. destruct inp as [s a|s [|e|]|i [|v|e|]|s]; cbn; auto. Qed.

Lemma input_sub_subd p m s aux : subd (mon_input p m (ISub s aux)) s = true.
Proof. destruct aux; cbn; apply upd_same. Qed.

(** a subscription of the upstream leaves it [USubd] *)
Lemma callupd_sub_us m i : us (mon_call_upd m (CSub i)) i = USubd.
Proof. cbn. apply upd_same. Qed.

(** a greeting, an Error or a Terminate leaves the sink greeted or over *)
Lemma callupd_dn_sk m d : (forall v, d <> DD v) -> sk (mon_call_upd m (CDn 0 d)) 0 <> SNone.
Proof.
  intros Hd. destruct d as [|v|e|]; cbn.
  - destruct (sk m 0) eqn:E; cbn; rewrite ?upd_same, ?E; discriminate.
  - exfalso. now apply (Hd v).
  - destruct (sk m 0) eqn:E, (err_due m 0) as [e'|]; try destruct (Nat.eqb e e'); cbn;
      rewrite ?upd_same, ?E; discriminate.
  - destruct (sk m 0) eqn:E; cbn; rewrite ?upd_same, ?E; discriminate.
Qed.

Section Generic.
  Variable p : mparams.
  Variable o : op.
  Variable g : mstate -> input -> bool.
  Hypothesis Hns : nsinks p = 1.

  (** *** one activation *)

  Lemma settle_subd m os (a : act (Fr o)) : subd (ms_settle p o m os a) = subd m.
  Proof.
    unfold ms_settle. set (m1 := fold_left (mon_event p) (map EObs os) m).
    destruct (obs_core p g os m) as (E & _). fold m1 in E.
    destruct a as [| |cl k]; cbn [mon_event].
    - destruct (cstack m1); rewrite ?add_viols_eq; cbn; exact E.
    - cbn. exact E.
    - rewrite add_viols_eq. cbn. rewrite callupd_subd. exact E.
  Qed.

  Lemma settle_us_mono m os (a : act (Fr o)) k :
    us m k <> UNone -> us (ms_settle p o m os a) k <> UNone.
  Proof.
    intros H. unfold ms_settle. set (m1 := fold_left (mon_event p) (map EObs os) m).
    destruct (obs_core p g os m) as (_ & _ & E & _). fold m1 in E.
    assert (H1 : us m1 k <> UNone) by (rewrite E; exact H).
    destruct a as [| |cl f]; cbn [mon_event].
    - destruct (cstack m1); rewrite ?add_viols_eq; cbn; exact H1.
    - cbn. exact H1.
    - rewrite add_viols_eq. cbn. now apply callupd_us_mono.
  Qed.

  Lemma settle_sk_mono m os (a : act (Fr o)) :
    sk m 0 <> SNone -> sk (ms_settle p o m os a) 0 <> SNone.
  Proof.
    intros H. unfold ms_settle. set (m1 := fold_left (mon_event p) (map EObs os) m).
    destruct (obs_core p g os m) as (_ & E & _). fold m1 in E.
    assert (H1 : sk m1 0 <> SNone) by (rewrite E; exact H).
    destruct a as [| |cl f]; cbn [mon_event].
    - destruct (cstack m1); rewrite ?add_viols_eq; cbn; exact H1.
    - cbn. exact H1.
    - rewrite add_viols_eq. cbn. now apply callupd_keeps_sk.
  Qed.

  Lemma settle_sub_us m os (f : Fr o) i : us (ms_settle p o m os (ACall (CSub i) f)) i = USubd.
  Proof.
    unfold ms_settle. cbn [mon_event]. rewrite add_viols_eq. cbn. apply upd_same.
  Qed.

  Lemma settle_dn_sk m os (f : Fr o) d :
    (forall v, d <> DD v) -> sk (ms_settle p o m os (ACall (CDn 0 d) f)) 0 <> SNone.
  Proof.
    intros Hd. unfold ms_settle. cbn [mon_event]. rewrite add_viols_eq.
    change (sk (mon_call_upd (fold_left (mon_event p) (map EObs os) m) (CDn 0 d)) 0 <> SNone).
    now apply callupd_dn_sk.
  Qed.

  (** *** one step: the monitor state it ends in, and the activation that produced it *)
  Lemma step_shape (c : cfg o) m :
    enabled p g c m = true ->
    exists os a, ms (step p c m) = ms_settle p o (mon_move p (ms c) m) os a /\
                 (forall i, m = MIn i -> exists s', handle o i (cst c) = (s', os, a)).
  Proof.
    intros He. pose proof (enabled_live _ _ _ _ He) as Hlive.
    destruct m as [i|].
    - pose proof (enabled_deliverable _ _ _ _ He) as Hdel.
      destruct (handle o i (cst c)) as [[s' os] a] eqn:Hh.
      destruct (step_in p c i Hlive Hdel Hh) as (_ & _ & Hm & _).
      exists os, a. split; [exact Hm|].
      intros i' E. inversion E; subst i'. exists s'. exact Hh.
    - destruct (enabled_ret_stack _ _ _ He) as (k & cl & rest & Hst).
      destruct (resume o k (cst c)) as [[s' os] a] eqn:Hh.
      destruct (step_ret p c Hlive Hst Hh) as (_ & _ & Hm & _).
      exists os, a. split; [exact Hm|]. intros i E. discriminate.
  Qed.

  Lemma enabled_sub_0 (c : cfg o) s aux : enabled p g c (MIn (ISub s aux)) = true -> s = 0.
  Proof.
    intros He. unfold enabled in He.
    apply andb_prop in He. destruct He as [_ He].
    apply andb_prop in He. destruct He as [_ He].
    apply andb_prop in He. destruct He as [He _].
    apply andb_prop in He. destruct He as [_ He].
    rewrite Hns in He. destruct s as [|s]; [reflexivity|]. cbn in He. discriminate.
  Qed.

  (** every move other than a subscription leaves [subd] alone *)
  Lemma move_subd m0 m :
    match m with MIn (ISub _ _) => True | _ => subd (mon_move p m0 m) = subd m0 end.
  Proof.
    destruct m as [inp|]; [|reflexivity]. cbn [mon_move].
    pose proof (input_subd p m0 inp) as H. destruct inp; auto.
  Qed.

  Lemma move_us_mono m0 m k : us m0 k <> UNone -> us (mon_move p m0 m) k <> UNone.
  Proof. intros H. destruct m as [inp|]; cbn [mon_move]; [now apply input_us_mono | exact H]. Qed.

  Lemma move_sk_mono m0 m : sk m0 0 <> SNone -> sk (mon_move p m0 m) 0 <> SNone.
  Proof. intros H. destruct m as [inp|]; cbn [mon_move]; [now apply input_keeps_sk | exact H]. Qed.

  (** *** pass-through operators: the subscription is forwarded at once *)
  Definition subs_up : Prop :=
    forall aux s, exists s' os k, handle o (ISub 0 aux) s = (s', os, ACall (CSub 0) k).

  (** *** sources: the subscription is answered at once, by a greeting or by a refusal *)
  Definition greets_now : Prop :=
    forall aux s,
      exists s' os k d, handle o (ISub 0 aux) s = (s', os, ACall (CDn 0 d) k) /\ forall v, d <> DD v.

  Lemma subd_us (Hsub : subs_up) (c : cfg o) :
    reach p g c -> subd (ms c) 0 = true -> us (ms c) 0 <> UNone.
  Proof.
    induction 1 as [|c m Hr IH He]; [discriminate|].
    destruct (step_shape c m He) as (os & a & Hm & Hh).
    rewrite Hm, settle_subd. intros Hsd.
    assert (Hother : subd (mon_move p (ms c) m) = subd (ms c) ->
                     us (ms_settle p o (mon_move p (ms c) m) os a) 0 <> UNone).
    { intros E. rewrite E in Hsd. apply settle_us_mono, move_us_mono, IH, Hsd. }
    pose proof (move_subd (ms c) m) as Hmv.
    destruct m as [[s aux|s u|i d|s]|]; try (apply Hother; exact Hmv).
    pose proof (enabled_sub_0 _ _ _ He) as ->.
    destruct (Hh _ eq_refl) as [s' Hhd].
    destruct (Hsub aux (cst c)) as (s'' & os' & k & Hhd').
    rewrite Hhd' in Hhd. inversion Hhd; subst.
    rewrite settle_sub_us. discriminate.
  Qed.

  Lemma subd_sk (Hgr : greets_now) (c : cfg o) :
    reach p g c -> subd (ms c) 0 = true -> sk (ms c) 0 <> SNone.
  Proof.
    induction 1 as [|c m Hr IH He]; [discriminate|].
    destruct (step_shape c m He) as (os & a & Hm & Hh).
    rewrite Hm, settle_subd. intros Hsd.
    assert (Hother : subd (mon_move p (ms c) m) = subd (ms c) ->
                     sk (ms_settle p o (mon_move p (ms c) m) os a) 0 <> SNone).
    { intros E. rewrite E in Hsd. apply settle_sk_mono, move_sk_mono, IH, Hsd. }
    pose proof (move_subd (ms c) m) as Hmv.
    destruct m as [[s aux|s u|i d|s]|]; try (apply Hother; exact Hmv).
    pose proof (enabled_sub_0 _ _ _ He) as ->.
    destruct (Hh _ eq_refl) as [s' Hhd].
    destruct (Hgr aux (cst c)) as (s'' & os' & k & d & Hhd' & Hd).
    rewrite Hhd' in Hhd. inversion Hhd; subst.
    now apply settle_dn_sk.
  Qed.
End Generic.

(** ** The pass-through operators, generically: safety + "an ungreeted sink goes with an upstream that
       is [UNone] or [USubd]" + the subscription is forwarded at once *)
Section PassThrough.
  Variable p : mparams.
  Variable o : op.
  Hypothesis Hns : nsinks p = 1.
  Hypothesis Hrs : resub p = false.
  Hypothesis Hlate : late_ok p = false.
  Hypothesis Hsafe : forall c : cfg o, reach p g_std c -> viols (ms c) = [] /\ dead c = false.
  Hypothesis Hsub : subs_up o.
  Hypothesis Hpair : forall c : cfg o, reach p g_std c -> sk (ms c) 0 = SNone ->
                                       us (ms c) 0 = UNone \/ us (ms c) 0 = USubd.

  Lemma pass_through_sync (c : cfg o) :
    reach p g_std c -> subd (ms c) 0 = true -> sk (ms c) 0 = SNone -> stack c <> [].
  Proof.
    intros Hr Hsd Hsk Hst.
    pose proof (subd_us Hns Hsub Hr Hsd) as Hus.
    destruct (Hpair Hr Hsk) as [E|E]; [contradiction|].
    destruct (reach_pend_facts Hsafe Hrs (fun m inp => eq_refl) Hr) as (_ & _ & _ & I4).
    specialize (I4 Hlate 0 E).
    rewrite (reach_cstack Hr), Hst in I4. exact I4.
  Qed.
End PassThrough.

Lemma paired_none k u : paired k u -> k = SNone -> u = UNone \/ u = USubd.
Proof. intros H E. destruct H; try discriminate; auto. Qed.

(** ** map *)
Theorem map_greets_sync (f : val -> val) p :
  nsinks p = 1 -> resub p = false -> no_nest p = false -> c14 p = false -> late_ok p = false ->
  forall c : cfg (map_op f), reach p g_std c ->
    subd (ms c) 0 = true -> sk (ms c) 0 = SNone -> stack c <> [].
Proof.
  intros H1 H2 H3 H4 Hl. apply pass_through_sync; try assumption.
  - intros c Hr. exact (Inv_map.map_safe H1 H2 H3 H4 Hr).
  - intros aux s. now exists s, [], FDone.
  - intros c Hr. apply paired_none. exact (Inv_map.i_pair (Inv_map.inv_reach H1 H2 H3 H4 Hr)).
Qed.
Print Assumptions map_greets_sync.

Corollary map_greets_sync_sig (f : val -> val) p :
  nsinks p = 1 -> resub p = false -> no_nest p = false -> c14 p = false -> late_ok p = false ->
  greets_sync_sig (map_op f, p, g_std).
Proof. intros H1 H2 H3 H4 Hl c. now apply map_greets_sync. Qed.
Print Assumptions map_greets_sync_sig.

(** ** filter *)
Theorem filter_greets_sync (cond : val -> bool) p :
  nsinks p = 1 -> resub p = false -> no_nest p = false -> c14 p = false -> late_ok p = false ->
  forall c : cfg (filter_op cond), reach p g_std c ->
    subd (ms c) 0 = true -> sk (ms c) 0 = SNone -> stack c <> [].
Proof.
  intros H1 H2 H3 H4 Hl. apply pass_through_sync; try assumption.
  - intros c Hr. exact (Inv_filter.filter_safe H1 H2 H3 H4 Hr).
  - intros aux s. now exists false, [], FDone.
  - intros c Hr. apply paired_none. exact (Inv_filter.filter_paired H1 H2 H3 H4 Hr).
Qed.
Print Assumptions filter_greets_sync.

Corollary filter_greets_sync_sig (cond : val -> bool) p :
  nsinks p = 1 -> resub p = false -> no_nest p = false -> c14 p = false -> late_ok p = false ->
  greets_sync_sig (filter_op cond, p, g_std).
Proof. intros H1 H2 H3 H4 Hl c. now apply filter_greets_sync. Qed.
Print Assumptions filter_greets_sync_sig.

(** ** scan *)
Theorem scan_greets_sync (reducer : val -> val -> val) (seed : val) p :
  nsinks p = 1 -> resub p = false -> no_nest p = false -> c14 p = false -> late_ok p = false ->
  forall c : cfg (scan_op reducer seed), reach p g_std c ->
    subd (ms c) 0 = true -> sk (ms c) 0 = SNone -> stack c <> [].
Proof.
  intros H1 H2 H3 H4 Hl. apply pass_through_sync; try assumption.
  - intros c Hr. exact (Inv_scan.scan_safe H1 H2 H3 H4 Hr).
  - intros aux s. now exists seed, [], FDone.
  - intros c Hr. apply paired_none. exact (Inv_scan.scan_paired H1 H2 H3 H4 Hr).
Qed.
Print Assumptions scan_greets_sync.

Corollary scan_greets_sync_sig (reducer : val -> val -> val) (seed : val) p :
  nsinks p = 1 -> resub p = false -> no_nest p = false -> c14 p = false -> late_ok p = false ->
  greets_sync_sig (scan_op reducer seed, p, g_std).
Proof. intros H1 H2 H3 H4 Hl c. now apply scan_greets_sync. Qed.
Print Assumptions scan_greets_sync_sig.

(** ** skip *)
Theorem skip_greets_sync (max : nat) p :
  nsinks p = 1 -> resub p = false -> no_nest p = false -> c14 p = false -> late_ok p = false ->
  forall c : cfg (skip_op max), reach p g_std c ->
    subd (ms c) 0 = true -> sk (ms c) 0 = SNone -> stack c <> [].
Proof.
  intros H1 H2 H3 H4 Hl. apply pass_through_sync; try assumption.
  - intros c Hr. exact (Inv_skip.skip_safe H1 H2 H3 H4 Hr).
  - intros aux s. now exists {| sk_skipped := 0; sk_tb := false |}, [], FDone.
  - intros c Hr. apply paired_none. exact (Inv_skip.skip_paired H1 H2 H3 H4 Hr).
Qed.
Print Assumptions skip_greets_sync.

Corollary skip_greets_sync_sig (max : nat) p :
  nsinks p = 1 -> resub p = false -> no_nest p = false -> c14 p = false -> late_ok p = false ->
  greets_sync_sig (skip_op max, p, g_std).
Proof. intros H1 H2 H3 H4 Hl c. now apply skip_greets_sync. Qed.
Print Assumptions skip_greets_sync_sig.

(** ** take *)
Theorem take_greets_sync p :
  nsinks p = 1 -> resub p = false -> no_nest p = false -> c14 p = false -> late_ok p = false ->
  forall max, 1 <= max ->
  forall c : cfg (take_op max), reach p g_std c ->
    subd (ms c) 0 = true -> sk (ms c) 0 = SNone -> stack c <> [].
Proof.
  intros H1 H2 H3 H4 Hl max Hmax. apply pass_through_sync; try assumption.
  - intros c Hr. exact (Inv_take.take_safe H1 H2 H3 H4 Hmax Hr).
  - intros aux s. now exists {| tk_taken := 0; tk_tb := false; tk_end := false |}, [], TkDone.
  - intros c Hr Hsk.
    pose proof (Inv_take.i_phase (Inv_take.inv_reach Hmax H1 H2 H3 H4 Hr)) as Hph.
    rewrite Hsk in Hph. destruct (us (ms c) 0); cbn in Hph; try contradiction; auto.
Qed.
Print Assumptions take_greets_sync.

Corollary take_greets_sync_sig p :
  nsinks p = 1 -> resub p = false -> no_nest p = false -> c14 p = false -> late_ok p = false ->
  forall max, 1 <= max -> greets_sync_sig (take_op max, p, g_std).
Proof. intros H1 H2 H3 H4 Hl max Hmax c. now apply take_greets_sync. Qed.
Print Assumptions take_greets_sync_sig.

(** ** from_iter: the greeting is sent by the activation that handles the subscription, so a
       subscribed from_iter has always greeted (the conclusion holds vacuously) *)
Lemma from_iter_subd_greeted (it : nat -> option val) p :
  nsinks p = 1 ->
  forall c : cfg (from_iter_op it), reach p g_std c -> subd (ms c) 0 = true -> sk (ms c) 0 <> SNone.
Proof.
  intros H1. apply subd_sk; [exact H1|].
  intros aux s. eexists _, [], FiDone, DH. split; [reflexivity|discriminate].
Qed.

Theorem from_iter_greets_sync (it : nat -> option val) p :
  nsinks p = 1 -> resub p = false -> no_nest p = true -> c14 p = false -> late_ok p = false ->
  forall c : cfg (from_iter_op it), reach p g_std c ->
    subd (ms c) 0 = true -> sk (ms c) 0 = SNone -> stack c <> [].
Proof.
  intros H1 _ _ _ _ c Hr Hsd Hsk. exfalso.
  exact (from_iter_subd_greeted H1 Hr Hsd Hsk).
Qed.
Print Assumptions from_iter_greets_sync.

Corollary from_iter_greets_sync_sig (it : nat -> option val) p :
  nsinks p = 1 -> resub p = false -> no_nest p = true -> c14 p = false -> late_ok p = false ->
  greets_sync_sig (from_iter_op it, p, g_std).
Proof. intros H1 H2 H3 H4 Hl c. now apply from_iter_greets_sync. Qed.
Print Assumptions from_iter_greets_sync_sig.

(** ** interval: greeted, or refused with an Error (then [sk 0 = SFinished]), in the activation that
       handles the subscription *)
Lemma interval_subd_greeted p :
  nsinks p = 1 ->
  forall c : cfg interval_op, reach p (fun _ _ => true) c ->
    subd (ms c) 0 = true -> sk (ms c) 0 <> SNone.
Proof.
  intros H1. apply subd_sk; [exact H1|].
  intros [|aux] s.
  - eexists _, _, FDone, DH. split; [reflexivity|discriminate].
  - eexists _, _, FDone, (DE _). split; [reflexivity|discriminate].
Qed.

Theorem interval_greets_sync p :
  nsinks p = 1 -> resub p = false -> no_nest p = false -> c14 p = false -> late_ok p = false ->
  forall c : cfg interval_op, reach p (fun _ _ => true) c ->
    subd (ms c) 0 = true -> sk (ms c) 0 = SNone -> stack c <> [].
Proof.
  intros H1 _ _ _ _ c Hr Hsd Hsk. exfalso.
  exact (interval_subd_greeted H1 Hr Hsd Hsk).
Qed.
Print Assumptions interval_greets_sync.

Corollary interval_greets_sync_sig p :
  nsinks p = 1 -> resub p = false -> no_nest p = false -> c14 p = false -> late_ok p = false ->
  greets_sync_sig (interval_op, p, fun _ _ => true).
Proof. intros H1 H2 H3 H4 Hl c. now apply interval_greets_sync. Qed.
Print Assumptions interval_greets_sync_sig.

(** ** Sanity: the statement is not vacuous for the pass-through operators, and [late_ok p = false]
       is needed.  After the subscription alone, map is subscribed, has not greeted and waits inside
       its call [CSub 0].  In the regime of merge ([late_ok = true]) that call may return before the
       upstream has greeted: then map is subscribed, has not greeted and its stack is empty. *)
Module SyncSanity.
  Definition p0 : mparams :=
    {| nsinks := 1; late_ok := false; pullable := false; one_pull := false;
       resub := false; no_nest := false; c14 := false |}.
  Definition p_late : mparams :=
    {| nsinks := 1; late_ok := true; pullable := false; one_pull := false;
       resub := false; no_nest := false; c14 := false |}.
  Definition idf (v : val) : val := v.

  Example waiting :
    all_enabled p0 g_std (cfg0 (map_op idf)) [MIn (ISub 0 0)] = true /\
    let c := run p0 (map_op idf) [MIn (ISub 0 0)] in
    subd (ms c) 0 = true /\ sk (ms c) 0 = SNone /\ map snd (stack c) = [CSub 0].
  Proof. vm_compute. repeat split; reflexivity. Qed.

  (** with [late_ok p = false] the pending [CSub 0] cannot return before the greeting *)
  Example no_early_return :
    all_enabled p0 g_std (cfg0 (map_op idf)) [MIn (ISub 0 0); MRet] = false.
  Proof. vm_compute. reflexivity. Qed.

  Example late_counterexample :
    all_enabled p_late g_std (cfg0 (map_op idf)) [MIn (ISub 0 0); MRet] = true /\
    let c := run p_late (map_op idf) [MIn (ISub 0 0); MRet] in
    subd (ms c) 0 = true /\ sk (ms c) 0 = SNone /\ stack c = [].
  Proof. vm_compute. repeat split; reflexivity. Qed.

  (** interval refused by the nursery: subscribed, never greeted, but [sk 0 = SFinished] *)
  Example interval_refused :
    all_enabled p0 (fun _ _ => true) (cfg0 interval_op) [MIn (ISub 0 1); MRet] = true /\
    let c := run p0 interval_op [MIn (ISub 0 1); MRet] in
    subd (ms c) 0 = true /\ sk (ms c) 0 = SFinished /\ stack c = [] /\ viols (ms c) = [].
  Proof. vm_compute. repeat split; reflexivity. Qed.
End SyncSanity.
