(** * ThreadsTakeCombine: take(max) behind combine! of n member threads (C19; the README's
      [pipe!(combine!(interval, interval), ..., take(n), ...)] shape)

    The composition of the interleaving models of combine (Threads.v, the repaired code) and take:
    where combine's member handler would deliver a tuple to the sink it calls take's source handler,
    which counts ([taken.fetch_update]) and calls the sink; when take has let [max] tuples through it
    claims the end ([end.swap(true)]), sends Terminate to combine's sink talkback - which tells every
    member to stop, ended ones too (KF2) - and completes the sink; when every member has ended combine
    completes take, which completes the sink if nobody did ([end.swap(true)], fix H11).

    Granularity as in Threads.v: one scheduling point per access to a counter, flag or the [vals]
    cell, one inside every delivery to the sink; the talkback cells are local to a step.

      greeting   n_start.fetch_sub(1)          XcAtStartDec    (last: greets take, which greets the sink)
      Data v     vals.load()                   XcAtValsLoad v
                 vals.rcu: load / cas          XcAtRcuLoad v wn / XcAtRcuCas v wn ver
                 n_data.fetch_sub(1) / load()  XcAtDataDec / XcAtDataLoad
                 vals.load() (the tuple)       XcAtEmitLoad
                 taken.fetch_update(..)        XcAtTaken x
                 (sink Data)                   XcInData t'
                 end.swap(true)                XcAtEndSwap     (t' = max; [fixed])
                   [end.load / end.store       XcAtEndLoad / XcAtEndStore   (not fixed)]
                 (Terminate to every member; sink Terminate)   XcInTerm
      end        n_end.fetch_sub(1)            XcAtEndDec      (Error is counted like Terminate, KF1)
                 end.swap(true)                XcAtEndSwapT    (last member: take's Terminate arm; [fixed])
                 (sink Terminate)              XcInTermAll *)

From CB Require Export ThreadSpec ThreadsFine.

Set Implicit Arguments.

Inductive xc_pc : Type :=
| XcAtStartDec
| XcInGreet
| XcAtValsLoad (v : val)
| XcAtRcuLoad (v : val) (wasnone : bool)
| XcAtRcuCas (v : val) (wasnone : bool) (ver : nat)
| XcAtDataDec
| XcAtDataLoad
| XcAtEmitLoad
| XcAtTaken (x : val)
| XcInData (t' : nat)
| XcAtEndSwap
| XcAtEndLoad
| XcAtEndStore
| XcInTerm
| XcAtEndDec
| XcAtEndSwapT
| XcInTermAll
| XcFinished.

Record xc_thread : Type := mk_xc_thread { xc_pcv : xc_pc; xc_q : list val; xc_fin : final }.

Record xc_state : Type := mk_xc_state {
  xcs_nstart : nat; xcs_ndata : nat; xcs_nend : nat;      (* combine *)
  xcs_vals : nat -> option val;
  xcs_ver : nat;
  xcs_stopped : nat -> bool;
  xcs_taken : nat; xcs_tend : bool;                        (* take *)
  xcs_th : nat -> xc_thread;
  xcs_tr : list tevent;
  xcs_panicked : bool;
}.

#[export] Instance eta_xc_thread : Settable _ := settable! mk_xc_thread <xc_pcv; xc_q; xc_fin>.
#[export] Instance eta_xc_state : Settable _ :=
  settable! mk_xc_state <xcs_nstart; xcs_ndata; xcs_nend; xcs_vals; xcs_ver; xcs_stopped; xcs_taken;
                         xcs_tend; xcs_th; xcs_tr; xcs_panicked>.

Section TakeCombine.
  Variable fixed : bool.      (* take's end claimed with one swap on every path (H11) *)
  Variable max : nat.
  Variable n : nat.

  Definition xc_init (qs : nat -> list val) (fins : nat -> final) : xc_state :=
    {| xcs_nstart := n; xcs_ndata := n; xcs_nend := n;
       xcs_vals := fun _ => None; xcs_ver := 0; xcs_stopped := fun _ => false;
       xcs_taken := 0; xcs_tend := false;
       xcs_th := fun t => {| xc_pcv := if t <? n then XcAtStartDec else XcFinished;
                             xc_q := qs t; xc_fin := fins t |};
       xcs_tr := []; xcs_panicked := false |}.

  Definition xc_set (s : xc_state) (t : nat) (th : xc_thread) : xc_state :=
    s <| xcs_th := upd (xcs_th s) t th |>.
  Definition xc_emit (s : xc_state) (t : nat) (e : tev) : xc_state :=
    s <| xcs_tr := (t, e) :: xcs_tr s |>.

  Definition xc_next (s : xc_state) (t : nat) (th : xc_thread) : xc_state :=
    if xcs_stopped s t then xc_set s t (th <| xc_pcv := XcFinished |>)
    else
      match xc_q th with
      | v :: q' => xc_set s t (th <| xc_pcv := XcAtValsLoad v |> <| xc_q := q' |>)
      | [] =>
          match xc_fin th with
          | FinNone => xc_set s t (th <| xc_pcv := XcFinished |>)
          | _ => xc_set s t (th <| xc_pcv := XcAtEndDec |>)
          end
      end.

  Definition xc_after_count (s : xc_state) (t : nat) (th : xc_thread) (nd : nat) : xc_state :=
    if Nat.eqb nd 0 then xc_set s t (th <| xc_pcv := XcAtEmitLoad |>) else xc_next s t th.

  (** combine's sink talkback, Terminate: every member is told to stop, in index order *)
  Fixpoint xc_stop_all (k : nat) (t : nat) (s : xc_state) : xc_state :=
    match k with
    | 0 => s
    | S k' =>
        let s' := xc_stop_all k' t s in
        xc_emit (s' <| xcs_stopped := upd (xcs_stopped s') k' true |>) t (TUp k' UT)
    end.

  (** take ends: upstream, then the sink *)
  Definition xc_end_now (s : xc_state) (t : nat) (th : xc_thread) : xc_state :=
    let s1 := xc_stop_all n t (s <| xcs_tend := true |>) in
    xc_set (xc_emit s1 t (TBegin DT)) t (th <| xc_pcv := XcInTerm |>).

  Definition xc_step (s : xc_state) (t : nat) : xc_state :=
    let th := xcs_th s t in
    match xc_pcv th with
    | XcAtStartDec =>
        let ns := pred (xcs_nstart s) in
        let s1 := s <| xcs_nstart := ns |> in
        if Nat.eqb ns 0 then xc_set (xc_emit s1 t (TBegin DH)) t (th <| xc_pcv := XcInGreet |>)
        else xc_next s1 t th
    | XcInGreet => xc_next (xc_emit s t TEnd) t th
    | XcAtValsLoad v =>
        let wasnone := match xcs_vals s t with None => true | Some _ => false end in
        xc_set s t (th <| xc_pcv := XcAtRcuLoad v wasnone |>)
    | XcAtRcuLoad v wn => xc_set s t (th <| xc_pcv := XcAtRcuCas v wn (xcs_ver s) |>)
    | XcAtRcuCas v wn ver =>
        if Nat.eqb ver (xcs_ver s) then
          xc_set (s <| xcs_vals := upd (xcs_vals s) t (Some v) |> <| xcs_ver := S (xcs_ver s) |>) t
                 (th <| xc_pcv := if wn then XcAtDataDec else XcAtDataLoad |>)
        else xc_set s t (th <| xc_pcv := XcAtRcuLoad v wn |>)
    | XcAtDataDec =>
        let nd := pred (xcs_ndata s) in
        xc_after_count (s <| xcs_ndata := nd |>) t th nd
    | XcAtDataLoad => xc_after_count s t th (xcs_ndata s)
    | XcAtEmitLoad =>
        match cb_tuple (xcs_vals s) n with
        | Some l => xc_set s t (th <| xc_pcv := XcAtTaken (VT l) |>)     (* take's Data arm is entered *)
        | None => xc_set (xc_emit s t TPanic <| xcs_panicked := true |>) t (th <| xc_pcv := XcFinished |>)
        end
    | XcAtTaken x =>
        if xcs_taken s <? max then
          let t' := S (xcs_taken s) in
          xc_set (xc_emit (s <| xcs_taken := t' |>) t (TBegin (DD x))) t (th <| xc_pcv := XcInData t' |>)
        else xc_next s t th
    | XcInData t' =>
        let s1 := xc_emit s t TEnd in
        if Nat.eqb t' max then xc_set s1 t (th <| xc_pcv := if fixed then XcAtEndSwap else XcAtEndLoad |>)
        else xc_next s1 t th
    | XcAtEndSwap => if xcs_tend s then xc_next s t th else xc_end_now s t th
    | XcAtEndLoad => if xcs_tend s then xc_next s t th else xc_set s t (th <| xc_pcv := XcAtEndStore |>)
    | XcAtEndStore => xc_end_now s t th
    | XcInTerm => xc_next (xc_emit s t TEnd) t th
    | XcAtEndDec =>
        let ne := pred (xcs_nend s) in
        let s1 := s <| xcs_nend := ne |> in
        if Nat.eqb ne 0 then
          if fixed then xc_set s1 t (th <| xc_pcv := XcAtEndSwapT |>)
          else xc_set (xc_emit s1 t (TBegin DT)) t (th <| xc_pcv := XcInTermAll |>)
        else xc_set s1 t (th <| xc_pcv := XcFinished |>)
    | XcAtEndSwapT =>
        if xcs_tend s then xc_set s t (th <| xc_pcv := XcFinished |>)
        else xc_set (xc_emit (s <| xcs_tend := true |>) t (TBegin DT)) t (th <| xc_pcv := XcInTermAll |>)
    | XcInTermAll => xc_set (xc_emit s t TEnd) t (th <| xc_pcv := XcFinished |>)
    | XcFinished => s
    end.

  Definition xc_finished (s : xc_state) (t : nat) : bool :=
    match xc_pcv (xcs_th s t) with XcFinished => true | _ => false end.
End TakeCombine.

(** what C19 asks of such a trace: the checks of [takemerge_check], and every tuple is complete and made
    of values actually sent (C18) *)
Definition takecombine_check (max n : nat) (qs : nat -> list val) (tr : list tevent) : list tviol :=
  takemerge_check max tr
  ++ flat_map (fun e => match snd e with
                        | TBegin (DD (VT l)) =>
                            flagt (Nat.eqb (length l) n) TvIncompleteTuple
                            ++ flagt (tuple_ok qs 0 l) TvDataForged
                        | TBegin (DD _) => [TvIncompleteTuple]
                        | _ => [] end) tr.
