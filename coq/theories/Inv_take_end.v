(** * Inv_take_end: when the end of the source can arrive, take's [end] flag is unset

    /repo/src/take.rs (fix commit 7f77d2f) guards the source-side Terminate and
    Error arms with [if !end.swap(true) { forward to the sink }], and so does the
    sequential model [take_handle] (Ops.v, arms [IDn 0 (DE e)] and [IDn 0 DT]).
    The guard matters under threads (ThreadsTakeMerge.v) and for peers that break
    the protocol (a source that ends twice); this file proves that in the
    conformant sequential environment it is invisible:

    - [take_end_unset_when_source_ends]: in every configuration reachable in
      the conformant environment of Inv_take.v in which the environment may
      deliver Terminate/Error from upstream 0, [tk_end] is false (the guard
      takes the forwarding branch: the end of the source always reaches the sink);
    - [take_live_end_unset]: the same fact stated on the monitor alone
      (upstream 0 live), which is what the first theorem uses of [enabled];
    - [take_after_source_end_quiet]: once upstream 0 has ended by itself the
      only enabled moves are returns of frames whose [resume] ignores the state
      ([resume k s = (s, [], ARet)] for *every* s): [tk_end] is never read again
      (Flow_take.v uses this to carry "the source has ended" over a step).

    There is no intermediate configuration with [tk_end = true] and the
    upstream still live: the state update and the [ACall (CUp 0 _)] that stops
    the upstream are settled by one [step] (Machine.v, [settle]: the [ECall]
    event reaches the monitor in the same step), so the theorem needs no "at
    rest" side condition beyond [enabled] itself. *)
From CB Require Import ProofLib Spec Inv_take.

Set Implicit Arguments.

Section TakeEnd.
  Variable max : nat.
  Hypothesis Hmax : 1 <= max.
  Variable p : mparams.
  Hypothesis Hns : nsinks p = 1.
  Hypothesis Hresub : resub p = false.
  Hypothesis Hnonest : no_nest p = false.
  Hypothesis Hc14 : c14 p = false.
  Local Notation o := (take_op max).

  (** what [enabled] says for a terminal message of upstream 0: the monitor
      has it live *)
  Lemma enabled_end_live (c : cfg o) m :
    (m = DT \/ exists e, m = DE e) ->
    enabled p g_std c (MIn (IDn 0 m)) = true ->
    us (ms c) 0 = ULive.
  Proof.
    intros Hm He. start_in He Hlive Hdel Hg.
    cbn in He. apply andb_prop in He. destruct He as [_ He].
    assert (Hl : us_live (us (ms c) 0) = true).
    { destruct Hm as [-> | [e ->]]; apply andb_prop in He; tauto. }
    destruct (us (ms c) 0); cbn in Hl; try discriminate. reflexivity.
  Qed.

  (** the monitor has upstream 0 live: the flag is unset *)
  Lemma live_end_unset_sec (c : cfg o) :
    reach p g_std c -> us (ms c) 0 = ULive -> tk_end (cst c) = false.
  Proof.
    intros Hr Hus.
    pose proof (i_phase (inv_reach Hmax Hns Hresub Hnonest Hc14 Hr)) as Hph.
    rewrite Hus in Hph.
    destruct (sk (ms c) 0); cbn in Hph; try tauto.
  Qed.

  Lemma end_unset_sec (c : cfg o) m :
    reach p g_std c ->
    (m = DT \/ exists e, m = DE e) ->
    enabled p g_std c (MIn (IDn 0 m)) = true ->
    tk_end (cst c) = false.
  Proof.
    intros Hr Hm He. apply live_end_unset_sec; [exact Hr|].
    eapply enabled_end_live; eassumption.
  Qed.

  (** after the source ended by itself: only returns, and the frames that
      return do not look at the state *)
  Lemma after_end_quiet_sec (c : cfg o) mv :
    reach p g_std c -> us (ms c) 0 = UEnded ->
    enabled p g_std c mv = true ->
    mv = MRet /\
    exists k cl rest, stack c = (k, cl) :: rest /\
                      forall s, resume o k s = (s, [], ARet).
  Proof.
    intros Hr Hus He.
    pose proof (inv_reach Hmax Hns Hresub Hnonest Hc14 Hr) as HI.
    destruct mv as [[s aux|s u|i d|s]|].
    - (* a subscription: sink 0 has subscribed, there is no other sink *)
      exfalso. pose proof (i_subd HI) as i_subd0. start_in He Hlive Hdel Hg.
      cbn in He. rewrite Hns in He.
      apply andb_prop in He. destruct He as [He Hsub].
      apply andb_prop in He. destruct He as [_ Hlt].
      destruct s as [|s]; [|cbn in Hlt; discriminate].
      apply negb_true_iff in Hsub. specialize (i_subd0 Hsub). congruence.
    - (* the sink: it is finished *)
      exfalso. pose proof (i_phase HI) as Hph. pose proof (i_sk_other HI) as i_sk_other0.
      start_in He Hlive Hdel Hg.
      cbn in He. apply andb_prop in He. destruct He as [He _].
      apply andb_prop in He. destruct He as [_ Hsk].
      destruct s as [|s]; [|rewrite i_sk_other0 in Hsk by lia; discriminate].
      rewrite Hus in Hph.
      destruct (sk (ms c) 0); cbn in Hph; try tauto; discriminate.
    - (* an upstream: 0 has ended, the others were never subscribed *)
      exfalso. pose proof (i_us_other HI) as i_us_other0. start_in He Hlive Hdel Hg.
      cbn in He. apply andb_prop in He. destruct He as [_ He].
      destruct i as [|i].
      + rewrite Hus in He. destruct d; cbn in He; discriminate.
      + rewrite i_us_other0 in He by lia. destruct d; cbn in He; discriminate.
    - (* a task: take has none *)
      exfalso. pose proof (i_task HI) as i_task0. unfold enabled in He.
      repeat (apply andb_prop in He; destruct He as [? He]).
      cbn in He. now rewrite i_task0 in He.
    - split; [reflexivity|].
      destruct (enabled_ret_stack _ _ _ He) as (k & cl & rest & Hst).
      exists k, cl, rest. split; [exact Hst|].
      pose proof (i_phase HI) as Hph. rewrite Hus, Hst in Hph.
      destruct (sk (ms c) 0); cbn in Hph; try tauto.
      apply low_inv in Hph. destruct Hph as [Hk _].
      intros s. exact (@resume_low max k cl s Hk).
  Qed.

End TakeEnd.

(** the exported statements, closed over the parameters exactly as
    [take_safe] of Inv_take.v *)
Theorem take_end_unset_when_source_ends p :
  nsinks p = 1 -> resub p = false -> no_nest p = false -> c14 p = false ->
  forall max, 1 <= max ->
  forall (c : cfg (take_op max)) (m : dmsg),
  reach p g_std c ->
  (m = DT \/ exists e, m = DE e) ->
  enabled p g_std c (MIn (IDn 0 m)) = true ->
  tk_end (cst c) = false.
Proof.
  intros H1 H2 H3 H4 max Hmax c m Hr Hm He. exact (end_unset_sec Hmax H1 H2 H3 H4 Hr Hm He).
Qed.
Print Assumptions take_end_unset_when_source_ends.

Theorem take_live_end_unset p :
  nsinks p = 1 -> resub p = false -> no_nest p = false -> c14 p = false ->
  forall max, 1 <= max ->
  forall c : cfg (take_op max),
  reach p g_std c -> us (ms c) 0 = ULive -> tk_end (cst c) = false.
Proof.
  intros H1 H2 H3 H4 max Hmax c Hr Hus. exact (live_end_unset_sec Hmax H1 H2 H3 H4 Hr Hus).
Qed.
Print Assumptions take_live_end_unset.

Theorem take_after_source_end_quiet p :
  nsinks p = 1 -> resub p = false -> no_nest p = false -> c14 p = false ->
  forall max, 1 <= max ->
  forall (c : cfg (take_op max)) (mv : move),
  reach p g_std c -> us (ms c) 0 = UEnded ->
  enabled p g_std c mv = true ->
  mv = MRet /\
  exists k cl rest, stack c = (k, cl) :: rest /\
                    forall s, resume (take_op max) k s = (s, [], ARet).
Proof.
  intros H1 H2 H3 H4 max Hmax c mv Hr Hus He.
  exact (@after_end_quiet_sec max Hmax p H1 H2 H3 H4 c mv Hr Hus He).
Qed.
Print Assumptions take_after_source_end_quiet.

(** non-vacuity: conformant scripts of take(2) that end in configurations
    where the environment may deliver Terminate (and Error) from upstream 0 -
    at rest after the greeting, and nested inside the first data delivery while
    the sink is pulling (the upstream is in control, the stack is not empty) -
    and there the flag is indeed unset.  The last example shows why the premise
    is needed: once the second (= max-th) delivery has returned, the flag is
    set and the monitor no longer lets the upstream end. *)
Module TakeEndSanity.
  Definition p0 : mparams :=
    {| nsinks := 1; late_ok := false; pullable := false; one_pull := false;
       resub := false; no_nest := false; c14 := false |}.

  Definition at_rest : list move :=
    [MIn (ISub 0 0); MIn (IDn 0 DH); MRet; MRet].
  Example at_rest_enabled : all_enabled p0 g_std (cfg0 (take_op 2)) at_rest = true.
  Proof. vm_compute. reflexivity. Qed.
  Example at_rest_reach : reach p0 g_std (run p0 (take_op 2) at_rest).
  Proof. apply reach_run. exact at_rest_enabled. Qed.
  Example at_rest_premise :
    let c := run p0 (take_op 2) at_rest in
    stack c = [] /\
    enabled p0 g_std c (MIn (IDn 0 DT)) = true /\
    enabled p0 g_std c (MIn (IDn 0 (DE 100))) = true /\
    tk_end (cst c) = false.
  Proof. vm_compute. repeat split; reflexivity. Qed.

  Definition nested : list move :=
    [MIn (ISub 0 0); MIn (IDn 0 DH); MIn (IUp 0 UP); MIn (IDn 0 (DD (VN 1)));
     MIn (IUp 0 UP)].
  Example nested_enabled : all_enabled p0 g_std (cfg0 (take_op 2)) nested = true.
  Proof. vm_compute. reflexivity. Qed.
  Example nested_premise :
    let c := run p0 (take_op 2) nested in
    length (stack c) = 5 /\
    enabled p0 g_std c (MIn (IDn 0 DT)) = true /\
    enabled p0 g_std c (MIn (IDn 0 (DE 100))) = true /\
    tk_end (cst c) = false.
  Proof. vm_compute. repeat split; reflexivity. Qed.

  (** the theorem applied to the concrete configuration *)
  Example at_rest_instance : tk_end (cst (run p0 (take_op 2) at_rest)) = false.
  Proof.
    apply (@take_end_unset_when_source_ends p0 eq_refl eq_refl eq_refl eq_refl 2
             (le_S _ _ (le_n 1)) _ DT at_rest_reach (or_introl eq_refl)).
    vm_compute. reflexivity.
  Qed.

  (** the max-th delivery returned, take is stopping the upstream: the flag is
      set, and the upstream may not end any more *)
  Definition stopping : list move :=
    [MIn (ISub 0 0); MIn (IDn 0 DH); MRet; MRet;
     MIn (IDn 0 (DD (VN 1))); MRet; MIn (IDn 0 (DD (VN 2))); MRet].
  Example stopping_enabled : all_enabled p0 g_std (cfg0 (take_op 2)) stopping = true.
  Proof. vm_compute. reflexivity. Qed.
  Example stopping_end_set :
    let c := run p0 (take_op 2) stopping in
    tk_end (cst c) = true /\ us (ms c) 0 = UStopped /\
    enabled p0 g_std c (MIn (IDn 0 DT)) = false /\
    enabled p0 g_std c (MIn (IDn 0 (DE 100))) = false.
  Proof. vm_compute. repeat split; reflexivity. Qed.
End TakeEndSanity.
