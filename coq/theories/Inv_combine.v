(** * Inv_combine: the master invariant of combine, for every arity n >= 1 *)
From CB Require Import ProofLib Spec.

Set Implicit Arguments.

(** the four kinds of violation combine is known to commit (known findings) *)
Definition known_combine (v : vkind) : Prop :=
  match v with
  | VErrLost _ | VPullAfterEnd _ | VStopAfterEnd _ | VPullAfterStop _ => True
  | _ => False
  end.

(** ** Counting the members below [k] that satisfy [P] *)
Fixpoint cnt (P : nat -> bool) (k : nat) : nat :=
  match k with
  | 0 => 0
  | S k' => cnt P k' + (if P k' then 1 else 0)
  end.

Lemma cnt_le P k : cnt P k <= k.
Proof. induction k as [|k IH]; cbn; [lia|]. destruct (P k); lia. Qed.

Lemma cnt_ext P Q k : (forall j, j < k -> Q j = P j) -> cnt Q k = cnt P k.
Proof.
  induction k as [|k IH]; cbn; intros H; [reflexivity|].
  rewrite IH by (intros; apply H; lia). rewrite (H k) by lia. reflexivity.
Qed.

Lemma cnt_set P Q i k :
  i < k -> P i = false -> Q i = true -> (forall j, j < k -> j <> i -> Q j = P j) ->
  cnt Q k = S (cnt P k).
Proof.
  induction k as [|k IH]; cbn; intros Hi HP HQ H; [lia|].
  destruct (Nat.eq_dec i k) as [->|Hne].
  - rewrite HP, HQ. rewrite (@cnt_ext P Q k) by (intros; apply H; lia). lia.
  - rewrite IH by (auto; try lia; intros; apply H; lia).
    rewrite (H k) by lia. lia.
Qed.

Lemma cnt_full P k : cnt P k = k -> forall j, j < k -> P j = true.
Proof.
  induction k as [|k IH]; cbn; intros H j Hj; [lia|].
  pose proof (cnt_le P k) as Hle.
  destruct (P k) eqn:E; [|lia].
  destruct (Nat.eq_dec j k) as [->|Hne]; [exact E|]. apply IH; lia.
Qed.

Lemma cnt_full_inv P k : (forall j, j < k -> P j = true) -> cnt P k = k.
Proof.
  induction k as [|k IH]; cbn; intros H; [reflexivity|].
  rewrite IH by (intros; apply H; lia). rewrite (H k) by lia. lia.
Qed.

Lemma cnt_zero P k : (forall j, j < k -> P j = false) -> cnt P k = 0.
Proof.
  induction k as [|k IH]; cbn; intros H; [reflexivity|].
  rewrite IH by (intros; apply H; lia). rewrite (H k) by lia. lia.
Qed.

Lemma cnt_lt P i k : i < k -> P i = false -> cnt P k < k.
Proof.
  intros Hi HP. pose proof (cnt_le P k) as Hle.
  destruct (Nat.eq_dec (cnt P k) k) as [E|E]; [|lia].
  rewrite (cnt_full P E Hi) in HP. discriminate.
Qed.

Lemma cnt_ex P k : cnt P k < k -> exists j, j < k /\ P j = false.
Proof.
  induction k as [|k IH]; cbn; intros H; [lia|].
  destruct (P k) eqn:E.
  - destruct IH as (j & Hj & HP); [lia|]. exists j. split; [lia|exact HP].
  - exists k. split; [lia|exact E].
Qed.

(** ** The tuple *)
Lemma cb_tuple_some vals k :
  (forall j, j < k -> vals j <> None) -> exists l, cb_tuple vals k = Some l.
Proof.
  induction k as [|k IH]; cbn; intros H; [now exists []|].
  destruct IH as (l & ->); [intros; apply H; lia|].
  destruct (vals k) as [v|] eqn:E; [|exfalso; apply (H k); [lia|exact E]].
  now exists (l ++ [v]).
Qed.

Lemma cb_tuple_spec vals k l :
  cb_tuple vals k = Some l -> length l = k /\ forall j, j < k -> nth_error l j = vals j.
Proof.
  revert l. induction k as [|k IH]; cbn; intros l H.
  - inversion H; subst. split; [reflexivity|]. intros; lia.
  - destruct (cb_tuple vals k) as [l0|] eqn:E0; [|discriminate].
    destruct (vals k) as [v|] eqn:Ev; [|discriminate].
    inversion H; subst. destruct (IH l0 eq_refl) as [Hlen Hnth].
    split; [rewrite app_length; cbn; lia|].
    intros j Hj. destruct (Nat.eq_dec j k) as [->|Hne].
    + rewrite nth_error_app2 by lia. rewrite Hlen, Nat.sub_diag. cbn. now rewrite Ev.
    + rewrite nth_error_app1 by lia. apply Hnth. lia.
Qed.

(** the most recent payload member [j] sent, over a trace given latest first
    ([rtrace c], of which [trace c] is the reversal) *)
Fixpoint latest (j : nat) (rtr : list event) : option val :=
  match rtr with
  | [] => None
  | EIn (IDn i (DD v)) :: r => if Nat.eqb i j then Some v else latest j r
  | _ :: r => latest j r
  end.

Definition greetedb (u : uss) : bool :=
  match u with UNone | USubd => false | _ => true end.
Definition endedb (u : uss) : bool :=
  match u with UEnded => true | _ => false end.
Definition is_some A (x : option A) : bool :=
  match x with Some _ => true | None => false end.

(** frames that may sit on the stack outside a stop broadcast *)
Fixpoint stk_ok (ns : nat) (g : bool) (st : list (cb_fr * call)) : Prop :=
  match st with
  | [] => True
  | (CbDone, _) :: r => stk_ok ns g r
  | (CbSub j, _) :: r => j = ns /\ r = []
  | (CbBcast u _, _) :: r => u = UP /\ g = true /\ stk_ok ns g r
  end.

Lemma stk_ok_g ns st : stk_ok ns false st -> stk_ok ns true st.
Proof.
  induction st as [|[[|j|u j] cl] r IH]; cbn; auto.
  intros (_ & H & _). discriminate.
Qed.

Lemma Forall_known_app l1 l2 :
  Forall known_combine l1 -> Forall known_combine l2 -> Forall known_combine (l1 ++ l2).
Proof. intros H1 H2. apply Forall_app. split; assumption. Qed.

Section CombineInv.
  Variable n : nat.
  Hypothesis Hn : 1 <= n.
  Variable p : mparams.
  Hypothesis Hns : nsinks p = 1.
  Hypothesis Hresub : resub p = false.
  Hypothesis Hnonest : no_nest p = false.
  Hypothesis Hc14 : c14 p = false.
  Hypothesis Hlate : late_ok p = false.
  Let o := combine_op n.
  Notation gc := g_std.

  (** the sink has been greeted *)
  Definition grt (c : cfg o) : bool :=
    match sk (ms c) 0 with SNone => false | _ => true end.
  (** members subscribed so far *)
  Definition nsub (c : cfg o) : nat := length (ports (ms c)).

  (** before, during and after the one stop broadcast the sink can cause *)
  Inductive phase (c : cfg o) : Prop :=
  | PhRun :
      sk (ms c) 0 <> SDisposed -> stk_ok (nsub c) (grt c) (stack c) ->
      (forall k, us (ms c) k <> UStopped) -> phase c
  | PhStopping u j r :
      sk (ms c) 0 = SDisposed -> stack c = (CbBcast u (S j), CUp j u) :: r ->
      umsg_is_term u = true -> j < n -> stk_ok (nsub c) true r ->
      (forall k, k < n -> (k <= j -> us (ms c) k = UStopped) /\
                          (j < k -> us (ms c) k <> UStopped)) ->
      phase c
  | PhStopped :
      sk (ms c) 0 = SDisposed -> stk_ok (nsub c) true (stack c) ->
      (forall k, k < n -> us (ms c) k = UStopped) -> phase c.

  Record Inv (c : cfg o) : Prop := {
    i_dead : dead c = false;
    i_viols : Forall known_combine (viols (ms c));
    i_cstack : cstack (ms c) = map snd (stack c);
    i_task : forall s, task (ms c) s = false;
    i_sk_other : forall s, s <> 0 -> sk (ms c) s = SNone;
    i_subd : subd (ms c) 0 = false ->
             ports (ms c) = [] /\ sk (ms c) 0 = SNone /\ rtrace c = [] /\ ndata (ms c) 0 = 0 /\
             stack c = [];
    i_nsub : nsub c <= n;
    i_ports : forall i, In i (ports (ms c)) -> i < nsub c;
    i_unone : forall k, us (ms c) k = UNone <-> nsub c <= k;
    i_tbs : forall k, k < n -> cb_tbs (cst c) k = greetedb (us (ms c) k);
    i_nstart : cb_nstart (cst c) + cnt (cb_tbs (cst c)) n = n;
    i_skn : sk (ms c) 0 = SNone <-> cb_nstart (cst c) <> 0;
    i_vals : forall k, k < n -> cb_vals (cst c) k <> None -> cb_tbs (cst c) k = true;
    i_ndata : cb_ndata (cst c) + cnt (fun k => is_some (cb_vals (cst c) k)) n = n;
    i_nend : sk (ms c) 0 <> SDisposed ->
             cb_nend (cst c) + cnt (fun k => endedb (us (ms c) k)) n = n;
    i_nend0 : sk (ms c) 0 <> SDisposed ->
              (cb_nend (cst c) = 0 <-> sk (ms c) 0 = SFinished);
    i_phase : phase c;
    (* C10 *)
    i_latest : forall j, cb_vals (cst c) j = latest j (rtrace c);
    (* whenever the last event is a call of a sink: it is sink 0, and the message is the
       greeting, the tuple of the current values, or the Terminate that finishes the sink *)
    i_last : forall s d r, rtrace c = ECall (CDn s d) :: r ->
             s = 0 /\
             match d with
             | DH => True
             | DD x => exists l, x = VT l /\ cb_tuple (cb_vals (cst c)) n = Some l
             | DE _ => False
             | DT => sk (ms c) 0 = SFinished
             end;
    i_mdata : 0 < ndata (ms c) 0 -> cb_ndata (cst c) = 0;
  }.

  Lemma inv0 : Inv (cfg0 o).
  Proof.
    constructor; cbn; auto; try (intros; lia); try (intros; congruence).
    all: try (rewrite cnt_zero by reflexivity).
    all: try (split; intros; try lia; try reflexivity; discriminate).
    all: try lia.
    apply PhRun; cbn; auto; discriminate.
  Qed.

  (** *** consequences of the invariant *)
  Lemma inv_lt c k : Inv c -> us (ms c) k <> UNone -> k < n.
  Proof.
    intros HI H. pose proof (i_nsub HI). pose proof (i_unone HI k) as [_ Hk].
    destruct (le_lt_dec (nsub c) k); [tauto|lia].
  Qed.

  Lemma inv_allg c : Inv c -> sk (ms c) 0 <> SNone -> forall k, k < n -> cb_tbs (cst c) k = true.
  Proof.
    intros HI H. pose proof (i_skn HI) as [_ H2]. pose proof (i_nstart HI) as H3.
    assert (cb_nstart (cst c) = 0) by (destruct (cb_nstart (cst c)); [reflexivity|]; exfalso; apply H, H2; lia).
    apply cnt_full. lia.
  Qed.

  Lemma inv_allg_us c : Inv c -> sk (ms c) 0 <> SNone ->
                        forall k, k < n -> greetedb (us (ms c) k) = true.
  Proof. intros HI H k Hk. rewrite <- (i_tbs HI Hk). now apply inv_allg. Qed.

  Lemma inv_skn_of c k : Inv c -> k < n -> cb_tbs (cst c) k = false -> sk (ms c) 0 = SNone.
  Proof.
    intros HI Hk H. apply (i_skn HI). pose proof (i_nstart HI).
    pose proof (cnt_lt (cb_tbs (cst c)) Hk H). lia.
  Qed.

  (** *** the monitor at the end of an activation *)
  Definition qviols (m : mstate) : list vkind :=
    match cstack m with [] => check_quiescent p m | _ => [] end.

  Lemma settle_ret m : ms_settle p o m [] ARet = m <| viols := qviols m ++ viols m |>.
  Proof.
    unfold ms_settle, qviols. cbn.
    destruct (cstack m); [apply add_viols_eq | destruct m; reflexivity].
  Qed.

  Lemma quiescent_known m :
    (sk_over (sk m 0) = true -> forall i, In i (ports m) -> us_live (us m i) = false) ->
    Forall known_combine (check_quiescent p m).
  Proof.
    intros H. unfold check_quiescent. rewrite Hresub, Hc14. cbn. rewrite app_nil_r.
    apply Forall_known_app.
    - destruct (sk_over (sk m 0)); [|constructor].
      rewrite filter_nil; [constructor|]. now apply H.
    - apply Forall_forall. intros x Hx. apply in_map_iff in Hx.
      destruct Hx as [s [<- _]]. exact I.
  Qed.

  Lemma qviols_known m :
    (sk_over (sk m 0) = true -> forall i, In i (ports m) -> us_live (us m i) = false) ->
    Forall known_combine (qviols m).
  Proof.
    intros H. unfold qviols. destruct (cstack m); [now apply quiescent_known|constructor].
  Qed.

  (** when the output is over and no stop broadcast is under way, no member is live *)
  Lemma over_ok c :
    Inv c ->
    (forall u j r, stack c = (CbBcast u (S j), CUp j u) :: r -> umsg_is_term u = true -> n <= S j) ->
    sk_over (sk (ms c) 0) = true ->
    forall i, In i (ports (ms c)) -> us_live (us (ms c) i) = false.
  Proof.
    intros HI Hst Hov i Hi.
    assert (Hin : i < n) by (pose proof (i_ports HI i Hi); pose proof (i_nsub HI); lia).
    destruct (i_phase HI) as [Hnd Hok Hns'|u j r Hd Hs Hu Hj Hok Hk|Hd Hok Hk].
    - assert (Hf : sk (ms c) 0 = SFinished) by (destruct (sk (ms c) 0); try discriminate; congruence).
      pose proof (i_nend HI Hnd) as H1. apply (i_nend0 HI Hnd) in Hf.
      assert (E : endedb (us (ms c) i) = true).
      { apply (@cnt_full (fun k => endedb (us (ms c) k)) n); [lia|exact Hin]. }
      destruct (us (ms c) i); try discriminate; reflexivity.
    - specialize (Hst u j r Hs Hu). destruct (Hk i Hin) as [H1 _]. rewrite H1 by lia. reflexivity.
    - now rewrite Hk.
  Qed.

  Lemma mon_call_upd_viols m cl : viols (mon_call_upd m cl) = viols m.
  Proof.
    destruct cl as [i|i u|s d]; cbn; try reflexivity.
    - destruct u; reflexivity.
    - destruct d as [|v|e|]; cbn; try reflexivity.
      + destruct (sk m s); reflexivity.
      + destruct (sk m s), (err_due m s) as [e'|]; cbn; try reflexivity;
          destruct (Nat.eqb e e'); reflexivity.
      + destruct (sk m s); reflexivity.
  Qed.

  Lemma settle_call m cl k :
    ms_settle p o m [] (ACall cl k) =
    mon_call_upd m cl <| cstack := cl :: cstack m |> <| viols := check_call p m cl ++ viols m |>.
  Proof.
    unfold ms_settle. cbn [fold_left map mon_event]. rewrite add_viols_eq.
    unfold set_cstack. cbn. now rewrite mon_call_upd_viols, mon_call_upd_cstack.
  Qed.

  Ltac projs Hm :=
    pose proof (f_equal sk Hm) as Esk; pose proof (f_equal us Hm) as Eus;
    pose proof (f_equal ports Hm) as Eports; pose proof (f_equal subd Hm) as Esubd;
    pose proof (f_equal task Hm) as Etask; pose proof (f_equal cstack Hm) as Ecs;
    pose proof (f_equal viols Hm) as Evi; pose proof (f_equal ndata Hm) as Emd;
    cbn in Esk, Eus, Eports, Esubd, Etask, Ecs, Emd;
    cbn [viols set RecordSet.set] in Evi.

  (** violations of a broadcast call are among the known ones *)
  Lemma cup_known m j u :
    greetedb (us m j) = true -> (umsg_is_term u = true -> us m j <> UStopped) ->
    Forall known_combine (check_call p m (CUp j u)).
  Proof.
    intros Hg Hs. unfold check_call. rewrite Hc14.
    destruct (us m j), u; cbn in *; try discriminate; repeat constructor;
      exfalso; now apply Hs.
  Qed.

  (** a step that leaves the component state and the protocol state alone *)
  Lemma inv_same c c' :
    Inv c -> subd (ms c) 0 = true ->
    cst c' = cst c -> sk (ms c') = sk (ms c) -> us (ms c') = us (ms c) ->
    ports (ms c') = ports (ms c) -> subd (ms c') = subd (ms c) -> task (ms c') = task (ms c) ->
    ndata (ms c') = ndata (ms c) -> dead c' = false ->
    Forall known_combine (viols (ms c')) -> cstack (ms c') = map snd (stack c') ->
    phase c' ->
    (forall j, latest j (rtrace c') = latest j (rtrace c)) ->
    (forall s d r, rtrace c' <> ECall (CDn s d) :: r) ->
    Inv c'.
  Proof.
    intros HI Hsub Ec Esk Eus Eports Esubd Etask Emd Hd Hv Hcs Hph Hlat Hlast.
    constructor; unfold nsub, grt; rewrite ?Ec, ?Esk, ?Eus, ?Eports, ?Esubd, ?Etask, ?Emd;
      try (apply HI; fail); auto.
    - congruence.
    - intros j. rewrite Hlat. apply HI.
    - intros s d r H. now apply Hlast in H.
  Qed.

  (** a stop call of the one stop broadcast reaches member [j] *)
  Lemma inv_stop c c' u j r :
    Inv c -> subd (ms c) 0 = true -> umsg_is_term u = true -> j < n -> sk (ms c) 0 <> SNone ->
    cst c' = cst c -> sk (ms c') 0 = SDisposed ->
    (forall s, s <> 0 -> sk (ms c') s = sk (ms c) s) ->
    us (ms c') = upd (us (ms c)) j UStopped ->
    ports (ms c') = ports (ms c) -> subd (ms c') = subd (ms c) -> task (ms c') = task (ms c) ->
    ndata (ms c') = ndata (ms c) -> dead c' = false ->
    Forall known_combine (viols (ms c')) -> cstack (ms c') = map snd (stack c') ->
    stack c' = (CbBcast u (S j), CUp j u) :: r -> stk_ok (nsub c) true r ->
    (forall k, k < n -> (k < j -> us (ms c) k = UStopped) /\
                        (j <= k -> us (ms c) k <> UStopped)) ->
    (forall i, latest i (rtrace c') = latest i (rtrace c)) ->
    (forall s d r', rtrace c' <> ECall (CDn s d) :: r') ->
    Inv c'.
  Proof.
    intros HI Hsub Hu Hj Hg Ec Esk Esk' Eus Eports Esubd Etask Emd Hd Hv Hcs Hs Hok Hk Hlat Hlast.
    pose proof (inv_allg HI Hg) as Htb. pose proof (inv_allg_us HI Hg) as Hgu.
    assert (Hnj : ~ nsub c <= j).
    { intros H. apply (i_unone HI) in H. specialize (Hgu j Hj). rewrite H in Hgu. discriminate. }
    assert (Hns0 : cb_nstart (cst c) = 0).
    { destruct (cb_nstart (cst c)) eqn:E; [reflexivity|]. exfalso. apply Hg, (i_skn HI). lia. }
    constructor; unfold nsub, grt; rewrite ?Ec, ?Eus, ?Eports, ?Esubd, ?Etask, ?Emd;
      try (apply HI; fail); auto.
    - intros s Hs0. rewrite Esk' by exact Hs0. now apply (i_sk_other HI).
    - congruence.
    - intros k. unfold upd. destruct (Nat.eqb_spec k j); subst.
      + split; [discriminate|]. intros H. exfalso. now apply Hnj.
      + apply (i_unone HI).
    - intros k Hk'. unfold upd. destruct (Nat.eqb_spec k j); subst.
      + cbn. now apply Htb.
      + now apply (i_tbs HI).
    - rewrite Esk, Hns0. split; [discriminate|lia].
    - congruence.
    - congruence.
    - apply PhStopping with (u := u) (j := j) (r := r); unfold nsub; rewrite ?Eus, ?Eports; auto.
      intros k Hk'. unfold upd. destruct (Nat.eqb_spec k j); subst.
      + split; [reflexivity|lia].
      + destruct (Hk k Hk') as [H1 H2]. split; intros; [apply H1|apply H2]; lia.
    - intros i. rewrite Hlat. apply HI.
    - intros s d r' H. now apply Hlast in H.
  Qed.

  Lemma ltb0 : (0 <? n) = true.
  Proof. apply Nat.ltb_lt. lia. Qed.

  Lemma inv_sub c s aux : Inv c -> enabled p gc c (MIn (ISub s aux)) = true ->
                          Inv (step p c (MIn (ISub s aux))).
  Proof.
    intros HI He. start_in He Hlive Hdel Hg.
    cbn in He, Hg. rewrite Hns in He. destruct aux; [|discriminate].
    destruct (at_top c) eqn:Htop; cbn in He; try discriminate.
    destruct s; cbn in He; try discriminate.
    apply negb_true_iff in He. destruct (i_subd HI He) as (Hp & Hsk & Hrt & Hnd & Hst).
    assert (Hh : handle o (ISub 0 0) (cst c) =
                 ({| cb_nstart := n; cb_ndata := n; cb_nend := n;
                     cb_vals := fun _ => None; cb_tbs := fun _ => false |}, [],
                  ACall (CSub 0) (CbSub 1))).
    { cbn. unfold cb_sub. rewrite ltb0. reflexivity. }
    destruct (step_in p c (ISub 0 0) Hlive Hdel Hh) as (Hc & Hs & Hm & Hd).
    pose proof (step_in_rtrace p c (ISub 0 0) Hlive Hdel Hh) as Hr.
    rewrite settle_call in Hm. cbn in Hr. projs Hm.
    assert (Hun : forall k, us (ms c) k = UNone).
    { intros k. apply (i_unone HI). unfold nsub. rewrite Hp. cbn. lia. }
    cbn in Evi. rewrite Hun, Hresub, Hsk in Evi. cbn in Evi. clear Hm.
    set (c' := step p c (MIn (ISub 0 0))) in *. clearbody c'.
    constructor; unfold nsub, grt;
      rewrite ?Hd, ?Hc, ?Hs, ?Hr, ?Esk, ?Eus, ?Eports, ?Esubd, ?Etask, ?Ecs, ?Evi, ?Emd; cbn.
    - reflexivity.
    - apply (i_viols HI).
    - now rewrite (i_cstack HI).
    - apply (i_task HI).
    - apply (i_sk_other HI).
    - discriminate.
    - rewrite Hp. cbn. lia.
    - rewrite Hp. cbn. intros i [<-|[]]. lia.
    - rewrite Hp. cbn. intros k. unfold upd. destruct (Nat.eqb_spec k 0); subst.
      + split; [discriminate|lia].
      + rewrite Hun. split; [lia|reflexivity].
    - intros k Hk. unfold upd. destruct (Nat.eqb k 0); [reflexivity|now rewrite Hun].
    - rewrite cnt_zero by reflexivity. lia.
    - rewrite Hsk. split; [lia|reflexivity].
    - congruence.
    - rewrite cnt_zero by reflexivity. lia.
    - intros _. rewrite cnt_zero; [lia|]. intros j _. unfold upd.
      destruct (Nat.eqb j 0); [reflexivity|now rewrite Hun].
    - intros _. rewrite Hsk. split; [lia|discriminate].
    - apply PhRun; unfold nsub, grt; rewrite ?Esk, ?Eus, ?Eports, ?Hs, ?Hst, ?Hp, ?Hsk; cbn.
      + discriminate.
      + auto.
      + intros k. unfold upd. destruct (Nat.eqb k 0); [discriminate|]. rewrite Hun. discriminate.
    - intros j. now rewrite Hrt.
    - intros s0 d0 r H. discriminate.
    - rewrite Hnd. lia.
  Qed.

  Lemma inv_up c s u : Inv c -> enabled p gc c (MIn (IUp s u)) = true ->
                       Inv (step p c (MIn (IUp s u))).
  Proof.
    intros HI He. start_in He Hlive Hdel Hg.
    cbn in He. apply andb_prop in He. destruct He as [He Hu].
    apply andb_prop in He. destruct He as [Htop Hsk].
    destruct s as [|s]; [|rewrite (i_sk_other HI) in Hsk by lia; discriminate].
    assert (Esk0 : sk (ms c) 0 = SLive) by (destruct (sk (ms c) 0); try discriminate; reflexivity).
    clear Hsk.
    destruct (i_phase HI) as [Hnd Hok Hnst|u' j r Hd' _ _ _ _ _|Hd' _ _]; try congruence.
    assert (Htb : cb_tbs (cst c) 0 = true) by (apply inv_allg; [exact HI|congruence|lia]).
    assert (Hg0 : greetedb (us (ms c) 0) = true) by (apply inv_allg_us; [exact HI|congruence|lia]).
    assert (Hh : handle o (IUp 0 u) (cst c) = (cst c, [], ACall (CUp 0 u) (CbBcast u 1))).
    { cbn. unfold cb_bcast. rewrite ltb0, Htb. reflexivity. }
    destruct (step_in p c (IUp 0 u) Hlive Hdel Hh) as (Hc & Hs & Hm & Hd).
    pose proof (step_in_rtrace p c (IUp 0 u) Hlive Hdel Hh) as Hr.
    rewrite settle_call in Hm. cbn in Hr.
    assert (Hsub : subd (ms c) 0 = true).
    { destruct (subd (ms c) 0) eqn:E; [reflexivity|].
      destruct (i_subd HI E) as (_ & H & _). congruence. }
    assert (Hgrt : grt c = true) by (unfold grt; now rewrite Esk0).
    assert (Hlat : forall j, latest j (rtrace (step p c (MIn (IUp 0 u)))) = latest j (rtrace c))
      by (intros j; rewrite Hr; reflexivity).
    assert (Hlast : forall s d r, rtrace (step p c (MIn (IUp 0 u))) <> ECall (CDn s d) :: r)
      by (intros s d r; rewrite Hr; discriminate).
    assert (Hvi : Forall known_combine
                    (check_call p (mon_input p (ms c) (IUp 0 u)) (CUp 0 u) ++ viols (ms c))).
    { apply Forall_known_app; [|apply (i_viols HI)].
      apply cup_known; destruct u; cbn; auto. }
    assert (Hcs : cstack (ms (step p c (MIn (IUp 0 u)))) = map snd (stack (step p c (MIn (IUp 0 u))))).
    { rewrite Hm, Hs. destruct u; cbn; now rewrite (i_cstack HI). }
    destruct u as [|e|]; projs Hm; cbn [viols mon_input] in Evi.
    - apply inv_same with (c := c); auto.
      + now rewrite Evi.
      + apply PhRun; unfold nsub, grt; rewrite ?Esk, ?Eus, ?Eports, ?Hs; auto.
        cbn. rewrite Esk0. unfold nsub, grt in Hok. rewrite Esk0 in Hok. auto.
    - apply inv_stop with (c := c) (u := UE e) (j := 0) (r := stack c); auto; try lia.
      + congruence.
      + now rewrite Esk.
      + intros s Hs0. rewrite Esk. now apply upd_other.
      + now rewrite Evi.
      + now rewrite <- Hgrt.
      + intros k Hk. split; [lia|]. intros _. apply Hnst.
    - apply inv_stop with (c := c) (u := UT) (j := 0) (r := stack c); auto; try lia.
      + congruence.
      + now rewrite Esk.
      + intros s Hs0. rewrite Esk. now apply upd_other.
      + now rewrite Evi.
      + now rewrite <- Hgrt.
      + intros k Hk. split; [lia|]. intros _. apply Hnst.
  Qed.

  Lemma stk_ok_tl ns g f r : stk_ok ns g (f :: r) -> stk_ok ns g r.
  Proof.
    destruct f as [[|j|u j] cl]; cbn; auto.
    - intros [_ ->]. exact I.
    - tauto.
  Qed.

  Lemma inv_subd_stack c f r : Inv c -> stack c = f :: r -> subd (ms c) 0 = true.
  Proof.
    intros HI Hst. destruct (subd (ms c) 0) eqn:E; [reflexivity|].
    destruct (i_subd HI E) as (_ & _ & _ & _ & H). congruence.
  Qed.

  Lemma bcast_greeted c u j cl rest :
    Inv c -> stack c = (CbBcast u j, cl) :: rest -> sk (ms c) 0 <> SNone.
  Proof.
    intros HI Hst. destruct (i_phase HI) as [Hnd Hok Hnst|u' j' r Hd' _ _ _ _ _|Hd' _ _];
      try congruence.
    rewrite Hst in Hok. cbn in Hok. destruct Hok as (_ & Hg & _). unfold grt in Hg.
    destruct (sk (ms c) 0); congruence.
  Qed.

  (** a resumed activation that has nothing left to do *)
  Lemma inv_ret_done c k cl rest :
    Inv c -> dead c = false -> stack c = (k, cl) :: rest ->
    resume o k (cst c) = (cst c, [], ARet) ->
    (forall u j, k = CbBcast u (S j) -> umsg_is_term u = true -> n <= S j) ->
    Inv (step p c MRet).
  Proof.
    intros HI Hlive Hst Hh Hlastj.
    destruct (step_ret p c Hlive Hst Hh) as (Hc & Hs & Hm & Hd).
    pose proof (step_ret_rtrace p c Hlive Hst Hh) as Hr.
    rewrite settle_ret in Hm. cbn in Hr. projs Hm.
    apply inv_same with (c := c); auto.
    - eapply inv_subd_stack; eauto.
    - rewrite Evi. apply Forall_known_app; [|apply (i_viols HI)].
      apply qviols_known. cbn. apply over_ok; [exact HI|].
      intros u j r Hst' Hu. rewrite Hst in Hst'. inversion Hst'; subst. now apply Hlastj with (u := u).
    - rewrite Ecs, Hs, (i_cstack HI), Hst. reflexivity.
    - destruct (i_phase HI) as [Hnd Hok Hnst|u j r Hd' Hs' Hu Hj Hok Hk|Hd' Hok Hk].
      + apply PhRun; unfold nsub, grt; rewrite ?Esk, ?Eus, ?Eports, ?Hs; auto.
        rewrite Hst in Hok. now apply stk_ok_tl in Hok.
      + rewrite Hst in Hs'. inversion Hs'; subst.
        pose proof (Hlastj u j eq_refl Hu) as Hnj.
        apply PhStopped; unfold nsub, grt; rewrite ?Esk, ?Eus, ?Eports, ?Hs; auto.
        intros k Hk'. apply Hk; lia.
      + apply PhStopped; unfold nsub, grt; rewrite ?Esk, ?Eus, ?Eports, ?Hs; auto.
        rewrite Hst in Hok. now apply stk_ok_tl in Hok.
    - intros j. now rewrite Hr.
    - intros s d r. rewrite Hr. discriminate.
  Qed.

  (** the subscription sequence moves on to member [j] *)
  Lemma inv_ret_sub c j cl rest :
    Inv c -> dead c = false -> stack c = (CbSub j, cl) :: rest -> (j <? n) = true ->
    Inv (step p c MRet).
  Proof.
    intros HI Hlive Hst Hlt.
    assert (Hj : j < n) by now apply Nat.ltb_lt.
    assert (Hh : resume o (CbSub j) (cst c) = (cst c, [], ACall (CSub j) (CbSub (S j)))).
    { cbn. unfold cb_sub. now rewrite Hlt. }
    destruct (step_ret p c Hlive Hst Hh) as (Hc & Hs & Hm & Hd).
    pose proof (step_ret_rtrace p c Hlive Hst Hh) as Hr.
    rewrite settle_call in Hm. cbn in Hr. projs Hm.
    pose proof (inv_subd_stack HI Hst) as Hsub.
    assert (Hjr : j = nsub c /\ rest = []).
    { destruct (i_phase HI) as [Hnd Hok Hnst|u j' r Hd' Hs' _ _ _ _|Hd' Hok Hk];
        try (rewrite Hst in Hok; exact Hok). congruence. }
    destruct Hjr as [Hjn ->].
    assert (Hus : us (ms c) j = UNone) by (apply (i_unone HI); lia).
    assert (Htb : cb_tbs (cst c) j = false) by (rewrite (i_tbs HI Hj), Hus; reflexivity).
    pose proof (inv_skn_of HI Hj Htb) as Hsk.
    assert (Hnst : forall k, us (ms c) k <> UStopped).
    { destruct (i_phase HI) as [Hnd Hok Hnst|u j' r Hd' Hs' _ _ _ _|Hd' Hok Hk]; auto; congruence. }
    cbn in Evi. rewrite Hus, Hresub, Hsk in Evi. cbn in Evi. clear Hm.
    unfold nsub in Hjn.
    set (c' := step p c MRet) in *. clearbody c'.
    constructor; unfold nsub, grt;
      rewrite ?Hd, ?Hc, ?Hs, ?Hr, ?Esk, ?Eus, ?Eports, ?Esubd, ?Etask, ?Ecs, ?Evi, ?Emd;
      try (apply HI; fail); cbn [length].
    - reflexivity.
    - rewrite (i_cstack HI), Hst. reflexivity.
    - congruence.
    - lia.
    - intros i [<-|Hi]; [lia|]. apply (i_ports HI) in Hi. unfold nsub in Hi. lia.
    - intros k. unfold upd. destruct (Nat.eqb_spec k j); subst.
      + split; [discriminate|lia].
      + pose proof (i_unone HI k) as H. unfold nsub in H. rewrite H. lia.
    - intros k Hk. unfold upd. destruct (Nat.eqb_spec k j); subst; [exact Htb|now apply (i_tbs HI)].
    - intros Hnd. erewrite cnt_ext; [apply (i_nend HI Hnd)|].
      intros k _. cbn. unfold upd. destruct (Nat.eqb_spec k j); subst; [now rewrite Hus|reflexivity].
    - apply PhRun; unfold nsub, grt; rewrite ?Esk, ?Eus, ?Eports, ?Hs; cbn [length].
      + congruence.
      + cbn. auto.
      + intros k. unfold upd. destruct (Nat.eqb k j); [discriminate|apply Hnst].
    - intros s0 d0 r H. discriminate.
  Qed.

  (** a broadcast moves on to member [j] *)
  Lemma inv_ret_bcast c u j cl rest :
    Inv c -> dead c = false -> stack c = (CbBcast u j, cl) :: rest -> (j <? n) = true ->
    Inv (step p c MRet).
  Proof.
    intros HI Hlive Hst Hlt.
    assert (Hj : j < n) by now apply Nat.ltb_lt.
    pose proof (bcast_greeted HI Hst) as Hg.
    pose proof (inv_allg HI Hg Hj) as Htb.
    pose proof (inv_allg_us HI Hg Hj) as Hgu.
    assert (Hh : resume o (CbBcast u j) (cst c) = (cst c, [], ACall (CUp j u) (CbBcast u (S j)))).
    { cbn. unfold cb_bcast. now rewrite Hlt, Htb. }
    destruct (step_ret p c Hlive Hst Hh) as (Hc & Hs & Hm & Hd).
    pose proof (step_ret_rtrace p c Hlive Hst Hh) as Hr.
    rewrite settle_call in Hm. cbn in Hr.
    pose proof (inv_subd_stack HI Hst) as Hsub.
    assert (Hlat : forall i, latest i (rtrace (step p c MRet)) = latest i (rtrace c))
      by (intros i; rewrite Hr; reflexivity).
    assert (Hlast : forall s d r, rtrace (step p c MRet) <> ECall (CDn s d) :: r)
      by (intros s d r; rewrite Hr; discriminate).
    assert (Hcs : cstack (ms (step p c MRet)) = map snd (stack (step p c MRet))).
    { rewrite Hm, Hs. destruct u; cbn; now rewrite (i_cstack HI), Hst. }
    assert (Hgrt : grt c = true) by (unfold grt; destruct (sk (ms c) 0); congruence).
    destruct (i_phase HI) as [Hnd Hok Hnst|u' j' r Hd' Hs' Hu Hj' Hok Hk|Hd' Hok Hk].
    - rewrite Hst in Hok. cbn in Hok. destruct Hok as (-> & _ & Hok). projs Hm.
      cbn [viols mon_event set_cstack set RecordSet.set] in Evi.
      apply inv_same with (c := c); auto.
      + rewrite Evi. apply Forall_known_app; [|apply (i_viols HI)].
        apply cup_known; cbn; auto; discriminate.
      + apply PhRun; unfold nsub, grt; rewrite ?Esk, ?Eus, ?Eports, ?Hs; auto.
        cbn. unfold grt in Hgrt. auto.
    - rewrite Hst in Hs'. injection Hs' as E1 E2 E3 E4. subst u' j cl r.
      assert (Hvi : Forall known_combine
                      (check_call p (mon_event p (ms c) ERet) (CUp (S j') u) ++ viols (ms c))).
      { apply Forall_known_app; [|apply (i_viols HI)].
        apply cup_known; cbn; auto. intros _. apply (Hk (S j') Hj). lia. }
      destruct u as [|e|]; [discriminate Hu| |]; projs Hm;
        cbn [viols mon_event set_cstack set RecordSet.set] in Evi.
      all: eapply inv_stop with (c := c) (j := S j'); eauto; try lia.
      all: try (rewrite Esk; auto; fail).
      all: try (rewrite Evi; exact Hvi).
      all: intros k Hk'; destruct (Hk k Hk') as [H1 H2]; split; intros; [apply H1|apply H2]; lia.
    - rewrite Hst in Hok. cbn in Hok. destruct Hok as (-> & _ & Hok). projs Hm.
      cbn [viols mon_event set_cstack set RecordSet.set] in Evi.
      apply inv_same with (c := c); auto.
      + rewrite Evi. apply Forall_known_app; [|apply (i_viols HI)].
        apply cup_known; cbn; auto; discriminate.
      + apply PhStopped; unfold nsub, grt; rewrite ?Esk, ?Eus, ?Eports, ?Hs; auto.
        cbn. auto.
  Qed.

  Lemma inv_ret c : Inv c -> enabled p gc c MRet = true -> Inv (step p c MRet).
  Proof.
    intros HI He.
    pose proof (enabled_live _ _ _ _ He) as Hlive.
    destruct (enabled_ret_stack _ _ _ He) as (k & cl & rest & Hst).
    destruct k as [|j|u j].
    - apply inv_ret_done with (k := CbDone) (cl := cl) (rest := rest); auto. intros; discriminate.
    - destruct (j <? n) eqn:Hlt.
      + now apply inv_ret_sub with (j := j) (cl := cl) (rest := rest).
      + apply inv_ret_done with (k := CbSub j) (cl := cl) (rest := rest); auto.
        * cbn. unfold cb_sub. now rewrite Hlt.
        * intros; discriminate.
    - destruct (j <? n) eqn:Hlt.
      + now apply inv_ret_bcast with (u := u) (j := j) (cl := cl) (rest := rest).
      + apply inv_ret_done with (k := CbBcast u j) (cl := cl) (rest := rest); auto.
        * cbn. unfold cb_bcast. now rewrite Hlt.
        * intros u' j' E _. injection E as _ ->. apply Nat.ltb_ge in Hlt. exact Hlt.
  Qed.

  (** what is known whenever a member may act *)
  Lemma dn_prelude c i d :
    Inv c -> enabled p gc c (MIn (IDn i d)) = true ->
    i < n /\ sk (ms c) 0 <> SDisposed /\ stk_ok (nsub c) (grt c) (stack c) /\
    (forall k, us (ms c) k <> UStopped) /\ subd (ms c) 0 = true /\
    us (ms c) i = match d with DH => USubd | _ => ULive end.
  Proof.
    intros HI He. start_in He Hlive Hdel Hg.
    cbn in He. apply andb_prop in He. destruct He as [Htop He].
    assert (Hus : us (ms c) i = match d with DH => USubd | _ => ULive end).
    { destruct d; cbn in He; try (apply andb_prop in He; destruct He as [He _]);
        destruct (us (ms c) i); try discriminate; reflexivity. }
    assert (Hnn : us (ms c) i <> UNone) by (rewrite Hus; destruct d; discriminate).
    pose proof (@inv_lt c i HI Hnn) as Hi.
    assert (Hns' : us (ms c) i <> UStopped) by (rewrite Hus; destruct d; discriminate).
    split; [exact Hi|].
    assert (Hsub : subd (ms c) 0 = true).
    { destruct (subd (ms c) 0) eqn:E; [reflexivity|]. exfalso.
      destruct (i_subd HI E) as (Hp & _). apply Hnn, (i_unone HI). unfold nsub. rewrite Hp. cbn. lia. }
    destruct (i_phase HI) as [Hnd Hok Hnst|u j r Hd' Hs' Hu Hj Hok Hk|Hd' Hok Hk].
    - auto.
    - exfalso. unfold top_peer_is in Htop. rewrite Hs' in Htop. cbn in Htop.
      apply Nat.eqb_eq in Htop. subst j. apply Hns'. apply (Hk i Hi). lia.
    - exfalso. now apply Hns', Hk.
  Qed.

  Lemma inv_dn_greet c i : Inv c -> enabled p gc c (MIn (IDn i DH)) = true ->
                           Inv (step p c (MIn (IDn i DH))).
  Proof.
    intros HI He.
    destruct (@dn_prelude c i _ HI He) as (Hi & Hnd & Hok & Hnst & Hsub & Hus).
    pose proof (enabled_live _ _ _ _ He) as Hlive.
    pose proof (enabled_deliverable _ _ _ _ He) as Hdel.
    assert (Hlt : (i <? n) = true) by now apply Nat.ltb_lt.
    assert (Htb : cb_tbs (cst c) i = false) by (rewrite (i_tbs HI Hi), Hus; reflexivity).
    pose proof (inv_skn_of HI Hi Htb) as Hsk.
    assert (Hns1 : cb_nstart (cst c) <> 0) by now apply (i_skn HI).
    assert (Hnsub : ~ nsub c <= i) by (intros H; apply (i_unone HI) in H; congruence).
    assert (Hgrt : grt c = false) by (unfold grt; now rewrite Hsk).
    pose proof (i_nstart HI) as Hcnt.
    assert (Hcnt' : cnt (upd (cb_tbs (cst c)) i true) n = S (cnt (cb_tbs (cst c)) n)).
    { apply cnt_set with (i := i); auto; [apply upd_same|]. intros j _ Hj. now apply upd_other. }
    set (s' := {| cb_nstart := pred (cb_nstart (cst c)); cb_ndata := cb_ndata (cst c);
                  cb_nend := cb_nend (cst c); cb_vals := cb_vals (cst c);
                  cb_tbs := upd (cb_tbs (cst c)) i true |}).
    assert (Hh : handle o (IDn i DH) (cst c) =
                 (s', [], if Nat.eqb (pred (cb_nstart (cst c))) 0
                          then ACall (CDn 0 DH) CbDone else ARet)).
    { change (handle o (IDn i DH) (cst c)) with (cb_handle n (IDn i DH) (cst c)).
      unfold cb_handle. rewrite Hlt. fold s'.
      destruct (Nat.eqb (pred (cb_nstart (cst c))) 0); reflexivity. }
    destruct (Nat.eqb_spec (pred (cb_nstart (cst c))) 0) as [Hz|Hz].
    - (* the last member greets: the sink is greeted *)
      destruct (step_in p c (IDn i DH) Hlive Hdel Hh) as (Hc & Hs & Hm & Hd).
      pose proof (step_in_rtrace p c (IDn i DH) Hlive Hdel Hh) as Hr.
      rewrite settle_call in Hm. cbn in Hr, Hm. rewrite Hsk in Hm. projs Hm. cbn in Evi. clear Hm.
      set (c' := step p c (MIn (IDn i DH))) in *. clearbody c'.
      constructor; unfold nsub, grt;
        rewrite ?Hd, ?Hc, ?Hs, ?Hr, ?Esk, ?Eus, ?Eports, ?Esubd, ?Etask, ?Ecs, ?Evi, ?Emd;
        try (apply HI; fail); cbn.
      + reflexivity.
      + now rewrite (i_cstack HI).
      + intros s Hs0. rewrite upd_other by exact Hs0. now apply (i_sk_other HI).
      + congruence.
      + intros k. unfold upd. destruct (Nat.eqb_spec k i); subst; [|apply (i_unone HI)].
        split; [discriminate|]. intros H. exfalso. now apply Hnsub.
      + intros k Hk. unfold upd. destruct (Nat.eqb_spec k i); subst; [reflexivity|now apply (i_tbs HI)].
      + lia.
      + split; [discriminate|lia].
      + intros k Hk Hv. unfold upd. destruct (Nat.eqb_spec k i); [reflexivity|now apply (i_vals HI)].
      + intros _. erewrite cnt_ext; [apply (i_nend HI Hnd)|].
        intros k _. cbn. unfold upd. destruct (Nat.eqb_spec k i); subst; [now rewrite Hus|reflexivity].
      + intros _. split; [|discriminate]. intros H. apply (i_nend0 HI Hnd) in H. congruence.
      + apply PhRun; unfold nsub, grt; rewrite ?Esk, ?Eus, ?Eports, ?Hs; cbn.
        * discriminate.
        * rewrite Hgrt in Hok. now apply stk_ok_g.
        * intros k. unfold upd. destruct (Nat.eqb k i); [discriminate|apply Hnst].
      + intros s0 d0 r H. injection H as <- <- _. split; [reflexivity|exact I].
    - destruct (step_in p c (IDn i DH) Hlive Hdel Hh) as (Hc & Hs & Hm & Hd).
      pose proof (step_in_rtrace p c (IDn i DH) Hlive Hdel Hh) as Hr.
      rewrite settle_ret in Hm. cbn in Hr. projs Hm. cbn in Evi. clear Hm.
      assert (Hq : Forall known_combine (qviols (set_us (ms c) i ULive))).
      { apply qviols_known. cbn. rewrite Hsk. discriminate. }
      set (c' := step p c (MIn (IDn i DH))) in *. clearbody c'.
      constructor; unfold nsub, grt;
        rewrite ?Hd, ?Hc, ?Hs, ?Hr, ?Esk, ?Eus, ?Eports, ?Esubd, ?Etask, ?Ecs, ?Evi, ?Emd;
        try (apply HI; fail); cbn.
      + reflexivity.
      + apply Forall_known_app; [exact Hq|apply (i_viols HI)].
      + congruence.
      + intros k. unfold upd. destruct (Nat.eqb_spec k i); subst; [|apply (i_unone HI)].
        split; [discriminate|]. intros H. exfalso. now apply Hnsub.
      + intros k Hk. unfold upd. destruct (Nat.eqb_spec k i); subst; [reflexivity|now apply (i_tbs HI)].
      + lia.
      + rewrite Hsk. split; [intros _; exact Hz|reflexivity].
      + intros k Hk Hv. unfold upd. destruct (Nat.eqb_spec k i); [reflexivity|now apply (i_vals HI)].
      + intros _. erewrite cnt_ext; [apply (i_nend HI Hnd)|].
        intros k _. cbn. unfold upd. destruct (Nat.eqb_spec k i); subst; [now rewrite Hus|reflexivity].
      + apply PhRun; unfold nsub, grt; rewrite ?Esk, ?Eus, ?Eports, ?Hs; cbn; auto.
        intros k. unfold upd. destruct (Nat.eqb k i); [discriminate|apply Hnst].
      + intros s0 d0 r H. discriminate.
  Qed.

  Lemma live_not_finished c i : Inv c -> i < n -> sk (ms c) 0 <> SDisposed ->
                                us (ms c) i = ULive -> sk (ms c) 0 <> SFinished.
  Proof.
    intros HI Hi Hnd Hus H. pose proof (i_nend HI Hnd) as H1. apply (i_nend0 HI Hnd) in H.
    assert (E : endedb (us (ms c) i) = true)
      by (apply (@cnt_full (fun k => endedb (us (ms c) k)) n); [lia|exact Hi]).
    rewrite Hus in E. discriminate.
  Qed.

  Lemma inv_dn_data c i v : Inv c -> enabled p gc c (MIn (IDn i (DD v))) = true ->
                            Inv (step p c (MIn (IDn i (DD v)))).
  Proof.
    intros HI He.
    destruct (@dn_prelude c i _ HI He) as (Hi & Hnd & Hok & Hnst & Hsub & Hus).
    pose proof (enabled_live _ _ _ _ He) as Hlive.
    pose proof (enabled_deliverable _ _ _ _ He) as Hdel.
    assert (Hlt : (i <? n) = true) by now apply Nat.ltb_lt.
    assert (Htb : cb_tbs (cst c) i = true) by (rewrite (i_tbs HI Hi), Hus; reflexivity).
    pose proof (live_not_finished HI Hi Hnd Hus) as Hnf.
    set (nd := match cb_vals (cst c) i with
               | None => pred (cb_ndata (cst c)) | Some _ => cb_ndata (cst c) end).
    set (vals' := upd (cb_vals (cst c)) i (Some v)).
    set (s' := {| cb_nstart := cb_nstart (cst c); cb_ndata := nd; cb_nend := cb_nend (cst c);
                  cb_vals := vals'; cb_tbs := cb_tbs (cst c) |}).
    assert (Hcnt' : nd + cnt (fun k => is_some (vals' k)) n = n).
    { pose proof (i_ndata HI) as H0. unfold nd. destruct (cb_vals (cst c) i) eqn:Ev.
      - erewrite cnt_ext; [exact H0|]. intros k _. cbn. unfold vals', upd.
        destruct (Nat.eqb_spec k i); subst; [now rewrite Ev|reflexivity].
      - rewrite (@cnt_set (fun k => is_some (cb_vals (cst c) k)) (fun k => is_some (vals' k)) i n);
          auto.
        + pose proof (@cnt_lt (fun k => is_some (cb_vals (cst c) k)) i n Hi) as H2.
          cbn in H2. rewrite Ev in H2. specialize (H2 eq_refl). lia.
        + cbn. now rewrite Ev.
        + unfold vals'. now rewrite upd_same.
        + intros j _ Hj. unfold vals'. now rewrite upd_other. }
    assert (Hvals' : forall k, k < n -> vals' k <> None -> cb_tbs (cst c) k = true).
    { intros k Hk. unfold vals', upd. destruct (Nat.eqb_spec k i); subst; [auto|now apply (i_vals HI)]. }
    assert (Hlat : forall a j, (forall x, a <> EIn x) ->
                               vals' j = latest j (a :: EIn (IDn i (DD v)) :: rtrace c)).
    { intros a j Ha. assert (E : latest j (a :: EIn (IDn i (DD v)) :: rtrace c) =
                              if Nat.eqb i j then Some v else latest j (rtrace c)).
      { destruct a as [x|cl| | |ob|]; try reflexivity. exfalso. now apply (Ha x). }
      rewrite E. unfold vals', upd. rewrite Nat.eqb_sym.
      destruct (Nat.eqb i j); [reflexivity|apply (i_latest HI)]. }
    assert (Hmd : 0 < ndata (ms c) 0 -> nd = 0).
    { intros H. apply (i_mdata HI) in H. unfold nd. rewrite H. now destruct (cb_vals (cst c) i). }
    assert (Hh0 : handle o (IDn i (DD v)) (cst c) =
                  if Nat.eqb nd 0 then
                    match cb_tuple vals' n with
                    | Some l => (s', [], ACall (CDn 0 (DD (VT l))) CbDone)
                    | None => (s', [], APanic)
                    end
                  else (s', [], ARet)).
    { change (handle o (IDn i (DD v)) (cst c)) with (cb_handle n (IDn i (DD v)) (cst c)).
      unfold cb_handle. rewrite Hlt. reflexivity. }
    destruct (Nat.eqb_spec nd 0) as [Hz|Hz].
    - assert (Hall : forall k, k < n -> vals' k <> None).
      { intros k Hk.
        assert (E : is_some (vals' k) = true)
          by (apply (@cnt_full (fun k => is_some (vals' k)) n); [lia|exact Hk]).
        destruct (vals' k); [discriminate|discriminate]. }
      destruct (@cb_tuple_some vals' n Hall) as (l & Hl). rewrite Hl in Hh0.
      assert (Hsk : sk (ms c) 0 = SLive).
      { assert (Hnn : sk (ms c) 0 <> SNone).
        { intros H. apply (i_skn HI) in H. apply H. pose proof (i_nstart HI) as H0.
          rewrite cnt_full_inv in H0; [lia|]. intros k Hk. apply Hvals'; auto. }
        destruct (sk (ms c) 0); congruence. }
      destruct (step_in p c (IDn i (DD v)) Hlive Hdel Hh0) as (Hc & Hs & Hm & Hd).
      pose proof (step_in_rtrace p c (IDn i (DD v)) Hlive Hdel Hh0) as Hr.
      rewrite settle_call in Hm. cbn in Hr. projs Hm.
      cbn in Evi. rewrite Hsk, Hnonest, Hc14 in Evi. cbn in Evi. clear Hm.
      set (c' := step p c (MIn (IDn i (DD v)))) in *. clearbody c'.
      constructor; unfold nsub, grt;
        rewrite ?Hd, ?Hc, ?Hs, ?Hr, ?Esk, ?Eus, ?Eports, ?Esubd, ?Etask, ?Ecs, ?Evi, ?Emd;
        try (apply HI; fail); cbn [cb_nstart cb_ndata cb_nend cb_vals cb_tbs s'].
      + reflexivity.
      + cbn. now rewrite (i_cstack HI).
      + congruence.
      + exact Hvals'.
      + exact Hcnt'.
      + apply PhRun; unfold nsub, grt; rewrite ?Esk, ?Eus, ?Eports, ?Hs; cbn; auto.
      + intros j. apply Hlat. discriminate.
      + intros s0 d0 r H. injection H as <- <- _. split; [reflexivity|].
        exists l. split; [reflexivity|exact Hl].
      + intros _. exact Hz.
    - destruct (step_in p c (IDn i (DD v)) Hlive Hdel Hh0) as (Hc & Hs & Hm & Hd).
      pose proof (step_in_rtrace p c (IDn i (DD v)) Hlive Hdel Hh0) as Hr.
      rewrite settle_ret in Hm. cbn in Hr. projs Hm. cbn in Evi. clear Hm.
      assert (Hq : Forall known_combine (qviols (set_owed (ms c) i (pred (owed (ms c) i))))).
      { apply qviols_known. cbn. destruct (sk (ms c) 0); try discriminate; congruence. }
      set (c' := step p c (MIn (IDn i (DD v)))) in *. clearbody c'.
      constructor; unfold nsub, grt;
        rewrite ?Hd, ?Hc, ?Hs, ?Hr, ?Esk, ?Eus, ?Eports, ?Esubd, ?Etask, ?Ecs, ?Evi, ?Emd;
        try (apply HI; fail); cbn [cb_nstart cb_ndata cb_nend cb_vals cb_tbs s'].
      + reflexivity.
      + apply Forall_known_app; [exact Hq|apply (i_viols HI)].
      + congruence.
      + exact Hvals'.
      + exact Hcnt'.
      + apply PhRun; unfold nsub, grt; rewrite ?Esk, ?Eus, ?Eports, ?Hs; cbn; auto.
      + intros j. apply Hlat. discriminate.
      + intros s0 d0 r H. discriminate.
      + exact Hmd.
  Qed.

  Lemma mon_input_end m i d :
    dmsg_is_term d = true ->
    sk (mon_input p m (IDn i d)) = sk m /\
    us (mon_input p m (IDn i d)) = upd (us m) i UEnded /\
    ports (mon_input p m (IDn i d)) = ports m /\
    subd (mon_input p m (IDn i d)) = subd m /\
    task (mon_input p m (IDn i d)) = task m /\
    cstack (mon_input p m (IDn i d)) = cstack m /\
    viols (mon_input p m (IDn i d)) = viols m /\
    ndata (mon_input p m (IDn i d)) = ndata m.
  Proof. destruct d; try discriminate; intros _; cbn; repeat split; reflexivity. Qed.

  Lemma inv_dn_end c i d :
    dmsg_is_term d = true -> Inv c -> enabled p gc c (MIn (IDn i d)) = true ->
    Inv (step p c (MIn (IDn i d))).
  Proof.
    intros Hterm HI He.
    destruct (@dn_prelude c i _ HI He) as (Hi & Hnd & Hok & Hnst & Hsub & Hus).
    assert (Hus' : us (ms c) i = ULive) by (destruct d; try discriminate; exact Hus).
    clear Hus.
    pose proof (enabled_live _ _ _ _ He) as Hlive.
    pose proof (enabled_deliverable _ _ _ _ He) as Hdel.
    assert (Hlt : (i <? n) = true) by now apply Nat.ltb_lt.
    assert (Htb : cb_tbs (cst c) i = true) by (rewrite (i_tbs HI Hi), Hus'; reflexivity).
    pose proof (live_not_finished HI Hi Hnd Hus') as Hnf.
    assert (Hnsub : ~ nsub c <= i) by (intros H; apply (i_unone HI) in H; congruence).
    set (us' := upd (us (ms c)) i UEnded).
    assert (Hcnt' : cnt (fun k => endedb (us' k)) n = S (cnt (fun k => endedb (us (ms c) k)) n)).
    { apply cnt_set with (i := i); auto.
      - cbn. now rewrite Hus'.
      - unfold us'. now rewrite upd_same.
      - intros j _ Hj. unfold us'. now rewrite upd_other. }
    pose proof (i_nend HI Hnd) as Hcnt.
    pose proof (cnt_le (fun k => endedb (us' k)) n) as Hle'.
    set (s' := {| cb_nstart := cb_nstart (cst c); cb_ndata := cb_ndata (cst c);
                  cb_nend := pred (cb_nend (cst c)); cb_vals := cb_vals (cst c);
                  cb_tbs := cb_tbs (cst c) |}).
    assert (Hh : handle o (IDn i d) (cst c) =
                 (s', [], if Nat.eqb (pred (cb_nend (cst c))) 0
                          then ACall (CDn 0 DT) CbDone else ARet)).
    { change (handle o (IDn i d) (cst c)) with (cb_handle n (IDn i d) (cst c)).
      destruct d; try discriminate; unfold cb_handle; rewrite Hlt; fold s';
        destruct (Nat.eqb (pred (cb_nend (cst c))) 0); reflexivity. }
    assert (Hlat : forall a j, (forall x, a <> EIn x) ->
                               latest j (a :: EIn (IDn i d) :: rtrace c) = latest j (rtrace c)).
    { intros a j Ha. destruct d; try discriminate;
        (destruct a as [x|cl| | |ob|]; try reflexivity; exfalso; now apply (Ha x)). }
    assert (Hun : forall k, us' k = UNone <-> nsub c <= k).
    { intros k. unfold us', upd. destruct (Nat.eqb_spec k i); subst; [|apply (i_unone HI)].
      split; [discriminate|]. intros H. exfalso. now apply Hnsub. }
    assert (Htbs : forall k, k < n -> cb_tbs (cst c) k = greetedb (us' k)).
    { intros k Hk. unfold us', upd. destruct (Nat.eqb_spec k i); subst; [exact Htb|now apply (i_tbs HI)]. }
    assert (Hnst' : forall k, us' k <> UStopped).
    { intros k. unfold us', upd. destruct (Nat.eqb k i); [discriminate|apply Hnst]. }
    destruct (@mon_input_end (ms c) i d Hterm) as (M1 & M2 & M3 & M4 & M5 & M6 & M7 & M8).
    destruct (Nat.eqb_spec (pred (cb_nend (cst c))) 0) as [Hz|Hz].
    - (* the last member ends: the sink is told *)
      assert (Hsk : sk (ms c) 0 = SLive).
      { assert (Hnn : sk (ms c) 0 <> SNone).
        { intros H. apply (i_skn HI) in H. apply H. pose proof (i_nstart HI) as H0.
          rewrite cnt_full_inv in H0; [lia|]. intros k Hk. rewrite Htbs by exact Hk.
          assert (E : endedb (us' k) = true)
            by (apply (@cnt_full (fun k => endedb (us' k)) n); [lia|exact Hk]).
          destruct (us' k); try discriminate; reflexivity. }
        destruct (sk (ms c) 0); congruence. }
      destruct (step_in p c (IDn i d) Hlive Hdel Hh) as (Hc & Hs & Hm & Hd).
      pose proof (step_in_rtrace p c (IDn i d) Hlive Hdel Hh) as Hr.
      rewrite settle_call in Hm. cbn in Hr.
      remember (mon_input p (ms c) (IDn i d)) as m' eqn:Em'.
      cbn in Hm. rewrite M1, Hsk in Hm. projs Hm. cbn in Evi.
      rewrite ?M1, ?M2, ?M3, ?M4, ?M5, ?M6, ?M7, ?M8, ?Hsk, ?Hnonest in *. cbn in Evi.
      fold us' in Eus.
      assert (Hvi : Forall known_combine (viols (ms (step p c (MIn (IDn i d)))))).
      { rewrite Evi. apply Forall_known_app; [|apply (i_viols HI)].
        destruct (err_due m' 0); repeat constructor. }
      clear Hm Evi.
      set (c' := step p c (MIn (IDn i d))) in *. clearbody c'.
      constructor; unfold nsub, grt;
        rewrite ?Hd, ?Hc, ?Hs, ?Hr, ?Esk, ?Eus, ?Eports, ?Esubd, ?Etask, ?Ecs, ?Emd;
        try (apply HI; fail); cbn [cb_nstart cb_ndata cb_nend cb_vals cb_tbs s']; auto.
      + cbn. now rewrite (i_cstack HI).
      + intros s Hs0. rewrite upd_other by exact Hs0. now apply (i_sk_other HI).
      + congruence.
      + rewrite upd_same. split; [discriminate|]. intros H. apply (i_skn HI) in H. congruence.
      + intros _. lia.
      + intros _. rewrite upd_same. tauto.
      + apply PhRun; unfold nsub, grt; rewrite ?Esk, ?Eus, ?Eports, ?Hs; cbn; auto.
        * discriminate.
        * unfold nsub, grt in Hok. rewrite Hsk in Hok. exact Hok.
      + intros j. rewrite Hlat by discriminate. apply (i_latest HI).
      + intros s0 d0 r H. injection H as <- <- _. split; [reflexivity|apply upd_same].
    - destruct (step_in p c (IDn i d) Hlive Hdel Hh) as (Hc & Hs & Hm & Hd).
      pose proof (step_in_rtrace p c (IDn i d) Hlive Hdel Hh) as Hr.
      rewrite settle_ret in Hm. cbn in Hr.
      remember (mon_input p (ms c) (IDn i d)) as m' eqn:Em'.
      assert (Hq : Forall known_combine (qviols m')).
      { apply qviols_known. rewrite M1. destruct (sk (ms c) 0); try discriminate; congruence. }
      projs Hm.
      rewrite ?M1, ?M2, ?M3, ?M4, ?M5, ?M6, ?M7, ?M8 in *.
      fold us' in Eus.
      assert (Hvi : Forall known_combine (viols (ms (step p c (MIn (IDn i d)))))).
      { rewrite Evi. apply Forall_known_app; [exact Hq|apply (i_viols HI)]. }
      clear Hm Evi.
      set (c' := step p c (MIn (IDn i d))) in *. clearbody c'.
      constructor; unfold nsub, grt;
        rewrite ?Hd, ?Hc, ?Hs, ?Hr, ?Esk, ?Eus, ?Eports, ?Esubd, ?Etask, ?Ecs, ?Emd;
        try (apply HI; fail); cbn [cb_nstart cb_ndata cb_nend cb_vals cb_tbs s']; auto.
      + congruence.
      + intros _. lia.
      + intros _. split; [intros H; congruence|intros H; congruence].
      + apply PhRun; unfold nsub, grt; rewrite ?Esk, ?Eus, ?Eports, ?Hs; cbn; auto.
      + intros j. rewrite Hlat by discriminate. apply (i_latest HI).
      + intros s0 d0 r H. discriminate.
  Qed.

  Lemma inv_dn c i d : Inv c -> enabled p gc c (MIn (IDn i d)) = true ->
                       Inv (step p c (MIn (IDn i d))).
  Proof.
    destruct d as [|v|e|].
    - apply inv_dn_greet.
    - apply inv_dn_data.
    - now apply inv_dn_end.
    - now apply inv_dn_end.
  Qed.

  Lemma inv_step c m : Inv c -> enabled p gc c m = true -> Inv (step p c m).
  Proof.
    intros HI He. destruct m as [[s aux|s u|i d|s]|].
    - now apply inv_sub.
    - now apply inv_up.
    - now apply inv_dn.
    - exfalso. unfold enabled in He.
      repeat (apply andb_prop in He; destruct He as [? He]).
      cbn in He. now rewrite (i_task HI) in He.
    - now apply inv_ret.
  Qed.

  Theorem inv_reach c : reach p gc c -> Inv c.
  Proof. induction 1; [apply inv0 | now apply inv_step]. Qed.

  (** *** what the exported theorems state, inside the section *)
  Lemma safe_sec (c : cfg o) : reach p gc c -> dead c = false /\ Forall known_combine (viols (ms c)).
  Proof. intros Hr. pose proof (inv_reach Hr) as HI. split; [apply (i_dead HI)|apply (i_viols HI)]. Qed.

  Lemma full_sec c : Inv c -> cb_ndata (cst c) = 0 -> forall j, j < n -> cb_vals (cst c) j <> None.
  Proof.
    intros HI H0 j Hj. pose proof (i_ndata HI) as H1.
    assert (E : is_some (cb_vals (cst c) j) = true)
      by (apply (@cnt_full (fun k => is_some (cb_vals (cst c) k)) n); [lia|exact Hj]).
    destruct (cb_vals (cst c) j); [discriminate|discriminate].
  Qed.

  Lemma rtrace_last (c : cfg o) tr e : trace c = tr ++ [e] -> rtrace c = e :: rev tr.
  Proof.
    unfold trace. intros H. apply (f_equal (@rev event)) in H.
    rewrite rev_involutive, rev_app_distr in H. exact H.
  Qed.

  Lemma tuples_sec (c : cfg o) :
    reach p gc c ->
    (forall j, cb_vals (cst c) j = latest j (rev (trace c))) /\
    (forall tr s d, trace c = tr ++ [ECall (CDn s d)] ->
       s = 0 /\
       match d with
       | DD x => exists l, x = VT l /\ length l = n /\
                   forall j, j < n -> nth_error l j = cb_vals (cst c) j /\
                                      nth_error l j = latest j (rev (trace c)) /\
                                      nth_error l j <> None
       | DE _ => False
       | _ => True
       end) /\
    (0 < ndata (ms c) 0 -> forall j, j < n -> cb_vals (cst c) j <> None).
  Proof.
    intros Hr. pose proof (inv_reach Hr) as HI.
    assert (Hrev : rev (trace c) = rtrace c) by (unfold trace; apply rev_involutive).
    rewrite Hrev. split; [apply (i_latest HI)|]. split.
    - intros tr s d Htr. apply rtrace_last in Htr.
      destruct (i_last HI Htr) as [Hs Hd]. split; [exact Hs|].
      destruct d as [|x|e|]; auto.
      destruct Hd as (l & -> & Hl). exists l. split; [reflexivity|].
      destruct (cb_tuple_spec _ _ Hl) as [Hlen Hnth]. split; [exact Hlen|].
      intros j Hj. rewrite (Hnth j Hj). split; [reflexivity|]. split; [apply (i_latest HI)|].
      rewrite <- (Hnth j Hj). apply nth_error_Some. lia.
    - intros H. apply full_sec; [exact HI|now apply (i_mdata HI)].
  Qed.

  Lemma completes_sec (c : cfg o) :
    reach p gc c ->
    (sk (ms c) 0 = SLive -> exists j, j < n /\ us (ms c) j = ULive) /\
    (sk (ms c) 0 = SFinished -> forall j, j < n -> us (ms c) j = UEnded) /\
    (forall tr s, trace c = tr ++ [ECall (CDn s DT)] ->
       s = 0 /\ sk (ms c) 0 = SFinished /\ forall j, j < n -> us (ms c) j = UEnded).
  Proof.
    intros Hr. pose proof (inv_reach Hr) as HI.
    assert (Hfin : sk (ms c) 0 = SFinished -> forall j, j < n -> us (ms c) j = UEnded).
    { intros Hf j Hj. assert (Hnd : sk (ms c) 0 <> SDisposed) by congruence.
      pose proof (i_nend HI Hnd) as H1. apply (i_nend0 HI Hnd) in Hf.
      assert (E : endedb (us (ms c) j) = true)
        by (apply (@cnt_full (fun k => endedb (us (ms c) k)) n); [lia|exact Hj]).
      destruct (us (ms c) j); try discriminate; reflexivity. }
    split; [|split; [exact Hfin|]].
    - intros Hl. assert (Hnd : sk (ms c) 0 <> SDisposed) by congruence.
      pose proof (i_nend HI Hnd) as H1.
      assert (H0 : cb_nend (cst c) <> 0) by (intros H; apply (i_nend0 HI Hnd) in H; congruence).
      destruct (@cnt_ex (fun k => endedb (us (ms c) k)) n) as (j & Hj & Hne); [lia|].
      exists j. split; [exact Hj|].
      assert (Hg : greetedb (us (ms c) j) = true) by (apply inv_allg_us; [exact HI|congruence|exact Hj]).
      assert (Hns' : us (ms c) j <> UStopped).
      { destruct (i_phase HI) as [_ _ Hnst|u j' r Hd' _ _ _ _ _|Hd' _ _]; [apply Hnst|congruence|congruence]. }
      cbn in Hne. destruct (us (ms c) j); try discriminate; congruence.
    - intros tr s Htr. apply rtrace_last in Htr.
      destruct (i_last HI Htr) as [Hs Hd]. auto.
  Qed.
End CombineInv.

(** ** The exported theorems *)

(** C01-C05, C17: no panic, and the only protocol violations are the four known kinds *)
Theorem combine_safe n p :
  1 <= n -> nsinks p = 1 -> resub p = false -> no_nest p = false -> c14 p = false ->
  late_ok p = false ->
  forall c : cfg (combine_op n), reach p g_std c ->
  dead c = false /\ Forall known_combine (viols (ms c)).
Proof. intros H1 H2 H3 H4 H5 H6 c Hr. eapply safe_sec; eassumption. Qed.
Print Assumptions combine_safe.

(** C10: the cells hold each member's most recent payload; every call of a sink is a call
    of sink 0; every Data is the tuple, of length [n], of the members' most recent payloads;
    no Error is ever delivered; nothing is delivered before every member has produced *)
Theorem combine_tuples n p :
  1 <= n -> nsinks p = 1 -> resub p = false -> no_nest p = false -> c14 p = false ->
  late_ok p = false ->
  forall c : cfg (combine_op n), reach p g_std c ->
  (forall j, cb_vals (cst c) j = latest j (rev (trace c))) /\
  (forall tr s d, trace c = tr ++ [ECall (CDn s d)] ->
     s = 0 /\
     match d with
     | DD x => exists l, x = VT l /\ length l = n /\
                 forall j, j < n -> nth_error l j = cb_vals (cst c) j /\
                                    nth_error l j = latest j (rev (trace c)) /\
                                    nth_error l j <> None
     | DE _ => False
     | _ => True
     end) /\
  (0 < ndata (ms c) 0 -> forall j, j < n -> cb_vals (cst c) j <> None).
Proof. intros H1 H2 H3 H4 H5 H6 c Hr. eapply tuples_sec; eassumption. Qed.
Print Assumptions combine_tuples.

(** C10: while the sink is live some member is live; the sink is finished (by Terminate)
    only when every member has ended *)
Theorem combine_completes n p :
  1 <= n -> nsinks p = 1 -> resub p = false -> no_nest p = false -> c14 p = false ->
  late_ok p = false ->
  forall c : cfg (combine_op n), reach p g_std c ->
  (sk (ms c) 0 = SLive -> exists j, j < n /\ us (ms c) j = ULive) /\
  (sk (ms c) 0 = SFinished -> forall j, j < n -> us (ms c) j = UEnded) /\
  (forall tr s, trace c = tr ++ [ECall (CDn s DT)] ->
     s = 0 /\ sk (ms c) 0 = SFinished /\ forall j, j < n -> us (ms c) j = UEnded).
Proof. intros H1 H2 H3 H4 H5 H6 c Hr. eapply completes_sec; eassumption. Qed.
Print Assumptions combine_completes.
