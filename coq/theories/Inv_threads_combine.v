(** * Inv_threads_combine: C18 for the repaired combine!, over ALL schedules.

    The interleaving model of Threads.v (section CombineThreads, [fixed = true])
    is shown to satisfy, in every state reachable under any schedule whatever:
    no panic, at most one greeting that precedes every other delivery, only
    complete tuples made of values that were actually sent, at most one
    completion that begins while no data delivery is in progress; and, once all
    member threads have finished, the whole monitor [combine_check] is silent.
    The unrepaired code ([fixed = false]) is refuted by computation. *)

From CB Require Import Threads ThreadSpec.

(** ** Counting over [nat -> bool] maps *)

Definition b2n (b : bool) : nat := if b then 1 else 0.

Fixpoint cnt (f : nat -> bool) (k : nat) : nat :=
  match k with
  | 0 => 0
  | S k' => cnt f k' + b2n (f k')
  end.

Lemma cnt_S f k : cnt f (S k) = cnt f k + b2n (f k).
Proof. reflexivity. Qed.

Lemma cnt_ext f g k : (forall x, x < k -> g x = f x) -> cnt g k = cnt f k.
Proof.
  induction k as [|k IH]; intros H; simpl; [reflexivity|].
  rewrite IH by (intros; apply H; lia). rewrite (H k) by lia. reflexivity.
Qed.

Lemma cnt_change f g k t :
  t < k -> (forall x, x <> t -> g x = f x) ->
  cnt g k + b2n (f t) = cnt f k + b2n (g t).
Proof.
  induction k as [|k IH]; intros Ht H; [lia|]. simpl.
  destruct (Nat.eq_dec t k) as [->|Hne].
  - rewrite (cnt_ext f g) by (intros; apply H; lia). lia.
  - rewrite (H k) by lia. specialize (IH ltac:(lia) H). lia.
Qed.

Lemma cnt_ge f k t : t < k -> b2n (f t) <= cnt f k.
Proof.
  induction k as [|k IH]; intros Ht; [lia|]. simpl.
  destruct (Nat.eq_dec t k) as [->|Hne]; [lia|]. specialize (IH ltac:(lia)). lia.
Qed.

Lemma cnt_zero f k : cnt f k = 0 -> forall x, x < k -> f x = false.
Proof.
  intros H x Hx. pose proof (cnt_ge f k x Hx) as G. destruct (f x); simpl in G; [lia|reflexivity].
Qed.

Lemma cnt_zero_intro f k : (forall x, x < k -> f x = false) -> cnt f k = 0.
Proof.
  induction k as [|k IH]; intros H; simpl; [reflexivity|].
  rewrite IH by (intros; apply H; lia). rewrite (H k) by lia. reflexivity.
Qed.

(** ** Lists, counts and the trace monitors under [rev] / snoc *)

Lemma count_cons A (f : A -> bool) e l : count f (e :: l) = b2n (f e) + count f l.
Proof. unfold count. simpl. destruct (f e); reflexivity. Qed.

Lemma tcount_cons (f : tevent -> bool) (e : tevent) l : @count tevent f (e :: l) = b2n (f e) + @count tevent f l.
Proof. apply count_cons. Qed.

Lemma count_app A (f : A -> bool) l1 l2 : count f (l1 ++ l2) = count f l1 + count f l2.
Proof. unfold count. rewrite filter_app, app_length. reflexivity. Qed.

Lemma count_rev A (f : A -> bool) l : count f (rev l) = count f l.
Proof.
  induction l as [|a l IH]; [reflexivity|]. simpl rev.
  rewrite count_app, !count_cons, IH. change (count f []) with 0. lia.
Qed.

Lemma existsb_rev A (f : A -> bool) l : existsb f (rev l) = existsb f l.
Proof.
  induction l as [|a l IH]; [reflexivity|]. simpl. rewrite existsb_app, IH. simpl.
  rewrite orb_false_r. apply orb_comm.
Qed.

Lemma existsb_all_false A (f : A -> bool) l : (forall x, f x = false) -> existsb f l = false.
Proof. intros H. induction l as [|a l IH]; simpl; [reflexivity|]. rewrite H, IH. reflexivity. Qed.

Lemma flat_map_nil A B (f : A -> list B) l : (forall x, In x l -> f x = []) -> flat_map f l = [].
Proof.
  induction l as [|a l IH]; intros H; simpl; [reflexivity|].
  rewrite (H a) by (left; reflexivity). rewrite IH by (intros; apply H; right; assumption). reflexivity.
Qed.

Lemma eqb0_iff a b : (a = 0 <-> b = 0) -> (a =? 0) = (b =? 0).
Proof.
  intros H. destruct (Nat.eqb_spec a 0), (Nat.eqb_spec b 0); try reflexivity; exfalso; tauto.
Qed.

Definition is_begin (e : tevent) : bool := match snd e with TBegin _ => true | _ => false end.
Definition is_begin_dt (e : tevent) : bool := match snd e with TBegin DT => true | _ => false end.

Lemma bgo_snoc_nb l e : before_greet_ok l = true -> is_begin e = false -> before_greet_ok (l ++ [e]) = true.
Proof.
  induction l as [|[t a] l IH]; intros H He; simpl in *.
  - destruct e as [t a]. unfold is_begin in He. simpl in He. destruct a; try reflexivity; discriminate.
  - destruct a as [m| | |]; try (apply IH; assumption). destruct m; try discriminate; reflexivity.
Qed.

Lemma bgo_snoc_greet l t : before_greet_ok l = true -> before_greet_ok (l ++ [(t, TBegin DH)]) = true.
Proof.
  induction l as [|[t' a] l IH]; intros H; simpl in *; [reflexivity|].
  destruct a as [m| | |]; try (apply IH; assumption). destruct m; try discriminate; reflexivity.
Qed.

Lemma bgo_snoc_after l e :
  before_greet_ok l = true -> 1 <= count is_begin_greet l -> before_greet_ok (l ++ [e]) = true.
Proof.
  induction l as [|[t' a] l IH]; intros H Hc.
  - unfold count in Hc. simpl in Hc. lia.
  - rewrite count_cons in Hc. simpl in *.
    destruct a as [m| | |]; try (apply IH; [assumption|exact Hc]).
    destruct m; try discriminate; reflexivity.
Qed.

Fixpoint open_after (o : nat -> bool) (l : list tevent) : nat -> bool :=
  match l with
  | [] => o
  | (t, TBegin (DD _)) :: l' => open_after (upd o t true) l'
  | (t, TEnd) :: l' => open_after (upd o t false) l'
  | _ :: l' => open_after o l'
  end.

Fixpoint seen_after (b : bool) (l : list tevent) : bool :=
  match l with
  | [] => b
  | (_, TBegin DT) :: l' => seen_after true l'
  | (_, TBegin (DE _)) :: l' => seen_after true l'
  | _ :: l' => seen_after b l'
  end.

Lemma scan_term_app l1 l2 : forall o b,
  scan_term o b (l1 ++ l2) = scan_term o b l1 ++ scan_term (open_after o l1) (seen_after b l1) l2.
Proof.
  induction l1 as [|[t a] l1 IH]; intros o b; [reflexivity|].
  simpl. destruct a as [m| | |]; try (apply IH).
  destruct m; rewrite IH; try reflexivity; apply app_assoc.
Qed.

Lemma open_after_app l1 l2 : forall o, open_after o (l1 ++ l2) = open_after (open_after o l1) l2.
Proof.
  induction l1 as [|[t a] l1 IH]; intros o; [reflexivity|].
  simpl. destruct a as [m| | |]; try (apply IH). destruct m; apply IH.
Qed.

Lemma seen_after_app l1 l2 : forall b, seen_after b (l1 ++ l2) = seen_after (seen_after b l1) l2.
Proof.
  induction l1 as [|[t a] l1 IH]; intros b; [reflexivity|].
  simpl. destruct a as [m| | |]; try (apply IH). destruct m; apply IH.
Qed.

(** ** Values and tuples *)

Lemma val_eqb_refl : forall v, val_eqb v v = true.
Proof.
  fix IH 1. intros [x|l].
  - simpl. apply Nat.eqb_refl.
  - simpl. induction l as [|a l IHl]; [reflexivity|]. rewrite IH, IHl. reflexivity.
Qed.

Lemma sent_by_in qs t v : In v (qs t) -> sent_by qs t v = true.
Proof.
  intros H. unfold sent_by. apply existsb_exists. exists v. split; [assumption|apply val_eqb_refl].
Qed.

Lemma tuple_ok_snoc qs l : forall k v,
  tuple_ok qs k (l ++ [v]) = tuple_ok qs k l && sent_by qs (k + length l) v.
Proof.
  induction l as [|a l IH]; intros k v; simpl.
  - rewrite Nat.add_0_r, andb_true_r. reflexivity.
  - rewrite IH. rewrite <- Nat.add_succ_comm. rewrite andb_assoc. reflexivity.
Qed.

Lemma cb_tuple_all qs vals k :
  (forall j, j < k -> exists v, vals j = Some v /\ In v (qs j)) ->
  exists l, cb_tuple vals k = Some l /\ length l = k /\ tuple_ok qs 0 l = true.
Proof.
  induction k as [|k IH]; intros H.
  - exists []. repeat split.
  - destruct IH as (l & Hl & Hlen & Hok); [intros; apply H; lia|].
    destruct (H k ltac:(lia)) as (v & Hv & Hin).
    exists (l ++ [v]). simpl. rewrite Hl, Hv. split; [reflexivity|]. split.
    + rewrite app_length. simpl. lia.
    + rewrite tuple_ok_snoc, Hok, Hlen. simpl. apply sent_by_in. assumption.
Qed.

(** ** The state invariant *)

Definition isnone {A} (o : option A) : bool := match o with None => true | Some _ => false end.

Definition atstartb (th : cb_thread) : bool :=
  match cb_pcv th with CbAtStartDec => true | _ => false end.
(** the member has not yet performed its first [n_data.fetch_sub] *)
Definition undecb (th : cb_thread) (vo : option val) : bool :=
  match cb_pcv th with CbAtDataDec _ => true | _ => isnone vo end.
(** the member has not (and, if it stops without ending, will never have) performed [n_end.fetch_sub] *)
Definition notendedb (th : cb_thread) : bool :=
  match cb_pcv th with
  | CbInTerm => false
  | CbFinished => match cb_fin th with FinNone => true | _ => false end
  | _ => true
  end.
Definition indatab (th : cb_thread) : bool :=
  match cb_pcv th with CbInData => true | _ => false end.

Definition next_th (th : cb_thread) : cb_thread :=
  match cb_q th with
  | v :: q' => th <| cb_pcv := CbAtValsLoad v |> <| cb_q := q' |>
  | [] => match cb_fin th with
          | FinNone => th <| cb_pcv := CbFinished |>
          | _ => th <| cb_pcv := CbAtEndDec |>
          end
  end.

Lemma cb_next_eq s t th : cbs_stopped s t = false -> cb_next s t th = cb_set s t (next_th th).
Proof.
  intros H. unfold cb_next, next_th. rewrite H.
  destruct (cb_q th); [|reflexivity]. destruct (cb_fin th); reflexivity.
Qed.

Lemma next_th_atstart th : atstartb (next_th th) = false.
Proof. unfold next_th, atstartb. destruct (cb_q th); [|reflexivity]. destruct (cb_fin th); reflexivity. Qed.
Lemma next_th_undec th vo : undecb (next_th th) vo = isnone vo.
Proof. unfold next_th, undecb. destruct (cb_q th); [|reflexivity]. destruct (cb_fin th); reflexivity. Qed.
Lemma next_th_notended th : notendedb (next_th th) = true.
Proof.
  unfold next_th, notendedb. destruct (cb_q th); [|reflexivity].
  destruct (cb_fin th) eqn:E; cbn; rewrite ?E; reflexivity.
Qed.
Lemma next_th_indata th : indatab (next_th th) = false.
Proof. unfold next_th, indatab. destruct (cb_q th); [|reflexivity]. destruct (cb_fin th); reflexivity. Qed.

Definition thr_ok (qt : list val) (ft : final) (nd : nat) (th : cb_thread) (vo : option val) : Prop :=
  cb_fin th = ft /\ incl (cb_q th) qt /\ (forall v, vo = Some v -> In v qt) /\
  match cb_pcv th with
  | CbAtStartDec => vo = None
  | CbAtValsLoad v => In v qt
  | CbAtDataDec _ => vo <> None
  | CbAtRcuLoad v o wn => In v qt /\ o = None /\ wn = isnone vo
  | CbAtRcuCas v o wn _ => In v qt /\ o = None /\ wn = isnone vo
  | CbAtEmitLoad => nd = 0
  | CbAtEndDec | CbInTerm => ft <> FinNone
  | _ => True
  end.

Lemma next_th_ok qt ft nd th vo :
  cb_fin th = ft -> incl (cb_q th) qt -> (forall v, vo = Some v -> In v qt) ->
  thr_ok qt ft nd (next_th th) vo.
Proof.
  intros Hf Hq Hv. unfold thr_ok, next_th.
  destruct (cb_q th) as [|v q'] eqn:Eq.
  - destruct (cb_fin th) eqn:Ef; cbn; rewrite ?Eq, ?Ef; repeat split; auto; congruence.
  - cbn. repeat split; auto.
    + intros x Hx. apply Hq. right. exact Hx.
    + apply Hq. left. reflexivity.
Qed.

Lemma thr_ok_mono qt ft nd nd' th vo : thr_ok qt ft nd th vo -> nd' <= nd -> thr_ok qt ft nd' th vo.
Proof.
  unfold thr_ok. intros (A & B & C & D) H. repeat split; auto.
  destruct (cb_pcv th); auto. lia.
Qed.

Set Implicit Arguments.

Section Combine.
  Variable n : nat.
  Variable qs : nat -> list val.
  Variable fins : nat -> final.

  Inductive cb_reach : cb_state -> Prop :=
  | cbr0 : cb_reach (cb_init n qs fins)
  | cbrS s t : cb_reach s -> cb_reach (cb_step true n s t).

  Record Inv (s : cb_state) : Prop := {
    inv_stopped : forall t, cbs_stopped s t = false;
    inv_panicked : cbs_panicked s = false;
    inv_out : forall t, n <= t -> cb_pcv (cbs_th s t) = CbFinished;
    inv_thr : forall t, thr_ok (qs t) (fins t) (cbs_ndata s) (cbs_th s t) (cbs_vals s t);
    inv_nstart : cbs_nstart s = cnt (fun x => atstartb (cbs_th s x)) n;
    inv_ndata : cbs_ndata s = cnt (fun x => undecb (cbs_th s x) (cbs_vals s x)) n;
    inv_nend : cbs_nend s = cnt (fun x => notendedb (cbs_th s x)) n }.

  Lemma inv_init : Inv (cb_init n qs fins).
  Proof.
    split; cbn -[Nat.ltb]; try reflexivity.
    - intros t Ht. destruct (Nat.ltb_spec t n); [lia|reflexivity].
    - intros t. unfold thr_ok. cbn -[Nat.ltb]. repeat split; try (apply incl_refl); try discriminate.
      destruct (t <? n); auto.
    - assert (G : forall k, k <= n -> k = cnt (fun x => atstartb
                (cbs_th (cb_init n qs fins) x)) k).
      { induction k as [|k IH]; intros Hk; [reflexivity|]. rewrite cnt_S, <- IH by lia. cbv beta.
        unfold atstartb. cbn -[Nat.ltb]. destruct (Nat.ltb_spec k n); [simpl; lia|lia]. }
      apply (G n). lia.
    - assert (G : forall k, k <= n -> k = cnt (fun x => undecb
                (cbs_th (cb_init n qs fins) x) (cbs_vals (cb_init n qs fins) x)) k).
      { induction k as [|k IH]; intros Hk; [reflexivity|]. rewrite cnt_S, <- IH by lia. cbv beta.
        unfold undecb. cbn -[Nat.ltb]. destruct (k <? n); simpl; lia. }
      apply (G n). lia.
    - assert (G : forall k, k <= n -> k = cnt (fun x => notendedb
                (cbs_th (cb_init n qs fins) x)) k).
      { induction k as [|k IH]; intros Hk; [reflexivity|]. rewrite cnt_S, <- IH by lia. cbv beta.
        unfold notendedb. cbn -[Nat.ltb]. destruct (Nat.ltb_spec k n); [simpl; lia|lia]. }
      apply (G n). lia.
  Qed.

  Lemma inv_frame s s' t th' :
    Inv s -> t < n ->
    (forall x, cbs_th s' x = upd (cbs_th s) t th' x) ->
    (forall x, x <> t -> cbs_vals s' x = cbs_vals s x) ->
    (forall x, cbs_stopped s' x = cbs_stopped s x) ->
    cbs_panicked s' = cbs_panicked s ->
    cbs_ndata s' <= cbs_ndata s ->
    thr_ok (qs t) (fins t) (cbs_ndata s') th' (cbs_vals s' t) ->
    cbs_nstart s' + b2n (atstartb (cbs_th s t)) = cbs_nstart s + b2n (atstartb th') ->
    cbs_ndata s' + b2n (undecb (cbs_th s t) (cbs_vals s t))
      = cbs_ndata s + b2n (undecb th' (cbs_vals s' t)) ->
    cbs_nend s' + b2n (notendedb (cbs_th s t)) = cbs_nend s + b2n (notendedb th') ->
    Inv s'.
  Proof.
    intros I Ht Hth Hvals Hst Hpa Hnd Hok H1 H2 H3.
    assert (Hth_t : cbs_th s' t = th') by (rewrite Hth; apply upd_same).
    assert (Hth_o : forall x, x <> t -> cbs_th s' x = cbs_th s x)
      by (intros x Hx; rewrite Hth; apply upd_other; exact Hx).
    split.
    - intros x. rewrite Hst. apply I.
    - rewrite Hpa. apply I.
    - intros x Hx. rewrite Hth_o by lia. apply I. exact Hx.
    - intros x. destruct (Nat.eq_dec x t) as [->|Hx].
      + rewrite Hth_t. exact Hok.
      + rewrite Hth_o, Hvals by exact Hx. eapply thr_ok_mono; [apply I|exact Hnd].
    - pose proof (cnt_change (fun x => atstartb (cbs_th s x)) (fun x => atstartb (cbs_th s' x)) n t Ht) as C.
      cbv beta in C. rewrite Hth_t in C. rewrite <- (inv_nstart I) in C.
      specialize (C ltac:(intros x Hx; rewrite Hth_o by exact Hx; reflexivity)). lia.
    - pose proof (cnt_change (fun x => undecb (cbs_th s x) (cbs_vals s x))
                             (fun x => undecb (cbs_th s' x) (cbs_vals s' x)) n t Ht) as C.
      cbv beta in C. rewrite Hth_t in C. rewrite <- (inv_ndata I) in C.
      specialize (C ltac:(intros x Hx; rewrite Hth_o, Hvals by exact Hx; reflexivity)). lia.
    - pose proof (cnt_change (fun x => notendedb (cbs_th s x)) (fun x => notendedb (cbs_th s' x)) n t Ht) as C.
      cbv beta in C. rewrite Hth_t in C. rewrite <- (inv_nend I) in C.
      specialize (C ltac:(intros x Hx; rewrite Hth_o by exact Hx; reflexivity)). lia.
  Qed.

  Lemma inv_all_set s : Inv s -> cbs_ndata s = 0 ->
    forall j, j < n -> exists v, cbs_vals s j = Some v /\ In v (qs j).
  Proof.
    intros I H j Hj. rewrite (inv_ndata I) in H. pose proof (cnt_zero _ _ H j Hj) as Z. cbv beta in Z.
    destruct (inv_thr I j) as (_ & _ & Hv & _).
    unfold undecb in Z. destruct (cbs_vals s j) as [v|] eqn:E.
    - exists v. auto.
    - destruct (cb_pcv (cbs_th s j)); discriminate.
  Qed.

  Lemma inv_tuple s : Inv s -> cbs_ndata s = 0 ->
    exists l, cb_tuple (cbs_vals s) n = Some l /\ length l = n /\ tuple_ok qs 0 l = true.
  Proof. intros I H. apply cb_tuple_all. apply inv_all_set; assumption. Qed.

  Lemma inv_nstart0 s : Inv s -> cbs_ndata s = 0 -> cbs_nstart s = 0.
  Proof.
    intros I H. rewrite (inv_nstart I). apply cnt_zero_intro. intros x Hx.
    destruct (inv_all_set I H Hx) as (v & Hv & _). destruct (inv_thr I x) as (_ & _ & _ & P).
    unfold atstartb. destruct (cb_pcv (cbs_th s x)); try reflexivity. congruence.
  Qed.

  Ltac frame I Ht :=
    eapply inv_frame; [exact I | exact Ht | intros ?; cbn; reflexivity | .. ].

  Ltac fin E :=
    cbn; rewrite ?upd_same, ?next_th_atstart, ?next_th_undec, ?next_th_notended;
    unfold atstartb, undecb, notendedb; cbn; rewrite ?E; cbn;
    try first [ reflexivity | lia | (intros ? ?; apply upd_other; assumption)
              | (apply next_th_ok; assumption) ].

  Ltac okk := unfold thr_ok; cbn; repeat split; auto.
  Ltac vcase s t := try solve [destruct (cbs_vals s t); simpl in *; first [lia | congruence]].

  Lemma inv_step s t : Inv s -> Inv (cb_step true n s t).
  Proof.
    intros I. destruct (le_lt_dec n t) as [Hge|Ht].
    { unfold cb_step. rewrite (inv_out I Hge). exact I. }
    destruct (inv_thr I t) as (Hfin & Hq & Hv & Hpc).
    pose proof (cnt_ge (fun x => atstartb (cbs_th s x)) n t Ht) as G1.
    pose proof (cnt_ge (fun x => undecb (cbs_th s x) (cbs_vals s x)) n t Ht) as G2.
    pose proof (cnt_ge (fun x => notendedb (cbs_th s x)) n t Ht) as G3.
    rewrite <- (inv_nstart I) in G1. rewrite <- (inv_ndata I) in G2. rewrite <- (inv_nend I) in G3.
    cbv beta in G1, G2, G3.
    pose proof (inv_stopped I t) as Hst.
    unfold cb_step, cb_after_count.
    unfold atstartb, undecb, notendedb in G1, G2, G3.
    destruct (cb_pcv (cbs_th s t)) eqn:E; simpl b2n in G1, G2, G3.
    - (* CbAtStartDec *)
      destruct (Nat.eqb_spec (pred (cbs_nstart s)) 0) as [Hz|Hz].
      + frame I Ht; fin E.
        okk.
      + rewrite cb_next_eq by (cbn; exact Hst). frame I Ht; fin E.
    - (* CbInGreet *)
      rewrite cb_next_eq by (cbn; exact Hst). frame I Ht; fin E.
    - (* CbAtValsLoad *)
      frame I Ht; fin E.
      okk.
    - (* CbAtDataDec *)
      destruct (Nat.eqb_spec (pred (cbs_ndata s)) 0) as [Hz|Hz].
      + frame I Ht; fin E.
        all: try okk. all: vcase s t.
      + rewrite cb_next_eq by (cbn; exact Hst). frame I Ht; fin E. all: try okk. all: vcase s t.
    - (* CbAtDataLoad *)
      destruct (Nat.eqb_spec (cbs_ndata s) 0) as [Hz|Hz].
      + frame I Ht; fin E.
        all: try okk. all: vcase s t.
      + rewrite cb_next_eq by (cbn; exact Hst). frame I Ht; fin E.
    - (* CbAtRcuLoad *)
      destruct Hpc as (Hin & -> & ->).
      frame I Ht; fin E. all: try okk. all: vcase s t.
    - (* CbAtRcuCas *)
      destruct Hpc as (Hin & -> & ->).
      destruct (Nat.eqb_spec ver (cbs_ver s)) as [Hz|Hz].
      + frame I Ht; fin E.
        all: try okk. all: vcase s t.
      + frame I Ht; fin E. all: try okk. all: vcase s t.
    - (* CbAtEmitLoad *)
      destruct (inv_tuple I Hpc) as (l & -> & _).
      frame I Ht; fin E. all: try okk. all: vcase s t.
    - (* CbInData *)
      rewrite cb_next_eq by (cbn; exact Hst). frame I Ht; fin E.
    - (* CbAtEndDec *)
      destruct (Nat.eqb_spec (pred (cbs_nend s)) 0) as [Hz|Hz].
      + frame I Ht; fin E. all: try okk. all: vcase s t.
      + frame I Ht; fin E. all: try okk. all: vcase s t.
        rewrite Hfin. destruct (fins t); simpl; solve [lia | congruence].
    - (* CbInTerm *)
      frame I Ht; fin E. all: try okk. all: vcase s t.
      rewrite Hfin. destruct (fins t); simpl; solve [lia | congruence].
    - exact I.
  Qed.
  (** ** The trace invariant *)

  Definition tuple_good (e : tevent) : Prop :=
    match snd e with
    | TBegin (DD x) => exists l, x = VT l /\ length l = n /\ tuple_ok qs 0 l = true
    | _ => True
    end.

  Definition O0 : nat -> bool := fun _ => false.

  Record TInv (s : cb_state) : Prop := {
    ti_panic : existsb is_panic (cbs_tr s) = false;
    ti_greet : count is_begin_greet (cbs_tr s) = if cbs_nstart s =? 0 then 1 else 0;
    ti_bgo : before_greet_ok (rev (cbs_tr s)) = true;
    ti_term : count is_begin_term (cbs_tr s) = if cbs_nend s =? 0 then 1 else 0;
    ti_dt : count is_begin_dt (cbs_tr s) = if cbs_nend s =? 0 then 1 else 0;
    ti_scan : scan_term O0 false (rev (cbs_tr s)) = [];
    ti_open : forall x, open_after O0 (rev (cbs_tr s)) x = indatab (cbs_th s x);
    ti_seen : seen_after false (rev (cbs_tr s)) = (cbs_nend s =? 0);
    ti_tuples : Forall tuple_good (cbs_tr s) }.

  Hypothesis Hn : 1 <= n.

  Lemma tinv_init : TInv (cb_init n qs fins).
  Proof.
    split; cbn -[Nat.ltb]; try reflexivity.
    - destruct (Nat.eqb_spec n 0); [lia|reflexivity].
    - destruct (Nat.eqb_spec n 0); [lia|reflexivity].
    - destruct (Nat.eqb_spec n 0); [lia|reflexivity].
    - intros x. unfold indatab. cbn -[Nat.ltb]. destruct (x <? n); reflexivity.
    - destruct (Nat.eqb_spec n 0); [lia|reflexivity].
    - constructor.
  Qed.

  Lemma tinv_silent s s' :
    TInv s -> cbs_tr s' = cbs_tr s ->
    (cbs_nstart s' = 0 <-> cbs_nstart s = 0) -> (cbs_nend s' = 0 <-> cbs_nend s = 0) ->
    (forall x, indatab (cbs_th s' x) = indatab (cbs_th s x)) -> TInv s'.
  Proof.
    intros T Htr H1 H2 H3. apply eqb0_iff in H1, H2.
    destruct T. split; rewrite ?Htr, ?H1, ?H2; auto. intros x; rewrite H3; auto.
  Qed.

  Lemma tinv_end s s' t :
    TInv s -> cbs_tr s' = (t, TEnd) :: cbs_tr s ->
    (cbs_nstart s' = 0 <-> cbs_nstart s = 0) -> (cbs_nend s' = 0 <-> cbs_nend s = 0) ->
    (forall x, x <> t -> indatab (cbs_th s' x) = indatab (cbs_th s x)) ->
    indatab (cbs_th s' t) = false -> TInv s'.
  Proof.
    intros T Htr H1 H2 H3 H4. apply eqb0_iff in H1, H2.
    destruct T. split; rewrite ?Htr, ?H1, ?H2, ?tcount_cons; simpl rev; auto.
    - apply bgo_snoc_nb; auto.
    - rewrite scan_term_app, ti_scan0. reflexivity.
    - intros x. rewrite open_after_app. simpl. destruct (Nat.eq_dec x t) as [->|Hx].
      + rewrite upd_same, H4. reflexivity.
      + rewrite upd_other, H3 by exact Hx. apply ti_open0.
    - rewrite seen_after_app. simpl. assumption.
    - constructor; [exact Logic.I|assumption].
  Qed.

  Lemma tinv_greet s s' t :
    TInv s -> cbs_tr s' = (t, TBegin DH) :: cbs_tr s ->
    cbs_nstart s <> 0 -> cbs_nstart s' = 0 -> (cbs_nend s' = 0 <-> cbs_nend s = 0) ->
    (forall x, indatab (cbs_th s' x) = indatab (cbs_th s x)) -> TInv s'.
  Proof.
    intros T Htr H0 H1 H2 H3. apply eqb0_iff in H2. apply Nat.eqb_neq in H0.
    destruct T. rewrite H0 in *.
    split; rewrite ?Htr, ?H1, ?H2, ?tcount_cons; simpl rev; auto.
    - rewrite ti_greet0. reflexivity.
    - apply bgo_snoc_greet; auto.
    - rewrite scan_term_app, ti_scan0. reflexivity.
    - intros x. rewrite open_after_app. simpl. rewrite H3. apply ti_open0.
    - rewrite seen_after_app. simpl. assumption.
    - constructor; [exact Logic.I|assumption].
  Qed.

  Lemma tinv_data s s' t l :
    TInv s -> cbs_tr s' = (t, TBegin (DD (VT l))) :: cbs_tr s ->
    cbs_nstart s = 0 -> cbs_nstart s' = 0 -> cbs_nend s <> 0 -> cbs_nend s' = cbs_nend s ->
    length l = n -> tuple_ok qs 0 l = true ->
    (forall x, x <> t -> indatab (cbs_th s' x) = indatab (cbs_th s x)) ->
    indatab (cbs_th s' t) = true -> TInv s'.
  Proof.
    intros T Htr H0 H1 H2 H2' Hl Hok H3 H4. apply Nat.eqb_neq in H2.
    destruct T. rewrite H0, H2 in *.
    split; rewrite ?Htr, ?H1, ?H2', ?H2, ?tcount_cons; simpl rev; auto.
    - apply bgo_snoc_after; auto. rewrite count_rev, ti_greet0. simpl. lia.
    - rewrite scan_term_app, ti_scan0, ti_seen0. reflexivity.
    - intros x. rewrite open_after_app. simpl. destruct (Nat.eq_dec x t) as [->|Hx].
      + rewrite upd_same, H4. reflexivity.
      + rewrite upd_other, H3 by exact Hx. apply ti_open0.
    - rewrite seen_after_app. simpl. assumption.
    - constructor; [|assumption]. exists l. auto.
  Qed.

  Lemma tinv_dt s s' t :
    TInv s -> cbs_tr s' = (t, TBegin DT) :: cbs_tr s ->
    cbs_nstart s = 0 -> cbs_nstart s' = 0 -> cbs_nend s <> 0 -> cbs_nend s' = 0 ->
    (forall x, indatab (cbs_th s x) = false) ->
    (forall x, indatab (cbs_th s' x) = false) -> TInv s'.
  Proof.
    intros T Htr H0 H1 H2 H2' H3 H4. apply Nat.eqb_neq in H2.
    destruct T. rewrite H0, H2 in *.
    split; rewrite ?Htr, ?H1, ?H2', ?tcount_cons; simpl rev; auto.
    - apply bgo_snoc_after; auto. rewrite count_rev, ti_greet0. simpl. lia.
    - rewrite ti_term0. reflexivity.
    - rewrite ti_dt0. reflexivity.
    - rewrite scan_term_app, ti_scan0. cbn [app scan_term].
      rewrite existsb_all_false; [reflexivity|]. intros x. rewrite ti_open0. apply H3.
    - intros x. rewrite open_after_app. simpl. rewrite ti_open0, H3, H4. reflexivity.
    - rewrite seen_after_app. reflexivity.
    - constructor; [exact Logic.I|assumption].
  Qed.

  Lemma all_ended s : Inv s -> cbs_nend s = 0 ->
    forall x, atstartb (cbs_th s x) = false /\ indatab (cbs_th s x) = false /\
              (cb_pcv (cbs_th s x) = CbInTerm \/ cb_pcv (cbs_th s x) = CbFinished).
  Proof.
    intros I H x. destruct (le_lt_dec n x) as [Hge|Hx].
    - pose proof (inv_out I Hge) as F. unfold atstartb, indatab. rewrite F. auto.
    - rewrite (inv_nend I) in H. pose proof (cnt_zero _ _ H x Hx) as Z. cbv beta in Z.
      unfold notendedb in Z. unfold atstartb, indatab.
      destruct (cb_pcv (cbs_th s x)); try discriminate; auto.
  Qed.

  Ltac ind_same E t :=
    let x := fresh "x" in let Hx := fresh "Hx" in
    intros x; cbn; destruct (Nat.eq_dec x t) as [->|Hx];
    [ rewrite upd_same; rewrite ?next_th_indata; unfold indatab; cbn; rewrite ?E; reflexivity
    | rewrite upd_other by exact Hx; reflexivity ].
  Ltac ind_other :=
    let x := fresh "x" in let Hx := fresh "Hx" in
    intros x Hx; cbn; rewrite upd_other by exact Hx; reflexivity.
  Ltac ind_self :=
    cbn; rewrite upd_same; rewrite ?next_th_indata; unfold indatab; cbn; reflexivity.

  Lemma tinv_step s t : Inv s -> TInv s -> TInv (cb_step true n s t).
  Proof.
    intros I T. pose proof (inv_step t I) as I'.
    destruct (le_lt_dec n t) as [Hge|Ht].
    { unfold cb_step. rewrite (inv_out I Hge). exact T. }
    destruct (inv_thr I t) as (Hfin & Hq & Hv & Hpc).
    pose proof (cnt_ge (fun x => atstartb (cbs_th s x)) n t Ht) as G1.
    pose proof (cnt_ge (fun x => notendedb (cbs_th s x)) n t Ht) as G3.
    rewrite <- (inv_nstart I) in G1. rewrite <- (inv_nend I) in G3.
    cbv beta in G1, G3.
    pose proof (inv_stopped I t) as Hst.
    revert I'. unfold cb_step, cb_after_count.
    unfold atstartb, notendedb in G1, G3.
    destruct (cb_pcv (cbs_th s t)) eqn:E; simpl b2n in G1, G3; intros I'.
    - (* CbAtStartDec *)
      destruct (Nat.eqb_spec (pred (cbs_nstart s)) 0) as [Hz|Hz].
      + eapply tinv_greet with (t := t);
          [exact T | cbn; reflexivity | lia | cbn; exact Hz | cbn; tauto | ind_same E t].
      + rewrite cb_next_eq by (cbn; exact Hst).
        eapply tinv_silent; [exact T | cbn; reflexivity | cbn; lia | cbn; tauto | ind_same E t].
    - (* CbInGreet *)
      rewrite cb_next_eq by (cbn; exact Hst).
      eapply tinv_end with (t := t);
        [exact T | cbn; reflexivity | cbn; tauto | cbn; tauto | ind_other | ind_self].
    - (* CbAtValsLoad *)
      eapply tinv_silent; [exact T | cbn; reflexivity | cbn; tauto | cbn; tauto | ind_same E t].
    - (* CbAtDataDec *)
      destruct (Nat.eqb_spec (pred (cbs_ndata s)) 0) as [Hz|Hz].
      + eapply tinv_silent; [exact T | cbn; reflexivity | cbn; tauto | cbn; tauto | ind_same E t].
      + rewrite cb_next_eq by (cbn; exact Hst).
        eapply tinv_silent; [exact T | cbn; reflexivity | cbn; tauto | cbn; tauto | ind_same E t].
    - (* CbAtDataLoad *)
      destruct (Nat.eqb_spec (cbs_ndata s) 0) as [Hz|Hz].
      + eapply tinv_silent; [exact T | cbn; reflexivity | cbn; tauto | cbn; tauto | ind_same E t].
      + rewrite cb_next_eq by (cbn; exact Hst).
        eapply tinv_silent; [exact T | cbn; reflexivity | cbn; tauto | cbn; tauto | ind_same E t].
    - (* CbAtRcuLoad *)
      eapply tinv_silent; [exact T | cbn; reflexivity | cbn; tauto | cbn; tauto | ind_same E t].
    - (* CbAtRcuCas *)
      destruct Hpc as (Hin & -> & ->).
      destruct (Nat.eqb_spec ver (cbs_ver s)) as [Hz|Hz].
      + eapply tinv_silent; [exact T | cbn; reflexivity | cbn; tauto | cbn; tauto | ].
        destruct (isnone (cbs_vals s t)); ind_same E t.
      + eapply tinv_silent; [exact T | cbn; reflexivity | cbn; tauto | cbn; tauto | ind_same E t].
    - (* CbAtEmitLoad *)
      destruct (inv_tuple I Hpc) as (l & El & Hlen & Hok). rewrite El.
      eapply tinv_data with (t := t) (l := l);
        [exact T | cbn; reflexivity | apply (inv_nstart0 I Hpc) | cbn; apply (inv_nstart0 I Hpc)
        | lia | cbn; reflexivity | exact Hlen | exact Hok | ind_other | ind_self].
    - (* CbInData *)
      rewrite cb_next_eq by (cbn; exact Hst).
      eapply tinv_end with (t := t);
        [exact T | cbn; reflexivity | cbn; tauto | cbn; tauto | ind_other | ind_self].
    - (* CbAtEndDec *)
      destruct (Nat.eqb_spec (pred (cbs_nend s)) 0) as [Hz|Hz].
      + pose proof (all_ended I' Hz) as A. cbn in A.
        assert (B : forall x, atstartb (cbs_th s x) = false /\ indatab (cbs_th s x) = false).
        { intros x. destruct (Nat.eq_dec x t) as [->|Hx].
          - unfold atstartb, indatab. rewrite E. auto.
          - specialize (A x). rewrite upd_other in A by exact Hx. tauto. }
        assert (S0 : cbs_nstart s = 0).
        { rewrite (inv_nstart I). apply cnt_zero_intro. intros x _. apply B. }
        eapply tinv_dt with (t := t);
          [exact T | cbn; reflexivity | exact S0 | cbn; exact S0 | lia | cbn; exact Hz
          | intros x; apply B | intros x; apply A].
      + eapply tinv_silent; [exact T | cbn; reflexivity | cbn; tauto | cbn; lia | ind_same E t].
    - (* CbInTerm *)
      eapply tinv_end with (t := t);
        [exact T | cbn; reflexivity | cbn; tauto | cbn; tauto | ind_other | ind_self].
    - exact T.
  Qed.

  (** ** Every reachable state satisfies both invariants *)

  Lemma reach_inv s : cb_reach s -> Inv s /\ TInv s.
  Proof.
    induction 1 as [|s t R [I T]].
    - split; [apply inv_init|apply tinv_init].
    - split; [apply inv_step|apply tinv_step]; assumption.
  Qed.

  (** 1. no panic *)
  Theorem combine_threads_no_panic s :
    cb_reach s ->
    cbs_panicked s = false /\ existsb is_panic (cbs_tr s) = false /\
    forall t, ~ In (t, TPanic) (cbs_tr s).
  Proof.
    intros R. destruct (reach_inv R) as [I T]. split; [apply I|]. split; [apply T|].
    intros t Hin. pose proof (ti_panic T) as P.
    assert (Q : existsb is_panic (cbs_tr s) = true)
      by (apply existsb_exists; exists (t, TPanic); split; [exact Hin|reflexivity]).
    congruence.
  Qed.

  (** the counters count what they are meant to count, and the slots only hold sent values *)
  Theorem combine_threads_counts s :
    cb_reach s ->
    cbs_nstart s = cnt (fun x => atstartb (cbs_th s x)) n /\
    cbs_ndata s = cnt (fun x => undecb (cbs_th s x) (cbs_vals s x)) n /\
    cbs_nend s = cnt (fun x => notendedb (cbs_th s x)) n /\
    (forall t, cbs_stopped s t = false) /\
    (forall t, cb_pcv (cbs_th s t) = CbAtEmitLoad -> forall j, j < n -> cbs_vals s j <> None).
  Proof.
    intros R. destruct (reach_inv R) as [I T].
    split; [apply I|]. split; [apply I|]. split; [apply I|]. split; [apply I|].
    intros t E j Hj. destruct (inv_thr I t) as (_ & _ & _ & P). rewrite E in P.
    destruct (inv_all_set I P Hj) as (v & Hv & _). congruence.
  Qed.

  Theorem combine_threads_vals_sent s :
    cb_reach s -> forall j v, cbs_vals s j = Some v -> In v (qs j).
  Proof.
    intros R j v H. destruct (reach_inv R) as [I T].
    destruct (inv_thr I j) as (_ & _ & P & _). apply P. exact H.
  Qed.

  (** 2. at most one greeting, and it begins before every other delivery *)
  Theorem combine_threads_greet_once s :
    cb_reach s ->
    count is_begin_greet (cbs_tr s) <= 1 /\ before_greet_ok (rev (cbs_tr s)) = true.
  Proof.
    intros R. destruct (reach_inv R) as [I T]. split; [|apply T].
    rewrite (ti_greet T). destruct (cbs_nstart s =? 0); lia.
  Qed.

  (** 3. every emitted tuple is complete and made of values that were sent *)
  Theorem combine_threads_tuples s :
    cb_reach s ->
    forall t x, In (t, TBegin (DD x)) (cbs_tr s) ->
    exists l, x = VT l /\ length l = n /\ tuple_ok qs 0 l = true.
  Proof.
    intros R t x Hin. destruct (reach_inv R) as [I T].
    exact (proj1 (Forall_forall _ _) (ti_tuples T) _ Hin).
  Qed.

  (** 4. at most one terminal message, begun while no data delivery is in progress *)
  Theorem combine_threads_one_terminal s :
    cb_reach s ->
    count is_begin_term (cbs_tr s) <= 1 /\
    (cbs_nend s = 0 -> forall t, t < n ->
       cb_pcv (cbs_th s t) = CbInTerm \/ cb_pcv (cbs_th s t) = CbFinished) /\
    scan_term (fun _ => false) false (rev (cbs_tr s)) = [] /\
    ~ In TvTermDuringData (scan_term (fun _ => false) false (rev (cbs_tr s))) /\
    ~ In TvAfterTerminal (scan_term (fun _ => false) false (rev (cbs_tr s))).
  Proof.
    intros R. destruct (reach_inv R) as [I T].
    pose proof (ti_scan T) as Sc. unfold O0 in Sc.
    split; [rewrite (ti_term T); destruct (cbs_nend s =? 0); lia|].
    split; [intros H t _; apply (all_ended I H)|].
    split; [exact Sc|]. rewrite Sc. split; intros [].
  Qed.

  (** 5. once every member thread has finished, the whole C18 monitor is silent *)
  Theorem combine_threads_final s :
    cb_reach s -> (forall t, t < n -> cb_finished s t = true) ->
    combine_check n qs fins (rev (cbs_tr s)) = [].
  Proof.
    intros R F. destruct (reach_inv R) as [I T].
    assert (S0 : cbs_nstart s = 0).
    { rewrite (inv_nstart I). apply cnt_zero_intro. intros x Hx. specialize (F x Hx).
      unfold cb_finished in F. unfold atstartb.
      destruct (cb_pcv (cbs_th s x)); try discriminate; reflexivity. }
    assert (P1 : count is_begin_greet (rev (cbs_tr s)) = 1)
      by (rewrite count_rev, (ti_greet T), S0; reflexivity).
    assert (P3 : (count is_begin_term (rev (cbs_tr s)) <=? 1) = true)
      by (apply Nat.leb_le; rewrite count_rev, (ti_term T); destruct (cbs_nend s =? 0); lia).
    assert (P4 : existsb is_panic (rev (cbs_tr s)) = false) by (rewrite existsb_rev; apply T).
    pose proof (ti_scan T) as P5. unfold O0 in P5.
    assert (P7 : forallb (fun t => match fins t with FinNone => false | _ => true end) (seq 0 n) = true ->
                 count is_begin_dt (rev (cbs_tr s)) = 1).
    { intros A. rewrite count_rev, (ti_dt T).
      assert (E0 : cbs_nend s = 0); [|rewrite E0; reflexivity].
      rewrite (inv_nend I). apply cnt_zero_intro. intros x Hx. specialize (F x Hx).
      unfold cb_finished in F. unfold notendedb.
      destruct (cb_pcv (cbs_th s x)); try discriminate.
      destruct (inv_thr I x) as (Hf & _). rewrite Hf.
      pose proof (proj1 (forallb_forall _ _) A x) as B. cbv beta in B.
      specialize (B ltac:(apply in_seq; lia)). destruct (fins x); [reflexivity|reflexivity|discriminate]. }
    unfold combine_check.
    rewrite P1, (ti_bgo T), P3, P4, P5. cbn [Nat.eqb flagt negb app].
    rewrite flat_map_nil.
    2:{ intros e He. apply in_rev in He.
        pose proof (proj1 (Forall_forall _ _) (ti_tuples T) e He) as G. unfold tuple_good in G.
        destruct (snd e) as [m| | |]; try reflexivity. destruct m as [|x|e'|]; try reflexivity.
        destruct G as (l & -> & Hl & Hok). rewrite Hl, Hok, Nat.eqb_refl. reflexivity. }
    cbn [app].
    destruct (forallb _ (seq 0 n)) eqn:A; [|reflexivity].
    match goal with |- context [@count ?A ?f (rev (cbs_tr s))] =>
      change (@count A f (rev (cbs_tr s))) with (@count tevent is_begin_dt (rev (cbs_tr s))) end.
    rewrite (P7 eq_refl). reflexivity.
  Qed.

End Combine.

(** ** Connecting the scheduler of Threads.v to reachability *)

Lemma run_sched_reach n qs fins sch : forall s,
  cb_reach n qs fins s -> cb_reach n qs fins (run_sched (cb_step true n) cb_finished sch s).
Proof.
  induction sch as [|t sch IH]; intros s R; simpl; [exact R|].
  apply IH. destruct (cb_finished s t); [exact R|constructor; exact R].
Qed.

Lemma drain_threads_reach n qs fins nth fuel : forall s,
  cb_reach n qs fins s -> cb_reach n qs fins (drain_threads (cb_step true n) cb_finished nth fuel s).
Proof.
  induction fuel as [|f IH]; intros s R; simpl; [exact R|].
  destruct (first_unfinished cb_finished nth s); [|exact R]. apply IH. constructor. exact R.
Qed.

Lemma run_full_reach n qs fins nth sch fuel :
  cb_reach n qs fins (run_full (cb_step true n) cb_finished nth sch fuel (cb_init n qs fins)).
Proof. unfold run_full. apply drain_threads_reach, run_sched_reach. constructor. Qed.

(** hence: whatever the schedule, a complete run of the repaired code passes the C18 monitor *)
Corollary combine_threads_run_full_check n qs fins nth sch fuel :
  1 <= n ->
  let s := run_full (cb_step true n) cb_finished nth sch fuel (cb_init n qs fins) in
  cbs_panicked s = false /\
  ((forall t, t < n -> cb_finished s t = true) -> combine_check n qs fins (rev (cbs_tr s)) = []).
Proof.
  intros Hn s. pose proof (run_full_reach n qs fins nth sch fuel) as R. fold s in R. split.
  - apply (combine_threads_no_panic Hn R).
  - apply (combine_threads_final Hn R).
Qed.

(** ** The unrepaired code is refuted by a concrete schedule *)

Definition refute_qs : nat -> list val := fun t => match t with 0 => [VN 1] | 1 => [VN 2] | _ => [] end.
Definition refute_fins : nat -> final := fun _ => FinTerm.
Definition refute_sch : list nat := [0;0;0;0;1;1;1;1;1;1;0;0;1;0;0].
Definition refute_final : cb_state :=
  run_full (cb_step false 2) cb_finished 2 refute_sch 100 (cb_init 2 refute_qs refute_fins).

Lemma combine_threads_unfixed_refuted :
  cbs_panicked refute_final = true /\
  In (1, TPanic) (cbs_tr refute_final) /\
  In TvPanic (combine_check 2 refute_qs refute_fins (rev (cbs_tr refute_final))).
Proof. vm_compute. split; [reflexivity|]. split; tauto. Qed.

(** the same schedule on the repaired code is fine (sanity check of the model) *)
Lemma combine_threads_fixed_same_schedule :
  let s := run_full (cb_step true 2) cb_finished 2 refute_sch 100 (cb_init 2 refute_qs refute_fins) in
  cbs_panicked s = false /\ combine_check 2 refute_qs refute_fins (rev (cbs_tr s)) = [] /\
  forallb (cb_finished s) (seq 0 2) = true.
Proof. vm_compute. repeat split. Qed.

Check combine_threads_no_panic.
Check combine_threads_greet_once.
Check combine_threads_tuples.
Check combine_threads_one_terminal.
Check combine_threads_final.
Print Assumptions combine_threads_no_panic.
Print Assumptions combine_threads_counts.
Print Assumptions combine_threads_vals_sent.
Print Assumptions combine_threads_greet_once.
Print Assumptions combine_threads_tuples.
Print Assumptions combine_threads_one_terminal.
Print Assumptions combine_threads_final.
Print Assumptions run_full_reach.
Print Assumptions combine_threads_run_full_check.
Print Assumptions combine_threads_unfixed_refuted.
Print Assumptions combine_threads_fixed_same_schedule.
