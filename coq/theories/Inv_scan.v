(** * Inv_scan: the master invariant of scan, over every reachable configuration *)
From CB Require Import ProofLib Spec.

Set Implicit Arguments.

(** like [fin] of ProofLib, but also rewrites the new component state [Hc] and
    the new trace [Ht] *)
Ltac fint Hc Hm Hs Hd Ht :=
  constructor; rewrite ?Hc, ?Hm, ?Hs, ?Hd, ?Ht, ?data_in_app; clear Hc; cbn; rewrite ?add_viols_eq; cbn;
  rewrite ?app_nil_r;
  unfold due_on_error; repeat (rw_st; cbn; rewrite ?Nat.eqb_refl; cbn); crush.

Section ScanInv.
  Variable reducer : val -> val -> val.
  Variable seed : val.
  Variable p : mparams.
  Hypothesis Hns : nsinks p = 1.
  Hypothesis Hresub : resub p = false.
  Hypothesis Hnonest : no_nest p = false.
  Hypothesis Hc14 : c14 p = false.
  Let o := scan_op reducer seed.
  Notation gs := g_std.

  Record Inv (c : cfg o) : Prop := {
    i_viols : viols (ms c) = [];
    i_dead : dead c = false;
    i_pair : paired (sk (ms c) 0) (us (ms c) 0);
    i_subd : subd (ms c) 0 = false -> us (ms c) 0 = UNone;
    i_due : forall s, err_due (ms c) s = None;
    i_ports : forall i, In i (ports (ms c)) -> i = 0;
    i_sk_other : forall s, s <> 0 -> sk (ms c) s = SNone;
    i_us_other : forall i, i <> 0 -> us (ms c) i = UNone;
    i_task : forall s, task (ms c) s = false;
    (* no data arrives before the (only) subscription, which resets the cell *)
    i_nodata : subd (ms c) 0 = false -> data_in 0 (trace c) = [];
    (* the accumulator cell is the fold of the data received so far *)
    i_acc : cst c = fold_left reducer (data_in 0 (trace c)) seed;
  }.

  Lemma inv0 : Inv (cfg0 o).
  Proof. constructor; cbn; auto; try constructor; intros; try tauto. Qed.

  Lemma inv_sub c s aux : Inv c -> enabled p gs c (MIn (ISub s aux)) = true ->
                          Inv (step p c (MIn (ISub s aux))).
  Proof.
    intros [] He. start_in He Hlive Hdel Hg.
    cbn in He, Hg. rewrite Hns in He. destruct aux; [|discriminate].
    destruct (at_top c) eqn:Htop; cbn in He; try discriminate.
    destruct s; cbn in He; try discriminate.
    apply negb_true_iff in He. specialize (i_subd0 He). specialize (i_nodata0 He).
    cases_pair c Esk Eus; try congruence.
    destruct (step_in p c (ISub 0 0) Hlive Hdel eq_refl) as (Hc & Hs & Hm & Hd).
    pose proof (step_in_trace p c (ISub 0 0) Hlive Hdel eq_refl) as Ht.
    fint Hc Hm Hs Hd Ht.
    now rewrite i_nodata0.
  Qed.

  Lemma inv_up c s u : Inv c -> enabled p gs c (MIn (IUp s u)) = true ->
                       Inv (step p c (MIn (IUp s u))).
  Proof.
    intros [] He. start_in He Hlive Hdel Hg.
    cbn in He. apply andb_prop in He. destruct He as [He Hu].
    apply andb_prop in He. destruct He as [Htop Hsk].
    destruct s as [|s]; [|rewrite i_sk_other0 in Hsk by lia; discriminate].
    cases_pair c Esk Eus; try discriminate.
    destruct (step_in p c (IUp 0 u) Hlive Hdel eq_refl) as (Hc & Hs & Hm & Hd).
    pose proof (step_in_trace p c (IUp 0 u) Hlive Hdel eq_refl) as Ht.
    destruct u as [|e|]; fint Hc Hm Hs Hd Ht.
  Qed.

  Lemma inv_dn c i d : Inv c -> enabled p gs c (MIn (IDn i d)) = true ->
                       Inv (step p c (MIn (IDn i d))).
  Proof.
    intros [] He. start_in He Hlive Hdel Hg.
    cbn in He. apply andb_prop in He. destruct He as [Htop He].
    destruct i as [|i].
    2: { rewrite i_us_other0 in He by lia. destruct d; cbn in He; discriminate. }
    cases_pair c Esk Eus; destruct d as [|v|e|]; cbn in He; try discriminate.
    all: destruct (step_in p c (IDn 0 _) Hlive Hdel eq_refl) as (Hc & Hs & Hm & Hd).
    all: pose proof (step_in_trace p c (IDn 0 _) Hlive Hdel eq_refl) as Ht.
    all: fint Hc Hm Hs Hd Ht.
    (* Data: the cell is updated before the new value is sent *)
    rewrite fold_left_app. cbn. now rewrite <- i_acc0.
  Qed.

  Lemma inv_ret c : Inv c -> enabled p gs c MRet = true -> Inv (step p c MRet).
  Proof.
    intros [] He.
    pose proof (enabled_live _ _ _ _ He) as Hlive.
    destruct (enabled_ret_stack _ _ _ He) as (k & cl & rest & Hst).
    destruct (step_ret p c Hlive Hst eq_refl) as (Hc & Hs & Hm & Hd).
    pose proof (step_ret_trace p c Hlive Hst eq_refl) as Ht.
    assert (Hq : forall m', sk m' = sk (ms c) -> us m' = us (ms c) -> ports m' = ports (ms c) ->
                            err_due m' = err_due (ms c) -> check_quiescent p m' = []).
    { intros m' E1 E2 E3 E4. apply quiescent_nil.
      - intros _ Hov i Hi. rewrite E3 in Hi. rewrite (i_ports0 i Hi), E2.
        rewrite E1 in Hov. inversion i_pair0 as [A B|A B|A B|A B|A B];
          rewrite <- A in Hov; try discriminate; reflexivity.
      - intros s. now rewrite E4.
      - rewrite Hc14. discriminate. }
    constructor; rewrite ?Hc, ?Hm, ?Hs, ?Hd, ?Ht, ?data_in_app; cbn; rewrite ?app_nil_r;
      destruct (tl (cstack (ms c))); rewrite ?add_viols_eq; cbn; rewrite ?Hq; auto.
  Qed.

  Lemma inv_step c m : Inv c -> enabled p gs c m = true -> Inv (step p c m).
  Proof.
    intros HI He. destruct m as [[s aux|s u|i d|s]|].
    - now apply inv_sub.
    - now apply inv_up.
    - now apply inv_dn.
    - exfalso. destruct HI. unfold enabled in He.
      repeat (apply andb_prop in He; destruct He as [? He]).
      cbn in He. now rewrite i_task0 in He.
    - now apply inv_ret.
  Qed.

  Theorem inv_reach c : reach p gs c -> Inv c.
  Proof. induction 1; [apply inv0 | now apply inv_step]. Qed.

  (** C07 for scan: at every control point the data delivered so far is the
      running fold of the data received so far *)
  Theorem scan_functional_sec (c : cfg o) :
    reach p gs c -> data_out 0 (trace c) = scan_list reducer seed (data_in 0 (trace c)).
  Proof.
    induction 1 as [|c m Hr IH He]; [reflexivity|].
    pose proof (inv_reach Hr) as HI.
    pose proof (enabled_live _ _ _ _ He) as Hlive.
    destruct m as [inp|].
    - pose proof (enabled_deliverable _ _ _ _ He) as Hdel.
      destruct (handle o inp (cst c)) as [[s' os] a] eqn:Hh.
      rewrite (step_in_trace p c inp Hlive Hdel Hh), data_out_app, data_in_app,
        scan_list_app, IH, <- (i_acc HI).
      f_equal. cbn in Hh.
      destruct inp as [[|s] aux|[|s] u|[|i] [|v|e|]|s]; inversion Hh; subst; reflexivity.
    - destruct (enabled_ret_stack _ _ _ He) as (k & cl & rest & Hst).
      destruct (resume o k (cst c)) as [[s' os] a] eqn:Hres.
      rewrite (step_ret_trace p c Hlive Hst Hres), data_out_app, data_in_app,
        scan_list_app, IH.
      f_equal. cbn in Hres. inversion Hres; subst; reflexivity.
  Qed.
End ScanInv.

(** no protocol violation and no panic in any reachable configuration *)
Theorem scan_safe (reducer : val -> val -> val) (seed : val) p :
  nsinks p = 1 -> resub p = false -> no_nest p = false -> c14 p = false ->
  forall c : cfg (scan_op reducer seed), reach p g_std c -> viols (ms c) = [] /\ dead c = false.
Proof.
  intros H1 H2 H3 H4 c Hr. destruct (inv_reach H1 H2 H3 H4 Hr). split; assumption.
Qed.
Print Assumptions scan_safe.

(** sink 0 and upstream 0 move in lock-step *)
Theorem scan_paired (reducer : val -> val -> val) (seed : val) p :
  nsinks p = 1 -> resub p = false -> no_nest p = false -> c14 p = false ->
  forall c : cfg (scan_op reducer seed), reach p g_std c -> paired (sk (ms c) 0) (us (ms c) 0).
Proof.
  intros H1 H2 H3 H4 c Hr. destruct (inv_reach H1 H2 H3 H4 Hr). assumption.
Qed.
Print Assumptions scan_paired.

(** C07 *)
Theorem scan_functional (reducer : val -> val -> val) (seed : val) p :
  nsinks p = 1 -> resub p = false -> no_nest p = false -> c14 p = false ->
  forall c : cfg (scan_op reducer seed),
    reach p g_std c -> data_out 0 (trace c) = scan_list reducer seed (data_in 0 (trace c)).
Proof.
  intros H1 H2 H3 H4 c Hr. exact (scan_functional_sec H1 H2 H3 H4 Hr).
Qed.
Print Assumptions scan_functional.
