(** * Flow_drop: the flow facts (Flow.v, [stage_flow]) of the two operators that drop data and
      answer every dropped datum with a Pull of their own: filter and skip.

    Both proofs have the same shape.  A small invariant ([FJ] / [SJ]) is carried over [reach]:
      - [pout + dout = pin + din] in EVERY reachable configuration (not only at rest): a Pull
        received is forwarded, a datum received is forwarded or answered by a Pull, all in the
        same activation; the panic branches are excluded because the master invariant of
        Inv_filter.v / Inv_skip.v says the next configuration is not dead;
      - [hout <= hin];
      - [subd 0 = true -> us 0 <> UNone] (the subscription is forwarded in the same activation
        and an upstream never becomes [UNone] again).
    [sf_wait], [sf_live], [sf_fin] then follow from [i_pair] of the Inv files; they do not need
    [stack c = []].  [late_ok p] is not constrained. *)
From CB Require Import ProofLib Spec Flow Inv_filter Inv_skip.

Set Implicit Arguments.

(** the monitor fields the flow invariant talks about are untouched by the end of an activation *)
Lemma done_subd p m : subd (mon_event p m EDone) = subd m.
Proof. cbn. destruct (cstack m); rewrite ?add_viols_eq; reflexivity. Qed.
Lemma done_us p m : us (mon_event p m EDone) = us m.
Proof. cbn. destruct (cstack m); rewrite ?add_viols_eq; reflexivity. Qed.

Lemma call_upd_subd m c : subd (mon_call_upd m c) = subd m.
Proof.
  destruct c as [i|i [|e|]|s [|v|e|]]; cbn; try reflexivity.
  - destruct (sk m s); reflexivity.
  - destruct (sk m s), (err_due m s) as [e'|]; cbn; try reflexivity;
      destruct (Nat.eqb e e'); reflexivity.
  - destruct (sk m s); reflexivity.
Qed.
Lemma call_subd p m c : subd (mon_event p m (ECall c)) = subd m.
Proof. cbn [mon_event]. rewrite add_viols_eq. cbn. apply call_upd_subd. Qed.
Lemma call_us p m c : us (mon_event p m (ECall c)) = us (mon_call_upd m c).
Proof. cbn [mon_event]. rewrite add_viols_eq. reflexivity. Qed.

(** an upstream never becomes unsubscribed again *)
Lemma call_upd_us_mono m c i : us m i <> UNone -> us (mon_call_upd m c) i <> UNone.
Proof.
  intros H.
  destruct c as [j|j [|e|]|s [|v|e|]]; cbn; unfold upd; try exact H.
  - destruct (i =? j); [discriminate | exact H].
  - destruct (i =? j); [discriminate | exact H].
  - destruct (i =? j); [discriminate | exact H].
  - destruct (sk m s); exact H.
  - destruct (sk m s), (err_due m s) as [e'|]; cbn; try exact H;
      destruct (Nat.eqb e e'); exact H.
  - destruct (sk m s); exact H.
Qed.
Lemma input_us_mono p m inp i : us m i <> UNone -> us (mon_input p m inp) i <> UNone.
Proof.
  intros H.
  destruct inp as [s [|aux]|s [|e|]|j [|v|e|]|s]; cbn; unfold upd; try exact H.
  all: destruct (i =? j); [discriminate | exact H].
Qed.

(** compute the six counts of the (concrete) events a step appended *)
Ltac counts Ht :=
  rewrite ?Ht, ?pin_step, ?pout_step, ?hin_step, ?hout_step, ?din_step, ?dout_step;
  unfold pin, pout, hin, hout, din, dout in *; cbn.

(** the invariant of the next configuration says it is not dead: the handler did not panic *)
Ltac no_panic Hd Hd' :=
  exfalso; assert (X : true = false) by (etransitivity; [symmetry; exact Hd | exact Hd']);
  discriminate X.

(** compute [subd]/[us] of the monitor state after a step *)
Ltac mon_fields Hm :=
  rewrite ?Hm; unfold ms_settle; cbn [fold_left map];
  rewrite ?done_subd, ?done_us, ?call_subd, ?call_us.

Section FilterFlow.
  Variable cond : val -> bool.
  Variable p : mparams.
  Hypothesis Hns : nsinks p = 1.
  Hypothesis Hresub : resub p = false.
  Hypothesis Hnonest : no_nest p = false.
  Hypothesis Hc14 : c14 p = false.
  Let o := filter_op cond.

  Record FJ (c : cfg o) : Prop := {
    fj_eq : pout (trace c) + dout (trace c) = pin (trace c) + din (trace c);
    fj_greet : hout (trace c) <= hin (trace c);
    fj_subd : subd (ms c) 0 = true -> us (ms c) 0 <> UNone;
  }.

  Lemma fj0 : FJ (cfg0 o).
  Proof. constructor; cbn; auto; discriminate. Qed.

  Lemma fj_step c m : reach p g_std c -> FJ c -> enabled p g_std c m = true -> FJ (step p c m).
  Proof.
    intros Hr [Heq Hgr Hsu] He.
    pose proof (Inv_filter.inv_reach Hns Hresub Hnonest Hc14 (reachS m Hr He)) as HI'.
    pose proof (Inv_filter.i_dead HI') as Hd'.
    pose proof (enabled_live _ _ _ _ He) as Hlive.
    destruct m as [inp|].
    - pose proof (enabled_deliverable _ _ _ _ He) as Hdel.
      destruct (handle o inp (cst c)) as [[s' os] a] eqn:Hh.
      destruct (step_in p c inp Hlive Hdel Hh) as (Hc & Hs & Hm & Hd).
      pose proof (step_in_trace p c inp Hlive Hdel Hh) as Ht.
      destruct inp as [[|s] [|aux]|[|s] [|e|]|[|i] [|v|e|]|s]; cbn in Hh;
        try destruct (cond v) eqn:Ecv; try destruct (cst c) eqn:Etb;
        inversion Hh; subst s' os a; try (no_panic Hd Hd').
      all: constructor; [counts Ht; lia | counts Ht; lia | mon_fields Hm].
      all: try (cbn; discriminate).
      all: intros Hsub; try apply call_upd_us_mono; apply input_us_mono, Hsu; exact Hsub.
    - destruct (enabled_ret_stack _ _ _ He) as (k & cl & rest & Hst).
      destruct (step_ret p c Hlive Hst eq_refl) as (Hc & Hs & Hm & Hd).
      pose proof (step_ret_trace p c Hlive Hst eq_refl) as Ht.
      constructor; [counts Ht; lia | counts Ht; lia | mon_fields Hm; exact Hsu].
  Qed.

  Lemma fj_reach c : reach p g_std c -> FJ c.
  Proof. induction 1 as [|c m Hr IH He]; [apply fj0 | now apply fj_step]. Qed.

  Lemma filter_calls : calls_sat port0 o.
  Proof.
    split.
    - intros i s s' os cl k Hh.
      destruct i as [[|s0] aux|[|s0] u|[|j] [|v|e|]|t]; cbn in Hh;
        try destruct (cond v); try destruct s; inversion Hh; subst; unfold port0; eauto.
    - intros fr s s' os cl k Hh. cbn in Hh. inversion Hh.
  Qed.

  Theorem filter_stage_flow_sec : stage_flow o p None.
  Proof.
    constructor.
    - intros c Hr. rewrite (fj_eq (fj_reach Hr)). lia.
    - intros c Hr _ _. exact (fj_eq (fj_reach Hr)).
    - intros c Hr. exact (fj_greet (fj_reach Hr)).
    - intros c Hr _ Hsub Hsk.
      assert (Hp : paired (sk (ms c) 0) (us (ms c) 0))
        by exact (Inv_filter.i_pair (Inv_filter.inv_reach Hns Hresub Hnonest Hc14 Hr)).
      pose proof (fj_subd (fj_reach Hr) Hsub) as Hne.
      rewrite Hsk in Hp. inversion Hp as [A B|A B|A B|A B|A B]; congruence.
    - intros c Hr _ Hsk.
      assert (Hp : paired (sk (ms c) 0) (us (ms c) 0))
        by exact (Inv_filter.i_pair (Inv_filter.inv_reach Hns Hresub Hnonest Hc14 Hr)).
      rewrite Hsk in Hp. inversion Hp. reflexivity.
    - intros c Hr _ Hsk. left.
      assert (Hp : paired (sk (ms c) 0) (us (ms c) 0))
        by exact (Inv_filter.i_pair (Inv_filter.inv_reach Hns Hresub Hnonest Hc14 Hr)).
      rewrite Hsk in Hp. inversion Hp. reflexivity.
    - exact filter_calls.
  Qed.
End FilterFlow.

Section SkipFlow.
  Variable max : nat.
  Variable p : mparams.
  Hypothesis Hns : nsinks p = 1.
  Hypothesis Hresub : resub p = false.
  Hypothesis Hnonest : no_nest p = false.
  Hypothesis Hc14 : c14 p = false.
  Let o := skip_op max.

  Record SJ (c : cfg o) : Prop := {
    sj_eq : pout (trace c) + dout (trace c) = pin (trace c) + din (trace c);
    sj_greet : hout (trace c) <= hin (trace c);
    sj_subd : subd (ms c) 0 = true -> us (ms c) 0 <> UNone;
  }.

  Lemma sj0 : SJ (cfg0 o).
  Proof. constructor; cbn; auto; discriminate. Qed.

  Lemma sj_step c m : reach p g_std c -> SJ c -> enabled p g_std c m = true -> SJ (step p c m).
  Proof.
    intros Hr [Heq Hgr Hsu] He.
    pose proof (Inv_skip.inv_reach Hns Hresub Hnonest Hc14 (reachS m Hr He)) as HI'.
    pose proof (Inv_skip.i_dead HI') as Hd'.
    pose proof (enabled_live _ _ _ _ He) as Hlive.
    destruct m as [inp|].
    - pose proof (enabled_deliverable _ _ _ _ He) as Hdel.
      destruct (handle o inp (cst c)) as [[s' os] a] eqn:Hh.
      destruct (step_in p c inp Hlive Hdel Hh) as (Hc & Hs & Hm & Hd).
      pose proof (step_in_trace p c inp Hlive Hdel Hh) as Ht.
      destruct inp as [[|s] [|aux]|[|s] [|e|]|[|i] [|v|e|]|s]; cbn -[Nat.ltb] in Hh;
        try destruct (sk_skipped (cst c) <? max) eqn:Elt; try destruct (sk_tb (cst c)) eqn:Etb;
        inversion Hh; subst s' os a; try (no_panic Hd Hd').
      all: constructor; [counts Ht; lia | counts Ht; lia | mon_fields Hm].
      all: try (cbn; discriminate).
      all: intros Hsub; try apply call_upd_us_mono; apply input_us_mono, Hsu; exact Hsub.
    - destruct (enabled_ret_stack _ _ _ He) as (k & cl & rest & Hst).
      destruct (step_ret p c Hlive Hst eq_refl) as (Hc & Hs & Hm & Hd).
      pose proof (step_ret_trace p c Hlive Hst eq_refl) as Ht.
      constructor; [counts Ht; lia | counts Ht; lia | mon_fields Hm; exact Hsu].
  Qed.

  Lemma sj_reach c : reach p g_std c -> SJ c.
  Proof. induction 1 as [|c m Hr IH He]; [apply sj0 | now apply sj_step]. Qed.

  Lemma skip_calls : calls_sat port0 o.
  Proof.
    split.
    - intros i s s' os cl k Hh.
      destruct i as [[|s0] aux|[|s0] u|[|j] [|v|e|]|t]; cbn -[Nat.ltb] in Hh;
        try destruct (sk_skipped s <? max); try destruct (sk_tb s); inversion Hh; subst; unfold port0; eauto.
    - intros fr s s' os cl k Hh. cbn in Hh. inversion Hh.
  Qed.

  Theorem skip_stage_flow_sec : stage_flow o p None.
  Proof.
    constructor.
    - intros c Hr. rewrite (sj_eq (sj_reach Hr)). lia.
    - intros c Hr _ _. exact (sj_eq (sj_reach Hr)).
    - intros c Hr. exact (sj_greet (sj_reach Hr)).
    - intros c Hr _ Hsub Hsk.
      assert (Hp : paired (sk (ms c) 0) (us (ms c) 0))
        by exact (Inv_skip.i_pair (Inv_skip.inv_reach Hns Hresub Hnonest Hc14 Hr)).
      pose proof (sj_subd (sj_reach Hr) Hsub) as Hne.
      rewrite Hsk in Hp. inversion Hp as [A B|A B|A B|A B|A B]; congruence.
    - intros c Hr _ Hsk.
      assert (Hp : paired (sk (ms c) 0) (us (ms c) 0))
        by exact (Inv_skip.i_pair (Inv_skip.inv_reach Hns Hresub Hnonest Hc14 Hr)).
      rewrite Hsk in Hp. inversion Hp. reflexivity.
    - intros c Hr _ Hsk. left.
      assert (Hp : paired (sk (ms c) 0) (us (ms c) 0))
        by exact (Inv_skip.i_pair (Inv_skip.inv_reach Hns Hresub Hnonest Hc14 Hr)).
      rewrite Hsk in Hp. inversion Hp. reflexivity.
    - exact skip_calls.
  Qed.
End SkipFlow.

Theorem filter_stage_flow (cond : val -> bool) p :
  nsinks p = 1 -> resub p = false -> no_nest p = false -> c14 p = false ->
  stage_flow (filter_op cond) p None.
Proof. intros H1 H2 H3 H4. apply filter_stage_flow_sec; assumption. Qed.
Print Assumptions filter_stage_flow.

Theorem skip_stage_flow (n : nat) p :
  nsinks p = 1 -> resub p = false -> no_nest p = false -> c14 p = false ->
  stage_flow (skip_op n) p None.
Proof. intros H1 H2 H3 H4. apply skip_stage_flow_sec; assumption. Qed.
Print Assumptions skip_stage_flow.
