(** * NetDriver: running a linear pipeline of crate operators as a net of component models
      (Chain.v) under a scripted sink, and what that sink sees.  Extracted; the OCaml driver
      compares it with the real crate's composition of the same operators (tree scripts), which
      ties the net semantics of Chain.v - who runs when a wired call is made - to the code. *)

From CB Require Import Driver Chain.

Set Implicit Arguments.

Definition chain_params (first : bool) : mparams :=
  {| nsinks := 1; late_ok := true; pullable := false; one_pull := false; resub := false;
     no_nest := first; c14 := false |}.

Definition node_of_spec (first : bool) (sp : spec) : node :=
  mk_node (chain_params first) g_std (cfg0 (op_of_spec sp)).

(** [sps]: the source first, then the stages in pipeline order *)
Definition chain_net (sps : list spec) : net :=
  net0 (match sps with
        | [] => []
        | s0 :: rest => node_of_spec true s0 :: map (node_of_spec false) rest
        end).

Definition last_ix (N : net) : nat := pred (length (nodes N)).

Fixpoint settle_net' (fuel : nat) (N : net) : net :=
  match fuel with
  | 0 => N
  | S f => match pend N with PIdle => N | _ => settle_net' f (net_step N NTau) end
  end.

(** a move of the external sink, followed by the internal transfers it causes (at most [fuel]);
    a move the conformant sink may not make is dropped *)
Definition chain_step (fuel : nat) (N : net) (m : move) : net * bool :=
  let mv := NEnv (last_ix N) m in
  if net_enabled N mv then (settle_net' fuel (net_step N mv), true) else (N, false).

(** what the sink of a component sees of its trace: its own inputs, the calls made to it, their
    returns, and the end of the activations it started *)
Inductive fkind : Type := ActSink | ActUp | CallSink | CallUp.

Fixpoint sink_view (st : list fkind) (tr : list event) : list event :=
  match tr with
  | [] => []
  | e :: tr' =>
      match e with
      | EIn (ISub _ _) | EIn (IUp _ _) => e :: sink_view (ActSink :: st) tr'
      | EIn _ => sink_view (ActUp :: st) tr'
      | ECall (CDn _ _) => e :: sink_view (CallSink :: st) tr'
      | ECall _ => sink_view (CallUp :: st) tr'
      | ERet =>
          match st with
          | CallSink :: st' => e :: sink_view st' tr'
          | _ :: st' => sink_view st' tr'
          | [] => sink_view [] tr'
          end
      | EDone =>
          match st with
          | ActSink :: st' => e :: sink_view st' tr'
          | _ :: st' => sink_view st' tr'
          | [] => sink_view [] tr'
          end
      | EObs _ => sink_view st tr'
      | EPanic => e :: sink_view st tr'
      end
  end.

Definition chain_trace (N : net) : list event :=
  match nth_error (nodes N) (last_ix N) with
  | Some n => sink_view [] (ntrace n)
  | None => []
  end.

Definition chain_idle (N : net) : bool := match pend N with PIdle => true | _ => false end.

(** the protocol monitor over the sink's view (what the tree check runs on the crate's trace) *)
Definition chain_viols (N : net) : list vkind :=
  rev (viols (mon_trace (chain_params false) (chain_trace N))).

(** ** Trees (Tree.v, TreePrograms.v): the same for a tree of operators given by its nodes (children
    before parents, the root last) and its edges *)

From CB Require Import Tree TreePrograms.

Definition tree_net (sps : list spec) : tnet := tnet0 (map (node_of_spec false) sps).

Definition tree_step (es : list edge) (root fuel : nat) (N : tnet) (m : move) : tnet * bool :=
  let w := wiring_of es in
  let mv := NEnv root m in
  if tnet_enabled w N mv then (tsettle w fuel (tnet_step w N mv), true) else (N, false).

Definition tree_trace (root : nat) (N : tnet) : list event :=
  match nth_error (tnodes N) root with
  | Some n => sink_view [] (ntrace n)
  | None => []
  end.

Definition tree_viols (root : nat) (N : tnet) : list vkind :=
  rev (viols (mon_trace (chain_params false) (tree_trace root N))).

Definition tree_edges_ok (es : list edge) (len : nat) : bool := edges_okb es len.
