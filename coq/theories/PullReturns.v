(** * PullReturns: in an open pipeline over a FINITE input, control always comes back to the sink.

    PullPrograms.v proves the safety half of C14 for the open net [NQ it stages]
    (from_iter -> stages, the environment is the sink of the last stage and sends at most one Pull
    per message it received): no over-delivery, and at rest every Pull has been answered.  This file
    proves the liveness half for a finite input [xs]: from EVERY state of a disciplined run the
    pending internal transfers finish after finitely many steps - at most [returns_max], a function
    of [length xs] and [length stages] alone - and the environment has the turn again
    ([program_returns]).  So a Pull is answered (or the end is reported) "without further prompting".

    The argument is the counting argument of LivenessG.v, for the open net:
    - every node makes a bounded number of calls in every state of every disciplined run, however
      many moves the environment has made ([program_calls_bounded]): its data are a prefix of [xs]
      pushed through length-non-increasing stages ([q_dout_le]), its Pulls are bounded by the
      greetings and data it received ([pulls_bounded_q], which needs the discipline of the sink),
      it greets, ends, subscribes and stops at most once;
    - returns are bounded by calls ([ret_le_call]);
    - every internal transfer is a call delivered or a call returned: it increases
      [phi N = calls + returns + (1 - call in flight)] by at least one ([tau_phi]), and [phi] is
      bounded on all states of disciplined runs ([phi_le]). *)

From CB Require Import ProofLib Spec Chain Programs Flow FlowLists Wire2 FlowGeneric.
From CB Require Import Flow_relay Flow_drop Flow_take Flow_ends.
From CB Require Import LivenessG PullPrograms.

Set Implicit Arguments.

Section Returns.
  Variable xs : list val.
  Variable it : nat -> option val.
  Hypothesis Hit : forall k, it k = nth_error xs k.
  Variable stages : list ustage.
  Hypothesis Hok : Forall ustage_ok stages.

  Local Notation NQ := (NQ it stages).
  Local Notation preach := (preach it stages).
  Local Notation top := (top stages).

  (** ** Facts about one node of a reachable open net (as LivenessG.Node, for [NQ]) *)

  Section Node.
    Variable N : net.
    Hypothesis Hr : net_reach NQ N.
    Variable i : nat.
    Variable n : node.
    Hypothesis Hn : nth_error (nodes N) i = Some n.

    Definition qn_facts :=
      node_facts (qHsafe Hok) (qHreg it stages) (nodes N) i (q_nodes_sig Hok Hr) Hn.
    Definition qn_reach : nreach n := q_reach Hok i Hr Hn.

    Lemma qn_hout_le : hout (ntrace n) <= 1.
    Proof.
      destruct qn_facts as (Hs & _ & Hres & _ & _ & _ & Hg). exact (greet_once Hs Hg Hres qn_reach).
    Qed.

    Lemma qn_dn_len : length (dn_out (ntrace n)) <= dout (ntrace n) + 2.
    Proof.
      destruct qn_facts as (Hs & _ & Hres & _ & _ & _ & Hg). exact (dn_out_len Hs Hg Hres qn_reach).
    Qed.

    Lemma qn_up_len : length (up_out (ntrace n)) <= pout (ntrace n) + 2.
    Proof.
      destruct qn_facts as (Hs & _ & Hres & _ & _ & _ & Hg). exact (up_out_len Hs Hg Hres qn_reach).
    Qed.

    Lemma qn_ret_call : n_ret (ntrace n) + length (stack (ncfg n)) = n_call (ntrace n).
    Proof. exact (ret_le_call qn_reach). Qed.

    (** every call of every node goes to port 0 *)
    Lemma qn_calls_port0 :
      n_call (ntrace n) = length (up_out (ntrace n)) + length (dn_out (ntrace n)).
    Proof.
      pose proof qn_reach as Hre.
      assert (Hc : calls_sat port0 (nop n)).
      { destruct (q_kind Hok i Hr Hn) as [_ E|s Hs _ E].
        - destruct (nr_flow E Hre) as (_ & H).
          apply (calls_sat_impl (P := only_dn)); [|exact H]. intros c Hc. right. right. exact Hc.
        - destruct (ns_flow E (qstage_ok Hok _ Hs) Hre) as (_ & _ & _ & _ & _ & H). exact H. }
      exact (calls_port0 Hc Hre).
    Qed.
  End Node.

  (** ** Nothing is invented: bounds on what every node sends *)

  (** data: a prefix of [xs] leaves from_iter, and no stage lengthens its input *)
  Lemma q_dout_le N : net_reach NQ N ->
    forall i n, nth_error (nodes N) i = Some n -> dout (ntrace n) <= length xs.
  Proof.
    intros Hr. induction i as [|i IH]; intros n Hn; pose proof (q_reach Hok _ Hr Hn) as Hre.
    - destruct (q_kind Hok 0 Hr Hn) as [_ E|s _ Hi _]; [|lia].
      rewrite dout_data_out. exact (prefix_length (nr_prefix xs Hit E Hre)).
    - destruct (@q_upstream N i n Hn) as [U HU]. specialize (IH U HU).
      destruct (q_counts Hok i Hr HU Hn) as (_ & Hd & _).
      destruct (q_kind Hok (S i) Hr Hn) as [Hi _|s Hs _ E]; [lia|].
      rewrite dout_data_out, (stage_functional E (qstage_ok Hok _ Hs) Hre).
      pose proof (usem1_length s (data_in 0 (ntrace n))) as Hl.
      rewrite <- din_data_in in Hl. lia.
  Qed.

  (** Pulls: at most one per greeting or datum received, under a disciplined sink *)
  Lemma q_pout_le N i n : preach N -> nth_error (nodes N) i = Some n ->
    pout (ntrace n) <= 1 + length xs.
  Proof.
    intros Hp Hn. pose proof (preach_reach Hp) as Hr.
    pose proof (q_reach Hok _ Hr Hn) as Hre. destruct i as [|i].
    - destruct (q_kind Hok 0 Hr Hn) as [_ E|s _ Hi _]; [|lia].
      destruct (nr_flow E Hre) as (H & _). unfold pout. rewrite H. cbn. lia.
    - destruct (@q_upstream N i n Hn) as [U HU].
      destruct (q_counts Hok i Hr HU Hn) as (H1 & H2 & _).
      pose proof (qn_hout_le Hr i HU) as H3. pose proof (q_dout_le Hr i HU) as H4.
      assert (Htop : S i <= top).
      { apply nth_error_lt in Hn. rewrite (q_len Hok Hr) in Hn. unfold PullPrograms.top. lia. }
      destruct (pinv_reach Hok Hp) as [Ht _].
      pose proof (@pulls_bounded_q it stages Hok N Hr Ht (top - S i) (S i) n
                    ltac:(lia) ltac:(lia) Hn) as H5.
      lia.
  Qed.

  (** *** Every node makes a bounded number of calls, in every state of every disciplined run *)

  Definition calls_max : nat := 2 * length xs + 5.

  Theorem program_calls_bounded N : preach N ->
    forall i n, nth_error (nodes N) i = Some n -> n_call (ntrace n) <= calls_max.
  Proof.
    intros Hp i n Hn. pose proof (preach_reach Hp) as Hr. rewrite (qn_calls_port0 Hr i Hn).
    pose proof (qn_dn_len Hr i Hn). pose proof (qn_up_len Hr i Hn).
    pose proof (q_dout_le Hr i Hn). pose proof (q_pout_le i Hp Hn). unfold calls_max. lia.
  Qed.

  Lemma q_tot_call_le N : preach N -> tot n_call N <= S (length stages) * calls_max.
  Proof.
    intros Hp. pose proof (preach_reach Hp) as Hr. rewrite <- (q_len Hok Hr). unfold tot.
    apply list_sum_bound. intros n Hin. apply In_nth_error in Hin. destruct Hin as [i Hi].
    exact (program_calls_bounded Hp i Hi).
  Qed.

  Lemma q_tot_ret_le N : net_reach NQ N -> tot n_ret N <= tot n_call N.
  Proof.
    intros Hr. apply list_sum_le. intros n Hin. apply In_nth_error in Hin. destruct Hin as [i Hi].
    pose proof (qn_ret_call Hr i Hi). lia.
  Qed.

  (** ** Every internal transfer is a call delivered or a call returned *)

  (** calls made + returns made + 1 unless a call is in flight: grows with every transfer *)
  Definition phi (N : net) : nat := tot n_call N + tot n_ret N + (1 - pto N).

  Definition returns_max : nat := 2 * (S (length stages) * calls_max) + 2.

  Lemma phi_le N : preach N -> S (phi N) <= returns_max.
  Proof.
    intros Hp. pose proof (q_tot_call_le Hp). pose proof (q_tot_ret_le (preach_reach Hp)).
    unfold phi, returns_max. lia.
  Qed.

  Lemma tau_phi N : net_reach NQ N -> pend N <> PIdle -> S (phi N) <= phi (net_step N NTau).
  Proof.
    intros Hr Hp.
    destruct (step_shape Hok NTau Hr (@tau_enabled N Hp))
      as (x & n & m & N1 & Hn & He & Hnodes & Hstep & Hsh).
    rewrite Hstep. rewrite <- Hnodes in Hn.
    destruct (step_counts N1 x m Hn He) as (_ & A2 & A3 & A4).
    assert (E : forall f, tot f N1 = tot f N) by (intros f; unfold tot; now rewrite Hnodes).
    rewrite !E in *. unfold phi. rewrite A2, A3.
    assert (Hpto : pto N = match m with MIn _ => 1 | MRet => 0 end).
    { unfold pto. destruct (pend N) as [|t inp|j]; [contradiction| |];
        destruct Hsh as [_ ->]; reflexivity. }
    rewrite Hpto. destruct m; lia.
  Qed.

  Lemma preach_tau N : preach N -> pend N <> PIdle -> preach (net_step N NTau).
  Proof. intros Hp Hne. apply preachS; [exact Hp | now apply tau_enabled | exact I]. Qed.

  (** ** The theorem *)

  Lemma returns_from d : forall N, preach N -> returns_max <= phi N + d ->
    exists m, m <= d /\ pend (taus m N) = PIdle /\ preach (taus m N).
  Proof.
    induction d as [|d IH]; intros N Hp Hd.
    - pose proof (phi_le Hp). lia.
    - destruct (pend N) eqn:Hpd.
      + exists 0. cbn. repeat split; [lia | exact Hpd | exact Hp].
      + assert (Hne : pend N <> PIdle) by congruence.
        pose proof (tau_phi (preach_reach Hp) Hne) as A.
        destruct (IH _ (preach_tau Hp Hne)) as (m & Hm & Hp' & Hc'); [lia|].
        exists (S m). cbn. repeat split; [lia | exact Hp' | exact Hc'].
      + assert (Hne : pend N <> PIdle) by congruence.
        pose proof (tau_phi (preach_reach Hp) Hne) as A.
        destruct (IH _ (preach_tau Hp Hne)) as (m & Hm & Hp' & Hc'); [lia|].
        exists (S m). cbn. repeat split; [lia | exact Hp' | exact Hc'].
  Qed.

  (** from every state of a disciplined run, at most [returns_max] internal transfers (no
      environment move) bring the turn back to the environment; every state on the way is a state
      of a disciplined run *)
  Theorem program_returns_bound N : preach N ->
    exists m, m <= returns_max /\ pend (taus m N) = PIdle /\ preach (taus m N).
  Proof. intros Hp. apply (@returns_from returns_max N Hp). lia. Qed.

  Theorem program_returns N : preach N ->
    exists m, pend (taus m N) = PIdle /\ preach (taus m N).
  Proof.
    intros Hp. destruct (program_returns_bound Hp) as (m & _ & H1 & H2). exists m. now split.
  Qed.

End Returns.

Print Assumptions program_calls_bounded.
Print Assumptions program_returns_bound.
Print Assumptions program_returns.

(** the same for the iterator of a list, as [from_iter(xs)] is modelled *)
Corollary program_returns_list (xs : list val) (stages : list ustage) :
  Forall ustage_ok stages ->
  forall N, preach (fun k => nth_error xs k) stages N ->
    exists m, m <= returns_max xs stages /\ pend (taus m N) = PIdle /\
              preach (fun k => nth_error xs k) stages (taus m N).
Proof. intros Hok N Hp. exact (program_returns_bound xs (fun k => eq_refl) Hok Hp). Qed.

Print Assumptions program_returns_list.

(** ** Non-vacuity: pipe!(from_iter([7]), map(id)) - after the sink subscribes, a transfer is pending
    (the subscription travels to from_iter); two transfers later the sink is being greeted and has
    the turn; it Pulls from inside the greeting, and two transfers later it is handed the datum. *)
Module PullReturnsSanity.
  Definition r_xs : list val := [VN 7].
  Definition r_it (k : nat) : option val := nth_error r_xs k.
  Definition r_stages : list ustage := [UMap (fun v => v)].
  Definition r_script1 : list nmove := [NEnv 1 (MIn (ISub 0 0))].
  Definition r_script2 : list nmove := r_script1 ++ [NTau; NTau; NEnv 1 (MIn (IUp 0 UP))].
  Definition r_N1 : net := net_run (NQ r_it r_stages) r_script1.
  Definition r_N2 : net := net_run (NQ r_it r_stages) r_script2.

  Example r_enabled : net_all_disc (NQ r_it r_stages) r_script2 = true.
  Proof. vm_compute. reflexivity. Qed.

  Definition idle (N : net) : bool := match pend N with PIdle => true | _ => false end.

  Example r_pending :
    idle r_N1 = false /\ idle (taus 1 r_N1) = false /\ idle (taus 2 r_N1) = true /\
    idle r_N2 = false /\ idle (taus 1 r_N2) = false /\ idle (taus 2 r_N2) = true /\
    option_map (fun n => dn_out (ntrace n)) (nth_error (nodes (taus 2 r_N2)) 1)
      = Some [DH; DD (VN 7)] /\
    returns_max r_xs r_stages = 30.
  Proof. vm_compute. repeat split. Qed.

  (** [r_N2] (a Pull is travelling to from_iter) is a state of a disciplined run, so
      [program_returns_bound] applies to it; the 2 transfers computed above are within its bound *)
  Example r_preach : preach r_it r_stages (net_run (NQ r_it r_stages) r_script2).
  Proof.
    exact (@preach_run r_it r_stages (NQ r_it r_stages) r_script2 (preach0 r_it r_stages) r_enabled).
  Qed.

  Lemma r_ok : Forall ustage_ok r_stages.
  Proof. repeat constructor. Qed.

  Example r_returns :
    exists m, m <= returns_max r_xs r_stages /\
      pend (taus m (net_run (NQ r_it r_stages) r_script2)) = PIdle /\
      preach r_it r_stages (taus m (net_run (NQ r_it r_stages) r_script2)).
  Proof. exact (@program_returns_bound r_xs r_it (fun k => eq_refl) r_stages r_ok _ r_preach). Qed.
End PullReturnsSanity.

