(** * Sync_nary: merge!, concat!, combine! as nodes of a tree whose members greet synchronously

    [Tree.tree_sound] needs, for a child of a parent with [late_ok = false], the property
    [greets_sync_sig]: subscribed and not yet greeted => the stack of pending calls is not
    empty.  In a tree every node runs in the regime [late_ok p = false].

    - [merge_safe_sync]: the safety theorem of merge in that regime (the invariant of
      Inv_merge.v does not use [late_ok p = true]).
    - [merge_greets_sync], [concat_greets_sync], [combine_greets_sync] and their packaged
      forms [..._sig].

    Method.  Two generic facts about the machine (any component, [late_ok p = false]):
    [subd_pending]: an upstream that is subscribed and has not greeted is the callee of a
    pending [CSub] call (its return is only enabled once it has greeted); [first_sub]: a
    component whose [ISub] handler begins by subscribing member 0 has [us 0 <> UNone] once
    subscribed.  With these:
    - merge: not greeted => [mg_start = 0] => no member has greeted (Inv_merge.Core), member
      0 is subscribed, hence [USubd], hence a [CSub 0] is pending.
    - concat: the [phase] of Inv_concat.Inv already says it (phase [PhSubd] is the only one
      with [subd] and [sk = SNone]).
    - combine: a second induction shows that while fewer than [n] members are subscribed
      the bottom frame is the subscription sequence [CbSub]; so with an empty stack all [n]
      are subscribed, and not greeted => some member is [USubd] => a [CSub] is pending. *)
From CB Require Import ProofLib Spec Inv_merge Inv_concat Inv_combine Tree.

Set Implicit Arguments.

(** ** Generic facts: which monitor fields one step can change *)

Definition same4 (a b : mstate) : Prop :=
  subd a = subd b /\ sk a = sk b /\ us a = us b /\ ports a = ports b.

Lemma same4_refl a : same4 a a.
Proof. repeat split. Qed.

Lemma same4_trans a b c : same4 a b -> same4 b c -> same4 a c.
Proof. unfold same4. intuition congruence. Qed.

Lemma cu_subd m cl : subd (mon_call_upd m cl) = subd m.
Proof.
  destruct cl as [i|i [| |]|s [|v|e|]]; cbn; try reflexivity.
  - destruct (sk m s); reflexivity.
  - destruct (sk m s), (err_due m s) as [e'|]; try destruct (Nat.eqb e e'); reflexivity.
  - destruct (sk m s); reflexivity.
Qed.

Lemma cu_ports m cl :
  ports (mon_call_upd m cl) = match cl with CSub i => i :: ports m | _ => ports m end.
Proof.
  destruct cl as [i|i [| |]|s [|v|e|]]; cbn; try reflexivity.
  - destruct (sk m s); reflexivity.
  - destruct (sk m s), (err_due m s) as [e'|]; try destruct (Nat.eqb e e'); reflexivity.
  - destruct (sk m s); reflexivity.
Qed.

Lemma cu_us_subd m cl k : us (mon_call_upd m cl) k = USubd -> us m k = USubd \/ cl = CSub k.
Proof.
  destruct cl as [i|i [| |]|s [|v|e|]]; cbn; auto.
  - unfold upd. destruct (Nat.eqb_spec k i); [subst; auto|auto].
  - unfold upd. destruct (Nat.eqb_spec k i); [discriminate|auto].
  - unfold upd. destruct (Nat.eqb_spec k i); [discriminate|auto].
  - destruct (sk m s); cbn; auto.
  - destruct (sk m s), (err_due m s) as [e'|]; try destruct (Nat.eqb e e'); cbn; auto.
  - destruct (sk m s); cbn; auto.
Qed.

Lemma cu_us_nn m cl k : us m k <> UNone -> us (mon_call_upd m cl) k <> UNone.
Proof.
  intros H. destruct cl as [i|i [| |]|s [|v|e|]]; cbn; try exact H.
  - unfold upd. destruct (Nat.eqb k i); [discriminate|exact H].
  - unfold upd. destruct (Nat.eqb k i); [discriminate|exact H].
  - unfold upd. destruct (Nat.eqb k i); [discriminate|exact H].
  - destruct (sk m s); cbn; exact H.
  - destruct (sk m s), (err_due m s) as [e'|]; try destruct (Nat.eqb e e'); cbn; exact H.
  - destruct (sk m s); cbn; exact H.
Qed.

Section Generic.
  Variable p : mparams.
  Variable o : op.
  Variable g : mstate -> input -> bool.

  Lemma obs_same4 os m : same4 (fold_left (mon_event p) (map EObs os) m) m.
  Proof.
    revert m. induction os as [|ob os IH]; intros m; cbn; [apply same4_refl|].
    eapply same4_trans; [apply IH|].
    destruct ob as [r|v|s [|]|s]; cbn; repeat split.
  Qed.

  (** the monitor after an activation: the fields of interest are those of the state [m1]
      after the observations, updated by the call if the activation ends in one *)
  Lemma settle_proj m os (a : act (Fr o)) :
    exists m1, same4 m1 m /\
      same4 (ms_settle p o m os a)
            (match a with ACall cl _ => mon_call_upd m1 cl | _ => m1 end).
  Proof.
    exists (fold_left (mon_event p) (map EObs os) m). split; [apply obs_same4|].
    unfold ms_settle. set (m1 := fold_left (mon_event p) (map EObs os) m).
    destruct a as [| |cl k]; cbn [mon_event].
    - destruct (cstack m1); [rewrite add_viols_eq|]; repeat split.
    - repeat split.
    - rewrite add_viols_eq. repeat split.
  Qed.

  Definition mmove (m0 : mstate) (mv : move) : mstate :=
    match mv with MIn i => mon_input p m0 i | MRet => mon_event p m0 ERet end.

  Definition sbase (c : cfg o) (mv : move) : list (Fr o * call) :=
    match mv with MIn _ => stack c | MRet => tl (stack c) end.

  (** what ran in the step *)
  Definition ran (c : cfg o) (mv : move) (r : St o * list obs * act (Fr o)) : Prop :=
    match mv with
    | MIn i => handle o i (cst c) = r
    | MRet => exists k cl rest, stack c = (k, cl) :: rest /\ resume o k (cst c) = r
    end.

  Lemma step_view (c : cfg o) mv :
    enabled p g c mv = true ->
    exists s' os a,
      ran c mv (s', os, a) /\
      ms (step p c mv) = ms_settle p o (mmove (ms c) mv) os a /\
      stack (step p c mv) =
        match a with ACall cl k => (k, cl) :: sbase c mv | _ => sbase c mv end.
  Proof.
    intros He. pose proof (enabled_live _ _ _ _ He) as Hlive.
    destruct mv as [i|].
    - pose proof (enabled_deliverable _ _ _ _ He) as Hdel.
      destruct (handle o i (cst c)) as [[s' os] a] eqn:Hh.
      destruct (step_in p c i Hlive Hdel Hh) as (_ & Hs & Hm & _).
      exists s', os, a. split; [exact Hh|]. split; [exact Hm|exact Hs].
    - destruct (enabled_ret_stack _ _ _ He) as (k & cl & rest & Hst).
      destruct (resume o k (cst c)) as [[s' os] a] eqn:Hh.
      destruct (step_ret p c Hlive Hst Hh) as (_ & Hs & Hm & _).
      exists s', os, a. split; [exists k, cl, rest; split; assumption|].
      split; [exact Hm|]. unfold sbase. rewrite Hst. exact Hs.
  Qed.

  Lemma mmove_us_subd m mv k : us (mmove m mv) k = USubd -> us m k = USubd.
  Proof.
    destruct mv as [[s [|aux]|s [|e|]|i [|v|e|]|s]|]; cbn; auto;
      unfold upd; destruct (Nat.eqb k i); auto; discriminate.
  Qed.

  Lemma mmove_us_nn m mv k : us m k <> UNone -> us (mmove m mv) k <> UNone.
  Proof.
    intros H. destruct mv as [[s [|aux]|s [|e|]|i [|v|e|]|s]|]; cbn; auto;
      unfold upd; destruct (Nat.eqb k i); auto; discriminate.
  Qed.

  Lemma mmove_ports m mv : ports (mmove m mv) = ports m.
  Proof. destruct mv as [[s [|aux]|s [|e|]|i [|v|e|]|s]|]; reflexivity. Qed.

  Lemma mmove_subd m mv s :
    subd (mmove m mv) s = true -> subd m s = true \/ exists aux, mv = MIn (ISub s aux).
  Proof.
    destruct mv as [[t aux|t [|e|]|i [|v|e|]|t]|]; cbn; auto.
    destruct aux as [|aux]; cbn; unfold upd; destruct (Nat.eqb_spec s t); subst; auto;
      intros _; right; eexists; reflexivity.
  Qed.

  (** with [late_ok p = false]: an upstream that is subscribed and has not greeted is the
      callee of a pending subscribing call *)
  Lemma subd_pending (c : cfg o) :
    late_ok p = false -> reach p g c ->
    forall k, us (ms c) k = USubd -> In (CSub k) (map snd (stack c)).
  Proof.
    intros Hlate Hr. induction Hr as [|c mv Hr IH He]; intros k Hk; [discriminate|].
    destruct (step_view _ _ He) as (s' & os & a & Hran & Hm & Hs).
    destruct (settle_proj (mmove (ms c) mv) os a) as (m1 & (_ & _ & E1 & _) & (_ & _ & E2 & _)).
    rewrite Hm, E2 in Hk. rewrite Hs.
    assert (Hbase : us m1 k = USubd -> In (CSub k) (map snd (sbase c mv))).
    { rewrite E1. intros H. apply mmove_us_subd in H. pose proof (IH k H) as Hin.
      destruct mv as [i|]; [exact Hin|].
      destruct Hran as (k0 & cl0 & rest & Hst & _).
      unfold sbase. rewrite Hst in Hin |- *. cbn in Hin |- *.
      destruct Hin as [Hin|Hin]; [|exact Hin]. exfalso. subst cl0.
      unfold enabled in He. rewrite Hst in He.
      apply andb_prop in He. destruct He as [_ He].
      rewrite Hlate, H in He. discriminate. }
    destruct a as [| |cl kk]; cbn [map snd]; auto.
    apply cu_us_subd in Hk. destruct Hk as [Hk| ->]; [right; auto|left; reflexivity].
  Qed.

  (** a component whose subscription handler begins by subscribing member 0 *)
  Lemma first_sub :
    (forall aux s, exists s' os k, handle o (ISub 0 aux) s = (s', os, ACall (CSub 0) k)) ->
    forall c : cfg o, reach p g c -> subd (ms c) 0 = true -> us (ms c) 0 <> UNone.
  Proof.
    intros Hh c Hr. induction Hr as [|c mv Hr IH He]; intros Hsub; [discriminate|].
    destruct (step_view _ _ He) as (s' & os & a & Hran & Hm & Hs).
    destruct (settle_proj (mmove (ms c) mv) os a)
      as (m1 & (D1 & _ & E1 & _) & (D2 & _ & E2 & _)).
    rewrite Hm, E2. rewrite Hm, D2 in Hsub.
    assert (Hsub1 : subd (mmove (ms c) mv) 0 = true).
    { rewrite <- D1. destruct a; [exact Hsub|exact Hsub|]. now rewrite cu_subd in Hsub. }
    destruct (mmove_subd _ _ _ Hsub1) as [Hold|[aux ->]].
    - assert (H1 : us m1 0 <> UNone) by (rewrite E1; apply mmove_us_nn; now apply IH).
      destruct a; [exact H1|exact H1|now apply cu_us_nn].
    - cbn in Hran. destruct (Hh aux (cst c)) as (s2 & os2 & k2 & Hh2).
      rewrite Hh2 in Hran. injection Hran as _ _ <-. cbn. discriminate.
  Qed.
End Generic.

(** ** merge *)

(** (1) safety of merge in the regime of a tree node: members greet inside the subscribing
    call.  The invariant of Inv_merge.v holds for either value of [late_ok]. *)
Theorem merge_safe_sync p :
  nsinks p = 1 -> resub p = false -> no_nest p = false -> c14 p = false -> late_ok p = false ->
  forall n, 1 <= n ->
  forall c : cfg (merge_op n), reach p g_std c -> viols (ms c) = [] /\ dead c = false.
Proof.
  intros H1 H2 H3 H4 _ n Hn c Hr.
  destruct (Inv_merge.inv_reach Hn H1 H2 H3 H4 Hr) as [Hv Hd _]. split; assumption.
Qed.
Print Assumptions merge_safe_sync.

Theorem merge_greets_sync p n :
  nsinks p = 1 -> resub p = false -> no_nest p = false -> c14 p = false -> late_ok p = false ->
  1 <= n ->
  forall c : cfg (merge_op n), reach p g_std c ->
    subd (ms c) 0 = true -> sk (ms c) 0 = SNone -> stack c <> [].
Proof.
  intros H1 H2 H3 H4 H5 Hn c Hr Hsub Hsk Hst.
  pose proof (Inv_merge.i_core (Inv_merge.i_P (Inv_merge.inv_reach Hn H1 H2 H3 H4 Hr))) as HC.
  assert (Hnn : us (ms c) 0 <> UNone).
  { apply (@first_sub p (merge_op n) g_std); [|exact Hr|exact Hsub].
    intros aux s. eexists _, _, _. apply (@Inv_merge.h_sub n Hn p H1). }
  assert (Hst0 : mg_start (cst c) = 0) by (now apply (Inv_merge.c_start HC)).
  assert (Hu : us (ms c) 0 = USubd).
  { destruct (us (ms c) 0) eqn:E; try reflexivity; exfalso.
    - now apply Hnn.
    - apply (Inv_merge.c_greeted HC 0); [rewrite E; discriminate..|exact Hst0].
    - apply (Inv_merge.c_greeted HC 0); [rewrite E; discriminate..|exact Hst0].
    - apply (Inv_merge.c_greeted HC 0); [rewrite E; discriminate..|exact Hst0]. }
  pose proof (subd_pending H5 Hr 0 Hu) as Hin. rewrite Hst in Hin. exact Hin.
Qed.
Print Assumptions merge_greets_sync.

Corollary merge_greets_sync_sig p n :
  nsinks p = 1 -> resub p = false -> no_nest p = false -> c14 p = false -> late_ok p = false ->
  1 <= n -> greets_sync_sig (merge_op n, p, g_std).
Proof. intros H1 H2 H3 H4 H5 Hn c. now apply merge_greets_sync. Qed.
Print Assumptions merge_greets_sync_sig.

(** ** concat, any member count (zero members: the sink is greeted and completed inside the
    subscribing activation) *)

Theorem concat_greets_sync p n :
  nsinks p = 1 -> resub p = false -> no_nest p = false -> c14 p = false -> late_ok p = false ->
  forall c : cfg (concat_op n), reach p g_std c ->
    subd (ms c) 0 = true -> sk (ms c) 0 = SNone -> stack c <> [].
Proof.
  intros H1 H2 H3 H4 H5 c Hr Hsub Hsk Hst.
  pose proof (Inv_concat.i_phase (Inv_concat.inv_reach H1 H2 H3 H4 H5 Hr)) as Hph.
  destruct Hph as [A|k rest A B C D E F|A B C D E F|A B C D|A B C D E F G|A B C D E F G];
    try congruence.
  rewrite Hsk in B. discriminate.
Qed.
Print Assumptions concat_greets_sync.

Corollary concat_greets_sync_sig p n :
  nsinks p = 1 -> resub p = false -> no_nest p = false -> c14 p = false -> late_ok p = false ->
  greets_sync_sig (concat_op n, p, g_std).
Proof. intros H1 H2 H3 H4 H5 c. now apply concat_greets_sync. Qed.
Print Assumptions concat_greets_sync_sig.

(** ** combine *)

(** the bottom frame is the subscription sequence *)
Fixpoint bot_sub (st : list (cb_fr * call)) : Prop :=
  match st with
  | [] => False
  | f :: r => match r with [] => exists j, fst f = CbSub j | _ :: _ => bot_sub r end
  end.

Lemma bot_sub_cons f st : bot_sub st -> bot_sub (f :: st).
Proof. destruct st; [contradiction|]. cbn. auto. Qed.

Lemma bot_sub_tl f st : st <> [] -> bot_sub (f :: st) -> bot_sub st.
Proof. destruct st; [congruence|]. cbn. auto. Qed.

Section CombineSync.
  Variable n : nat.
  Hypothesis Hn : 1 <= n.
  Variable p : mparams.
  Hypothesis Hns : nsinks p = 1.
  Hypothesis Hresub : resub p = false.
  Hypothesis Hnonest : no_nest p = false.
  Hypothesis Hc14 : c14 p = false.
  Hypothesis Hlate : late_ok p = false.

  (** while fewer than [n] members are subscribed the subscribing activation is pending *)
  Lemma combine_bot (c : cfg (combine_op n)) :
    reach p g_std c -> subd (ms c) 0 = true -> nsub c < n -> bot_sub (stack c).
  Proof.
    intros Hr. induction Hr as [|c mv Hr IH He]; intros Hsub Hlt; [discriminate|].
    pose proof (Inv_combine.inv_reach Hn Hns Hresub Hnonest Hc14 Hr) as HI.
    destruct (step_view _ _ _ _ He) as (s' & os & a & Hran & Hm & Hs).
    destruct (settle_proj p (combine_op n) (mmove p (ms c) mv) os a)
      as (m1 & (D1 & _ & _ & P1) & (D2 & _ & _ & P2)).
    rewrite Hs.
    assert (Hsub1 : subd (mmove p (ms c) mv) 0 = true).
    { rewrite <- D1. rewrite Hm, D2 in Hsub.
      destruct a; [exact Hsub|exact Hsub|]. now rewrite cu_subd in Hsub. }
    assert (Hlt0 : nsub c < n).
    { unfold nsub in *. rewrite Hm, P2 in Hlt.
      assert (E : ports m1 = ports (ms c)) by (rewrite P1; apply mmove_ports).
      destruct a as [| |cl kk]; rewrite ?cu_ports in Hlt; try (rewrite E in Hlt; exact Hlt).
      destruct cl; cbn in Hlt; rewrite E in Hlt; lia. }
    destruct (mmove_subd _ _ _ _ Hsub1) as [Hold|[aux ->]].
    - specialize (IH Hold Hlt0).
      assert (Hgoal : bot_sub (sbase c mv) ->
                      bot_sub match a with
                              | ACall cl k => (k, cl) :: sbase c mv
                              | _ => sbase c mv
                              end).
      { intros H. destruct a; [exact H|exact H|now apply bot_sub_cons]. }
      destruct mv as [i|]; [exact (Hgoal IH)|].
      destruct Hran as (k0 & cl0 & rest & Hst & Hres).
      unfold sbase in Hgoal |- *. rewrite Hst in IH, Hgoal |- *. cbn [tl] in Hgoal |- *.
      destruct rest as [|f rest].
      + (* the subscription frame itself returns: it subscribes the next member *)
        cbn in IH. destruct IH as [j Hj]. cbn in Hj. subst k0.
        assert (Ej : j = nsub c).
        { destruct (Inv_combine.i_phase HI) as [_ Hok _|u j0 r _ Hs0 _ _ _ _|_ Hok _].
          - rewrite Hst in Hok. cbn in Hok. tauto.
          - rewrite Hst in Hs0. discriminate.
          - rewrite Hst in Hok. cbn in Hok. tauto. }
        cbn in Hres. unfold cb_sub in Hres.
        assert (Hjn : (j <? n) = true) by (apply Nat.ltb_lt; lia).
        rewrite Hjn in Hres. injection Hres as _ _ <-. cbn. eexists. reflexivity.
      + apply Hgoal. apply bot_sub_tl with (f := (k0, cl0)); [discriminate|exact IH].
    - (* the subscription *)
      cbn in Hran. unfold cb_sub in Hran.
      assert (H0n : (0 <? n) = true) by (apply Nat.ltb_lt; lia).
      rewrite H0n in Hran. injection Hran as _ _ <-.
      destruct (subd (ms c) 0) eqn:Eold.
      + exfalso. unfold enabled in He. rewrite Eold in He.
        rewrite !andb_false_r in He. discriminate.
      + destruct (Inv_combine.i_subd HI Eold) as (_ & _ & _ & _ & Hst).
        unfold sbase. rewrite Hst. cbn. eexists. reflexivity.
  Qed.

  Theorem combine_sync (c : cfg (combine_op n)) :
    reach p g_std c -> subd (ms c) 0 = true -> sk (ms c) 0 = SNone -> stack c <> [].
  Proof.
    intros Hr Hsub Hsk Hst.
    pose proof (Inv_combine.inv_reach Hn Hns Hresub Hnonest Hc14 Hr) as HI.
    assert (Hall : nsub c = n).
    { pose proof (Inv_combine.i_nsub HI) as Hle.
      destruct (Nat.eq_dec (nsub c) n) as [E|E]; [exact E|]. exfalso.
      assert (Hlt : nsub c < n) by lia.
      pose proof (combine_bot Hr Hsub Hlt) as Hb. rewrite Hst in Hb. exact Hb. }
    assert (Hns0 : cb_nstart (cst c) <> 0) by (now apply (Inv_combine.i_skn HI)).
    pose proof (Inv_combine.i_nstart HI) as Hcnt.
    assert (Hlt : cnt (cb_tbs (cst c)) n < n) by lia.
    destruct (cnt_ex _ Hlt) as (j & Hj & Htb).
    rewrite (Inv_combine.i_tbs HI Hj) in Htb.
    destruct (us (ms c) j) eqn:Eu; try discriminate.
    - apply (Inv_combine.i_unone HI) in Eu. lia.
    - pose proof (subd_pending Hlate Hr j Eu) as Hin.
      rewrite Hst in Hin. exact Hin.
  Qed.
End CombineSync.

Theorem combine_greets_sync p n :
  nsinks p = 1 -> resub p = false -> no_nest p = false -> c14 p = false -> late_ok p = false ->
  1 <= n ->
  forall c : cfg (combine_op n), reach p g_std c ->
    subd (ms c) 0 = true -> sk (ms c) 0 = SNone -> stack c <> [].
Proof. intros H1 H2 H3 H4 H5 Hn c. now apply combine_sync. Qed.
Print Assumptions combine_greets_sync.

Corollary combine_greets_sync_sig p n :
  nsinks p = 1 -> resub p = false -> no_nest p = false -> c14 p = false -> late_ok p = false ->
  1 <= n -> greets_sync_sig (combine_op n, p, g_std).
Proof. intros H1 H2 H3 H4 H5 Hn c. now apply combine_greets_sync. Qed.
Print Assumptions combine_greets_sync_sig.

(** ** Sanity: the hypotheses are met by real runs.  With two members, after member 0 greeted
    inside its subscribing call, combine is subscribed, has not greeted, and is still inside
    the subscribing activation; merge has already greeted its sink. *)
Definition p_sync : mparams :=
  {| nsinks := 1; late_ok := false; pullable := false; one_pull := false;
     resub := false; no_nest := false; c14 := false |}.

Example combine_waiting :
  let sc := [MIn (ISub 0 0); MIn (IDn 0 DH)] in
  let c := run p_sync (combine_op 2) sc in
  (all_enabled p_sync g_std (cfg0 (combine_op 2)) sc,
   subd (ms c) 0, sk (ms c) 0, map snd (stack c), enabled p_sync g_std c MRet) =
  (true, true, SNone, [CSub 0], true).
Proof. vm_compute. reflexivity. Qed.

Example merge_greeted :
  let sc := [MIn (ISub 0 0); MIn (IDn 0 DH)] in
  let c := run p_sync (merge_op 2) sc in
  (all_enabled p_sync g_std (cfg0 (merge_op 2)) sc, subd (ms c) 0, sk (ms c) 0) =
  (true, true, SLive).
Proof. vm_compute. reflexivity. Qed.

(** the subscribing call of a member that has not greeted cannot return *)
Example merge_no_late_return :
  let c := run p_sync (merge_op 2) [MIn (ISub 0 0)] in
  (subd (ms c) 0, sk (ms c) 0, map snd (stack c), enabled p_sync g_std c MRet) =
  (true, SNone, [CSub 0], false).
Proof. vm_compute. reflexivity. Qed.

Example concat_zero_greets :
  let c := run p_sync (concat_op 0) [MIn (ISub 0 0)] in
  (subd (ms c) 0, sk (ms c) 0, map snd (stack c)) = (true, SLive, [CDn 0 DH]).
Proof. vm_compute. reflexivity. Qed.
