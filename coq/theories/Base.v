(** * Base: values and the five-message protocol, split by direction.

    [Message<I,O>] of src/core.rs has five variants.  Between a source and a
    sink only four travel downward (Handshake carrying the talkback, Data,
    Error, Terminate) and three travel upward on the talkback (Pull, Error,
    Terminate); the remaining combinations are the crate's [panic!] arms
    ("sink must not send data", "source must not pull", ...), which a
    conformant peer never triggers and which the model represents by [APanic]
    where the environment could reach them. *)

From Coq Require Export List Arith Bool Lia PeanoNat.
Export ListNotations.

Set Implicit Arguments.

(** Payloads.  [VN] are the integers the harness sends; [VT] are the tuples
    that combine! builds. *)
Inductive val : Type :=
| VN (n : nat)
| VT (l : list val).

Fixpoint val_eqb (a b : val) {struct a} : bool :=
  match a, b with
  | VN x, VN y => Nat.eqb x y
  | VT l, VT m =>
      (fix go (l m : list val) {struct l} : bool :=
         match l, m with
         | [], [] => true
         | x :: l', y :: m' => val_eqb x y && go l' m'
         | _, _ => false
         end) l m
  | _, _ => false
  end.

(** downward messages: source -> sink *)
Inductive dmsg : Type :=
| DH                (* Handshake(talkback) *)
| DD (v : val)      (* Data *)
| DE (e : nat)      (* Error, identified by the id of its Arc *)
| DT.               (* Terminate *)

(** upward messages: sink -> source, on the talkback *)
Inductive umsg : Type :=
| UP                (* Pull *)
| UE (e : nat)      (* Error *)
| UT.               (* Terminate *)

Definition dmsg_is_term (m : dmsg) : bool :=
  match m with DE _ | DT => true | _ => false end.
Definition umsg_is_term (m : umsg) : bool :=
  match m with UE _ | UT => true | _ => false end.

Definition dmsg_eqb (a b : dmsg) : bool :=
  match a, b with
  | DH, DH => true
  | DD x, DD y => val_eqb x y
  | DE x, DE y => Nat.eqb x y
  | DT, DT => true
  | _, _ => false
  end.

Definition umsg_eqb (a b : umsg) : bool :=
  match a, b with
  | UP, UP => true
  | UE x, UE y => Nat.eqb x y
  | UT, UT => true
  | _, _ => false
  end.

(** What the environment can do to the component under test. *)
Inductive input : Type :=
| ISub (s : nat) (aux : nat)
    (* sink [s] subscribes: [source(Handshake(sink_s))].  [aux] is an
       environment-chosen parameter, only read by interval (0 = the nursery
       accepts the task, 1 = NurseErr::Spawn, 2 = NurseErr::Closed). *)
| IUp (s : nat) (m : umsg)      (* sink [s] calls the talkback it was given *)
| IDn (i : nat) (m : dmsg)      (* upstream [i] calls the handler it was given *)
| ITick (s : nat).              (* interval: the sleep of subscription [s] expires *)

(** What the component under test can do to its environment: every one of
    these is a synchronous call into a peer, during which the peer may call
    back. *)
Inductive call : Type :=
| CSub (i : nat)                (* subscribe upstream [i]: [source_i(Handshake(h))] *)
| CUp (i : nat) (m : umsg)      (* call upstream [i]'s talkback *)
| CDn (s : nat) (m : dmsg).     (* call sink [s] *)

(** Observations that are not calls into protocol peers. *)
Inductive obs : Type :=
| ONext (r : option val)        (* Iterator::next was called and returned [r] *)
| OUser (v : val)               (* for_each's closure was called on [v] *)
| OSpawn (s : nat) (ok : bool)  (* interval handed a task to the nursery *)
| OExit (s : nat).              (* interval's task left its loop *)

Inductive event : Type :=
| EIn (i : input)               (* the environment performs an input *)
| ECall (c : call)              (* the component calls a peer (and is suspended) *)
| ERet                          (* the peer's handler returns to the component *)
| EDone                         (* the component's activation returns to the environment *)
| EObs (o : obs)
| EPanic.

Inductive peer : Type := PSink (s : nat) | PUp (i : nat).

Definition peer_of (c : call) : peer :=
  match c with
  | CSub i | CUp i _ => PUp i
  | CDn s _ => PSink s
  end.

Definition peer_eqb (a b : peer) : bool :=
  match a, b with
  | PSink x, PSink y | PUp x, PUp y => Nat.eqb x y
  | _, _ => false
  end.

Definition call_eqb (a b : call) : bool :=
  match a, b with
  | CSub i, CSub j => Nat.eqb i j
  | CUp i m, CUp j n => Nat.eqb i j && umsg_eqb m n
  | CDn s m, CDn t n => Nat.eqb s t && dmsg_eqb m n
  | _, _ => false
  end.

(** Total maps from nat with pointwise update (no extensionality needed:
    every statement about them is pointwise). *)
Definition upd {A} (f : nat -> A) (k : nat) (v : A) : nat -> A :=
  fun x => if Nat.eqb x k then v else f x.

Lemma upd_same A (f : nat -> A) k v : upd f k v k = v.
Proof. unfold upd. now rewrite Nat.eqb_refl. Qed.

Lemma upd_other A (f : nat -> A) k v x : x <> k -> upd f k v x = f x.
Proof. unfold upd. intros H. destruct (Nat.eqb_spec x k); congruence. Qed.
