(** * Inv_merge: the master invariant of merge, for every member count n >= 1 *)
From CB Require Import ProofLib Spec.

Set Implicit Arguments.

(** ** Counting the indices below [n] that satisfy a boolean predicate *)
Fixpoint count (f : nat -> bool) (n : nat) : nat :=
  match n with
  | 0 => 0
  | S m => (if f m then 1 else 0) + count f m
  end.

Lemma count_le f n : count f n <= n.
Proof. induction n as [|n IH]; cbn; [lia|]. destruct (f n); lia. Qed.

Lemma count_ext f g n : (forall k, k < n -> f k = g k) -> count f n = count g n.
Proof.
  induction n as [|n IH]; intros H; cbn; [reflexivity|].
  rewrite (H n) by lia. rewrite IH; [reflexivity|]. intros k Hk. apply H. lia.
Qed.

Lemma count_zero f n : (forall k, k < n -> f k = false) -> count f n = 0.
Proof.
  induction n as [|n IH]; intros H; cbn; [reflexivity|].
  rewrite (H n) by lia. rewrite IH; [reflexivity|]. intros k Hk. apply H. lia.
Qed.

Lemma count_full f n : count f n = n -> forall k, k < n -> f k = true.
Proof.
  induction n as [|n IH]; intros H k Hk; [lia|]. cbn in H.
  pose proof (count_le f n) as Hle.
  destruct (f n) eqn:E; [|lia].
  destruct (Nat.eq_dec k n) as [->|Hne]; [exact E|]. apply IH; lia.
Qed.

Lemma count_lt f n k : k < n -> f k = false -> count f n < n.
Proof.
  intros Hk Hf. pose proof (count_le f n) as Hle.
  destruct (Nat.eq_dec (count f n) n) as [E|E]; [|lia].
  rewrite (count_full f E Hk) in Hf. discriminate.
Qed.

Lemma count_flip f g n k :
  k < n -> f k = false -> g k = true -> (forall j, j < n -> j <> k -> g j = f j) ->
  count g n = S (count f n).
Proof.
  induction n as [|n IH]; intros Hk Hf Hg H; [lia|]. cbn.
  destruct (Nat.eq_dec k n) as [->|Hne].
  - rewrite Hf, Hg. cbn. f_equal. apply count_ext. intros j Hj. apply H; lia.
  - rewrite (H n) by lia. rewrite IH; try assumption; try lia.
    intros j Hj Hjk. apply H; lia.
Qed.

Lemma count_lt_ex f m : count f m < m -> exists k, k < m /\ f k = false.
Proof.
  induction m as [|m IH]; cbn; intros H; [lia|]. destruct (f m) eqn:E.
  - destruct IH as (k & Hk & Hf); [lia|]. exists k. split; [lia|exact Hf].
  - exists m. split; [lia|exact E].
Qed.

(** ** [find_from] *)
Lemma find_from_some ok j fuel j' :
  find_from ok j fuel = Some j' ->
  j <= j' /\ j' < j + fuel /\ ok j' = true /\ forall k, j <= k -> k < j' -> ok k = false.
Proof.
  revert j. induction fuel as [|fuel IH]; intros j H; cbn in H; [discriminate|].
  destruct (ok j) eqn:E.
  - inversion H; subst. repeat split; try lia; try assumption.
  - destruct (IH _ H) as (H1 & H2 & H3 & H4). repeat split; try lia; try assumption.
    intros k Hk1 Hk2. destruct (Nat.eq_dec k j) as [->|Hne]; [exact E|]. apply H4; lia.
Qed.

Lemma find_from_none ok j fuel :
  find_from ok j fuel = None -> forall k, j <= k -> k < j + fuel -> ok k = false.
Proof.
  revert j. induction fuel as [|fuel IH]; intros j H k H1 H2; cbn in H; [lia|].
  destruct (ok j) eqn:E; [discriminate|].
  destruct (Nat.eq_dec k j) as [->|Hne]; [exact E|]. apply (IH _ H); lia.
Qed.

(** ** C08: the data of all members, in arrival order *)
Fixpoint all_in (tr : list event) : list val :=
  match tr with
  | [] => []
  | EIn (IDn _ (DD v)) :: tr' => v :: all_in tr'
  | _ :: tr' => all_in tr'
  end.

Lemma all_in_app tr1 tr2 : all_in (tr1 ++ tr2) = all_in tr1 ++ all_in tr2.
Proof.
  induction tr1 as [|e tr1 IH]; cbn; [reflexivity|].
  destruct e as [[s a|s u|j [|v|e|]|s]|c| | |ob|]; cbn; try exact IH. now rewrite IH.
Qed.

Ltac split_handler H :=
  repeat match type of H with
         | context [if ?b then _ else _] => destruct b
         | context [match find_from ?a ?b ?c with _ => _ end] => destruct (find_from a b c)
         end.

Lemma mg_resume_out n k s s' os a :
  mg_resume n k s = (s', os, a) ->
  os = [] /\ data_out 0 [act_event (merge_op n) a] = [].
Proof.
  intros H. destruct k as [|i|u j|i e j]; cbn in H;
    unfold mg_subloop, mg_bcast, mg_errloop in H; split_handler H;
    injection H as <- <- <-; split; reflexivity.
Qed.

Lemma mg_handle_out n inp s s' os a :
  mg_handle n inp s = (s', os, a) ->
  os = [] /\
  data_out 0 [act_event (merge_op n) a] =
  match inp with IDn i (DD v) => if i <? n then [v] else [] | _ => [] end.
Proof.
  intros H. destruct inp as [[|t] aux|[|t] u|i [|v|e|]|t]; cbn in H |- *;
    unfold mg_subloop, mg_bcast, mg_errloop in H; split_handler H;
    injection H as <- <- <-; split; reflexivity.
Qed.

Lemma all_in_act o (a : act (Fr o)) : all_in [act_event o a] = [].
Proof. destruct a; reflexivity. Qed.

Definition tpeer (st : list (mg_fr * call)) (q : peer) : bool :=
  match st with
  | [] => true
  | (_, cl) :: _ => peer_eqb (peer_of cl) q
  end.

Section MergeInv.
  Variable n : nat.
  Hypothesis Hn : 1 <= n.
  Variable p : mparams.
  Hypothesis Hns : nsinks p = 1.
  Hypothesis Hresub : resub p = false.
  Hypothesis Hnonest : no_nest p = false.
  Hypothesis Hc14 : c14 p = false.
  Hypothesis Hlate : late_ok p = true.
  Let o := merge_op n.
  Notation gm := g_std.

  (** member [k] has ended by Terminate *)
  Definition done (m : mstate) (s : mg_st) (k : nat) : bool :=
    match us m k with UEnded => negb (mg_tbs s k) | _ => false end.

  (** frames that may be pending below the innermost one *)
  Definition qf (f : mg_fr * call) : Prop :=
    match f with
    | (MgDone, CDn 0 DH) => True
    | (MgDone, CDn 0 (DD _)) => True
    | (MgBcast UP _, CUp _ UP) => True
    | _ => False
    end.

  (** the subscription loop, suspended at member [i]: only at the bottom *)
  Definition qsub (m : mstate) (f : mg_fr * call) : Prop :=
    match f with
    | (MgSubLoop i', CSub i) => i' = S i /\ forall k, i' <= k -> us m k = UNone
    | _ => False
    end.

  Fixpoint qstack (m : mstate) (st : list (mg_fr * call)) : Prop :=
    match st with
    | [] => True
    | f :: rest => (qf f /\ qstack m rest) \/ (qsub m f /\ rest = [])
    end.

  Definition quiet_conds (s : mg_st) (m : mstate) : Prop :=
    (mg_ended s = true -> sk_over (sk m 0) = true /\ forall k, us m k <> ULive) /\
    (forall t, err_due m t = None).

  Definition inert (m : mstate) (cl : call) : Prop :=
    match cl with
    | CUp i UT => us m i = UStopped
    | CDn 0 (DE _) | CDn 0 DT => sk m 0 = SFinished
    | _ => False
    end.

  Inductive shape (s : mg_st) (m : mstate) : list (mg_fr * call) -> Prop :=
  | Sh_quiet st : qstack m st -> quiet_conds s m -> shape s m st
  | Sh_inert cl rest :
      qstack m rest -> quiet_conds s m -> inert m cl ->
      shape s m ((MgDone, cl) :: rest)
  | Sh_bcast u j rest :
      qstack m rest -> umsg_is_term u = true -> j < n ->
      mg_ended s = true -> sk m 0 = SDisposed -> us m j = UStopped ->
      (forall k, k < S j -> us m k <> ULive) ->
      (forall k, S j <= k -> k < n -> mg_tbs s k = true -> us m k = ULive) ->
      (forall t, err_due m t = None) ->
      shape s m ((MgBcast u (S j), CUp j u) :: rest)
  | Sh_err i e j rest :
      qstack m rest -> j < n -> i < n ->
      mg_ended s = true -> sk m 0 = SLive -> us m j = UStopped -> us m i = UEnded ->
      (forall k, k < S j -> us m k <> ULive) ->
      (forall k, S j <= k -> k < n -> k <> i -> mg_tbs s k = true -> us m k = ULive) ->
      existsb (Nat.eqb e) (errs_in m) = true ->
      err_due m 0 = Some e -> (forall t, t <> 0 -> err_due m t = None) ->
      shape s m ((MgErrLoop i e (S j), CUp j UT) :: rest).

  Record Core (s : mg_st) (m : mstate) : Prop := {
    c_sk_other : forall t, t <> 0 -> sk m t = SNone;
    c_us_big : forall k, n <= k -> us m k = UNone;
    c_live_tb : forall k, us m k = ULive -> mg_tbs s k = true;
    c_tb_live : mg_ended s = false -> forall k, k < n -> mg_tbs s k = true -> us m k = ULive;
    c_over : sk_over (sk m 0) = true -> mg_ended s = true \/ mg_end s = n;
    c_count : mg_end s = count (done m s) n;
    c_start : sk m 0 = SNone <-> mg_start s = 0;
    c_greeted : forall k, us m k <> UNone -> us m k <> USubd -> mg_start s <> 0;
    c_ended : mg_ended s = true -> mg_start s <> 0;
    c_task : forall t, task m t = false;
    c_fin : mg_end s = n -> sk_over (sk m 0) = true;
    c_disp : sk m 0 = SDisposed -> exists i, i < n /\ us m i <> UEnded;
    (** a talkback still in its cell belongs to a member that is live or has failed: whoever
        stops a member (sink broadcast, failing sibling) takes its talkback out *)
    c_tb_set : forall k, mg_tbs s k = true -> us m k = ULive \/ us m k = UEnded;
  }.

  Record InvP (s : mg_st) (st : list (mg_fr * call)) (m : mstate) : Prop := {
    i_init : subd m 0 = false ->
             st = [] /\ sk m 0 = SNone /\ forall k, us m k = UNone;
    i_core : Core s m;
    i_shape : shape s m st;
  }.

  Record Inv (c : cfg o) : Prop := {
    i_viols : viols (ms c) = [];
    i_dead : dead c = false;
    i_P : InvP (cst c) (stack c) (ms c);
  }.

  Lemma inv0 : Inv (cfg0 o).
  Proof.
    constructor; cbn; auto. constructor; cbn; auto.
    - constructor; cbn; auto; try discriminate; try tauto; try lia.
      symmetry. apply count_zero. reflexivity.
    - apply Sh_quiet; [exact I|]. split; [discriminate|reflexivity].
  Qed.

  Lemma qstack_mono m m' st :
    (forall k, us m k = UNone -> us m' k = UNone) -> qstack m st -> qstack m' st.
  Proof.
    intros H. induction st as [|f st IH]; cbn; [auto|].
    intros [[H1 H2]|[H1 H2]]; [left; auto|right]. split; [|exact H2].
    destruct f as [[|i1|u j|i2 e j] [i|i u1|t d]]; cbn in *; auto.
    destruct H1 as [E H1]. split; [exact E|]. intros k Hk. apply H. now apply H1.
  Qed.

  Lemma qstack_same m m' st : us m' = us m -> qstack m st -> qstack m' st.
  Proof. intros E. apply qstack_mono. intros k Hk. now rewrite E. Qed.

  Definition fresh : mg_st :=
    {| mg_tbs := fun _ => false; mg_start := 0; mg_end := 0; mg_ended := false |}.

  Lemma h_sub aux s :
    mg_handle n (ISub 0 aux) s = (fresh, [], ACall (CSub 0) (MgSubLoop 1)).
  Proof. cbn. unfold mg_subloop. destruct (Nat.ltb_spec 0 n); [reflexivity|lia]. Qed.

  Lemma settle_call m cl k :
    check_call p m cl = [] ->
    ms_settle p o m [] (ACall cl k) =
    set_cstack (mon_call_upd m cl) (cl :: cstack (mon_call_upd m cl)).
  Proof. unfold ms_settle. cbn. intros ->. reflexivity. Qed.

  Lemma settle_ret m : check_quiescent p m = [] -> ms_settle p o m [] ARet = m.
  Proof.
    unfold ms_settle. cbn. intros H. destruct (cstack m); [rewrite H|]; reflexivity.
  Qed.

  Lemma all_ended s m :
    Core s m -> mg_end s = n -> forall k, us m k <> ULive.
  Proof.
    intros HP E k. destruct (Nat.lt_ge_cases k n) as [Hk|Hk].
    - rewrite (c_count HP) in E. pose proof (count_full _ E Hk) as Hd. unfold done in Hd.
      destruct (us m k); discriminate.
    - rewrite (c_us_big HP) by assumption. discriminate.
  Qed.

  Lemma quiesce_ok s m :
    Core s m -> quiet_conds s m -> check_quiescent p m = [].
  Proof.
    intros HP [Hq1 Hq2]. apply quiescent_nil.
    - intros _ Hov i _. 
      assert (H : us m i <> ULive).
      { destruct (c_over HP Hov) as [E|E]; [now apply Hq1 | now apply (all_ended HP)]. }
      destruct (us m i); try reflexivity. congruence.
    - exact Hq2.
    - rewrite Hc14. discriminate.
  Qed.

  (** *** How [Core] is carried across each kind of change *)
  Ltac ucase :=
    unfold upd in *;
    repeat match goal with
           | |- context [Nat.eqb ?x ?k] =>
               destruct (Nat.eqb_spec x k); [first [subst x|subst k|idtac]|]
           | H : context [Nat.eqb ?x ?k] |- _ =>
               destruct (Nat.eqb_spec x k); [first [subst x|subst k|idtac]|]
           end.

  (** the clause [c_tb_set] across a pointwise change; [H0] is the clause before the step *)
  Ltac tbset H0 :=
    let k := fresh "k" in let H := fresh "H" in
    intros k H; ucase; try discriminate; auto;
    try (let X := fresh "X" in destruct (H0 _ H) as [X|X]; congruence).

  Definition set_ended (s : mg_st) : mg_st :=
    {| mg_tbs := mg_tbs s; mg_start := mg_start s; mg_end := mg_end s; mg_ended := true |}.
  (** the talkback of member [j] taken out of its cell (an ending message on its way to [j]) *)
  Definition clr (s : mg_st) (j : nat) : mg_st :=
    {| mg_tbs := upd (mg_tbs s) j false; mg_start := mg_start s; mg_end := mg_end s;
       mg_ended := mg_ended s |}.
  Definition clrif (u : umsg) (s : mg_st) (j : nat) : mg_st :=
    if umsg_is_term u then clr s j else s.
  Definition greet (s : mg_st) (i : nat) : mg_st :=
    {| mg_tbs := upd (mg_tbs s) i true; mg_start := S (mg_start s); mg_end := mg_end s;
       mg_ended := mg_ended s |}.
  Definition term (s : mg_st) (i : nat) : mg_st :=
    {| mg_tbs := upd (mg_tbs s) i false; mg_start := mg_start s; mg_end := S (mg_end s);
       mg_ended := mg_ended s |}.

  Lemma T_same s m m' :
    Core s m -> sk m' = sk m -> us m' = us m -> task m' = task m -> Core s m'.
  Proof.
    intros [] E1 E2 E3. constructor; rewrite ?E1, ?E2, ?E3; auto.
    rewrite c_count0. apply count_ext. intros k _. unfold done. now rewrite E2.
  Qed.

  Lemma T_stop s m m' j :
    Core s m -> mg_ended s = true -> us m j = ULive ->
    sk m' = sk m -> us m' = upd (us m) j UStopped -> task m' = task m -> Core (clr s j) m'.
  Proof.
    intros [] He Hj E1 E2 E3.
    constructor; rewrite ?E1, ?E2, ?E3; cbn [clr mg_tbs mg_start mg_end mg_ended]; auto.
    - intros k Hk. ucase; [|auto]. rewrite c_us_big0 in Hj by assumption. discriminate.
    - intros k H. ucase; [discriminate|auto].
    - congruence.
    - rewrite c_count0. apply count_ext. intros k _. unfold done. rewrite E2.
      cbn [clr mg_tbs]. ucase; [rewrite Hj|]; reflexivity.
    - intros H. destruct (c_disp0 H) as (i & Hi & Hne). exists i. split; [exact Hi|].
      ucase; [discriminate|exact Hne].
    - tbset c_tb_set0.
  Qed.

  Lemma T_dispose s m m' :
    Core s m -> sk m 0 = SLive -> (exists i, i < n /\ us m i <> UEnded) ->
    sk m' = upd (sk m) 0 SDisposed -> us m' = us m -> task m' = task m ->
    Core (set_ended s) m'.
  Proof.
    intros [] Hsk Hex E1 E2 E3.
    assert (Hst : mg_start s <> 0) by (intros H; apply c_start0 in H; congruence).
    constructor; rewrite ?E1, ?E2, ?E3; cbn; auto.
    - intros t Ht. rewrite upd_other by assumption. auto.
    - discriminate.
    - rewrite c_count0. apply count_ext. intros k _. unfold done. cbn. now rewrite E2.
    - split; [discriminate|tauto].
  Qed.

  Lemma T_fail s m m' i :
    Core s m -> us m i = ULive -> sk m 0 = SLive ->
    sk m' = sk m -> us m' = upd (us m) i UEnded -> task m' = task m ->
    Core (set_ended s) m'.
  Proof.
    intros [] Hi Hsk E1 E2 E3.
    assert (Hst : mg_start s <> 0) by (intros H; apply c_start0 in H; congruence).
    constructor; rewrite ?E1, ?E2, ?E3; cbn; auto.
    - intros k Hk. ucase; [|auto]. rewrite c_us_big0 in Hi by assumption. discriminate.
    - intros k H. ucase; [discriminate|auto].
    - discriminate.
    - rewrite c_count0. apply count_ext. intros k _. unfold done. cbn. rewrite E2.
      ucase; [|reflexivity]. rewrite Hi, (c_live_tb0 _ Hi). reflexivity.
    - intros H. congruence.
    - tbset c_tb_set0.
  Qed.

  Lemma T_finish s m m' :
    Core s m -> mg_ended s = true -> sk m 0 <> SNone ->
    sk m' = upd (sk m) 0 SFinished -> us m' = us m -> task m' = task m -> Core s m'.
  Proof.
    intros [] He Hsk E1 E2 E3. constructor; rewrite ?E1, ?E2, ?E3; auto.
    - intros t Ht. rewrite upd_other by assumption. auto.
    - rewrite c_count0. apply count_ext. intros k _. unfold done. now rewrite E2.
    - rewrite upd_same. split; [discriminate|]. intros H. apply c_start0 in H. congruence.
    - rewrite upd_same. discriminate.
  Qed.

  Lemma T_late s m m' i :
    Core s m -> mg_ended s = true -> us m i = USubd ->
    sk m' = sk m -> us m' = upd (upd (us m) i ULive) i UStopped -> task m' = task m ->
    Core s m'.
  Proof.
    intros [] He Hi E1 E2 E3. constructor; rewrite ?E1, ?E2, ?E3; auto.
    - intros k Hk. ucase; [|auto]. rewrite c_us_big0 in Hi by assumption. discriminate.
    - intros k H. ucase; [discriminate|auto].
    - congruence.
    - rewrite c_count0. apply count_ext. intros k _. unfold done. rewrite E2.
      ucase; [rewrite Hi|]; reflexivity.
    - intros H. destruct (c_disp0 H) as (i0 & Hi0 & Hne). exists i0. split; [exact Hi0|].
      ucase; [discriminate|exact Hne].
    - tbset c_tb_set0.
  Qed.

  Lemma T_greet s m m' i :
    Core s m -> mg_ended s = false -> us m i = USubd -> i < n ->
    us m' = upd (us m) i ULive -> task m' = task m ->
    (mg_start s <> 0 /\ sk m' = sk m \/ mg_start s = 0 /\ sk m' = upd (sk m) 0 SLive) ->
    Core (greet s i) m'.
  Proof.
    intros [] He Hi Hin E2 E3 Hsk. constructor; rewrite ?E2, ?E3; cbn; auto.
    - intros t Ht. destruct Hsk as [[_ ->]|[_ ->]]; [|rewrite upd_other by assumption]; auto.
    - intros k Hk. ucase; [lia|auto].
    - intros k H. ucase; auto.
    - intros H k Hk Ht. ucase; auto.
    - destruct Hsk as [[_ ->]|[_ ->]]; [auto|]. rewrite upd_same. discriminate.
    - rewrite c_count0. apply count_ext. intros k _. unfold done. cbn. rewrite E2.
      ucase; [rewrite Hi|]; reflexivity.
    - destruct Hsk as [[H ->]|[_ ->]]; [|rewrite upd_same]; split; try discriminate; tauto.
    - intros Hfull. destruct Hsk as [[_ ->]|[_ ->]]; [auto|]. exfalso.
      assert (Hlt : count (done m s) n < n).
      { apply count_lt with (k := i); [exact Hin|]. unfold done. now rewrite Hi. }
      lia.
    - destruct Hsk as [[_ ->]|[_ ->]]; [|rewrite upd_same; discriminate].
      intros H. destruct (c_disp0 H) as (i0 & Hi0 & Hne). exists i0. split; [exact Hi0|].
      ucase; [discriminate|exact Hne].
    - tbset c_tb_set0.
  Qed.

  Lemma T_term s m m' i :
    Core s m -> us m i = ULive -> i < n -> sk m 0 = SLive -> mg_ended s = false ->
    us m' = upd (us m) i UEnded -> task m' = task m ->
    (S (mg_end s) <> n /\ sk m' = sk m \/
     S (mg_end s) = n /\ sk m' = upd (sk m) 0 SFinished) ->
    Core (term s i) m'.
  Proof.
    intros [] Hi Hin Hsk0 He E2 E3 Hsk.
    assert (Hst : mg_start s <> 0) by (intros H; apply c_start0 in H; congruence).
    constructor; rewrite ?E2, ?E3; cbn; auto.
    - intros t Ht. destruct Hsk as [[_ ->]|[_ ->]]; [|rewrite upd_other by assumption]; auto.
    - intros k Hk. ucase; [lia|auto].
    - intros k H. ucase; [discriminate|auto].
    - intros H k Hk Ht. ucase; [discriminate|auto].
    - destruct Hsk as [[_ ->]|[H ->]]; [|now right]. rewrite Hsk0. discriminate.
    - rewrite c_count0. symmetry. apply count_flip with (k := i); try assumption.
      + unfold done. now rewrite Hi.
      + unfold done. cbn. rewrite E2, !upd_same. reflexivity.
      + intros j _ Hj. unfold done. cbn. rewrite E2, !upd_other by assumption. reflexivity.
    - destruct Hsk as [[_ ->]|[_ ->]]; [auto|]. rewrite upd_same. split; [discriminate|tauto].
    - intros Hfull. destruct Hsk as [[H _]|[_ ->]]; [congruence|]. now rewrite upd_same.
    - destruct Hsk as [[_ ->]|[_ ->]]; [congruence|]. rewrite upd_same. discriminate.
    - tbset c_tb_set0.
  Qed.

  Lemma T_subscribe s m m' i :
    Core s m -> mg_ended s = false -> us m i = UNone -> i < n ->
    sk m' = sk m -> us m' = upd (us m) i USubd -> task m' = task m -> Core s m'.
  Proof.
    intros [] He Hi Hin E1 E2 E3. constructor; rewrite ?E1, ?E2, ?E3; auto.
    - intros k Hk. ucase; [lia|auto].
    - intros k H. ucase; [discriminate|auto].
    - intros H k Hk Ht. ucase; [|auto]. rewrite (c_tb_live0 H _ Hk Ht) in Hi. discriminate.
    - rewrite c_count0. apply count_ext. intros k _. unfold done. rewrite E2.
      ucase; [rewrite Hi|]; reflexivity.
    - intros k H1 H2. ucase; [congruence | now apply (c_greeted0 k)].
    - intros H. destruct (c_disp0 H) as (i0 & Hi0 & Hne). exists i0. split; [exact Hi0|].
      ucase; [discriminate|exact Hne].
    - tbset c_tb_set0.
  Qed.

  (** *** Inputs only arrive in quiet shapes *)
  Lemma shape_sink s m st :
    shape s m st -> tpeer st (PSink 0) = true -> sk m 0 = SLive ->
    qstack m st /\ quiet_conds s m.
  Proof.
    intros Hsh Htp Hsk.
    destruct Hsh as [st HF Hq|cl rest HF Hq Hin|u j rest HF|i e j rest HF]; cbn in Htp;
      try discriminate.
    - auto.
    - exfalso. destruct cl as [i|i [|e|]|[|t] [|v|e|]]; cbn in Hin, Htp;
        try contradiction; try discriminate; congruence.
  Qed.

  Lemma shape_up s m st i :
    shape s m st -> tpeer st (PUp i) = true -> us m i = USubd \/ us m i = ULive ->
    qstack m st /\ quiet_conds s m.
  Proof.
    intros Hsh Htp Hi.
    destruct Hsh as [st HF Hq|cl rest HF Hq Hin|u j rest HF Hu Hj He Hsk Huj
                    |i0 e j rest HF Hj Hi0 He Hsk Huj]; cbn in Htp.
    - auto.
    - exfalso. destruct cl as [i1|i1 [|e|]|[|t] [|v|e|]]; cbn in Hin, Htp;
        try contradiction; try discriminate.
      apply Nat.eqb_eq in Htp. subst. destruct Hi; congruence.
    - exfalso. apply Nat.eqb_eq in Htp. subst. destruct Hi; congruence.
    - exfalso. apply Nat.eqb_eq in Htp. subst. destruct Hi; congruence.
  Qed.

  Lemma live_facts s m i :
    Core s m -> quiet_conds s m -> us m i = ULive ->
    mg_ended s = false /\ i < n /\ sk m 0 = SLive /\ mg_tbs s i = true.
  Proof.
    intros HC [Hq _] Hi.
    assert (He : mg_ended s = false).
    { destruct (mg_ended s) eqn:E; [|reflexivity]. destruct (Hq eq_refl) as [_ H].
      now apply H in Hi. }
    assert (Hin : i < n).
    { destruct (Nat.lt_ge_cases i n); [assumption|].
      rewrite (c_us_big HC) in Hi by assumption. discriminate. }
    split; [exact He|]. split; [exact Hin|]. split; [|now apply (c_live_tb HC)].
    assert (Hst : mg_start s <> 0) by (apply (c_greeted HC i); congruence).
    pose proof (c_over HC) as Hov. pose proof (c_start HC) as Hs0.
    destruct (sk m 0); try reflexivity; try tauto.
    - destruct (Hov eq_refl) as [H|H]; [congruence|]. exfalso. now apply (all_ended HC H i).
    - destruct (Hov eq_refl) as [H|H]; [congruence|]. exfalso. now apply (all_ended HC H i).
  Qed.

  Lemma sink_live_facts s m :
    Core s m -> quiet_conds s m -> sk m 0 = SLive -> mg_ended s = false.
  Proof.
    intros HC [Hq _] Hsk. destruct (mg_ended s) eqn:E; [|reflexivity].
    destruct (Hq eq_refl) as [H _]. rewrite Hsk in H. discriminate.
  Qed.

  Lemma live_has_member s m :
    Core s m -> mg_ended s = false -> sk m 0 = SLive ->
    exists i, i < n /\ us m i <> UEnded.
  Proof.
    intros HC He Hsk.
    assert (Hlt : count (done m s) n < n).
    { pose proof (count_le (done m s) n).
      destruct (Nat.eq_dec (count (done m s) n) n) as [E|E]; [|lia].
      rewrite <- (c_count HC) in E. pose proof (c_fin HC E) as H1.
      rewrite Hsk in H1. discriminate. }
    destruct (count_lt_ex _ Hlt) as (k & Hk & Hf). exists k. split; [exact Hk|].
    intros Hu. unfold done in Hf. rewrite Hu in Hf. apply negb_false_iff in Hf.
    rewrite (c_tb_live HC He Hk Hf) in Hu. discriminate.
  Qed.

  Lemma subd_true s st m :
    InvP s st m -> sk m 0 <> SNone \/ st <> [] \/ (exists k, us m k <> UNone) ->
    subd m 0 = true.
  Proof.
    intros HP H. destruct (subd m 0) eqn:E; [reflexivity|].
    destruct (i_init HP E) as (H1 & H2 & H3).
    destruct H as [H|[H|[k H]]]; [congruence|congruence|]. now rewrite H3 in H.
  Qed.

  Lemma mon_call_upd_viols m cl : viols (mon_call_upd m cl) = viols m.
  Proof.
    destruct cl as [i|i u|s d]; cbn; try reflexivity.
    - destruct u; reflexivity.
    - destruct d as [|v|e|]; cbn; try reflexivity.
      + destruct (sk m s); reflexivity.
      + destruct (sk m s), (err_due m s) as [e'|]; cbn; try reflexivity;
          destruct (Nat.eqb e e'); reflexivity.
      + destruct (sk m s); reflexivity.
  Qed.

  Lemma fin_call (c' : cfg o) s' st' m1 cl k :
    viols m1 = [] ->
    cst c' = s' -> stack c' = (k, cl) :: st' ->
    ms c' = ms_settle p o m1 [] (ACall cl k) -> dead c' = false ->
    check_call p m1 cl = [] ->
    InvP s' ((k, cl) :: st')
         (set_cstack (mon_call_upd m1 cl) (cl :: cstack (mon_call_upd m1 cl))) ->
    Inv c'.
  Proof.
    intros Hv Hc Hs Hm Hd Hck HP. rewrite (@settle_call m1 cl k Hck) in Hm.
    constructor; [|exact Hd|rewrite Hc, Hs, Hm; exact HP].
    rewrite Hm. cbn. now rewrite mon_call_upd_viols.
  Qed.

  Lemma fin_ret (c' : cfg o) s' st' m1 :
    viols m1 = [] ->
    cst c' = s' -> stack c' = st' ->
    ms c' = ms_settle p o m1 [] ARet -> dead c' = false ->
    InvP s' st' m1 -> quiet_conds s' m1 -> Inv c'.
  Proof.
    intros Hv Hc Hs Hm Hd HP Hq.
    rewrite (@settle_ret m1 (quiesce_ok (i_core HP) Hq)) in Hm.
    constructor; [now rewrite Hm|exact Hd|rewrite Hc, Hs, Hm; exact HP].
  Qed.

  Definition endif (u : umsg) (s : mg_st) : mg_st :=
    if umsg_is_term u then set_ended s else s.

  Lemma h_up u s :
    mg_ended s = false ->
    mg_handle n (IUp 0 u) s =
    match find_from (mg_tbs s) 0 (n - 0) with
    | Some j' => (clrif u (endif u s) j', [], ACall (CUp j' u) (MgBcast u (S j')))
    | None => (endif u s, [], ARet)
    end.
  Proof.
    intros He. unfold mg_handle, mg_bcast, endif, clrif, clr, set_ended.
    destruct u; cbn [umsg_is_term negb andb mg_ended mg_tbs mg_start mg_end]; rewrite ?He;
      reflexivity.
  Qed.

  Lemma inv_sub c s aux : Inv c -> enabled p gm c (MIn (ISub s aux)) = true ->
                          Inv (step p c (MIn (ISub s aux))).
  Proof.
    intros [Hv Hdd HP] He. start_in He Hlive Hdel Hg.
    cbn in He, Hg. rewrite Hns in He. destruct aux; [|discriminate].
    destruct (at_top c) eqn:Htop; cbn in He; try discriminate.
    destruct s; cbn in He; try discriminate.
    apply negb_true_iff in He.
    destruct (i_init HP He) as (Hst & Hsk & Hus).
    destruct (step_in p c (ISub 0 0) Hlive Hdel (h_sub 0 (cst c))) as (Hc & Hs & Hm & Hd).
    rewrite settle_call in Hm.
    2: { cbn. rewrite Hus, Hsk, Hresub. reflexivity. }
    assert (Hdue : forall t, err_due (ms c) t = None).
    { pose proof (i_shape HP) as Hsh. rewrite Hst in Hsh. inversion Hsh as [st0 _ [_ Hq] E| | |]. exact Hq. }
    constructor.
    - rewrite Hm. exact Hv.
    - rewrite Hd. reflexivity.
    - rewrite Hc, Hs, Hm, Hst. constructor; cbn; try discriminate;
        [constructor; cbn; try (apply HP); try discriminate|].
      + intros k Hk. rewrite upd_other by lia. apply Hus.
      + intros k. unfold upd. destruct (Nat.eqb k 0). 1: discriminate. rewrite Hus; discriminate.
      + rewrite Hsk. discriminate.
      + symmetry. apply count_zero. intros k _. unfold done. cbn. unfold upd.
        destruct (Nat.eqb k 0); [|rewrite Hus]; reflexivity.
      + tauto.
      + intros k. unfold upd. destruct (Nat.eqb k 0); [|rewrite Hus]; congruence.
      + intros. lia.
      + rewrite Hsk. discriminate.
      + apply Sh_quiet.
        * right. split; [|reflexivity]. cbn. split; [reflexivity|].
          intros k Hk. rewrite upd_other by lia. apply Hus.
        * split; [discriminate|exact Hdue].
  Qed.

  Lemma inv_up c s u : Inv c -> enabled p gm c (MIn (IUp s u)) = true ->
                       Inv (step p c (MIn (IUp s u))).
  Proof.
    intros [Hv Hdd HP] He. start_in He Hlive Hdel Hg.
    cbn in He. apply andb_prop in He. destruct He as [He Hu].
    apply andb_prop in He. destruct He as [Htop Hsk].
    pose proof (i_core HP) as HC.
    destruct s as [|s]; [|rewrite (c_sk_other HC) in Hsk by lia; discriminate].
    destruct (sk (ms c) 0) eqn:Esk; try discriminate. clear Hsk Hu.
    change (tpeer (stack c) (PSink 0) = true) in Htop.
    destruct (shape_sink (i_shape HP) Htop Esk) as [HF Hq].
    pose proof (sink_live_facts HC Hq Esk) as Hend.
    assert (Hsub : subd (ms c) 0 = true) by (apply (subd_true HP); left; congruence).
    pose proof (live_has_member HC Hend Esk) as Hex.
    pose proof (h_up u (cst c) Hend) as Hh.
    destruct (find_from (mg_tbs (cst c)) 0 (n - 0)) as [j'|] eqn:Ef.
    - destruct (find_from_some _ _ _ Ef) as (_ & Hj & Htb & Hlt).
      assert (Hjn : j' < n) by lia.
      pose proof (c_tb_live HC Hend Hjn Htb) as Hlj.
      destruct (step_in p c (IUp 0 u) Hlive Hdel Hh) as (Hc & Hs & Hm & Hd).
      eapply fin_call with (m1 := mon_input p (ms c) (IUp 0 u));
        [| exact Hc | exact Hs | exact Hm | exact Hd | |].
      + destruct u; exact Hv.
      + destruct u; cbn; rewrite Hlj, ?Hc14; reflexivity.
      + assert (Hmono : forall k, us (ms c) k = UNone -> upd (us (ms c)) j' UStopped k = UNone).
        { intros k Hk. ucase; congruence. }
        assert (Hlow : forall k, k < S j' -> upd (us (ms c)) j' UStopped k <> ULive).
        { intros k Hk Hl. ucase; [discriminate|].
          pose proof (c_live_tb HC _ Hl) as Ht. rewrite Hlt in Ht; [discriminate|lia|lia]. }
        assert (Hhigh : forall k, S j' <= k -> k < n -> upd (mg_tbs (cst c)) j' false k = true ->
                                  upd (us (ms c)) j' UStopped k = ULive).
        { intros k Hk1 Hk2 Hk3. rewrite upd_other in Hk3 |- * by lia.
          now apply (c_tb_live HC). }
        destruct Hq as [Hq1 Hq2].
        destruct u as [|e|]; (constructor; [intros H; cbn in H; congruence| |]).
        * eapply T_same; [exact HC | reflexivity..].
        * apply Sh_quiet; [left; split; [exact I|apply (@qstack_same (ms c)); [reflexivity|exact HF]] | split; [exact Hq1|exact Hq2]].
        * eapply T_stop with (m := mon_input p (ms c) (IUp 0 (UE e))) (j := j');
            [eapply T_dispose; [exact HC|exact Esk|exact Hex|reflexivity..]
            |reflexivity|exact Hlj|reflexivity..].
        * apply Sh_bcast; cbn; auto.
          -- eapply qstack_mono; [|exact HF]. exact Hmono.
          -- apply upd_same.
          -- intros t. ucase; auto.
        * eapply T_stop with (m := mon_input p (ms c) (IUp 0 UT)) (j := j');
            [eapply T_dispose; [exact HC|exact Esk|exact Hex|reflexivity..]
            |reflexivity|exact Hlj|reflexivity..].
        * apply Sh_bcast; cbn; auto.
          -- eapply qstack_mono; [|exact HF]. exact Hmono.
          -- apply upd_same.
          -- intros t. ucase; auto.
    - pose proof (@find_from_none _ _ _ Ef) as Hnone.
      destruct (step_in p c (IUp 0 u) Hlive Hdel Hh) as (Hc & Hs & Hm & Hd).
      assert (Hnl : forall k, us (ms c) k <> ULive).
      { intros k Hl. pose proof (c_live_tb HC _ Hl) as Ht.
        destruct (Nat.lt_ge_cases k n) as [Hk|Hk].
        - rewrite Hnone in Ht; [discriminate|lia|lia].
        - rewrite (c_us_big HC) in Hl by assumption. discriminate. }
      destruct Hq as [Hq1 Hq2].
      assert (Hq' : quiet_conds (endif u (cst c)) (mon_input p (ms c) (IUp 0 u))).
      { destruct u as [|e|]; (split; [|cbn; intros t; ucase; auto]); cbn; auto. }
      eapply fin_ret with (m1 := mon_input p (ms c) (IUp 0 u));
        [| exact Hc | exact Hs | exact Hm | exact Hd | | exact Hq'].
      + destruct u; exact Hv.
      + constructor.
        * intros H. destruct u; cbn in H; congruence.
        * destruct u as [|e|].
          -- eapply T_same; [exact HC | reflexivity..].
          -- eapply T_dispose; [exact HC|exact Esk|exact Hex|reflexivity..].
          -- eapply T_dispose; [exact HC|exact Esk|exact Hex|reflexivity..].
        * apply Sh_quiet; [|exact Hq']. eapply qstack_mono; [|exact HF].
          intros k Hk. destruct u; exact Hk.
  Qed.

  (** *** the sibling-stopping loop of a member Error, from any position *)
  Lemma errloop_step (c' : cfg o) s m1 i e j st' :
    viols m1 = [] -> subd m1 0 = true -> Core s m1 -> qstack m1 st' ->
    mg_ended s = true -> sk m1 0 = SLive -> us m1 i = UEnded -> i < n ->
    (forall k, k < j -> us m1 k <> ULive) ->
    (forall k, j <= k -> k < n -> k <> i -> mg_tbs s k = true -> us m1 k = ULive) ->
    existsb (Nat.eqb e) (errs_in m1) = true ->
    err_due m1 0 = Some e -> (forall t, t <> 0 -> err_due m1 t = None) ->
    forall s' os a, mg_errloop n i e j s = (s', os, a) ->
    cst c' = s' ->
    stack c' = match a with ACall cl k => (k, cl) :: st' | _ => st' end ->
    ms c' = ms_settle p o m1 os a ->
    dead c' = match a with APanic => true | _ => false end ->
    Inv c'.
  Proof.
    intros Hv Hsub HC HF Hend Hsk Hui Hin Hlow Hhigh Hex Hdue0 Hdue s' os a Heq.
    unfold mg_errloop in Heq.
    destruct (find_from (fun x => negb (Nat.eqb x i) && mg_tbs s x) j (n - j)) as [j'|] eqn:Ef;
      injection Heq as Es Eo Ea; subst s' os a; intros Hc Hs Hm Hd.
    - destruct (find_from_some _ _ _ Ef) as (Hj1 & Hj2 & Hok & Hlt).
      apply andb_prop in Hok. destruct Hok as [Hne Htb].
      apply negb_true_iff, Nat.eqb_neq in Hne.
      assert (Hjn : j' < n) by lia.
      pose proof (Hhigh _ Hj1 Hjn Hne Htb) as Hlj.
      eapply fin_call with (m1 := m1); [exact Hv|exact Hc|exact Hs|exact Hm|exact Hd| |].
      + cbn. rewrite Hlj. reflexivity.
      + constructor.
        * intros H. cbn in H. congruence.
        * apply (@T_stop s m1 _ j'); [exact HC|exact Hend|exact Hlj|reflexivity..].
        * apply Sh_err; cbn; auto.
          -- eapply qstack_mono; [|exact HF]. intros k Hk. cbn. ucase; congruence.
          -- apply upd_same.
          -- rewrite upd_other by auto. exact Hui.
          -- intros k Hk Hl. ucase; [discriminate|].
             destruct (Nat.lt_ge_cases k j) as [Hkj|Hkj]; [now apply (Hlow k)|].
             assert (Hf : negb (Nat.eqb k i) && mg_tbs s k = false) by (apply Hlt; lia).
             rewrite (c_live_tb HC _ Hl), andb_true_r in Hf.
             apply negb_false_iff, Nat.eqb_eq in Hf. subst. congruence.
          -- intros k Hk1 Hk2 Hk3 Hk4. rewrite upd_other in Hk4 |- * by lia.
             apply Hhigh; auto; lia.
    - pose proof (@find_from_none _ _ _ Ef) as Hnone.
      eapply fin_call with (m1 := m1); [exact Hv|exact Hc|exact Hs|exact Hm|exact Hd| |].
      + cbn. rewrite Hsk, Hnonest, Hex. reflexivity.
      + assert (Em : mon_call_upd m1 (CDn 0 (DE e)) =
                     set_err_due (set_sk m1 0 SFinished) (upd (err_due m1) 0 None)).
        { cbn. rewrite Hsk, Hdue0, Nat.eqb_refl. reflexivity. }
        rewrite Em. constructor.
        * intros H. cbn in H. congruence.
        * eapply T_finish with (m := m1); [exact HC|exact Hend|congruence|reflexivity..].
        * apply Sh_inert; [apply (@qstack_same m1); [reflexivity|exact HF]| |reflexivity].
          split; cbn.
          -- intros _. split; [reflexivity|]. intros k Hl.
             destruct (Nat.lt_ge_cases k j) as [Hkj|Hkj]; [now apply (Hlow k)|].
             destruct (Nat.lt_ge_cases k n) as [Hkn|Hkn].
             ++ assert (Hf : negb (Nat.eqb k i) && mg_tbs s k = false) by (apply Hnone; lia).
                rewrite (c_live_tb HC _ Hl), andb_true_r in Hf.
                apply negb_false_iff, Nat.eqb_eq in Hf. subst. congruence.
             ++ rewrite (c_us_big HC) in Hl by assumption. discriminate.
          -- intros t. ucase; auto.
  Qed.

  Lemma h_dn_lt i d s (Hin : i < n) :
    mg_handle n (IDn i d) s =
    match d with
    | DH =>
        if mg_ended s then (s, [], ACall (CUp i UT) MgDone)
        else if Nat.eqb (S (mg_start s)) 1 then (greet s i, [], ACall (CDn 0 DH) MgDone)
             else (greet s i, [], ARet)
    | DD v => (s, [], ACall (CDn 0 (DD v)) MgDone)
    | DE e => mg_errloop n i e 0 (set_ended s)
    | DT => if Nat.eqb (S (mg_end s)) n then (term s i, [], ACall (CDn 0 DT) MgDone)
            else (term s i, [], ARet)
    end.
  Proof.
    apply Nat.ltb_lt in Hin. unfold mg_handle. rewrite Hin. destruct d; reflexivity.
  Qed.

  Lemma inv_dn c i d : Inv c -> enabled p gm c (MIn (IDn i d)) = true ->
                       Inv (step p c (MIn (IDn i d))).
  Proof.
    intros [Hv Hdd HP] He. start_in He Hlive Hdel Hg.
    cbn in He. apply andb_prop in He. destruct He as [Htop He].
    pose proof (i_core HP) as HC.
    change (tpeer (stack c) (PUp i) = true) in Htop.
    assert (Hi : us (ms c) i = USubd \/ us (ms c) i = ULive).
    { destruct d; [apply andb_prop in He; destruct He as [He _]|
                   apply andb_prop in He; destruct He as [He _]..];
        destruct (us (ms c) i); try discriminate; auto. }
    destruct (@shape_up _ _ _ i (i_shape HP) Htop Hi) as [HF Hq].
    assert (Hin : i < n).
    { destruct (Nat.lt_ge_cases i n); [assumption|].
      rewrite (c_us_big HC) in Hi by assumption. destruct Hi; discriminate. }
    assert (Hsub : subd (ms c) 0 = true).
    { apply (subd_true HP). right. right. exists i. destruct Hi; congruence. }
    pose proof (h_dn_lt d (cst c) Hin) as Hh.
    destruct Hq as [Hq1 Hq2].
    destruct d as [|v|e|].
    - (* Handshake *)
      apply andb_prop in He. destruct He as [He _].
      assert (Hui : us (ms c) i = USubd) by (destruct (us (ms c) i); try discriminate; auto).
      clear He Hi.
      assert (Hmono : forall X k, us (ms c) k = UNone -> upd (us (ms c)) i X k = UNone).
      { intros X k Hk. ucase; congruence. }
      destruct (mg_ended (cst c)) eqn:Hend.
      + (* late greeter, output over *)
        destruct (step_in p c (IDn i DH) Hlive Hdel Hh) as (Hc & Hs & Hm & Hd).
        eapply fin_call with (m1 := mon_input p (ms c) (IDn i DH));
          [exact Hv|exact Hc|exact Hs|exact Hm|exact Hd| |].
        * cbn. rewrite upd_same. reflexivity.
        * destruct (Hq1 eq_refl) as [Hov Hnl].
          constructor.
          -- intros H. cbn in H. congruence.
          -- eapply T_late with (m := ms c) (i := i); [exact HC|exact Hend|exact Hui|reflexivity..].
          -- apply Sh_inert; cbn.
             ++ eapply qstack_mono; [|exact HF]. intros k Hk. cbn. ucase; congruence.
             ++ split; cbn; [|exact Hq2]. intros _. split; [exact Hov|].
                intros k. ucase; [discriminate|apply Hnl].
             ++ apply upd_same.
      + destruct (Nat.eqb (S (mg_start (cst c))) 1) eqn:Hfirst.
        * (* first greeting: greet the sink *)
          apply Nat.eqb_eq in Hfirst.
          assert (Hst0 : mg_start (cst c) = 0) by lia.
          pose proof (proj2 (c_start HC) Hst0) as Hsk0.
          destruct (step_in p c (IDn i DH) Hlive Hdel Hh) as (Hc & Hs & Hm & Hd).
          eapply fin_call with (m1 := mon_input p (ms c) (IDn i DH));
            [exact Hv|exact Hc|exact Hs|exact Hm|exact Hd| |].
          -- cbn. rewrite Hsk0. reflexivity.
          -- assert (Em : mon_call_upd (mon_input p (ms c) (IDn i DH)) (CDn 0 DH) =
                          set_credit (set_sk (mon_input p (ms c) (IDn i DH)) 0 SLive) 0
                                     (S (credit (ms c) 0))).
             { cbn. rewrite Hsk0. reflexivity. }
             rewrite Em. constructor.
             ++ intros H. cbn in H. congruence.
             ++ eapply T_greet with (m := ms c);
                  [exact HC|exact Hend|exact Hui|exact Hin|reflexivity|reflexivity|].
                right. split; [exact Hst0|reflexivity].
             ++ apply Sh_quiet.
                ** left. split; [exact I|]. eapply qstack_mono; [|exact HF]. apply Hmono.
                ** split; cbn; [congruence|exact Hq2].
        * (* a further greeting *)
          apply Nat.eqb_neq in Hfirst.
          assert (Hst0 : mg_start (cst c) <> 0) by lia.
          destruct (step_in p c (IDn i DH) Hlive Hdel Hh) as (Hc & Hs & Hm & Hd).
          assert (Hq' : quiet_conds (greet (cst c) i) (mon_input p (ms c) (IDn i DH))).
          { split; cbn; [congruence|exact Hq2]. }
          eapply fin_ret with (m1 := mon_input p (ms c) (IDn i DH));
            [exact Hv|exact Hc|exact Hs|exact Hm|exact Hd| |exact Hq'].
          constructor.
          -- intros H. cbn in H. congruence.
          -- eapply T_greet with (m := ms c);
               [exact HC|exact Hend|exact Hui|exact Hin|reflexivity|reflexivity|].
             left. split; [exact Hst0|reflexivity].
          -- apply Sh_quiet; [|exact Hq']. eapply qstack_mono; [|exact HF]. apply Hmono.
    - (* Data *)
      apply andb_prop in He. destruct He as [He _].
      assert (Hui : us (ms c) i = ULive) by (destruct (us (ms c) i); try discriminate; auto).
      destruct (@live_facts _ _ i HC (conj Hq1 Hq2) Hui) as (Hend & _ & Hsk & Htb).
      destruct (step_in p c (IDn i (DD v)) Hlive Hdel Hh) as (Hc & Hs & Hm & Hd).
      eapply fin_call with (m1 := mon_input p (ms c) (IDn i (DD v)));
        [exact Hv|exact Hc|exact Hs|exact Hm|exact Hd| |].
      + cbn. rewrite Hsk, Hnonest, Hc14. reflexivity.
      + constructor.
        * intros H. cbn in H. congruence.
        * eapply T_same; [exact HC|reflexivity..].
        * apply Sh_quiet; [left; split; [exact I|apply (@qstack_same (ms c)); [reflexivity|exact HF]] | split; [exact Hq1|exact Hq2]].
    - (* Error *)
      apply andb_prop in He. destruct He as [He _].
      assert (Hui : us (ms c) i = ULive) by (destruct (us (ms c) i); try discriminate; auto).
      destruct (@live_facts _ _ i HC (conj Hq1 Hq2) Hui) as (Hend & _ & Hsk & Htb).
      destruct (mg_errloop n i e 0 (set_ended (cst c))) as [[s' os] a] eqn:Hloop.
      destruct (step_in p c (IDn i (DE e)) Hlive Hdel Hh) as (Hc & Hs & Hm & Hd).
      eapply errloop_step with (m1 := mon_input p (ms c) (IDn i (DE e)))
                               (s := set_ended (cst c)) (i := i) (e := e) (j := 0)
                               (st' := stack c);
        [exact Hv|exact Hsub| | |reflexivity|exact Hsk| |exact Hin| | | | |
         |exact Hloop|exact Hc|exact Hs|exact Hm|exact Hd].
      + eapply T_fail with (m := ms c) (i := i); [exact HC|exact Hui|exact Hsk|reflexivity..].
      + eapply qstack_mono; [|exact HF]. intros k Hk. cbn. ucase; congruence.
      + cbn. apply upd_same.
      + intros k Hk. lia.
      + intros k _ Hk Hne Ht. cbn. rewrite upd_other by assumption.
        now apply (c_tb_live HC Hend).
      + cbn. now rewrite Nat.eqb_refl.
      + cbn. unfold due_on_error. now rewrite Hns, Hsk.
      + intros t Ht. cbn. unfold due_on_error. rewrite Hns.
        destruct t as [|t]; [contradiction|]. cbn. apply Hq2.
    - (* Terminate *)
      apply andb_prop in He. destruct He as [He _].
      assert (Hui : us (ms c) i = ULive) by (destruct (us (ms c) i); try discriminate; auto).
      destruct (@live_facts _ _ i HC (conj Hq1 Hq2) Hui) as (Hend & _ & Hsk & Htb).
      assert (Hmono : forall k, us (ms c) k = UNone -> upd (us (ms c)) i UEnded k = UNone).
      { intros k Hk. ucase; congruence. }
      destruct (Nat.eqb (S (mg_end (cst c))) n) eqn:Hlast.
      + apply Nat.eqb_eq in Hlast.
        destruct (step_in p c (IDn i DT) Hlive Hdel Hh) as (Hc & Hs & Hm & Hd).
        eapply fin_call with (m1 := mon_input p (ms c) (IDn i DT));
          [exact Hv|exact Hc|exact Hs|exact Hm|exact Hd| |].
        * cbn. rewrite Hsk, Hnonest, Hq2. reflexivity.
        * assert (Em : mon_call_upd (mon_input p (ms c) (IDn i DT)) (CDn 0 DT) =
                       set_sk (mon_input p (ms c) (IDn i DT)) 0 SFinished).
          { cbn. rewrite Hsk. reflexivity. }
          rewrite Em. constructor.
          -- intros H. cbn in H. congruence.
          -- eapply T_term with (m := ms c);
               [exact HC|exact Hui|exact Hin|exact Hsk|exact Hend|reflexivity|reflexivity|].
             right. split; [exact Hlast|reflexivity].
          -- apply Sh_inert; [|split; cbn; [congruence|exact Hq2]|reflexivity].
             eapply qstack_mono; [|exact HF]. exact Hmono.
      + apply Nat.eqb_neq in Hlast.
        destruct (step_in p c (IDn i DT) Hlive Hdel Hh) as (Hc & Hs & Hm & Hd).
        assert (Hq' : quiet_conds (term (cst c) i) (mon_input p (ms c) (IDn i DT))).
        { split; cbn; [congruence|exact Hq2]. }
        eapply fin_ret with (m1 := mon_input p (ms c) (IDn i DT));
          [exact Hv|exact Hc|exact Hs|exact Hm|exact Hd| |exact Hq'].
        constructor.
        * intros H. cbn in H. congruence.
        * eapply T_term with (m := ms c);
            [exact HC|exact Hui|exact Hin|exact Hsk|exact Hend|reflexivity|reflexivity|].
          left. split; [exact Hlast|reflexivity].
        * apply Sh_quiet; [|exact Hq']. eapply qstack_mono; [|exact HF]. exact Hmono.
  Qed.

  Lemma all_ended' s m : Core s m -> mg_end s = n -> forall k, k < n -> us m k = UEnded.
  Proof.
    intros HC E k Hk. rewrite (c_count HC) in E. pose proof (count_full _ E Hk) as Hd.
    unfold done in Hd. destruct (us m k); try discriminate; reflexivity.
  Qed.

  (** *** Returns *)
  Lemma ret_aret c k cl rest :
    Inv c -> stack c = (k, cl) :: rest -> resume o k (cst c) = (cst c, [], ARet) ->
    qstack (ms c) rest -> quiet_conds (cst c) (ms c) -> Inv (step p c MRet).
  Proof.
    intros [Hv Hlive HP] Hst Hr HF Hq.
    assert (Hsub : subd (ms c) 0 = true).
    { apply (subd_true HP). right. left. rewrite Hst. discriminate. }
    destruct (step_ret p c Hlive Hst Hr) as (Hc & Hs & Hm & Hd).
    eapply fin_ret with (m1 := mon_event p (ms c) ERet);
      [exact Hv|exact Hc|exact Hs|exact Hm|exact Hd| |exact Hq].
    constructor.
    - intros H. cbn in H. congruence.
    - eapply T_same; [exact (i_core HP)|reflexivity..].
    - apply Sh_quiet; [apply (@qstack_same (ms c)); [reflexivity|exact HF]|exact Hq].
  Qed.

  Lemma ret_pull c j0 j1 rest :
    Inv c -> stack c = (MgBcast UP j0, CUp j1 UP) :: rest ->
    qstack (ms c) rest -> quiet_conds (cst c) (ms c) -> Inv (step p c MRet).
  Proof.
    intros HI Hst HF Hq. pose proof HI as [Hv Hlive HP]. pose proof (i_core HP) as HC.
    assert (Hsub : subd (ms c) 0 = true).
    { apply (subd_true HP). right. left. rewrite Hst. discriminate. }
    assert (Hr : resume o (MgBcast UP j0) (cst c) =
                 if mg_ended (cst c) then (cst c, [], ARet) else
                 match find_from (mg_tbs (cst c)) j0 (n - j0) with
                 | Some j' => (cst c, [], ACall (CUp j' UP) (MgBcast UP (S j')))
                 | None => (cst c, [], ARet)
                 end) by reflexivity.
    destruct (mg_ended (cst c)) eqn:Hend;
      [|destruct (find_from (mg_tbs (cst c)) j0 (n - j0)) as [j'|] eqn:Ef].
    - eapply ret_aret; eauto.
    - destruct (find_from_some _ _ _ Ef) as (Hj1 & Hj2 & Htb & Hlt).
      assert (Hjn : j' < n) by lia.
      pose proof (c_tb_live HC Hend Hjn Htb) as Hlj.
      destruct (step_ret p c Hlive Hst Hr) as (Hc & Hs & Hm & Hd).
      eapply fin_call with (m1 := mon_event p (ms c) ERet);
        [exact Hv|exact Hc|exact Hs|exact Hm|exact Hd| |].
      + cbn. rewrite Hlj, Hc14. reflexivity.
      + constructor.
        * intros H. cbn in H. congruence.
        * eapply T_same; [exact HC|reflexivity..].
        * apply Sh_quiet; [|exact Hq]. left. split; [exact I|].
          apply (@qstack_same (ms c)); [reflexivity|exact HF].
    - eapply ret_aret; eauto.
  Qed.

  Lemma ret_sub c i0 i rest :
    Inv c -> stack c = (MgSubLoop i0, CSub i) :: rest ->
    qsub (ms c) (MgSubLoop i0, CSub i) -> rest = [] ->
    quiet_conds (cst c) (ms c) -> Inv (step p c MRet).
  Proof.
    intros HI Hst [-> Hnone] -> Hq. pose proof HI as [Hv Hlive HP]. pose proof (i_core HP) as HC.
    assert (Hsub : subd (ms c) 0 = true).
    { apply (subd_true HP). right. left. rewrite Hst. discriminate. }
    assert (Hr : resume o (MgSubLoop (S i)) (cst c) = mg_subloop n (S i) (cst c)) by reflexivity.
    unfold mg_subloop in Hr.
    destruct (Nat.ltb_spec (S i) n) as [Hlt|Hge]; [destruct (mg_ended (cst c)) eqn:Hend|].
    - eapply ret_aret; eauto. exact I.
    - assert (Hno : sk_over (sk (ms c) 0) = false).
      { destruct (sk_over (sk (ms c) 0)) eqn:E; [|reflexivity].
        destruct (c_over HC E) as [H|H]; [congruence|].
        pose proof (all_ended' HC H Hlt) as H1. rewrite Hnone in H1 by lia. discriminate. }
      destruct (step_ret p c Hlive Hst Hr) as (Hc & Hs & Hm & Hd).
      destruct Hq as [Hq1 Hq2].
      eapply fin_call with (m1 := mon_event p (ms c) ERet);
        [exact Hv|exact Hc|exact Hs|exact Hm|exact Hd| |].
      + cbn. rewrite Hnone by lia. rewrite Hresub, Hno. reflexivity.
      + constructor.
        * intros H. cbn in H. congruence.
        * eapply T_subscribe with (m := ms c) (i := S i);
            [exact HC|exact Hend|apply Hnone; lia|exact Hlt|reflexivity..].
        * apply Sh_quiet.
          -- right. split; [|reflexivity]. cbn. split; [reflexivity|].
             intros k Hk. rewrite upd_other by lia. apply Hnone. lia.
          -- split; cbn; [congruence|exact Hq2].
    - eapply ret_aret; eauto. exact I.
  Qed.

  Lemma ret_bcast c u j rest :
    Inv c -> stack c = (MgBcast u (S j), CUp j u) :: rest ->
    qstack (ms c) rest -> umsg_is_term u = true -> j < n ->
    mg_ended (cst c) = true -> sk (ms c) 0 = SDisposed -> us (ms c) j = UStopped ->
    (forall k, k < S j -> us (ms c) k <> ULive) ->
    (forall k, S j <= k -> k < n -> mg_tbs (cst c) k = true -> us (ms c) k = ULive) ->
    (forall t, err_due (ms c) t = None) ->
    Inv (step p c MRet).
  Proof.
    intros HI Hst HF Hu Hj Hend Hsk Huj Hlow Hhigh Hdue.
    pose proof HI as [Hv Hlive HP]. pose proof (i_core HP) as HC.
    assert (Hsub : subd (ms c) 0 = true).
    { apply (subd_true HP). right. left. rewrite Hst. discriminate. }
    assert (Hr : resume o (MgBcast u (S j)) (cst c) =
                 match find_from (mg_tbs (cst c)) (S j) (n - S j) with
                 | Some j' => (clr (cst c) j', [], ACall (CUp j' u) (MgBcast u (S j')))
                 | None => (cst c, [], ARet)
                 end).
    { cbn. unfold mg_bcast. rewrite Hu. reflexivity. }
    destruct (find_from (mg_tbs (cst c)) (S j) (n - S j)) as [j'|] eqn:Ef.
    - destruct (find_from_some _ _ _ Ef) as (Hj1 & Hj2 & Htb & Hlt).
      assert (Hjn : j' < n) by lia.
      pose proof (Hhigh _ Hj1 Hjn Htb) as Hlj.
      destruct (step_ret p c Hlive Hst Hr) as (Hc & Hs & Hm & Hd).
      assert (Hlow' : forall k, k < S j' -> upd (us (ms c)) j' UStopped k <> ULive).
      { intros k Hk Hl. ucase; [discriminate|].
        destruct (Nat.lt_ge_cases k (S j)) as [Hkj|Hkj]; [now apply (Hlow k)|].
        pose proof (c_live_tb HC _ Hl) as Ht. rewrite Hlt in Ht; [discriminate|lia|lia]. }
      assert (Hhigh' : forall k, S j' <= k -> k < n -> upd (mg_tbs (cst c)) j' false k = true ->
                                 upd (us (ms c)) j' UStopped k = ULive).
      { intros k Hk1 Hk2 Hk3. rewrite upd_other in Hk3 |- * by lia. apply Hhigh; auto; lia. }
      assert (Hmono : forall k, us (ms c) k = UNone -> upd (us (ms c)) j' UStopped k = UNone).
      { intros k Hk. ucase; congruence. }
      eapply fin_call with (m1 := mon_event p (ms c) ERet);
        [exact Hv|exact Hc|exact Hs|exact Hm|exact Hd| |].
      + destruct u; try discriminate; cbn; rewrite Hlj; reflexivity.
      + destruct u as [|e|]; try discriminate.
        * constructor.
          -- intros H. cbn in H. congruence.
          -- eapply T_stop with (m := ms c) (j := j');
               [exact HC|exact Hend|exact Hlj|reflexivity..].
          -- apply Sh_bcast; cbn; auto.
             ++ eapply qstack_mono; [|exact HF]. exact Hmono.
             ++ apply upd_same.
        * constructor.
          -- intros H. cbn in H. congruence.
          -- eapply T_stop with (m := ms c) (j := j');
               [exact HC|exact Hend|exact Hlj|reflexivity..].
          -- apply Sh_bcast; cbn; auto.
             ++ eapply qstack_mono; [|exact HF]. exact Hmono.
             ++ apply upd_same.
    - pose proof (@find_from_none _ _ _ Ef) as Hnone.
      eapply ret_aret; eauto.
      split; [|exact Hdue]. intros _. rewrite Hsk. split; [reflexivity|].
      intros k Hl.
      destruct (Nat.lt_ge_cases k (S j)) as [Hkj|Hkj]; [now apply (Hlow k)|].
      destruct (Nat.lt_ge_cases k n) as [Hkn|Hkn].
      + pose proof (c_live_tb HC _ Hl) as Ht. rewrite Hnone in Ht; [discriminate|lia|lia].
      + rewrite (c_us_big HC) in Hl by assumption. discriminate.
  Qed.

  Lemma inv_ret c : Inv c -> enabled p gm c MRet = true -> Inv (step p c MRet).
  Proof.
    intros HI He. pose proof HI as [Hv Hdd HP].
    pose proof (enabled_live _ _ _ _ He) as Hlive.
    destruct (enabled_ret_stack _ _ _ He) as (k & cl & rest & Hst).
    pose proof (i_core HP) as HC.
    assert (Hsub : subd (ms c) 0 = true).
    { apply (subd_true HP). right. left. rewrite Hst. discriminate. }
    pose proof (i_shape HP) as Hsh. rewrite Hst in Hsh.
    remember ((k, cl) :: rest) as st eqn:Est.
    destruct Hsh as [st HF Hq|cl0 rest0 HF Hq Hin
                    |u j rest0 HF Hu Hj Hend Hsk Huj Hlow Hhigh Hdue
                    |i e j rest0 HF Hj Hi Hend Hsk Huj Hui Hlow Hhigh Hex Hdue0 Hdue].
    - subst st. cbn in HF. destruct HF as [[Hqf HF]|[Hqs Hrest]].
      + destruct k as [|i1|u j|i2 e j]; cbn in Hqf; try contradiction.
        * eapply ret_aret; eauto.
        * destruct u; try contradiction.
          destruct cl as [i|i u1|t d]; try contradiction.
          destruct u1; try contradiction. eapply ret_pull; eauto.
      + destruct k as [|i1|u j|i2 e j]; cbn in Hqs; try contradiction.
        destruct cl as [i|i u1|t d]; try contradiction.
        eapply ret_sub; eauto.
    - injection Est as <- <- <-. eapply ret_aret; eauto.
    - injection Est as <- <- <-. eapply ret_bcast; eauto.
    - injection Est as <- <- <-.
      destruct (mg_errloop n i e (S j) (cst c)) as [[s' os] a] eqn:Hloop.
      destruct (step_ret p c Hlive Hst Hloop) as (Hc & Hs & Hm & Hd).
      eapply errloop_step with (m1 := mon_event p (ms c) ERet) (s := cst c) (i := i) (e := e)
                               (j := S j) (st' := rest0);
        [exact Hv|exact Hsub| | |exact Hend|exact Hsk|exact Hui|exact Hi|exact Hlow|exact Hhigh
         |exact Hex|exact Hdue0|exact Hdue|exact Hloop|exact Hc|exact Hs|exact Hm|exact Hd].
      + eapply T_same; [exact HC|reflexivity..].
      + apply (@qstack_same (ms c)); [reflexivity|exact HF].
  Qed.

  Lemma inv_step c m : Inv c -> enabled p gm c m = true -> Inv (step p c m).
  Proof.
    intros HI He. destruct m as [[s aux|s u|i d|s]|].
    - now apply inv_sub.
    - now apply inv_up.
    - now apply inv_dn.
    - exfalso. destruct HI as [_ _ HP]. unfold enabled in He.
      repeat (apply andb_prop in He; destruct He as [? He]).
      cbn in He. now rewrite (c_task (i_core HP)) in He.
    - now apply inv_ret.
  Qed.

  Theorem inv_reach c : reach p gm c -> Inv c.
  Proof. induction 1; [apply inv0 | now apply inv_step]. Qed.

  (** *** C08 *)
  Theorem order (c : cfg o) : reach p gm c -> data_out 0 (trace c) = all_in (trace c).
  Proof.
    induction 1 as [|c m Hr IH He]; [reflexivity|].
    pose proof (inv_reach Hr) as HI.
    pose proof (enabled_live _ _ _ _ He) as Hlive.
    destruct m as [inp|].
    - pose proof (enabled_deliverable _ _ _ _ He) as Hdel.
      destruct (handle o inp (cst c)) as [[s' os] a] eqn:Hh.
      rewrite (step_in_trace p c inp Hlive Hdel Hh), data_out_app, all_in_app, IH.
      f_equal. destruct (mg_handle_out _ _ _ Hh) as [-> Hout]. cbn [map app].
      change (data_out 0 [act_event (merge_op n) a] = all_in [EIn inp; act_event (merge_op n) a]).
      rewrite Hout.
      destruct inp as [t aux|t u|i [|v|e|]|t]; try (symmetry; apply (all_in_act (merge_op n))).
      (* a datum: the member is live, hence one of the n *)
      change (all_in [EIn (IDn i (DD v)); act_event (merge_op n) a]) with (v :: all_in [act_event (merge_op n) a]).
      rewrite (all_in_act (merge_op n)).
      destruct HI as [_ _ HP]. pose proof (i_core HP) as HC.
      start_in He Hlive' Hdel' Hg. cbn in He.
      apply andb_prop in He. destruct He as [_ He].
      apply andb_prop in He. destruct He as [He _].
      destruct (Nat.ltb_spec i n) as [Hlt|Hge]; [reflexivity|].
      rewrite (c_us_big HC) in He by assumption. discriminate.
    - destruct (enabled_ret_stack _ _ _ He) as (k & cl & rest & Hst).
      destruct (resume o k (cst c)) as [[s' os] a] eqn:Hres.
      rewrite (step_ret_trace p c Hlive Hst Hres), data_out_app, all_in_app, IH.
      f_equal. destruct (mg_resume_out _ _ _ Hres) as [-> Hout]. cbn [map app].
      change (data_out 0 [act_event (merge_op n) a] = all_in [act_event (merge_op n) a]).
      rewrite Hout. symmetry. apply (all_in_act (merge_op n)).
  Qed.

  Theorem greets (c : cfg o) :
    reach p gm c ->
    (exists i, i < n /\ us (ms c) i <> UNone /\ us (ms c) i <> USubd) ->
    sk (ms c) 0 <> SNone.
  Proof.
    intros Hr (i & _ & H1 & H2) Hsk. pose proof (i_core (i_P (inv_reach Hr))) as HC.
    apply (c_greeted HC i H1 H2). now apply (c_start HC).
  Qed.

  Theorem completes_live (c : cfg o) :
    reach p gm c -> sk (ms c) 0 = SLive -> exists i, i < n /\ us (ms c) i <> UEnded.
  Proof.
    intros Hr Hsk. destruct (inv_reach Hr) as [_ _ HP]. pose proof (i_core HP) as HC.
    destruct (i_shape HP) as [st HF Hq|cl rest HF Hq Hin
                             |u j rest HF Hu Hj Hend Hsk' Huj Hlow Hhigh Hdue
                             |i e j rest HF Hj Hi Hend Hsk' Huj Hui Hlow Hhigh Hex Hdue0 Hdue].
    - apply (live_has_member HC); [exact (sink_live_facts HC Hq Hsk)|exact Hsk].
    - apply (live_has_member HC); [exact (sink_live_facts HC Hq Hsk)|exact Hsk].
    - congruence.
    - exists j. split; [exact Hj|congruence].
  Qed.

  Theorem completes_fin (c : cfg o) :
    reach p gm c -> (forall i, i < n -> us (ms c) i = UEnded) -> sk (ms c) 0 = SFinished.
  Proof.
    intros Hr Hall. pose proof (i_core (i_P (inv_reach Hr))) as HC.
    destruct (sk (ms c) 0) eqn:E; [exfalso..|reflexivity].
    - apply (c_greeted HC 0); [rewrite Hall by lia; discriminate..|]. now apply (c_start HC).
    - destruct (completes_live Hr E) as (i & Hi & Hne). now apply Hne, Hall.
    - destruct (c_disp HC E) as (i & Hi & Hne). now apply Hne, Hall.
  Qed.

End MergeInv.

(** ** Exported theorems: every member count n >= 1, members may greet late *)

(** no protocol violation and no panic in any reachable configuration *)
Theorem merge_safe p :
  nsinks p = 1 -> resub p = false -> no_nest p = false -> c14 p = false -> late_ok p = true ->
  forall n, 1 <= n ->
  forall c : cfg (merge_op n), reach p g_std c -> viols (ms c) = [] /\ dead c = false.
Proof.
  intros H1 H2 H3 H4 H5 n Hn c Hr.
  edestruct (@inv_reach n) as [Hv Hd _]; try eassumption. split; assumption.
Qed.
Print Assumptions merge_safe.

(** C08: what the sink received is what the members sent, in arrival order *)
Theorem merge_order p :
  nsinks p = 1 -> resub p = false -> no_nest p = false -> c14 p = false -> late_ok p = true ->
  forall n, 1 <= n ->
  forall c : cfg (merge_op n), reach p g_std c -> data_out 0 (trace c) = all_in (trace c).
Proof. intros H1 H2 H3 H4 H5 n Hn c Hr. eapply order; eassumption. Qed.
Print Assumptions merge_order.

(** C08: the sink is greeted as soon as the first member has greeted *)
Theorem merge_greets p :
  nsinks p = 1 -> resub p = false -> no_nest p = false -> c14 p = false -> late_ok p = true ->
  forall n, 1 <= n ->
  forall c : cfg (merge_op n), reach p g_std c ->
  (exists i, i < n /\ us (ms c) i <> UNone /\ us (ms c) i <> USubd) -> sk (ms c) 0 <> SNone.
Proof. intros H1 H2 H3 H4 H5 n Hn c Hr. eapply greets; eassumption. Qed.
Print Assumptions merge_greets.

(** C08: the output stays live only while some member has not ended, and once all
    members have ended (by Terminate or Error) the sink has been told so *)
Theorem merge_completes p :
  nsinks p = 1 -> resub p = false -> no_nest p = false -> c14 p = false -> late_ok p = true ->
  forall n, 1 <= n ->
  forall c : cfg (merge_op n), reach p g_std c ->
  (sk (ms c) 0 = SLive -> exists i, i < n /\ us (ms c) i <> UEnded) /\
  ((forall i, i < n -> us (ms c) i = UEnded) -> sk (ms c) 0 = SFinished).
Proof.
  intros H1 H2 H3 H4 H5 n Hn c Hr. split.
  - eapply completes_live; eassumption.
  - eapply completes_fin; eassumption.
Qed.
Print Assumptions merge_completes.

(** ** Sanity: the theorems are not vacuous.  Two nested scripts for n = 2 are enabled
    move by move (so they lie inside [reach]): a late greeter after the sink disposed
    inside a data delivery inside a Pull inside its greeting inside the subscription
    loop; and a member answering a Pull with an Error inside the broadcast loop. *)
Definition p_merge : mparams :=
  {| nsinks := 1; late_ok := true; pullable := false; one_pull := false;
     resub := false; no_nest := false; c14 := false |}.

Definition script_late : list move :=
  [MIn (ISub 0 0); MRet; MIn (IDn 1 DH); MIn (IUp 0 UP); MIn (IDn 1 (DD (VN 7)));
   MIn (IUp 0 UT); MRet; MRet; MRet; MRet; MRet; MIn (IDn 0 DH); MRet].

Definition script_err : list move :=
  [MIn (ISub 0 0); MIn (IDn 0 DH); MRet; MRet; MIn (IDn 1 DH); MRet;
   MIn (IUp 0 UP); MIn (IDn 0 (DE 100)); MRet; MRet; MRet].

Example script_late_enabled :
  all_enabled p_merge g_std (cfg0 (merge_op 2)) script_late = true.
Proof. vm_compute. reflexivity. Qed.

Example script_err_enabled :
  all_enabled p_merge g_std (cfg0 (merge_op 2)) script_err = true.
Proof. vm_compute. reflexivity. Qed.

Example script_late_end :
  let c := run p_merge (merge_op 2) script_late in
  (viols (ms c), sk (ms c) 0, us (ms c) 0, us (ms c) 1, stack c) =
  ([], SDisposed, UStopped, UStopped, []).
Proof. vm_compute. reflexivity. Qed.

Example script_err_end :
  let c := run p_merge (merge_op 2) script_err in
  (viols (ms c), sk (ms c) 0, us (ms c) 0, us (ms c) 1, stack c) =
  ([], SFinished, UEnded, UStopped, []).
Proof. vm_compute. reflexivity. Qed.
