(** * ThreadSpec: what C18 and C19 require of a thread trace, as boolean monitors
      (run over the traces of the model and of the real crate under the
      deterministic scheduler) *)

From CB Require Export Threads.

Set Implicit Arguments.

Inductive tviol : Type :=
| TvOverDeliver          (* C19: more than max data *)
| TvUpTwice              (* C19: upstream terminated twice *)
| TvSinkTermTwice        (* C18/C19: more than one terminal message at the sink *)
| TvNotCompleted         (* C19: n deliveries returned but no (single) completion *)
| TvGreetCount           (* C18: the sink was not greeted exactly once *)
| TvBeforeGreet          (* C18: a delivery before the greeting began *)
| TvDataLost             (* C18: a datum of a member that ran to its end was not delivered exactly once *)
| TvDataForged           (* C18: a datum nobody sent / a tuple component that member never sent *)
| TvOrder                (* C18: a member's own order was not preserved *)
| TvIncompleteTuple      (* C18: combine emitted a tuple of the wrong shape *)
| TvTermDuringData       (* C18: completion began while a data delivery was still in progress *)
| TvNoTerminal           (* C18: every member ended but the sink saw no terminal message *)
| TvAfterTerminal        (* C18: a delivery began after the terminal message began *)
| TvPanic                (* C17/C18 *)
| TvDisposedTwice.       (* C18 (talkback cells as scheduling points): a member was told to stop twice *)

Definition is_begin_data (e : tevent) : bool :=
  match snd e with TBegin (DD _) => true | _ => false end.
Definition is_begin_term (e : tevent) : bool :=
  match snd e with TBegin DT | TBegin (DE _) => true | _ => false end.
Definition is_begin_greet (e : tevent) : bool :=
  match snd e with TBegin DH => true | _ => false end.
Definition is_up_term (e : tevent) : bool :=
  match snd e with TUp _ UT | TUp _ (UE _) => true | _ => false end.
Definition is_panic (e : tevent) : bool := match snd e with TPanic => true | _ => false end.

Definition count {A} (f : A -> bool) (l : list A) : nat := length (filter f l).

Definition flagt (b : bool) (v : tviol) : list tviol := if b then [] else [v].

(** data payloads delivered by thread t, in order *)
Definition delivered_by (t : nat) (tr : list tevent) : list val :=
  flat_map (fun e => match e with
                     | (t', TBegin (DD v)) => if Nat.eqb t t' then [v] else []
                     | _ => [] end) tr.

Fixpoint list_val_eqb (a b : list val) : bool :=
  match a, b with
  | [], [] => true
  | x :: a', y :: b' => val_eqb x y && list_val_eqb a' b'
  | _, _ => false
  end.

Fixpoint is_prefix (a b : list val) : bool :=
  match a, b with
  | [], _ => true
  | x :: a', y :: b' => val_eqb x y && is_prefix a' b'
  | _, _ => false
  end.

(** scan: number of data deliveries in progress when a terminal begins; deliveries after it *)
Fixpoint scan_term (open : nat -> bool) (seen_term : bool) (tr : list tevent) : list tviol :=
  match tr with
  | [] => []
  | (t, TBegin (DD _)) :: tr' =>
      (if seen_term then [TvAfterTerminal] else []) ++ scan_term (upd open t true) seen_term tr'
  | (t, TBegin DT) :: tr' =>
      (* completion: no data delivery may be in progress on any thread *)
      (if existsb open (seq 0 8) then [TvTermDuringData] else []) ++ scan_term open true tr'
  | (t, TBegin (DE _)) :: tr' => scan_term open true tr'
  | (t, TEnd) :: tr' => scan_term (upd open t false) seen_term tr'
  | _ :: tr' => scan_term open seen_term tr'
  end.

(** before the greeting nothing is delivered *)
Fixpoint before_greet_ok (tr : list tevent) : bool :=
  match tr with
  | [] => true
  | (_, TBegin DH) :: _ => true
  | (_, TBegin _) :: _ => false
  | _ :: tr' => before_greet_ok tr'
  end.

(** *** C19: take(max); [tr] in order of occurrence; [all_done]: every thread finished *)
Definition take_check (max : nat) (tr : list tevent) : list tviol :=
  let nd := count is_begin_data tr in
  let returned := count (fun e => match snd e with TEnd => true | _ => false end) tr in
  flagt (nd <=? max) TvOverDeliver
  ++ flagt (count is_up_term tr <=? 1) TvUpTwice
  ++ flagt (count is_begin_term tr <=? 1) TvSinkTermTwice
  ++ flagt (negb (max <=? nd) || (Nat.eqb (count is_up_term tr) 1 && Nat.eqb (count is_begin_term tr) 1))
           TvNotCompleted
  ++ flagt (negb (existsb is_panic tr)) TvPanic.

(** *** C18: merge of n members with queues [qs] and endings [fins], all threads finished *)
Definition any_err (n : nat) (fins : nat -> final) : bool :=
  existsb (fun t => match fins t with FinErr _ => true | _ => false end) (seq 0 n).
Definition all_term (n : nat) (fins : nat -> final) : bool :=
  forallb (fun t => match fins t with FinTerm => true | _ => false end) (seq 0 n).

Definition merge_check (n : nat) (qs : nat -> list val) (fins : nat -> final) (tr : list tevent)
  : list tviol :=
  flagt (Nat.eqb (count is_begin_greet tr) 1) TvGreetCount
  ++ flagt (before_greet_ok tr) TvBeforeGreet
  ++ flagt (count is_begin_term tr <=? 1) TvSinkTermTwice
  ++ flagt (negb (existsb is_panic tr)) TvPanic
  ++ scan_term (fun _ => false) false tr
  (* every member's deliveries are a prefix of its queue, in order *)
  ++ flat_map (fun t => flagt (is_prefix (delivered_by t tr) (qs t)) TvOrder) (seq 0 n)
  (* without a failure nobody is stopped: everything is delivered, and the sink is completed *)
  ++ (if any_err n fins then
        flagt (Nat.eqb (count (fun e => match snd e with TBegin (DE _) => true | _ => false end) tr) 1
               && Nat.eqb (count (fun e => match snd e with TBegin DT => true | _ => false end) tr) 0)
              TvNoTerminal
      else
        flat_map (fun t => flagt (list_val_eqb (delivered_by t tr) (qs t)) TvDataLost) (seq 0 n)
        ++ (if all_term n fins
            then flagt (Nat.eqb (count (fun e => match snd e with TBegin DT => true | _ => false end) tr) 1)
                       TvNoTerminal
            else [])).

(** *** C18: combine of n members *)
Definition sent_by (qs : nat -> list val) (t : nat) (v : val) : bool :=
  existsb (val_eqb v) (qs t).

Fixpoint tuple_ok (qs : nat -> list val) (t : nat) (l : list val) : bool :=
  match l with
  | [] => true
  | v :: l' => sent_by qs t v && tuple_ok qs (S t) l'
  end.

Definition combine_check (n : nat) (qs : nat -> list val) (fins : nat -> final) (tr : list tevent)
  : list tviol :=
  let all_end := forallb (fun t => match fins t with FinNone => false | _ => true end) (seq 0 n) in
  flagt (Nat.eqb (count is_begin_greet tr) 1) TvGreetCount
  ++ flagt (before_greet_ok tr) TvBeforeGreet
  ++ flagt (count is_begin_term tr <=? 1) TvSinkTermTwice
  ++ flagt (negb (existsb is_panic tr)) TvPanic
  ++ scan_term (fun _ => false) false tr
  ++ flat_map (fun e => match snd e with
                        | TBegin (DD (VT l)) =>
                            flagt (Nat.eqb (length l) n) TvIncompleteTuple
                            ++ flagt (tuple_ok qs 0 l) TvDataForged
                        | TBegin (DD _) => [TvIncompleteTuple]
                        | _ => [] end) tr
  ++ (if all_end
      then flagt (Nat.eqb (count (fun e => match snd e with TBegin DT => true | _ => false end) tr) 1)
                 TvNoTerminal
      else []).

(** *** C19 through merge!: take(max) behind a merge of the member threads (real crate only).
    The talkback calls visible here are merge's calls to its *members*: each member is stopped
    at most once; the sink sees at most max data and, once max deliveries were made, exactly one
    completion. *)
Definition takemerge_check (max : nat) (tr : list tevent) : list tviol :=
  let nd := count is_begin_data tr in
  flagt (nd <=? max) TvOverDeliver
  ++ flagt (forallb (fun i => count (fun e => match snd e with
                                              | TUp j UT | TUp j (UE _) => Nat.eqb i j
                                              | _ => false end) tr <=? 1) (seq 0 8)) TvUpTwice
  ++ flagt (count is_begin_term tr <=? 1) TvSinkTermTwice
  ++ flagt (negb (max <=? nd) || Nat.eqb (count is_begin_term tr) 1) TvNotCompleted
  ++ flagt (negb (existsb is_panic tr)) TvPanic.
