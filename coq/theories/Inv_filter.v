(** * Inv_filter: the master invariant of filter, over every reachable configuration *)
From CB Require Import ProofLib Spec.

Set Implicit Arguments.

(** like [fin] of ProofLib, but also rewrites the new component state [Hc] *)
Ltac finc Hc Hm Hs Hd :=
  constructor; rewrite ?Hc, ?Hm, ?Hs, ?Hd; cbn; rewrite ?add_viols_eq; cbn;
  unfold due_on_error; repeat (rw_st; cbn; rewrite ?Nat.eqb_refl; cbn); crush.

Lemma filter_app A (f : A -> bool) l1 l2 : filter f (l1 ++ l2) = filter f l1 ++ filter f l2.
Proof.
  induction l1 as [|x l1 IH]; cbn; [reflexivity|]. destruct (f x); cbn; now rewrite IH.
Qed.

Section FilterInv.
  Variable cond : val -> bool.
  Variable p : mparams.
  Hypothesis Hns : nsinks p = 1.
  Hypothesis Hresub : resub p = false.
  Hypothesis Hnonest : no_nest p = false.
  Hypothesis Hc14 : c14 p = false.
  Let o := filter_op cond.
  Notation gf := g_std.

  Record Inv (c : cfg o) : Prop := {
    i_viols : viols (ms c) = [];
    i_dead : dead c = false;
    i_pair : paired (sk (ms c) 0) (us (ms c) 0);
    i_subd : subd (ms c) 0 = false -> us (ms c) 0 = UNone;
    i_due : forall s, err_due (ms c) s = None;
    i_ports : forall i, In i (ports (ms c)) -> i = 0;
    i_sk_other : forall s, s <> 0 -> sk (ms c) s = SNone;
    i_us_other : forall i, i <> 0 -> us (ms c) i = UNone;
    i_task : forall s, task (ms c) s = false;
    (* the talkback cell is set as soon as the upstream has greeted *)
    i_tb : us (ms c) 0 = ULive -> cst c = true;
  }.

  Lemma inv0 : Inv (cfg0 o).
  Proof. constructor; cbn; auto; try constructor; intros; try tauto; discriminate. Qed.

  Lemma inv_sub c s aux : Inv c -> enabled p gf c (MIn (ISub s aux)) = true ->
                          Inv (step p c (MIn (ISub s aux))).
  Proof.
    intros [] He. start_in He Hlive Hdel Hg.
    cbn in He, Hg. rewrite Hns in He. destruct aux; [|discriminate].
    destruct (at_top c) eqn:Htop; cbn in He; try discriminate.
    destruct s; cbn in He; try discriminate.
    apply negb_true_iff in He. specialize (i_subd0 He).
    cases_pair c Esk Eus; try congruence.
    destruct (step_in p c (ISub 0 0) Hlive Hdel eq_refl) as (Hc & Hs & Hm & Hd).
    finc Hc Hm Hs Hd.
  Qed.

  Lemma inv_up c s u : Inv c -> enabled p gf c (MIn (IUp s u)) = true ->
                       Inv (step p c (MIn (IUp s u))).
  Proof.
    intros [] He. start_in He Hlive Hdel Hg.
    cbn in He. apply andb_prop in He. destruct He as [He Hu].
    apply andb_prop in He. destruct He as [Htop Hsk].
    destruct s as [|s]; [|rewrite i_sk_other0 in Hsk by lia; discriminate].
    cases_pair c Esk Eus; try discriminate.
    pose proof (i_tb0 eq_refl) as Htb.
    assert (Hh : handle o (IUp 0 u) (cst c) = (true, [], ACall (CUp 0 u) FDone)).
    { cbn. rewrite Htb. reflexivity. }
    destruct (step_in p c (IUp 0 u) Hlive Hdel Hh) as (Hc & Hs & Hm & Hd).
    destruct u as [|e|]; finc Hc Hm Hs Hd.
  Qed.

  Lemma inv_dn c i d : Inv c -> enabled p gf c (MIn (IDn i d)) = true ->
                       Inv (step p c (MIn (IDn i d))).
  Proof.
    intros [] He. start_in He Hlive Hdel Hg.
    cbn in He. apply andb_prop in He. destruct He as [Htop He].
    destruct i as [|i].
    2: { rewrite i_us_other0 in He by lia. destruct d; cbn in He; discriminate. }
    cases_pair c Esk Eus; destruct d as [|v|e|]; cbn in He; try discriminate.
    2: { (* Data: forwarded, or dropped and re-requested *)
      pose proof (i_tb0 eq_refl) as Htb.
      destruct (cond v) eqn:Ecv.
      - assert (Hh : handle o (IDn 0 (DD v)) (cst c) = (cst c, [], ACall (CDn 0 (DD v)) FDone)).
        { cbn. rewrite Ecv. reflexivity. }
        destruct (step_in p c (IDn 0 (DD v)) Hlive Hdel Hh) as (Hc & Hs & Hm & Hd).
        finc Hc Hm Hs Hd.
      - assert (Hh : handle o (IDn 0 (DD v)) (cst c) = (cst c, [], ACall (CUp 0 UP) FDone)).
        { cbn. rewrite Ecv, Htb. reflexivity. }
        destruct (step_in p c (IDn 0 (DD v)) Hlive Hdel Hh) as (Hc & Hs & Hm & Hd).
        finc Hc Hm Hs Hd. }
    all: destruct (step_in p c (IDn 0 _) Hlive Hdel eq_refl) as (Hc & Hs & Hm & Hd).
    all: finc Hc Hm Hs Hd.
  Qed.

  Lemma inv_ret c : Inv c -> enabled p gf c MRet = true -> Inv (step p c MRet).
  Proof.
    intros [] He.
    pose proof (enabled_live _ _ _ _ He) as Hlive.
    destruct (enabled_ret_stack _ _ _ He) as (k & cl & rest & Hst).
    destruct (step_ret p c Hlive Hst eq_refl) as (Hc & Hs & Hm & Hd).
    assert (Hq : forall m', sk m' = sk (ms c) -> us m' = us (ms c) -> ports m' = ports (ms c) ->
                            err_due m' = err_due (ms c) -> check_quiescent p m' = []).
    { intros m' E1 E2 E3 E4. apply quiescent_nil.
      - intros _ Hov i Hi. rewrite E3 in Hi. rewrite (i_ports0 i Hi), E2.
        rewrite E1 in Hov. inversion i_pair0 as [A B|A B|A B|A B|A B];
          rewrite <- A in Hov; try discriminate; reflexivity.
      - intros s. now rewrite E4.
      - rewrite Hc14. discriminate. }
    constructor; rewrite ?Hc, ?Hm, ?Hs, ?Hd; cbn;
      destruct (tl (cstack (ms c))); rewrite ?add_viols_eq; cbn; rewrite ?Hq; auto.
  Qed.

  Lemma inv_step c m : Inv c -> enabled p gf c m = true -> Inv (step p c m).
  Proof.
    intros HI He. destruct m as [[s aux|s u|i d|s]|].
    - now apply inv_sub.
    - now apply inv_up.
    - now apply inv_dn.
    - exfalso. destruct HI. unfold enabled in He.
      repeat (apply andb_prop in He; destruct He as [? He]).
      cbn in He. now rewrite i_task0 in He.
    - now apply inv_ret.
  Qed.

  Theorem inv_reach c : reach p gf c -> Inv c.
  Proof. induction 1; [apply inv0 | now apply inv_step]. Qed.

  (** C07 for filter: at every control point the data delivered so far is the
      sublist satisfying [cond] of the data received so far.  (Holds of the
      model step by step, no invariant needed.) *)
  Theorem filter_functional_sec (c : cfg o) :
    reach p gf c -> data_out 0 (trace c) = filter cond (data_in 0 (trace c)).
  Proof.
    induction 1 as [|c m Hr IH He]; [reflexivity|].
    pose proof (enabled_live _ _ _ _ He) as Hlive.
    destruct m as [inp|].
    - pose proof (enabled_deliverable _ _ _ _ He) as Hdel.
      destruct (handle o inp (cst c)) as [[s' os] a] eqn:Hh.
      rewrite (step_in_trace p c inp Hlive Hdel Hh), data_out_app, data_in_app, filter_app, IH.
      f_equal.
      destruct inp as [[|s] aux|[|s] u|[|i] [|v|e|]|s]; cbn in Hh;
        try destruct (cond v) eqn:Ecv; try destruct (cst c);
        inversion Hh; subst; cbn; rewrite ?Ecv; reflexivity.
    - destruct (enabled_ret_stack _ _ _ He) as (k & cl & rest & Hst).
      destruct (resume o k (cst c)) as [[s' os] a] eqn:Hres.
      rewrite (step_ret_trace p c Hlive Hst Hres), data_out_app, data_in_app, filter_app, IH.
      f_equal. cbn in Hres. inversion Hres; subst; reflexivity.
  Qed.
End FilterInv.

(** no protocol violation and no panic in any reachable configuration *)
Theorem filter_safe (cond : val -> bool) p :
  nsinks p = 1 -> resub p = false -> no_nest p = false -> c14 p = false ->
  forall c : cfg (filter_op cond), reach p g_std c -> viols (ms c) = [] /\ dead c = false.
Proof.
  intros H1 H2 H3 H4 c Hr. destruct (inv_reach H1 H2 H3 H4 Hr). split; assumption.
Qed.
Print Assumptions filter_safe.

(** sink 0 and upstream 0 move in lock-step *)
Theorem filter_paired (cond : val -> bool) p :
  nsinks p = 1 -> resub p = false -> no_nest p = false -> c14 p = false ->
  forall c : cfg (filter_op cond), reach p g_std c -> paired (sk (ms c) 0) (us (ms c) 0).
Proof.
  intros H1 H2 H3 H4 c Hr. destruct (inv_reach H1 H2 H3 H4 Hr). assumption.
Qed.
Print Assumptions filter_paired.

(** C07 *)
Theorem filter_functional (cond : val -> bool) p :
  nsinks p = 1 -> resub p = false -> no_nest p = false -> c14 p = false ->
  forall c : cfg (filter_op cond),
    reach p g_std c -> data_out 0 (trace c) = filter cond (data_in 0 (trace c)).
Proof.
  intros _ _ _ _ c Hr. exact (filter_functional_sec Hr).
Qed.
Print Assumptions filter_functional.
