(** * Order_nary: the list functions of concat! and merge!

    [concat_order] (Inv_concat.v) and [merge_order] (Inv_merge.v) say that the
    sink receives every member datum in ARRIVAL order:
    [data_out 0 (trace c) = all_in (trace c)].  This file relates the arrival
    order to the members' own sequences [data_in k (trace c)]:

    - concat!: arrival order is member order, the output is the concatenation
      of the members' sequences ([concat_sequential], [concat_list_function]);
    - merge!: the output is an interleaving of the members' sequences
      ([merge_interleaves]), for every value of [late_ok].

    Choice made for merge: [interleave] is defined exactly as the task states
    it (it consumes the output from the LEFT).  The pure trace lemma
    [all_in_interleave] is proved by induction on the trace itself (a trace is
    a list read from the left too), under the side condition [ports_lt n tr]
    (every data input of the trace comes from a port below [n]); that side
    condition is then shown for reachable configurations by an induction over
    [reach], from [c_us_big] of the merge invariant.  No right-to-left variant
    of [interleave] was needed. *)
From CB Require Import ProofLib Spec Inv_concat Inv_merge.

Set Implicit Arguments.

(** the two files define the same projection under the same name *)
Lemma all_in_same tr : Inv_merge.all_in tr = Inv_concat.all_in tr.
Proof.
  induction tr as [|e tr IH]; cbn; [reflexivity|].
  destruct e as [[s a|s u|j [|v|e|]|s]|c| | |ob|]; cbn; try exact IH. now rewrite IH.
Qed.

(** ** Pure list facts *)

Lemma flat_map_ext_seq A (f g : nat -> list A) a m :
  (forall k, a <= k < a + m -> f k = g k) -> flat_map f (seq a m) = flat_map g (seq a m).
Proof.
  revert a. induction m as [|m IH]; intros a H; cbn; [reflexivity|].
  rewrite (H a) by lia. f_equal. apply IH. intros k Hk. apply H. lia.
Qed.

Lemma flat_map_nil_seq A (f : nat -> list A) a m :
  (forall k, a <= k < a + m -> f k = []) -> flat_map f (seq a m) = [].
Proof.
  revert a. induction m as [|m IH]; intros a H; cbn; [reflexivity|].
  rewrite (H a) by lia. apply IH. intros k Hk. apply H. lia.
Qed.

(** appending one element to the sequence of the LAST non-empty member appends
    it to the concatenation *)
Lemma flat_map_snoc A (f f' : nat -> list A) j x m :
  j < m ->
  (forall k, j < k -> f k = []) ->
  (forall k, k <> j -> f' k = f k) ->
  f' j = f j ++ [x] ->
  flat_map f' (seq 0 m) = flat_map f (seq 0 m) ++ [x].
Proof.
  intros Hj Hnil Hne Hjx.
  assert (Hseq : seq 0 m = seq 0 j ++ j :: seq (S j) (m - S j)).
  { replace m with (j + S (m - S j)) at 1 by lia. rewrite seq_app. reflexivity. }
  rewrite Hseq, !flat_map_app. cbn [flat_map].
  rewrite (@flat_map_ext_seq _ f' f 0 j) by (intros; apply Hne; lia).
  rewrite (@flat_map_nil_seq _ f' (S j) (m - S j)) by (intros; rewrite Hne by lia; apply Hnil; lia).
  rewrite (@flat_map_nil_seq _ f (S j) (m - S j)) by (intros; apply Hnil; lia).
  rewrite Hjx, !app_nil_r. now rewrite app_assoc.
Qed.

(** ** (1) concat!: arrival order is member order *)

Lemma data_in_act o i (a : act (Fr o)) : data_in i [act_event o a] = [].
Proof. destruct a; reflexivity. Qed.

Lemma all_in_act_cc o (a : act (Fr o)) : Inv_concat.all_in [act_event o a] = [].
Proof. destruct a; reflexivity. Qed.

Section ConcatSeq.
  Variable n : nat.
  Variable p : mparams.
  Hypothesis Hns : nsinks p = 1.
  Hypothesis Hresub : resub p = false.
  Hypothesis Hnonest : no_nest p = false.
  Hypothesis Hc14 : c14 p = false.
  Hypothesis Hlate : late_ok p = false.
  Local Notation o := (concat_op n).

  (** the part of the picture that talks about the members' own sequences:
      nothing has arrived from a member above the cursor (never subscribed) nor
      from a port that is not a member, and what has arrived is the
      concatenation of the members' sequences *)
  Record SInv (c : cfg o) : Prop := {
    s_above : forall j, cc_i (cst c) < j -> data_in j (trace c) = [];
    s_big : forall j, n <= j -> data_in j (trace c) = [];
    s_cat : Inv_concat.all_in (trace c) = flat_map (fun k => data_in k (trace c)) (seq 0 n);
  }.

  Lemma sinv0 : SInv (cfg0 o).
  Proof.
    constructor; cbn; try reflexivity.
    symmetry. apply flat_map_nil_seq. reflexivity.
  Qed.

  (** a step that brings no datum and does not move the cursor backwards *)
  Lemma sinv_keep (c : cfg o) tr' i' evs :
    SInv c -> tr' = trace c ++ evs -> cc_i (cst c) <= i' ->
    Inv_concat.all_in evs = [] -> (forall j, data_in j evs = []) ->
    (forall j, i' < j -> data_in j tr' = []) /\
    (forall j, n <= j -> data_in j tr' = []) /\
    Inv_concat.all_in tr' = flat_map (fun k => data_in k tr') (seq 0 n).
  Proof.
    intros [Ha Hb Hc] -> Hle Hall Hdat.
    assert (Hsame : forall j, data_in j (trace c ++ evs) = data_in j (trace c)).
    { intros j. now rewrite data_in_app, Hdat, app_nil_r. }
    split; [|split].
    - intros j Hj. rewrite Hsame. apply Ha. lia.
    - intros j Hj. rewrite Hsame. now apply Hb.
    - rewrite Inv_concat.all_in_app, Hall, app_nil_r, Hc.
      apply flat_map_ext_seq. intros k _. now rewrite Hsame.
  Qed.

  Lemma sinv_step (c : cfg o) m :
    Inv_concat.Inv c -> SInv c -> enabled p g_std c m = true -> SInv (step p c m).
  Proof.
    intros HI HS He. pose proof (enabled_live _ _ _ _ He) as Hlive.
    destruct m as [inp|].
    - pose proof (enabled_deliverable _ _ _ _ He) as Hdel.
      destruct (handle o inp (cst c)) as [[s' os] a] eqn:Hh.
      destruct (step_in p c inp Hlive Hdel Hh) as (Hc & _ & _ & _).
      pose proof (step_in_trace p c inp Hlive Hdel Hh) as Ht.
      destruct (Inv_concat.handle_shape _ _ Hh) as (-> & Hi & _ & _). cbn [map app] in Ht.
      assert (Hkeep : forall i', cc_i (cst c) <= i' -> cc_i s' = i' ->
                Inv_concat.all_in [EIn inp] = [] -> (forall j, data_in j [EIn inp] = []) ->
                SInv (step p c (MIn inp))).
      { intros i' Hle Hi' Hall Hdat.
        destruct (@sinv_keep c (trace (step p c (MIn inp))) i' [EIn inp; act_event o a]
                    HS Ht Hle) as (H1 & H2 & H3).
        - change [EIn inp; act_event o a] with ([EIn inp] ++ [act_event o a]).
          now rewrite Inv_concat.all_in_app, Hall, all_in_act_cc.
        - intros j. change [EIn inp; act_event o a] with ([EIn inp] ++ [act_event o a]).
          now rewrite data_in_app, Hdat, data_in_act.
        - constructor; [rewrite Hc, Hi'; exact H1 | exact H2 | exact H3]. }
      destruct inp as [s aux|s u|j d|s].
      + (* the sink subscribes: the state was the initial one *)
        destruct (@Inv_concat.sub_enabled_init n p Hns c s aux HI He) as (-> & E0 & _).
        assert (E1 : cc_i (cst c) = 0) by exact (f_equal cc_i E0).
        apply (Hkeep 0); [lia | exact Hi | reflexivity | reflexivity].
      + apply (Hkeep (cc_i (cst c))); [lia | destruct s; exact Hi | reflexivity | reflexivity].
      + destruct d as [|v|e|].
        * apply (Hkeep (cc_i (cst c))); [lia | exact Hi | reflexivity | reflexivity].
        * (* a datum: it comes from the current member *)
          start_in He Hl' Hd' Hg. cbn in He.
          apply andb_prop in He. destruct He as [_ He]. apply andb_prop in He. destruct He as [He _].
          destruct (us (ms c) j) eqn:Eus; try discriminate.
          destruct (Inv_concat.live_current j HI Eus) as (-> & _ & Hlt & _).
          destruct HS as [Ha Hb Hcat].
          assert (Hd : forall k, data_in k (trace (step p c (MIn (IDn (cc_i (cst c)) (DD v))))) =
                                 data_in k (trace c) ++
                                 (if Nat.eqb k (cc_i (cst c)) then [v] else [])).
          { intros k. rewrite Ht, data_in_app. f_equal.
            change [EIn (IDn (cc_i (cst c)) (DD v)); act_event o a]
              with ([EIn (IDn (cc_i (cst c)) (DD v))] ++ [act_event o a]).
            rewrite data_in_app, data_in_act, app_nil_r. cbn.
            destruct (Nat.eqb k (cc_i (cst c))); reflexivity. }
          constructor.
          -- intros j Hj. rewrite Hc, Hi in Hj. rewrite Hd, Ha by exact Hj.
             destruct (Nat.eqb_spec j (cc_i (cst c))); [lia | reflexivity].
          -- intros j Hj. rewrite Hd, Hb by exact Hj.
             destruct (Nat.eqb_spec j (cc_i (cst c))); [lia | reflexivity].
          -- rewrite Ht at 1. rewrite Inv_concat.all_in_app.
             change (Inv_concat.all_in [EIn (IDn (cc_i (cst c)) (DD v)); act_event o a])
               with (v :: Inv_concat.all_in [act_event o a]).
             rewrite all_in_act_cc, Hcat. symmetry.
             apply flat_map_snoc with (j := cc_i (cst c)).
             ++ exact Hlt.
             ++ exact Ha.
             ++ intros k Hk. rewrite Hd. destruct (Nat.eqb_spec k (cc_i (cst c))); [contradiction|].
                apply app_nil_r.
             ++ rewrite Hd, Nat.eqb_refl. reflexivity.
        * apply (Hkeep (cc_i (cst c))); [lia | exact Hi | reflexivity | reflexivity].
        * (* the current member terminates: the cursor moves up *)
          apply (Hkeep (S (cc_i (cst c)))); [lia | exact Hi | reflexivity | reflexivity].
      + apply (Hkeep (cc_i (cst c))); [lia | exact Hi | reflexivity | reflexivity].
    - destruct (enabled_ret_stack _ _ _ He) as (k & cl & rest & Hst).
      destruct (resume o k (cst c)) as [[s' os] a] eqn:Hres.
      destruct (step_ret p c Hlive Hst Hres) as (Hc & _ & _ & _).
      pose proof (step_ret_trace p c Hlive Hst Hres) as Ht.
      destruct (Inv_concat.resume_shape _ _ Hres) as (-> & -> & _ & _). cbn [map app] in Ht.
      destruct (@sinv_keep c (trace (step p c MRet)) (cc_i (cst c)) [ERet; act_event o a]
                  HS Ht (le_n _)) as (H1 & H2 & H3).
      + change [ERet; act_event o a] with ([ERet] ++ [act_event o a]).
        now rewrite Inv_concat.all_in_app, all_in_act_cc.
      + intros j. change [ERet; act_event o a] with ([ERet] ++ [act_event o a]).
        now rewrite data_in_app, data_in_act.
      + constructor; [rewrite Hc; exact H1 | exact H2 | exact H3].
  Qed.

  Lemma sinv_reach (c : cfg o) : reach p g_std c -> SInv c.
  Proof.
    induction 1 as [|c m Hr IH He]; [apply sinv0|].
    apply sinv_step; [exact (Inv_concat.inv_reach Hns Hresub Hnonest Hc14 Hlate Hr) | exact IH | exact He].
  Qed.

End ConcatSeq.

(** C09, the list function, in arrival terms: the arrival order of the member
    data is member 0's sequence, then member 1's, ... *)
Theorem concat_sequential n p :
  nsinks p = 1 -> resub p = false -> no_nest p = false -> c14 p = false -> late_ok p = false ->
  forall c : cfg (concat_op n), reach p g_std c ->
    Inv_concat.all_in (trace c) = flat_map (fun k => data_in k (trace c)) (seq 0 n).
Proof.
  intros H1 H2 H3 H4 H5 c Hr. exact (s_cat (sinv_reach H1 H2 H3 H4 H5 Hr)).
Qed.
Print Assumptions concat_sequential.

(** C09, the list function: what the sink has received is the concatenation,
    in member order, of what each member has sent *)
Corollary concat_list_function n p :
  nsinks p = 1 -> resub p = false -> no_nest p = false -> c14 p = false -> late_ok p = false ->
  forall c : cfg (concat_op n), reach p g_std c ->
    data_out 0 (trace c) = flat_map (fun k => data_in k (trace c)) (seq 0 n).
Proof.
  intros H1 H2 H3 H4 H5 c Hr.
  rewrite <- (concat_sequential H1 H2 H3 H4 H5 Hr).
  exact (proj1 (concat_order H1 H2 H3 H4 H5 Hr)).
Qed.
Print Assumptions concat_list_function.

(** by-products of the same invariant: a member above the cursor, and a port
    that is not a member, has sent nothing *)
Theorem concat_silent_above n p :
  nsinks p = 1 -> resub p = false -> no_nest p = false -> c14 p = false -> late_ok p = false ->
  forall c : cfg (concat_op n), reach p g_std c ->
    forall j, cc_i (cst c) < j \/ n <= j -> data_in j (trace c) = [].
Proof.
  intros H1 H2 H3 H4 H5 c Hr j [Hj|Hj].
  - exact (s_above (sinv_reach H1 H2 H3 H4 H5 Hr) Hj).
  - exact (s_big (sinv_reach H1 H2 H3 H4 H5 Hr) Hj).
Qed.
Print Assumptions concat_silent_above.

(** ** (2) merge!: the output is an interleaving of the members' sequences *)

Fixpoint replace_nth (A : Type) (k : nat) (x : A) (l : list A) {struct l} : list A :=
  match l, k with
  | [], _ => []
  | _ :: l', 0 => x :: l'
  | y :: l', S k' => y :: replace_nth k' x l'
  end.

(** [interleave ls out]: [out] is obtained by repeatedly taking the head of one
    of the lists [ls], until all are empty *)
Inductive interleave (A : Type) : list (list A) -> list A -> Prop :=
| il_nil ls : Forall (fun l => l = []) ls -> interleave ls []
| il_cons ls k x l out : nth_error ls k = Some (x :: l) ->
    interleave (replace_nth k l ls) out -> interleave ls (x :: out).

Lemma nth_error_map_seq A (f : nat -> A) a m k :
  k < m -> nth_error (map f (seq a m)) k = Some (f (a + k)).
Proof.
  revert a k. induction m as [|m IH]; intros a k Hk; [lia|].
  destruct k as [|k]; cbn.
  - now rewrite Nat.add_0_r.
  - rewrite IH by lia. f_equal. f_equal. lia.
Qed.

Lemma replace_nth_map_seq A (f g : nat -> A) a m k :
  (forall i, i <> a + k -> f i = g i) ->
  replace_nth k (g (a + k)) (map f (seq a m)) = map g (seq a m).
Proof.
  revert a k. induction m as [|m IH]; intros a k H; [reflexivity|].
  destruct k as [|k]; cbn.
  - rewrite Nat.add_0_r. f_equal. apply map_ext_in. intros i Hi. apply in_seq in Hi.
    apply H. lia.
  - rewrite (H a) by lia. f_equal.
    replace (a + S k) with (S a + k) by lia. apply IH. intros i Hi. apply H. lia.
Qed.

(** every data input of the trace comes from a port below [n] *)
Definition port_lt (n : nat) (e : event) : Prop :=
  match e with EIn (IDn j (DD _)) => j < n | _ => True end.
Definition ports_lt (n : nat) (tr : list event) : Prop := Forall (port_lt n) tr.

(** the pure trace fact: the arrival sequence of a trace is an interleaving of
    the per-port sequences *)
Lemma all_in_interleave n tr :
  ports_lt n tr ->
  interleave (map (fun k => data_in k tr) (seq 0 n)) (Inv_merge.all_in tr).
Proof.
  induction tr as [|e tr IH]; intros Hp.
  - apply il_nil. apply Forall_forall. intros l Hl. apply in_map_iff in Hl.
    now destruct Hl as (k & <- & _).
  - inversion Hp as [|e' tr' He Htr]; subst. specialize (IH Htr).
    assert (Hskip : (forall k, data_in k (e :: tr) = data_in k tr) ->
                    Inv_merge.all_in (e :: tr) = Inv_merge.all_in tr ->
                    interleave (map (fun k => data_in k (e :: tr)) (seq 0 n))
                               (Inv_merge.all_in (e :: tr))).
    { intros H1 H2. rewrite H2. rewrite (map_ext _ (fun k => data_in k tr) H1). exact IH. }
    destruct e as [[s a|s u|j [|v|e|]|s]|c| | |ob|];
      try (apply Hskip; [intros k|]; reflexivity).
    cbn in He.
    change (Inv_merge.all_in (EIn (IDn j (DD v)) :: tr)) with (v :: Inv_merge.all_in tr).
    apply il_cons with (k := j) (l := data_in j tr).
    + rewrite nth_error_map_seq by exact He. cbn. now rewrite Nat.eqb_refl.
    + pose proof (@replace_nth_map_seq _ (fun k => data_in k (EIn (IDn j (DD v)) :: tr))
                    (fun k => data_in k tr) 0 n j) as Hrep.
      change (0 + j) with j in Hrep. rewrite Hrep; [exact IH|].
      intros i Hi. cbn. destruct (Nat.eqb_spec i j); [contradiction | reflexivity].
Qed.

Lemma ports_lt_act n o (a : act (Fr o)) : port_lt n (act_event o a).
Proof. destruct a; exact I. Qed.

Section MergeIl.
  Variable n : nat.
  Hypothesis Hn : 1 <= n.
  Variable p : mparams.
  Hypothesis Hns : nsinks p = 1.
  Hypothesis Hresub : resub p = false.
  Hypothesis Hnonest : no_nest p = false.
  Hypothesis Hc14 : c14 p = false.
  Local Notation o := (merge_op n).

  (** only the [n] members ever send data: a sender is live, and the ports
      [>= n] are never subscribed *)
  Lemma merge_ports_lt (c : cfg o) : reach p g_std c -> ports_lt n (trace c).
  Proof.
    induction 1 as [|c m Hr IH He]; [constructor|].
    pose proof (Inv_merge.inv_reach Hn Hns Hresub Hnonest Hc14 Hr) as HI.
    pose proof (enabled_live _ _ _ _ He) as Hlive.
    destruct m as [inp|].
    - pose proof (enabled_deliverable _ _ _ _ He) as Hdel.
      destruct (handle o inp (cst c)) as [[s' os] a] eqn:Hh.
      rewrite (step_in_trace p c inp Hlive Hdel Hh).
      destruct (mg_handle_out _ _ _ Hh) as [-> _]. cbn [map app].
      apply Forall_app. split; [exact IH|].
      constructor; [|constructor; [apply ports_lt_act | constructor]].
      destruct inp as [t aux|t u|i [|v|e|]|t]; try exact I. cbn.
      pose proof (i_core (i_P HI)) as HC.
      start_in He Hlive' Hdel' Hg. cbn in He.
      apply andb_prop in He. destruct He as [_ He].
      apply andb_prop in He. destruct He as [He _].
      destruct (Nat.lt_ge_cases i n) as [Hlt|Hge]; [exact Hlt|].
      rewrite (c_us_big HC) in He by assumption. discriminate.
    - destruct (enabled_ret_stack _ _ _ He) as (k & cl & rest & Hst).
      destruct (resume o k (cst c)) as [[s' os] a] eqn:Hres.
      rewrite (step_ret_trace p c Hlive Hst Hres).
      destruct (mg_resume_out _ _ _ Hres) as [-> _]. cbn [map app].
      apply Forall_app. split; [exact IH|].
      constructor; [exact I|constructor; [apply ports_lt_act | constructor]].
  Qed.

End MergeIl.

(** C08, the list function: what the sink has received is an interleaving of
    what each member has sent.  Regime of [merge_safe]; [late_ok p] is
    arbitrary (the invariant of Inv_merge.v does not use it), so the theorem
    covers late greeters ([late_ok p = true]) as well as the strict environment
    ([late_ok p = false]). *)
Theorem merge_interleaves n p :
  nsinks p = 1 -> resub p = false -> no_nest p = false -> c14 p = false -> 1 <= n ->
  forall c : cfg (merge_op n), reach p g_std c ->
    interleave (map (fun k => data_in k (trace c)) (seq 0 n)) (data_out 0 (trace c)).
Proof.
  intros H1 H2 H3 H4 Hn c Hr.
  rewrite (Inv_merge.order Hn H1 H2 H3 H4 Hr).
  apply all_in_interleave. exact (merge_ports_lt Hn H1 H2 H3 H4 Hr).
Qed.
Print Assumptions merge_interleaves.

(** the same in arrival terms *)
Theorem merge_arrival_interleaves n p :
  nsinks p = 1 -> resub p = false -> no_nest p = false -> c14 p = false -> 1 <= n ->
  forall c : cfg (merge_op n), reach p g_std c ->
    interleave (map (fun k => data_in k (trace c)) (seq 0 n)) (Inv_merge.all_in (trace c)).
Proof.
  intros H1 H2 H3 H4 Hn c Hr.
  apply all_in_interleave. exact (merge_ports_lt Hn H1 H2 H3 H4 Hr).
Qed.
Print Assumptions merge_arrival_interleaves.

(** ** Examples *)

(** concat! of three members: member 0 sends 1, 2 and terminates, member 1 is
    subscribed inside that Terminate, greets and terminates at once (it
    contributes the empty sequence), member 2 is subscribed inside THAT
    Terminate, sends 3 and terminates; the sink is completed. *)
Definition concat3_script : list move :=
  [MIn (ISub 0 0); MIn (IDn 0 DH); MRet; MRet;
   MIn (IDn 0 (DD (VN 1))); MRet; MIn (IDn 0 (DD (VN 2))); MRet;
   MIn (IDn 0 DT); MIn (IDn 1 DH); MIn (IDn 1 DT); MIn (IDn 2 DH);
   MIn (IDn 2 (DD (VN 3))); MRet; MIn (IDn 2 DT); MRet; MRet; MRet].

Example concat3_reach : reach p_std g_std (run p_std (concat_op 3) concat3_script).
Proof. apply reach_run. vm_compute. reflexivity. Qed.

Example concat3_values :
  let c := run p_std (concat_op 3) concat3_script in
  map (fun k => data_in k (trace c)) (seq 0 3) = [[VN 1; VN 2]; []; [VN 3]] /\
  data_out 0 (trace c) = [VN 1; VN 2; VN 3] /\ stack c = [] /\ sk (ms c) 0 = SFinished.
Proof. vm_compute. repeat split. Qed.

(** the theorem at this configuration (not by computation) *)
Example concat3_by_theorem :
  let c := run p_std (concat_op 3) concat3_script in
  data_out 0 (trace c) = flat_map (fun k => data_in k (trace c)) (seq 0 3).
Proof.
  apply (@concat_list_function 3 p_std); try reflexivity. exact concat3_reach.
Qed.

(** merge! of two members, with a nested delivery: after 1 (member 0),
    2 (member 1), 3 (member 0), member 1 sends 4; inside the delivery of 4 the
    sink pulls, the Pull is broadcast, and inside the Pull member 0 answers
    with 5.  The output 1 2 3 4 5 interleaves [1;3;5] and [2;4]. *)
Definition merge2_script : list move :=
  [MIn (ISub 0 0); MIn (IDn 0 DH); MRet; MRet; MIn (IDn 1 DH); MRet;
   MIn (IDn 0 (DD (VN 1))); MRet; MIn (IDn 1 (DD (VN 2))); MRet;
   MIn (IDn 0 (DD (VN 3))); MRet;
   MIn (IDn 1 (DD (VN 4))); MIn (IUp 0 UP); MIn (IDn 0 (DD (VN 5))); MRet; MRet; MRet; MRet].

Example merge2_reach : reach p_merge g_std (run p_merge (merge_op 2) merge2_script).
Proof. apply reach_run. vm_compute. reflexivity. Qed.

(** the same script is conformant in the strict environment as well (both
    members greet inside their subscribing call) *)
Example merge2_reach_strict : reach p_std g_std (run p_std (merge_op 2) merge2_script).
Proof. apply reach_run. vm_compute. reflexivity. Qed.

Example merge2_values :
  let c := run p_merge (merge_op 2) merge2_script in
  map (fun k => data_in k (trace c)) (seq 0 2) = [[VN 1; VN 3; VN 5]; [VN 2; VN 4]] /\
  data_out 0 (trace c) = [VN 1; VN 2; VN 3; VN 4; VN 5] /\ stack c = [] /\ sk (ms c) 0 = SLive.
Proof. vm_compute. repeat split. Qed.

Example merge2_by_theorem :
  interleave [[VN 1; VN 3; VN 5]; [VN 2; VN 4]] [VN 1; VN 2; VN 3; VN 4; VN 5].
Proof.
  pose proof (@merge_interleaves 2 p_merge eq_refl eq_refl eq_refl eq_refl (le_S _ _ (le_n 1))
                _ merge2_reach) as H.
  vm_compute in H. exact H.
Qed.

Example merge2_by_theorem_strict :
  let c := run p_std (merge_op 2) merge2_script in
  interleave (map (fun k => data_in k (trace c)) (seq 0 2)) (data_out 0 (trace c)).
Proof.
  apply (@merge_interleaves 2 p_std); try reflexivity; [repeat constructor | exact merge2_reach_strict].
Qed.

(** [interleave] discriminates: it keeps each member's own order *)
Example interleave_yes :
  interleave [[VN 1; VN 3; VN 5]; [VN 2; VN 4]] [VN 1; VN 3; VN 2; VN 5; VN 4].
Proof.
  apply il_cons with (k := 0) (l := [VN 3; VN 5]); [reflexivity|]. cbn.
  apply il_cons with (k := 0) (l := [VN 5]); [reflexivity|]. cbn.
  apply il_cons with (k := 1) (l := [VN 4]); [reflexivity|]. cbn.
  apply il_cons with (k := 0) (l := []); [reflexivity|]. cbn.
  apply il_cons with (k := 1) (l := []); [reflexivity|]. cbn.
  apply il_nil. repeat constructor.
Qed.

Example interleave_not :
  ~ interleave [[VN 1; VN 3; VN 5]; [VN 2; VN 4]] [VN 3; VN 1; VN 2; VN 4; VN 5].
Proof.
  intros H. inversion H as [|ls k x l out Hnth Hrest]; subst.
  destruct k as [|[|k]]; cbn in Hnth; try discriminate. destruct k; discriminate.
Qed.
