(** * TraceEnv: the conformant environment read off a TRACE.

    [enabled] (Machine.v) reads the machine's stack only through its innermost pending call, which the
    monitor state also records ([cstack]).  [enabled_ms] is [enabled] as a function of the monitor
    state alone; on reachable configurations the two agree ([enabled_ms_ok]).  Because the monitor
    state is a function of the events, this gives the conformant environment of a trace recorded from
    the REAL crate - used by the check driver to continue a history on the crate after model and
    crate have diverged (the model's own environment is no guide there), and to keep such a
    continuation inside what the properties quantify over. *)

From CB Require Import ProofLib Spec Driver.

Set Implicit Arguments.

Section TraceEnv.
  Variable p : mparams.
  Variable g : mstate -> input -> bool.

  Definition top_peer_ms (m : mstate) (q : peer) : bool :=
    match cstack m with
    | [] => true
    | cl :: _ => peer_eqb (peer_of cl) q
    end.

  Definition enabled_ms (m : mstate) (mv : move) : bool :=
    match mv with
    | MRet =>
        match cstack m with
        | [] => false
        | CSub i :: _ => late_ok p || negb (match us m i with USubd => true | _ => false end)
        | _ => true
        end
    | MIn inp =>
        g m inp &&
        match inp with
        | ISub s _ => (match cstack m with [] => true | _ => false end) && (s <? nsinks p) && negb (subd m s)
        | IUp s u =>
            top_peer_ms m (PSink s) &&
            match sk m s with SLive => true | _ => false end &&
            match u with
            | UP => negb (one_pull p) || (0 <? credit m s)
            | _ => true
            end
        | IDn i d =>
            top_peer_ms m (PUp i) &&
            match d with
            | DH =>
                match us m i with USubd => true | _ => false end &&
                (late_ok p || match cstack m with CSub j :: _ => Nat.eqb i j | _ => false end)
            | _ => us_live (us m i) && (negb (pullable p) || (0 <? owed m i))
            end
        | ITick s => (match cstack m with [] => true | _ => false end) && task m s
        end
    end.

  Lemma enabled_ms_ok (o : op) (c : cfg o) mv :
    reach p g c -> dead c = false -> enabled_ms (ms c) mv = enabled p g c mv.
  Proof.
    intros Hr Hd. pose proof (reach_cstack Hr) as Hc.
    unfold enabled, enabled_ms, top_peer_ms, top_peer_is, at_top. rewrite Hd, Hc. cbn [negb andb].
    destruct (stack c) as [|[k cl] rest]; cbn [map snd]; destruct mv as [[s a|s u|i d|s]|];
      try reflexivity; destruct cl; reflexivity.
  Qed.

  (** is every environment event of the trace an enabled move in the state the prefix leaves? *)
  Fixpoint trace_conformant (m : mstate) (tr : list event) : bool :=
    match tr with
    | [] => true
    | e :: tr' =>
        (match e with
         | EIn i => enabled_ms m (MIn i)
         | ERet => enabled_ms m MRet
         | _ => true
         end) && trace_conformant (mon_event p m e) tr'
    end.
End TraceEnv.

Print Assumptions enabled_ms_ok.

Definition enabled_on_trace (sp : spec) (pull : bool) (nsk : nat) (tr : list event) (mv : move) : bool :=
  let p := params_of_spec sp pull nsk in
  enabled_ms p (xguard_of_spec sp) (mon_trace p tr) mv.

Definition conformant_trace (sp : spec) (pull : bool) (nsk : nat) (tr : list event) : bool :=
  trace_conformant (params_of_spec sp pull nsk) (xguard_of_spec sp) ms0 tr.
