(** * Inv_threads_takecombine: C19 / C18 for the interleaving model of take(max) behind combine! of
      n member threads (ThreadsTakeCombine.v), over ALL schedules.

    For every max, n, all queues, ALL endings (any number of failing members) and every state
    reachable by any interleaving of [xc_step true max n]:

    - [takecombine_safe]             never more than max data, the sink is ended at most once, every
                                     member is told to stop at most once, no panic;
    - [takecombine_tuples]           only complete tuples made of values actually sent are delivered;
    - [takecombine_complete]         (1 <= max) once max data were delivered and every member is
                                     finished, the sink has been ended exactly once;
    - [takecombine_members_stopped]  (1 <= max) take ends its upstream: in such a final state EVERY
                                     member was told to stop exactly once;
    - [takecombine_final]            [takecombine_check] is empty on every final state;
    - [takecombine_run_full_reach], [takecombine_driver_final]   what the driver runs is reachable;
    - [takecombine_example]          non-vacuity (take(1) behind combine of 2).

    Method (as in Inv_threads_takemerge.v): [xc_step true max n] is restated as a relation on
    explicit records ([cstep], [cstep_of]; [nxt] = what [xc_next] makes of a thread, [corigin] = the
    eight ways [xc_next] is entered, [stop_rel] / [stop_spec] = what [xc_stop_all] does).  Inductive
    invariants, each with its own step lemma:
    - [K0]  the program counters of the unrepaired code (XcAtEndLoad, XcAtEndStore) are never
            reached; threads t >= n never start;
    - [KTh] per thread, by program counter ([TIc]): the queue and the stored value are made of
            values sent; [wasnone] is what it says; a value is stored before it is counted;
            [n_data] = 0 at XcAtEmitLoad; the tuple carried at XcAtTaken is complete and made of
            sent values; [n_end] = 0 at XcAtEndSwapT / XcInTermAll;
    - [KU]  [n_data] = number of members that have not yet counted their first value
            (a stopped member leaves through [xc_next], where this does not change);
    - [KA]  [n_end] >= number of members that are still at work (a stopped member goes to
            XcFinished WITHOUT decrementing [n_end], hence an inequality - no ghost needed);
    - [KP]  no panic (the tuple is complete when it is loaded); every delivered datum is a good tuple;
    - [KT]  taken = number of data begun <= max; for every j the number of Terminate calls to
            member j's talkback is [b2n (stopped j)]; stopped j => [tend]; #terminals = [b2n tend]
            (the swap and the sink's Terminate are one step: no thread "between");
    - [K3]  the ticket argument: while taken = max and [tend] is unset, the thread that obtained
            the last ticket is at XcInData max or XcAtEndSwap;
    - [K4]  (stretch) [tend] => every member was told to stop, or [n_end] = 0 and taken < max
            (the last member's swap cannot win while the holder of the last ticket is at work:
            by [KA] the holder keeps [n_end] >= 1). *)

From CB Require Import Threads ThreadSpec ThreadsFine ThreadsTakeCombine Inv_threads_merge.
From CB Require Inv_threads_combine.

Set Implicit Arguments.

#[local] Arguments count : simpl never.

(** ** Reachability over all schedules *)

Inductive xc_reach (max n : nat) (qs : nat -> list val) (fins : nat -> final) : xc_state -> Prop :=
| xcr0 : xc_reach max n qs fins (xc_init n qs fins)
| xcrS s t : xc_reach max n qs fins s -> xc_reach max n qs fins (xc_step true max n s t).

(** ** The step function (repaired code) as a relation on explicit records *)

Notation CS := mk_xc_state.
Notation CT := mk_xc_thread.

Definition b2n (b : bool) : nat := if b then 1 else 0.
Definition isnone (A : Type) (o : option A) : bool := match o with None => true | Some _ => false end.

(** what [xc_next] makes of a thread *)
Definition nxt (stp : bool) (q : list val) (f : final) : xc_thread :=
  if stp then CT XcFinished q f
  else match q with
       | v :: q' => CT (XcAtValsLoad v) q' f
       | [] => match f with FinNone => CT XcFinished [] f | _ => CT XcAtEndDec [] f end
       end.

Lemma xc_next_eq s t pc q f : xc_next s t (CT pc q f) = xc_set s t (nxt (xcs_stopped s t) q f).
Proof.
  unfold xc_next, nxt. destruct (xcs_stopped s t); [reflexivity|]. cbn.
  destruct q; [|reflexivity]. destruct f; reflexivity.
Qed.

Lemma nxt_cases stp q f :
  nxt stp q f = CT XcFinished q f
  \/ (exists v q', q = v :: q' /\ nxt stp q f = CT (XcAtValsLoad v) q' f)
  \/ (q = [] /\ nxt stp q f = CT XcAtEndDec [] f).
Proof.
  unfold nxt. destruct stp; [auto|]. destruct q as [|v q'].
  - destruct f; auto.
  - right. left. eauto.
Qed.

(** how [xc_next] is entered: the counters and the trace it is entered with *)
Inductive corigin (max t : nat) (ns nd : nat) (tk : nat) (te : bool) (tr : list tevent)
  : xc_pc -> nat -> nat -> list tevent -> Prop :=
| co_start : pred ns <> 0 -> corigin max t ns nd tk te tr XcAtStartDec (pred ns) nd tr
| co_greet : corigin max t ns nd tk te tr XcInGreet ns nd ((t, TEnd) :: tr)
| co_dec : pred nd <> 0 -> corigin max t ns nd tk te tr XcAtDataDec ns (pred nd) tr
| co_load : nd <> 0 -> corigin max t ns nd tk te tr XcAtDataLoad ns nd tr
| co_full x : max <= tk -> corigin max t ns nd tk te tr (XcAtTaken x) ns nd tr
| co_data t' : t' <> max -> corigin max t ns nd tk te tr (XcInData t') ns nd ((t, TEnd) :: tr)
| co_swap : te = true -> corigin max t ns nd tk te tr XcAtEndSwap ns nd tr
| co_term : corigin max t ns nd tk te tr XcInTerm ns nd ((t, TEnd) :: tr).

(** what combine's sink talkback does on Terminate: every member is told to stop *)
Definition stop_rel (k t : nat) (stp : nat -> bool) (tr : list tevent)
  (stp' : nat -> bool) (tr1 : list tevent) : Prop :=
  (forall j, stp' j = stp j || (j <? k)) /\
  qext t tr tr1 /\
  (forall j, count (is_up_term_of j) tr1 = count (is_up_term_of j) tr + b2n (j <? k)).

Inductive cstep (max n : nat) : xc_state -> nat -> xc_state -> Prop :=
| cs_fin ns nd ne vals ver stp tk te th tr pa t :
    xc_pcv (th t) = XcFinished ->
    cstep max n (CS ns nd ne vals ver stp tk te th tr pa) t (CS ns nd ne vals ver stp tk te th tr pa)
| cs_dead s t s' :
    (* program counters of the code before the repair; never reached *)
    xc_pcv (xcs_th s t) = XcAtEndLoad \/ xc_pcv (xcs_th s t) = XcAtEndStore ->
    cstep max n s t s'
| cs_start_last ns nd ne vals ver stp tk te th tr pa t q f :
    th t = CT XcAtStartDec q f -> pred ns = 0 ->
    cstep max n (CS ns nd ne vals ver stp tk te th tr pa) t
      (CS (pred ns) nd ne vals ver stp tk te (upd th t (CT XcInGreet q f)) ((t, TBegin DH) :: tr) pa)
| cs_next ns nd ne vals ver stp tk te th tr pa t pc q f ns' nd' tr0 :
    th t = CT pc q f -> corigin max t ns nd tk te tr pc ns' nd' tr0 ->
    cstep max n (CS ns nd ne vals ver stp tk te th tr pa) t
      (CS ns' nd' ne vals ver stp tk te (upd th t (nxt (stp t) q f)) tr0 pa)
| cs_valsload ns nd ne vals ver stp tk te th tr pa t v q f :
    th t = CT (XcAtValsLoad v) q f ->
    cstep max n (CS ns nd ne vals ver stp tk te th tr pa) t
      (CS ns nd ne vals ver stp tk te (upd th t (CT (XcAtRcuLoad v (isnone (vals t))) q f)) tr pa)
| cs_rcuload ns nd ne vals ver stp tk te th tr pa t v wn q f :
    th t = CT (XcAtRcuLoad v wn) q f ->
    cstep max n (CS ns nd ne vals ver stp tk te th tr pa) t
      (CS ns nd ne vals ver stp tk te (upd th t (CT (XcAtRcuCas v wn ver) q f)) tr pa)
| cs_cas_ok ns nd ne vals ver stp tk te th tr pa t v wn q f :
    th t = CT (XcAtRcuCas v wn ver) q f ->
    cstep max n (CS ns nd ne vals ver stp tk te th tr pa) t
      (CS ns nd ne (upd vals t (Some v)) (S ver) stp tk te
          (upd th t (CT (if wn then XcAtDataDec else XcAtDataLoad) q f)) tr pa)
| cs_cas_fail ns nd ne vals ver stp tk te th tr pa t v wn ver0 q f :
    th t = CT (XcAtRcuCas v wn ver0) q f -> ver0 <> ver ->
    cstep max n (CS ns nd ne vals ver stp tk te th tr pa) t
      (CS ns nd ne vals ver stp tk te (upd th t (CT (XcAtRcuLoad v wn) q f)) tr pa)
| cs_dec_emit ns nd ne vals ver stp tk te th tr pa t q f :
    th t = CT XcAtDataDec q f -> pred nd = 0 ->
    cstep max n (CS ns nd ne vals ver stp tk te th tr pa) t
      (CS ns (pred nd) ne vals ver stp tk te (upd th t (CT XcAtEmitLoad q f)) tr pa)
| cs_load_emit ns ne vals ver stp tk te th tr pa t q f :
    th t = CT XcAtDataLoad q f ->
    cstep max n (CS ns 0 ne vals ver stp tk te th tr pa) t
      (CS ns 0 ne vals ver stp tk te (upd th t (CT XcAtEmitLoad q f)) tr pa)
| cs_emit_ok ns nd ne vals ver stp tk te th tr pa t q f l :
    th t = CT XcAtEmitLoad q f -> cb_tuple vals n = Some l ->
    cstep max n (CS ns nd ne vals ver stp tk te th tr pa) t
      (CS ns nd ne vals ver stp tk te (upd th t (CT (XcAtTaken (VT l)) q f)) tr pa)
| cs_emit_panic ns nd ne vals ver stp tk te th tr pa t q f :
    th t = CT XcAtEmitLoad q f -> cb_tuple vals n = None ->
    cstep max n (CS ns nd ne vals ver stp tk te th tr pa) t
      (CS ns nd ne vals ver stp tk te (upd th t (CT XcFinished q f)) ((t, TPanic) :: tr) true)
| cs_taken_ok ns nd ne vals ver stp tk te th tr pa t x q f :
    (* a ticket is taken and the delivery begins *)
    th t = CT (XcAtTaken x) q f -> tk < max ->
    cstep max n (CS ns nd ne vals ver stp tk te th tr pa) t
      (CS ns nd ne vals ver stp (S tk) te (upd th t (CT (XcInData (S tk)) q f)) ((t, TBegin (DD x)) :: tr) pa)
| cs_data_max ns nd ne vals ver stp tk te th tr pa t q f :
    th t = CT (XcInData max) q f ->
    cstep max n (CS ns nd ne vals ver stp tk te th tr pa) t
      (CS ns nd ne vals ver stp tk te (upd th t (CT XcAtEndSwap q f)) ((t, TEnd) :: tr) pa)
| cs_swap_set ns nd ne vals ver stp tk th tr pa t q f stp' tr1 :
    (* take claims the end: every member is told to stop, the sink's Terminate begins *)
    th t = CT XcAtEndSwap q f -> stop_rel n t stp tr stp' tr1 ->
    cstep max n (CS ns nd ne vals ver stp tk false th tr pa) t
      (CS ns nd ne vals ver stp' tk true (upd th t (CT XcInTerm q f)) ((t, TBegin DT) :: tr1) pa)
| cs_enddec_last ns nd ne vals ver stp tk te th tr pa t q f :
    th t = CT XcAtEndDec q f -> pred ne = 0 ->
    cstep max n (CS ns nd ne vals ver stp tk te th tr pa) t
      (CS ns nd (pred ne) vals ver stp tk te (upd th t (CT XcAtEndSwapT q f)) tr pa)
| cs_enddec_notlast ns nd ne vals ver stp tk te th tr pa t q f :
    th t = CT XcAtEndDec q f -> pred ne <> 0 ->
    cstep max n (CS ns nd ne vals ver stp tk te th tr pa) t
      (CS ns nd (pred ne) vals ver stp tk te (upd th t (CT XcFinished q f)) tr pa)
| cs_swapT_skip ns nd ne vals ver stp tk th tr pa t q f :
    th t = CT XcAtEndSwapT q f ->
    cstep max n (CS ns nd ne vals ver stp tk true th tr pa) t
      (CS ns nd ne vals ver stp tk true (upd th t (CT XcFinished q f)) tr pa)
| cs_swapT_set ns nd ne vals ver stp tk th tr pa t q f :
    th t = CT XcAtEndSwapT q f ->
    cstep max n (CS ns nd ne vals ver stp tk false th tr pa) t
      (CS ns nd ne vals ver stp tk true (upd th t (CT XcInTermAll q f)) ((t, TBegin DT) :: tr) pa)
| cs_termall_ret ns nd ne vals ver stp tk te th tr pa t q f :
    th t = CT XcInTermAll q f ->
    cstep max n (CS ns nd ne vals ver stp tk te th tr pa) t
      (CS ns nd ne vals ver stp tk te (upd th t (CT XcFinished q f)) ((t, TEnd) :: tr) pa).

(** what [xc_stop_all] does *)
Lemma stop_spec k t s :
  let s' := xc_stop_all k t s in
  xcs_nstart s' = xcs_nstart s /\ xcs_ndata s' = xcs_ndata s /\ xcs_nend s' = xcs_nend s /\
  xcs_vals s' = xcs_vals s /\ xcs_ver s' = xcs_ver s /\ xcs_taken s' = xcs_taken s /\
  xcs_tend s' = xcs_tend s /\ xcs_th s' = xcs_th s /\ xcs_panicked s' = xcs_panicked s /\
  stop_rel k t (xcs_stopped s) (xcs_tr s) (xcs_stopped s') (xcs_tr s').
Proof.
  induction k as [|k IH]; cbn [xc_stop_all].
  - unfold stop_rel. repeat split; try constructor; intros j; cbn.
    + now rewrite orb_false_r.
    + lia.
  - cbv zeta in IH. destruct IH as (H1 & H2 & H3 & H4 & H5 & H6 & H7 & H8 & H9 & H10 & H11 & H12).
    assert (Hk : forall j, (j <? S k) = (j <? k) || (j =? k)).
    { intros j. destruct (Nat.ltb_spec j (S k)), (Nat.ltb_spec j k), (Nat.eqb_spec j k); cbn; auto; lia. }
    unfold stop_rel. cbn -[Nat.ltb].
    repeat split; auto.
    + intros j. rewrite Hk. unfold upd. destruct (Nat.eqb_spec j k) as [->|Hj].
      * now rewrite !orb_true_r.
      * rewrite H10. now rewrite orb_false_r.
    + constructor. exact H11.
    + intros j. rewrite count_cons_t, H12, Hk. cbn [is_up_term_of snd].
      destruct (Nat.eqb_spec k j) as [<-|Hj].
      * rewrite Nat.ltb_irrefl, Nat.eqb_refl. cbn. lia.
      * destruct (Nat.eqb_spec j k) as [->|_]; [congruence|]. rewrite orb_false_r. lia.
Qed.

Ltac do_next :=
  rewrite xc_next_eq; cbn -[Nat.eqb Nat.ltb nxt];
  eapply cs_next; [eassumption | constructor; auto].

Lemma cstep_of max n s t : cstep max n s t (xc_step true max n s t).
Proof.
  destruct s as [ns nd ne vals ver stp tk te th tr pa].
  unfold xc_step, xc_after_count. cbn -[Nat.eqb Nat.ltb].
  destruct (th t) as [pc q f] eqn:Hth. cbn -[Nat.eqb Nat.ltb].
  destruct pc; cbn -[Nat.eqb Nat.ltb].
  - (* XcAtStartDec *)
    destruct (Nat.eqb_spec (pred ns) 0) as [Hz|Hz]; cbn -[Nat.eqb Nat.ltb].
    + now apply cs_start_last.
    + do_next.
  - (* XcInGreet *) do_next.
  - (* XcAtValsLoad *) now apply cs_valsload.
  - (* XcAtRcuLoad *) now apply cs_rcuload.
  - (* XcAtRcuCas *)
    destruct (Nat.eqb_spec ver0 ver) as [->|Hne]; cbn -[Nat.eqb Nat.ltb].
    + now apply cs_cas_ok.
    + eapply cs_cas_fail; eauto.
  - (* XcAtDataDec *)
    destruct (Nat.eqb_spec (pred nd) 0) as [Hz|Hz]; cbn -[Nat.eqb Nat.ltb].
    + now apply cs_dec_emit.
    + do_next.
  - (* XcAtDataLoad *)
    destruct (Nat.eqb_spec nd 0) as [->|Hz]; cbn -[Nat.eqb Nat.ltb].
    + now apply cs_load_emit.
    + do_next.
  - (* XcAtEmitLoad *)
    destruct (cb_tuple vals n) as [l|] eqn:El; cbn -[Nat.eqb Nat.ltb].
    + now apply cs_emit_ok.
    + now apply cs_emit_panic.
  - (* XcAtTaken *)
    destruct (Nat.ltb_spec tk max) as [Hlt|Hge]; cbn -[Nat.eqb Nat.ltb].
    + now apply cs_taken_ok.
    + do_next.
  - (* XcInData *)
    destruct (Nat.eqb_spec t' max) as [->|Hne]; cbn -[Nat.eqb Nat.ltb].
    + now apply cs_data_max.
    + do_next.
  - (* XcAtEndSwap *)
    destruct te; cbn -[Nat.eqb Nat.ltb].
    + do_next.
    + unfold xc_end_now.
      change (CS ns nd ne vals ver stp tk false th tr pa <| xcs_tend := true |>)
        with (CS ns nd ne vals ver stp tk true th tr pa).
      pose proof (stop_spec n t (CS ns nd ne vals ver stp tk true th tr pa)) as H.
      cbv zeta in H.
      destruct (xc_stop_all n t (CS ns nd ne vals ver stp tk true th tr pa))
        as [ns1 nd1 ne1 vals1 ver1 stp1 tk1 te1 th1 tr1 pa1].
      cbn -[Nat.ltb Nat.eqb] in *. destruct H as (-> & -> & -> & -> & -> & -> & -> & -> & -> & H).
      eapply cs_swap_set; eauto.
  - apply cs_dead. cbn. rewrite Hth. auto.
  - apply cs_dead. cbn. rewrite Hth. auto.
  - (* XcInTerm *) do_next.
  - (* XcAtEndDec *)
    destruct (Nat.eqb_spec (pred ne) 0) as [Hz|Hz]; cbn -[Nat.eqb Nat.ltb].
    + now apply cs_enddec_last.
    + now apply cs_enddec_notlast.
  - (* XcAtEndSwapT *)
    destruct te; cbn.
    + now apply cs_swapT_skip.
    + now apply cs_swapT_set.
  - (* XcInTermAll *) now apply cs_termall_ret.
  - apply cs_fin. now rewrite Hth.
Qed.

(** ** Generic facts *)

Lemma b2n_le1 b : b2n b <= 1.
Proof. destruct b; cbn; lia. Qed.

Lemma cnt_upd P Q k t :
  t < k -> (forall j, j < k -> j <> t -> Q j = P j) ->
  cnt Q k + b2n (P t) = cnt P k + b2n (Q t).
Proof.
  induction k as [|k IH]; cbn [cnt]; intros Ht H; [lia|].
  destruct (Nat.eq_dec t k) as [->|Hne].
  - rewrite (@cnt_ext Q P k) by (intros; apply H; lia). unfold b2n. destruct (P k), (Q k); lia.
  - rewrite (H k) by lia. specialize (IH ltac:(lia) ltac:(intros; apply H; lia)). lia.
Qed.

Lemma cnt_pos P k t : t < k -> P t = true -> 1 <= cnt P k.
Proof.
  induction k as [|k IH]; cbn [cnt]; intros Ht H; [lia|].
  destruct (Nat.eq_dec t k) as [->|Hne]; [rewrite H; lia|]. specialize (IH ltac:(lia) H). lia.
Qed.

Lemma cnt_zero P k : cnt P k = 0 -> forall j, j < k -> P j = false.
Proof.
  intros H j Hj. destruct (P j) eqn:E; [|reflexivity]. pose proof (cnt_pos P Hj E). lia.
Qed.

Lemma qext_count (f : tevent -> bool) t tr tr1 :
  (forall t0 j m, f (t0, TUp j m) = false) -> qext t tr tr1 -> count f tr1 = count f tr.
Proof.
  intros Hf Hq. induction Hq as [|tr1 j m Hq IH]; [reflexivity|].
  rewrite count_cons_t, Hf, IH. reflexivity.
Qed.

Lemma qext_panic t tr tr1 : qext t tr tr1 -> existsb is_panic tr1 = existsb is_panic tr.
Proof. intros Hq. induction Hq as [|tr1 j m Hq IH]; [reflexivity|]. cbn. exact IH. Qed.

Lemma qext_forall (P : tevent -> Prop) t tr tr1 :
  (forall t0 j m, P (t0, TUp j m)) -> qext t tr tr1 -> Forall P tr -> Forall P tr1.
Proof. intros HP Hq Hf. induction Hq as [|tr1 j m Hq IH]; [assumption|]. constructor; auto. Qed.

Section Proofs.
  Variable max n : nat.
  Variable qs : nat -> list val.
  Variable fins : nat -> final.

  Definition pcof (s : xc_state) (t : nat) : xc_pc := xc_pcv (xcs_th s t).

  Ltac nxt_split :=
    match goal with
    | |- context [nxt ?b ?q ?f] =>
        let Hn := fresh "Hn" in
        destruct (nxt_cases b q f) as [Hn|[(?v & ?q' & ?Hq & Hn)|(?Hq & Hn)]]; rewrite ?Hn in *; clear Hn
    end.

  (** *** K0: the program counters of the code before the repair are never reached; the threads
      that are not members never start *)
  Definition K0 (s : xc_state) : Prop :=
    (forall t, pcof s t <> XcAtEndLoad /\ pcof s t <> XcAtEndStore) /\
    (forall j, n <= j -> pcof s j = XcFinished).

  Lemma K0_init : K0 (xc_init n qs fins).
  Proof.
    split; intros j; unfold pcof; cbn -[Nat.ltb].
    - destruct (j <? n); split; discriminate.
    - intros Hj. destruct (Nat.ltb_spec j n); [lia|reflexivity].
  Qed.

  Ltac kill_dead H0 t H :=
    exfalso; let H1 := fresh in let H2 := fresh in
    destruct (proj1 H0 t) as [H1 H2]; destruct H; contradiction.

  Lemma K0_step s t s' : K0 s -> cstep max n s t s' -> K0 s'.
  Proof.
    intros HK Hs. destruct Hs.
    1: { assumption. }
    1: { kill_dead HK t H. }
    all: destruct HK as [Hd Ho]; unfold K0, pcof in *; cbn [xcs_th] in *.
    all: pose proof (Ho t) as Hot; rewrite H in Hot; cbn in Hot.
    all: try match goal with H : corigin _ _ _ _ _ _ _ _ _ _ _ |- _ => destruct H end.
    all: try nxt_split.
    all: try destruct wn.
    all: split; intros j; pw j t; cbn; auto; try (split; discriminate).
    all: intros Hn; specialize (Hot Hn); discriminate.
  Qed.

  Lemma K0_lt s t pc q f : K0 s -> xcs_th s t = CT pc q f -> pc <> XcFinished -> t < n.
  Proof.
    intros [_ Ho] H Hpc. destruct (Nat.lt_ge_cases t n) as [|Hge]; [assumption|].
    specialize (Ho t Hge). unfold pcof in Ho. rewrite H in Ho. cbn in Ho. contradiction.
  Qed.

  (** *** the combine part *)
  Definition tup_ok (x : val) : Prop :=
    exists l, x = VT l /\ length l = n /\ tuple_ok qs 0 l = true.
  Definition tuple_good (e : tevent) : Prop :=
    match snd e with TBegin (DD x) => tup_ok x | _ => True end.

  (** the member has not yet performed its first [n_data.fetch_sub] *)
  Definition undec (pc : xc_pc) (vo : option val) : bool :=
    match pc with XcAtDataDec => true | _ => isnone vo end.
  (** the member has certainly not performed [n_end.fetch_sub] *)
  Definition active (pc : xc_pc) : bool :=
    match pc with XcAtEndSwapT | XcInTermAll | XcFinished => false | _ => true end.

  Definition ucount (th : nat -> xc_thread) (vals : nat -> option val) : nat :=
    cnt (fun j => undec (xc_pcv (th j)) (vals j)) n.
  Definition acount (th : nat -> xc_thread) : nat :=
    cnt (fun j => active (xc_pcv (th j))) n.

  Lemma ucount_upd th vals t thr' :
    t < n ->
    ucount (upd th t thr') vals + b2n (undec (xc_pcv (th t)) (vals t))
    = ucount th vals + b2n (undec (xc_pcv thr') (vals t)).
  Proof.
    intros Ht. unfold ucount.
    pose proof (@cnt_upd (fun j => undec (xc_pcv (th j)) (vals j))
                         (fun j => undec (xc_pcv (upd th t thr' j)) (vals j)) n t Ht) as C.
    cbv beta in C. rewrite upd_same in C. apply C. intros j _ Hj. now rewrite upd_other.
  Qed.

  Lemma ucount_upd_vals th vals t thr' vo' :
    t < n ->
    ucount (upd th t thr') (upd vals t vo') + b2n (undec (xc_pcv (th t)) (vals t))
    = ucount th vals + b2n (undec (xc_pcv thr') vo').
  Proof.
    intros Ht. unfold ucount.
    pose proof (@cnt_upd (fun j => undec (xc_pcv (th j)) (vals j))
                         (fun j => undec (xc_pcv (upd th t thr' j)) (upd vals t vo' j)) n t Ht) as C.
    cbv beta in C. rewrite !upd_same in C. apply C. intros j _ Hj. now rewrite !upd_other.
  Qed.

  Lemma acount_upd th t thr' :
    t < n ->
    acount (upd th t thr') + b2n (active (xc_pcv (th t))) = acount th + b2n (active (xc_pcv thr')).
  Proof.
    intros Ht. unfold acount.
    pose proof (@cnt_upd (fun j => active (xc_pcv (th j)))
                         (fun j => active (xc_pcv (upd th t thr' j))) n t Ht) as C.
    cbv beta in C. rewrite upd_same in C. apply C. intros j _ Hj. now rewrite upd_other.
  Qed.

  (** per thread, by program counter *)
  Definition TIc (nd ne : nat) (j : nat) (vo : option val) (thr : xc_thread) : Prop :=
    incl (xc_q thr) (qs j) /\ (forall v, vo = Some v -> In v (qs j)) /\
    match xc_pcv thr with
    | XcAtValsLoad v => In v (qs j)
    | XcAtRcuLoad v wn | XcAtRcuCas v wn _ => In v (qs j) /\ wn = isnone vo
    | XcAtDataDec => vo <> None
    | XcAtEmitLoad => nd = 0
    | XcAtTaken x => tup_ok x
    | XcAtEndSwapT | XcInTermAll => ne = 0
    | _ => True
    end.

  Lemma TIc_mono nd ne nd' ne' j vo thr :
    TIc nd ne j vo thr -> (nd = 0 -> nd' = 0) -> (ne = 0 -> ne' = 0) -> TIc nd' ne' j vo thr.
  Proof.
    unfold TIc. intros (A & B & C) H1 H2. split; [exact A|]. split; [exact B|].
    destruct (xc_pcv thr); auto.
  Qed.

  Lemma TIc_nxt nd ne j vo b q f :
    incl q (qs j) -> (forall v, vo = Some v -> In v (qs j)) -> TIc nd ne j vo (nxt b q f).
  Proof.
    intros Hq Hv. unfold TIc.
    destruct (nxt_cases b q f) as [Hn|[(v & q' & -> & Hn)|(-> & Hn)]]; rewrite Hn; cbn [xc_q xc_pcv].
    - auto.
    - split; [|split]; auto.
      + intros x Hx. apply Hq. now right.
      + apply Hq. now left.
    - auto.
  Qed.

  Definition KTh (s : xc_state) : Prop :=
    forall j, TIc (xcs_ndata s) (xcs_nend s) j (xcs_vals s j) (xcs_th s j).
  Definition KU (s : xc_state) : Prop := xcs_ndata s = ucount (xcs_th s) (xcs_vals s).
  Definition KA (s : xc_state) : Prop := acount (xcs_th s) <= xcs_nend s.

  Lemma KTh_init : KTh (xc_init n qs fins).
  Proof.
    intros j. unfold TIc. cbn -[Nat.ltb]. split; [apply incl_refl|]. split; [discriminate|].
    destruct (j <? n); exact I.
  Qed.

  Lemma cnt_const_true k : k <= n -> cnt (fun j => if j <? n then true else false) k = k.
  Proof.
    induction k as [|k IH]; intros Hk; [reflexivity|]. cbn [cnt]. rewrite IH by lia.
    destruct (Nat.ltb_spec k n); lia.
  Qed.

  Lemma KU_init : KU (xc_init n qs fins).
  Proof.
    unfold KU, ucount. cbn -[Nat.ltb].
    rewrite (@cnt_ext _ (fun _ => true)); [symmetry; apply cnt_all; auto|].
    intros j _. destruct (j <? n); reflexivity.
  Qed.

  Lemma KA_init : KA (xc_init n qs fins).
  Proof.
    unfold KA, acount. cbn -[Nat.ltb]. apply cnt_le.
  Qed.

  (** once [n_data] is 0 every member has stored a value it sent *)
  Lemma all_set s : KTh s -> KU s -> xcs_ndata s = 0 ->
    forall j, j < n -> exists v, xcs_vals s j = Some v /\ In v (qs j).
  Proof.
    intros HT HU Hz j Hj. unfold KU, ucount in HU. rewrite Hz in HU. symmetry in HU.
    pose proof (cnt_zero _ HU Hj) as Z. cbv beta in Z.
    destruct (HT j) as (_ & Hv & _).
    destruct (xcs_vals s j) as [v|] eqn:E.
    - exists v. auto.
    - unfold undec in Z. destruct (xc_pcv (xcs_th s j)); discriminate.
  Qed.

  Lemma have_tuple s : KTh s -> KU s -> xcs_ndata s = 0 ->
    exists l, cb_tuple (xcs_vals s) n = Some l /\ length l = n /\ tuple_ok qs 0 l = true.
  Proof. intros HT HU Hz. apply Inv_threads_combine.cb_tuple_all. now apply all_set. Qed.

  Lemma KTh_step s t s' : K0 s -> KTh s -> KU s -> cstep max n s t s' -> KTh s'.
  Proof.
    intros H0 HT HU Hs. pose proof (have_tuple HT HU) as Htup. destruct Hs.
    1: { assumption. }
    1: { kill_dead H0 t H. }
    all: intros j; pose proof (HT t) as Ht; pose proof (HT j) as Hj;
      cbn [xcs_ndata xcs_nend xcs_vals xcs_th] in *.
    all: rewrite H in Ht; unfold TIc in Ht; cbn [xc_pcv xc_q] in Ht; destruct Ht as (Hq & Hv & Hpc).
    all: try match goal with H : corigin _ _ _ _ _ _ _ _ _ _ _ |- _ => destruct H end.
    all: destruct (Nat.eq_dec j t) as [->|Hne];
      [ rewrite ?upd_same; clear Hj
      | rewrite ?upd_other by assumption; (eapply TIc_mono; [exact Hj | lia | lia]) ].
    all: try (apply TIc_nxt; assumption).
    all: unfold TIc; cbn [xc_pcv xc_q]; (split; [exact Hq|]).
    all: try solve [ split; [exact Hv|];
                     first [ exact I | exact Hpc | assumption | reflexivity
                           | split; [exact Hpc | reflexivity] ] ].
    - (* the compare-and-swap succeeds *)
      split; [intros v0 [= <-]; tauto|]. destruct wn; [discriminate | exact I].
    - (* the tuple is loaded *)
      split; [exact Hv|]. destruct (Htup Hpc) as (l' & El & Hl & Hok).
      rewrite El in H1. injection H1 as <-. exists l'. auto.
  Qed.

  Lemma nxt_undec b q f vo : undec (xc_pcv (nxt b q f)) vo = isnone vo.
  Proof.
    destruct (nxt_cases b q f) as [Hn|[(v & q' & _ & Hn)|(_ & Hn)]]; rewrite Hn; reflexivity.
  Qed.

  Ltac step_lt H0 H t :=
    assert (Htn : t < n) by (eapply K0_lt; [exact H0 | cbn [xcs_th]; exact H | discriminate]).

  Lemma KU_step s t s' : K0 s -> KTh s -> KU s -> cstep max n s t s' -> KU s'.
  Proof.
    intros H0 HT HU Hs. destruct Hs.
    1: { assumption. }
    1: { kill_dead H0 t H. }
    all: try match goal with H : corigin _ _ _ _ _ _ _ _ _ _ _ |- _ => destruct H end.
    all: step_lt H0 H t.
    all: pose proof (HT t) as Ht; unfold KU in *; cbn [xcs_ndata xcs_nend xcs_vals xcs_th] in *.
    all: rewrite H in Ht; unfold TIc in Ht; cbn [xc_pcv xc_q] in Ht; destruct Ht as (_ & _ & Hpc).
    all: match goal with
         | |- context [ucount (upd ?th0 _ ?X) (upd ?vals0 _ ?V)] =>
             pose proof (ucount_upd_vals th0 vals0 X V Htn) as C
         | |- context [ucount (upd ?th0 _ ?X) ?vals0] => pose proof (ucount_upd th0 vals0 X Htn) as C
         end.
    all: rewrite H in C; cbn [xc_pcv undec] in C; rewrite ?nxt_undec in C.
    all: try match type of Hpc with _ /\ _ = isnone _ => destruct Hpc as [_ ->] end.
    all: destruct (vals t) eqn:Ev; cbn [isnone b2n xc_pcv undec] in *; try congruence; lia.
  Qed.

  Lemma KA_step s t s' : K0 s -> KA s -> cstep max n s t s' -> KA s'.
  Proof.
    intros H0 HA Hs. destruct Hs.
    1: { assumption. }
    1: { kill_dead H0 t H. }
    all: try match goal with H : corigin _ _ _ _ _ _ _ _ _ _ _ |- _ => destruct H end.
    all: step_lt H0 H t.
    all: unfold KA in *; cbn [xcs_nend xcs_th] in *.
    all: match goal with
         | |- context [acount (upd ?th0 _ ?X)] => pose proof (acount_upd th0 X Htn) as C
         end.
    all: rewrite H in C; cbn [xc_pcv active b2n] in C.
    all: try match type of C with context [b2n ?b] => pose proof (b2n_le1 b) end.
    all: try destruct wn; cbn [xc_pcv active b2n] in *; lia.
  Qed.

  (** no panic; only complete tuples of sent values are delivered *)
  Record KP (s : xc_state) : Prop := {
    p_pa : xcs_panicked s = false;
    p_panic : existsb is_panic (xcs_tr s) = false;
    p_tuples : Forall tuple_good (xcs_tr s) }.

  Lemma KP_init : KP (xc_init n qs fins).
  Proof. constructor; cbn; auto. Qed.

  Lemma KP_step s t s' : K0 s -> KTh s -> KU s -> KP s -> cstep max n s t s' -> KP s'.
  Proof.
    intros H0 HT HU [Ha Hb Hc] Hs. pose proof (have_tuple HT HU) as Htup. destruct Hs.
    1: { constructor; assumption. }
    1: { kill_dead H0 t H. }
    all: pose proof (HT t) as Ht; cbn [xcs_ndata xcs_nend xcs_vals xcs_th xcs_panicked xcs_tr] in *.
    all: rewrite H in Ht; unfold TIc in Ht; cbn [xc_pcv xc_q] in Ht; destruct Ht as (_ & _ & Hpc).
    all: try match goal with H : corigin _ _ _ _ _ _ _ _ _ _ _ |- _ => destruct H end.
    all: try match goal with
           | H : stop_rel _ _ _ _ _ _ |- _ =>
               destruct H as (_ & Hq & _);
               pose proof (qext_panic Hq) as Hqp;
               pose proof (@qext_forall tuple_good _ _ _ (fun _ _ _ => I) Hq Hc) as Hqf
           end.
    all: try solve [ constructor; cbn [xcs_panicked xcs_tr existsb is_panic snd orb];
                     try assumption; try congruence;
                     try (constructor; [exact I || exact Hpc | assumption]) ].
    (* the tuple is there *)
    exfalso. destruct (Htup Hpc) as (l' & El & _). congruence.
  Qed.

  (** *** the take part: the counters and the trace *)
  Record KT (s : xc_state) : Prop := {
    k_taken : xcs_taken s = count is_begin_data (xcs_tr s);
    k_le : xcs_taken s <= max;
    k_up : forall j, count (is_up_term_of j) (xcs_tr s) = b2n (xcs_stopped s j);
    k_stp : forall j, xcs_stopped s j = true -> xcs_tend s = true;
    k_term : count is_begin_term (xcs_tr s) = b2n (xcs_tend s) }.

  Lemma KT_init : KT (xc_init n qs fins).
  Proof. constructor; cbn; auto; try lia; discriminate. Qed.

  Lemma KT_step s t s' : K0 s -> KT s -> cstep max n s t s' -> KT s'.
  Proof.
    intros H0 [Ha Hb Hc Hd He] Hs. destruct Hs.
    1: { constructor; assumption. }
    1: { kill_dead H0 t H. }
    all: cbn [xcs_taken xcs_tr xcs_stopped xcs_tend] in *.
    all: try match goal with H : corigin _ _ _ _ _ _ _ _ _ _ _ |- _ => destruct H end.
    all: try match goal with
           | H : stop_rel _ _ _ _ _ _ |- _ =>
               destruct H as (Hs' & Hq & Hu);
               pose proof (qext_count is_begin_data (fun _ _ _ => eq_refl) Hq) as Hqd;
               pose proof (qext_count is_begin_term (fun _ _ _ => eq_refl) Hq) as Hqt
           end.
    all: constructor; cbn [xcs_taken xcs_tr xcs_stopped xcs_tend];
      rewrite ?count_cons_t; cbn [is_begin_data is_begin_term is_up_term_of is_panic snd b2n];
      try assumption; try lia; try congruence; auto.
    all: try (intros j; rewrite ?count_cons_t; cbn [is_up_term_of snd]; auto; fail).
    - (* every member is told to stop, once: nobody was before take's [end] flag was set *)
      intros j. rewrite count_cons_t, Hu, Hs', Hc. cbn [is_up_term_of snd].
      destruct (stp j) eqn:E; [specialize (Hd j E); discriminate|]. reflexivity.
    - rewrite Hqt, He. reflexivity.
  Qed.

  (** *** K3: while [max] items were taken and take's [end] flag is unset, the thread that
      obtained the last ticket is on its way to the swap *)
  Definition is_hpc (p : xc_pc) : bool :=
    match p with XcInData t' => Nat.eqb t' max | XcAtEndSwap => true | _ => false end.

  Definition K3 (s : xc_state) : Prop :=
    1 <= max -> xcs_taken s = max -> xcs_tend s = true \/ exists t, is_hpc (pcof s t) = true.

  Lemma K3_init : K3 (xc_init n qs fins).
  Proof. intros H1 H2. cbn in H2. lia. Qed.

  Lemma K3_frame s s' t :
    K3 s -> xcs_taken s' = xcs_taken s -> (xcs_tend s = true -> xcs_tend s' = true) ->
    (forall t0, t0 <> t -> pcof s' t0 = pcof s t0) ->
    (is_hpc (pcof s t) = true -> is_hpc (pcof s' t) = true \/ xcs_tend s' = true) -> K3 s'.
  Proof.
    intros HI Hk He Ho Hh Hpos Hm. rewrite Hk in Hm.
    destruct (HI Hpos Hm) as [H|[t0 H]]; [left; auto|].
    destruct (Nat.eq_dec t0 t) as [->|ne].
    - destruct (Hh H); [right; exists t; assumption | left; assumption].
    - right. exists t0. now rewrite Ho.
  Qed.

  Lemma K3_step s t s' : K0 s -> K3 s -> cstep max n s t s' -> K3 s'.
  Proof.
    intros H0 HI Hs. destruct Hs.
    1: { assumption. }
    1: { kill_dead H0 t H. }
    all: try match goal with H : corigin _ _ _ _ _ _ _ _ _ _ _ |- _ => destruct H end.
    all: try solve [ apply (@K3_frame _ _ t HI);
           [ reflexivity
           | cbn [xcs_tend]; auto
           | intros t0 ne0; unfold pcof; cbn [xcs_th]; now rewrite upd_other
           | unfold pcof; cbn [xcs_th xcs_tend]; rewrite H, upd_same; cbn [xc_pcv is_hpc];
             let Hh := fresh in intros Hh; auto; try discriminate;
             apply Nat.eqb_eq in Hh; contradiction ] ].
    (* a ticket is taken *)
    intros Hpos Hm. cbn [xcs_taken] in Hm. right. exists t. unfold pcof. cbn [xcs_th].
    rewrite upd_same. cbn [xc_pcv is_hpc]. now apply Nat.eqb_eq.
  Qed.

  (** *** K4: why take's [end] flag is set: take claimed the end and combine's sink talkback told
      every member to stop, or every member ended by itself before [max] items were taken *)
  Definition K4 (s : xc_state) : Prop :=
    1 <= max -> xcs_tend s = true ->
    (forall j, j < n -> xcs_stopped s j = true) \/ (xcs_nend s = 0 /\ xcs_taken s < max).

  Lemma K4_init : K4 (xc_init n qs fins).
  Proof. intros _ H. discriminate. Qed.

  Lemma hpc_active p : is_hpc p = true -> active p = true.
  Proof. destruct p; cbn; auto. Qed.

  (** a member in the middle of its work has not counted itself out *)
  Lemma active_pos s t0 : K0 s -> KA s -> active (pcof s t0) = true -> 1 <= xcs_nend s.
  Proof.
    intros [_ Ho] HA Hact. unfold KA, acount in HA.
    destruct (Nat.lt_ge_cases t0 n) as [Hlt|Hge].
    - pose proof (@cnt_pos (fun j => active (xc_pcv (xcs_th s j))) n t0 Hlt Hact). lia.
    - rewrite (Ho t0 Hge) in Hact. discriminate.
  Qed.

  Lemma K4_frame s s' :
    K4 s -> (xcs_tend s' = true -> xcs_tend s = true) ->
    (forall j, xcs_stopped s j = true -> xcs_stopped s' j = true) ->
    (xcs_nend s = 0 -> xcs_nend s' = 0) -> xcs_taken s' = xcs_taken s -> K4 s'.
  Proof.
    intros HI Ht Hs Hn Hk Hpos Hte. rewrite Hk.
    destruct (HI Hpos (Ht Hte)) as [L|[R1 R2]]; [left; auto | right; auto].
  Qed.

  Lemma K4_step s t s' :
    K0 s -> KTh s -> KA s -> KT s -> K3 s -> K4 s -> cstep max n s t s' -> K4 s'.
  Proof.
    intros H0 HT HA HK H3 HI Hs.
    pose proof (@active_pos s t H0 HA) as Hact.
    pose proof (fun t0 => @active_pos s t0 H0 HA) as Hact0.
    destruct Hs.
    1: { assumption. }
    1: { kill_dead H0 t H. }
    all: try match goal with H : corigin _ _ _ _ _ _ _ _ _ _ _ |- _ => destruct H end.
    all: try solve [ apply (@K4_frame _ _ HI); cbn [xcs_tend xcs_stopped xcs_nend xcs_taken]; auto; lia ].
    all: unfold pcof in Hact, Hact0; cbn [xcs_th xcs_nend] in Hact, Hact0; rewrite H in Hact;
      cbn [xc_pcv active] in Hact.
    - (* a ticket is taken: some member is still at work *)
      intros Hpos Hte. cbn [xcs_tend xcs_stopped xcs_nend xcs_taken] in *.
      destruct (HI Hpos Hte) as [L|[R1 R2]]; [left; exact L|].
      exfalso. specialize (Hact eq_refl). cbn [xcs_nend] in R1. lia.
    - (* take claims the end *)
      intros _ _. left. intros j Hj. cbn [xcs_stopped].
      match goal with Hsr : stop_rel _ _ _ _ _ _ |- _ => destruct Hsr as (Hs' & _) end. rewrite Hs'. rewrite (proj2 (Nat.ltb_lt j n) Hj). apply orb_true_r.
    - (* the last member's completion finds the flag unset: the holder of the last ticket would
         still be at work *)
      intros Hpos _. right. cbn [xcs_nend xcs_taken].
      pose proof (HT t) as Ht. cbn [xcs_ndata xcs_nend xcs_vals xcs_th] in Ht.
      rewrite H in Ht. destruct Ht as (_ & _ & Hne). cbn [xc_pcv] in Hne. split; [exact Hne|].
      destruct HK as [_ Hle _ _ _]. cbn [xcs_taken] in Hle.
      destruct (Nat.eq_dec tk max) as [Hm|Hm]; [exfalso|lia].
      destruct (H3 Hpos Hm) as [Hte|[t0 Hh]]; [discriminate|].
      unfold pcof in Hh. cbn [xcs_th] in Hh. apply hpc_active in Hh. specialize (Hact0 t0 Hh). lia.
  Qed.

  (** *** the invariants together *)
  Definition Inv (s : xc_state) : Prop :=
    K0 s /\ KTh s /\ KU s /\ KA s /\ KP s /\ KT s /\ K3 s /\ K4 s.

  Lemma reach_inv s : xc_reach max n qs fins s -> Inv s.
  Proof.
    induction 1 as [|s t _ (H0 & HT & HU & HA & HP & HK & H3 & H4)].
    - split; [apply K0_init|]. split; [apply KTh_init|]. split; [apply KU_init|].
      split; [apply KA_init|]. split; [apply KP_init|]. split; [apply KT_init|].
      split; [apply K3_init | apply K4_init].
    - pose proof (cstep_of max n s t) as Hs.
      split; [eapply K0_step; eauto|]. split; [eapply KTh_step; eauto|].
      split; [eapply KU_step; eauto|]. split; [eapply KA_step; eauto|].
      split; [eapply KP_step; eauto|]. split; [eapply KT_step; eauto|].
      split; [eapply K3_step; eauto|]. eapply K4_step; eauto.
  Qed.

  (** *** C19 behind combine!, safety: never more than [max] data, the sink is ended at most once,
      every member is told to stop at most once, no panic - for any endings, any number of failing
      members *)
  Theorem takecombine_safe s : 1 <= n -> xc_reach max n qs fins s ->
    count is_begin_data (xcs_tr s) <= max
    /\ count is_begin_term (xcs_tr s) <= 1
    /\ (forall j, count (is_up_term_of j) (xcs_tr s) <= 1)
    /\ xcs_panicked s = false /\ existsb is_panic (xcs_tr s) = false.
  Proof.
    intros _ Hr. destruct (reach_inv Hr) as (_ & _ & _ & _ & [Hp1 Hp2 _] & [Ha Hb Hc Hd He] & _ & _).
    split; [|split; [|split; [|split]]].
    - now rewrite <- Ha.
    - rewrite He. apply b2n_le1.
    - intros j. rewrite Hc. apply b2n_le1.
    - exact Hp1.
    - exact Hp2.
  Qed.

  (** *** C18: only complete tuples made of values actually sent *)
  Theorem takecombine_tuples s : 1 <= n -> xc_reach max n qs fins s ->
    forall t x, In (t, TBegin (DD x)) (xcs_tr s) ->
    exists l, x = VT l /\ length l = n /\ tuple_ok qs 0 l = true.
  Proof.
    intros _ Hr t x Hin. destruct (reach_inv Hr) as (_ & _ & _ & _ & [_ _ Hp3] & _).
    exact (proj1 (Forall_forall _ _) Hp3 _ Hin).
  Qed.

  Lemma finished_pc s : K0 s -> (forall t, t < n -> xc_finished s t = true) ->
    forall t, pcof s t = XcFinished.
  Proof.
    intros [_ Ho] Hfin t. destruct (Nat.lt_ge_cases t n) as [Hlt|Hge]; [|now apply Ho].
    specialize (Hfin t Hlt). unfold xc_finished in Hfin. unfold pcof.
    destruct (xc_pcv (xcs_th s t)); try discriminate. reflexivity.
  Qed.

  (** once [max] data were delivered and everything is quiet, take's [end] flag is set *)
  Lemma quiet_tend s : 1 <= max -> Inv s -> (forall t, t < n -> xc_finished s t = true) ->
    max <= count is_begin_data (xcs_tr s) -> xcs_taken s = max /\ xcs_tend s = true.
  Proof.
    intros Hpos (H0 & _ & _ & _ & _ & [Ha Hb Hc Hd He] & H3 & _) Hfin Hmax.
    pose proof (finished_pc H0 Hfin) as Hpc.
    assert (Hm : xcs_taken s = max) by lia. split; [exact Hm|].
    destruct (H3 Hpos Hm) as [Ht|[t Ht]]; [exact Ht|]. rewrite Hpc in Ht. discriminate.
  Qed.

  (** *** completion: once [max] data were delivered and everything is quiet, the sink has been
      ended exactly once *)
  Theorem takecombine_complete s : 1 <= n -> 1 <= max -> xc_reach max n qs fins s ->
    (forall t, t < n -> xc_finished s t = true) ->
    max <= count is_begin_data (xcs_tr s) -> count is_begin_term (xcs_tr s) = 1.
  Proof.
    intros _ Hpos Hr Hfin Hmax. pose proof (reach_inv Hr) as HI.
    destruct (quiet_tend Hpos HI Hfin Hmax) as [_ Hte].
    destruct HI as (_ & _ & _ & _ & _ & [Ha Hb Hc Hd He] & _).
    now rewrite He, Hte.
  Qed.

  (** *** take ends its upstream: combine's sink talkback tells EVERY member to stop, once *)
  Theorem takecombine_members_stopped s : 1 <= n -> 1 <= max -> xc_reach max n qs fins s ->
    (forall t, t < n -> xc_finished s t = true) -> max <= count is_begin_data (xcs_tr s) ->
    forall j, j < n -> count (is_up_term_of j) (xcs_tr s) = 1.
  Proof.
    intros _ Hpos Hr Hfin Hmax j Hj. pose proof (reach_inv Hr) as HI.
    destruct (quiet_tend Hpos HI Hfin Hmax) as [Hm Hte].
    destruct HI as (_ & _ & _ & _ & _ & [Ha Hb Hc Hd He] & _ & H4).
    rewrite Hc. destruct (H4 Hpos Hte) as [L|[_ R]]; [|lia]. now rewrite (L j Hj).
  Qed.

  Lemma count_ext A (f g : A -> bool) l : (forall x, f x = g x) -> count f l = count g l.
  Proof.
    intros H. unfold count. induction l as [|x l IH]; [reflexivity|]. cbn. rewrite H.
    destruct (g x); cbn; now rewrite IH.
  Qed.

  (** *** the monitor of ThreadSpec reports nothing on a final state *)
  Theorem takecombine_final s : 1 <= n -> 1 <= max -> xc_reach max n qs fins s ->
    (forall t, t < n -> xc_finished s t = true) -> takecombine_check max n qs (rev (xcs_tr s)) = [].
  Proof.
    intros Hn Hpos Hr Hfin. destruct (takecombine_safe Hn Hr) as (H1 & H2 & H3 & _ & H4).
    unfold takecombine_check.
    match goal with |- ?a ++ ?b = [] => assert (Hm : a = []); [|rewrite Hm; cbn [app]] end.
    - unfold takemerge_check. cbv zeta.
      match goal with |- context [forallb ?f ?l] => assert (Hup : forallb f l = true) end.
      { apply forallb_forall. intros i _. apply Nat.leb_le. rewrite count_rev.
        rewrite (@count_ext _ _ (is_up_term_of i)); [apply H3|].
        intros [t0 [m| |j [| |]|]]; cbn; try reflexivity; apply Nat.eqb_sym. }
      rewrite Hup, !count_rev, existsb_rev, H4.
      rewrite (proj2 (Nat.leb_le _ _) H1), (proj2 (Nat.leb_le _ _) H2).
      destruct (Nat.leb_spec max (count is_begin_data (xcs_tr s))) as [Hle|Hlt]; [|reflexivity].
      rewrite (takecombine_complete Hn Hpos Hr Hfin Hle). reflexivity.
    - apply flat_map_nil. intros e He. apply in_rev in He.
      destruct e as [t0 [[| x | |]| | |]]; try reflexivity. cbn [snd].
      destruct (takecombine_tuples Hn Hr _ _ He) as (l & -> & Hl & Hok).
      rewrite Hl, Hok, Nat.eqb_refl. reflexivity.
  Qed.
End Proofs.

(** ** What the driver runs is reachable *)

Lemma xc_run_sched_reach max n qs fins sch : forall s,
  xc_reach max n qs fins s -> xc_reach max n qs fins (run_sched (xc_step true max n) xc_finished sch s).
Proof.
  induction sch as [|t sch IH]; intros s Hr; cbn; auto.
  apply IH. destruct (xc_finished s t); auto. now constructor.
Qed.

Lemma xc_drain_threads_reach max n qs fins nth fuel : forall s,
  xc_reach max n qs fins s ->
  xc_reach max n qs fins (drain_threads (xc_step true max n) xc_finished nth fuel s).
Proof.
  induction fuel as [|fuel IH]; intros s Hr; cbn; auto.
  destruct (first_unfinished xc_finished nth s); auto. apply IH. now constructor.
Qed.

Lemma takecombine_run_full_reach max n qs fins nth sch fuel :
  xc_reach max n qs fins (run_full (xc_step true max n) xc_finished nth sch fuel (xc_init n qs fins)).
Proof. unfold run_full. apply xc_drain_threads_reach, xc_run_sched_reach. constructor. Qed.

Corollary takecombine_driver_final max n qs fins nth sch fuel : 1 <= n -> 1 <= max ->
  let s := run_full (xc_step true max n) xc_finished nth sch fuel (xc_init n qs fins) in
  xcs_panicked s = false /\
  ((forall t, t < n -> xc_finished s t = true) -> takecombine_check max n qs (rev (xcs_tr s)) = []).
Proof.
  intros Hn Hpos s. pose proof (takecombine_run_full_reach max n qs fins nth sch fuel) as Hr.
  fold s in Hr. split.
  - apply (takecombine_safe Hn Hr).
  - intros Hf. now apply takecombine_final with (fins := fins).
Qed.

(** ** Non-vacuity: take(1) behind combine of 2 *)

Example takecombine_example :
  let qs := fun t => match t with 0 => [VN 1; VN 3] | 1 => [VN 2] | _ => [] end in
  let s := run_full (xc_step true 1 2) xc_finished 2 [0;1;1;0;0;1;1;0] 400 (xc_init 2 qs (fun _ => FinTerm)) in
  (forall t, t < 2 -> xc_finished s t = true) /\ count is_begin_data (xcs_tr s) = 1
  /\ count is_begin_term (xcs_tr s) = 1 /\ takecombine_check 1 2 qs (rev (xcs_tr s)) = [].
Proof.
  cbv zeta. split; [|split; [|split]].
  - intros t Ht. destruct t as [|[|t]]; [vm_compute; reflexivity | vm_compute; reflexivity | lia].
  - vm_compute. reflexivity.
  - vm_compute. reflexivity.
  - vm_compute. reflexivity.
Qed.

(** on the same run every member was told to stop exactly once ([takecombine_members_stopped] is
    not vacuous) *)
Example takecombine_example_stopped :
  let qs := fun t => match t with 0 => [VN 1; VN 3] | 1 => [VN 2] | _ => [] end in
  let s := run_full (xc_step true 1 2) xc_finished 2 [0;1;1;0;0;1;1;0] 400 (xc_init 2 qs (fun _ => FinTerm)) in
  count (is_up_term_of 0) (xcs_tr s) = 1 /\ count (is_up_term_of 1) (xcs_tr s) = 1
  /\ In (1, TBegin (DD (VT [VN 3; VN 2]))) (xcs_tr s).
Proof. vm_compute. auto 10. Qed.

Print Assumptions takecombine_safe.
Print Assumptions takecombine_tuples.
Print Assumptions takecombine_complete.
Print Assumptions takecombine_members_stopped.
Print Assumptions takecombine_final.
Print Assumptions takecombine_run_full_reach.
Print Assumptions takecombine_driver_final.
Print Assumptions takecombine_example.
Print Assumptions takecombine_example_stopped.
