(** * Inv_flatten_pull: property C14 (demand conservation) for flatten, in the
      pull regime, for any number of inner sources and any depth of re-entrancy.

    Regime: [nsinks p = 1], [resub p = false], [no_nest p = false],
    [c14 p = true], [pullable p = true] (an upstream, outer or inner, only
    answers a Pull it owes: with one Data, or with its end), [one_pull p = true]
    (the sink sends at most one Pull per message it received),
    [late_ok p = false]; guard [g_flatten].

    The invariant is the one of Inv_flatten.v with the demand counters of the
    monitor added.  There is exactly one *token* (the one unit of demand):

    - [QLiveN] no inner is stored: the token is with the sink ([credit 0 = 1],
               nothing owed, [npull 0 = ndata 0]) or with the outer
               ([owed 0 = 1], [npull 0 = 1 + ndata 0]); no inner owes anything;
    - [QLiveI k] inner [S k] is stored and live: the token is with the sink or
               with that inner ([owed (S k) = 1]); the outer and every other
               inner owe nothing.  In particular the outer cannot speak (it
               only answers Pulls), so in this regime an inner is never
               switched away from: the phases [PhSwitch] of Inv_flatten.v and
               "outer ended, inner stored" are unreachable;
    - [QSubI k] the outer has answered the Pull with inner [S k], which has
               been subscribed and has not greeted: the token is in transit
               (nobody owes, the sink has no credit, [npull 0 = 1 + ndata 0]);
               only the greeting is enabled, and the greeting handler pulls
               the inner at once, which puts the token on port [S k];
    - when the stored inner answers the Pull with Terminate the handler pulls
      the outer in the same activation: the token moves to port 0;
    - the port holding the token is among the subscribed [ports], so at a
      quiescent point "nothing is owed on any port" implies that the sink holds
      the token, i.e. [npull 0 = ndata 0]: [VUnanswered] never fires.
    - [QErr], [QDisp], [QOver]: the output is over or about to be; no Pull and
      no Data is sent any more, the counters are not needed. *)
From CB Require Import ProofLib Spec Inv_flatten.

Set Implicit Arguments.

(** decide the comparisons the C14 checks make, from the arithmetic facts in
    the context (as in Inv_concat_pull.v) *)
Ltac solve_cmp :=
  repeat match goal with
         | |- context [?a <=? ?b] =>
             first [ rewrite (proj2 (Nat.leb_gt a b)) by lia
                   | rewrite (proj2 (Nat.leb_le a b)) by lia ]
         | |- context [?a <? ?b] =>
             first [ rewrite (proj2 (Nat.ltb_ge a b)) by lia
                   | rewrite (proj2 (Nat.ltb_lt a b)) by lia ]
         end.

(** rewrite with the known values of the demand counters *)
Ltac rw_cnt :=
  repeat match goal with
         | H : owed ?m ?i = _ |- context [owed ?m ?i] => rewrite H
         | H : forall i, owed ?m i = 0 |- context [owed ?m _] => rewrite H
         | H : forall i, owed ?m (S i) = 0 |- context [owed ?m (S _)] => rewrite H
         | H : credit ?m 0 = _ |- context [credit ?m 0] => rewrite H
         | H : npull ?m 0 = _ |- context [npull ?m 0] => rewrite H
         | H : ndata ?m 0 = _ |- context [ndata ?m 0] => rewrite H
         end.

Section FlattenPull.
  Variable p : mparams.
  Hypothesis Hns : nsinks p = 1.
  Hypothesis Hresub : resub p = false.
  Hypothesis Hnonest : no_nest p = false.
  Hypothesis Hc14 : c14 p = true.
  Hypothesis Hpullable : pullable p = true.
  Hypothesis Hone : one_pull p = true.
  Hypothesis Hlate : late_ok p = false.
  Notation o := flatten_op.
  Notation gfl := g_flatten.

  (** ** The phases of a run in the pull regime *)
  Inductive PPh (c : cfg o) : Prop :=
  | QInit :
      stack c = [] -> subd (ms c) 0 = false -> sk (ms c) 0 = SNone ->
      (forall i, us (ms c) i = UNone) -> (forall s, err_due (ms c) s = None) ->
      (forall i, owed (ms c) i = 0) -> credit (ms c) 0 = 0 ->
      npull (ms c) 0 = 0 -> ndata (ms c) 0 = 0 -> PPh c
  | QSub0 :
      stack c = [(FlDone, CSub 0)] -> subd (ms c) 0 = true -> sk (ms c) 0 = SNone ->
      us (ms c) 0 = USubd -> (forall i, us (ms c) (S i) = UNone) ->
      (forall s, err_due (ms c) s = None) ->
      fl_outer (cst c) = false -> fl_inner (cst c) = None ->
      (forall i, owed (ms c) i = 0) -> credit (ms c) 0 = 0 ->
      npull (ms c) 0 = 0 -> ndata (ms c) 0 = 0 -> In 0 (ports (ms c)) -> PPh c
  | QLiveN :
      AllDone (stack c) -> subd (ms c) 0 = true -> sk (ms c) 0 = SLive ->
      (forall i, us (ms c) i <> USubd) -> (forall s, err_due (ms c) s = None) ->
      fl_outer (cst c) = true -> us (ms c) 0 = ULive -> fl_inner (cst c) = None ->
      credit (ms c) 0 + owed (ms c) 0 = 1 ->
      (forall i, owed (ms c) (S i) = 0) ->
      credit (ms c) 0 + npull (ms c) 0 = S (ndata (ms c) 0) ->
      In 0 (ports (ms c)) -> PPh c
  | QLiveI k :
      AllDone (stack c) -> subd (ms c) 0 = true -> sk (ms c) 0 = SLive ->
      (forall i, us (ms c) i <> USubd) -> (forall s, err_due (ms c) s = None) ->
      fl_outer (cst c) = true -> us (ms c) 0 = ULive ->
      fl_inner (cst c) = Some (S k) -> us (ms c) (S k) = ULive ->
      owed (ms c) 0 = 0 ->
      credit (ms c) 0 + owed (ms c) (S k) = 1 ->
      (forall i, i <> k -> owed (ms c) (S i) = 0) ->
      credit (ms c) 0 + npull (ms c) 0 = S (ndata (ms c) 0) ->
      In (S k) (ports (ms c)) -> In 0 (ports (ms c)) -> PPh c
  | QOver :
      AllDone (stack c) -> subd (ms c) 0 = true -> sk_over (sk (ms c) 0) = true ->
      (forall i, us (ms c) i <> USubd) -> (forall s, err_due (ms c) s = None) ->
      (forall i, us (ms c) i <> ULive) -> PPh c
  | QSubI k rest :
      stack c = (FlDone, CSub (S k)) :: rest -> AllDone rest ->
      subd (ms c) 0 = true -> sk (ms c) 0 = SLive ->
      (forall i, i <> S k -> us (ms c) i <> USubd) -> (forall s, err_due (ms c) s = None) ->
      us (ms c) 0 = ULive -> fl_outer (cst c) = true ->
      us (ms c) (S k) = USubd ->
      (forall i, us (ms c) (S i) <> ULive) ->
      credit (ms c) 0 = 0 -> (forall i, owed (ms c) i = 0) ->
      npull (ms c) 0 = S (ndata (ms c) 0) ->
      In (S k) (ports (ms c)) -> In 0 (ports (ms c)) -> PPh c
  | QErr e j rest :
      stack c = (FlThenErr e, CUp j UT) :: rest -> AllDone rest ->
      subd (ms c) 0 = true -> sk (ms c) 0 = SLive ->
      (forall i, us (ms c) i <> USubd) ->
      err_due (ms c) 0 = Some e -> (forall s, err_due (ms c) (S s) = None) ->
      existsb (Nat.eqb e) (errs_in (ms c)) = true ->
      us (ms c) j = UStopped ->
      (forall i, us (ms c) i <> ULive) -> PPh c
  | QDisp j rest :
      stack c = (FlThenOuter, CUp j UT) :: rest -> AllDone rest ->
      subd (ms c) 0 = true -> sk (ms c) 0 = SDisposed ->
      (forall i, us (ms c) i <> USubd) -> (forall s, err_due (ms c) s = None) ->
      us (ms c) j = UStopped ->
      (forall i, us (ms c) (S i) <> ULive) ->
      us (ms c) 0 = ULive -> fl_outer (cst c) = true -> PPh c.

  Record PInv (c : cfg o) : Prop := {
    q_viols : viols (ms c) = [];
    q_dead : dead c = false;
    q_sk_other : forall s, sk (ms c) (S s) = SNone;
    q_task : forall s, task (ms c) s = false;
    q_switch : forall k, us (ms c) (S k) = ULive -> fl_inner (cst c) = Some (S k);
    q_ph : PPh c;
  }.

  Lemma pinv0 : PInv (cfg0 o).
  Proof.
    constructor; cbn; auto; try discriminate.
    apply QInit; cbn; auto.
  Qed.

  (** ** What [enabled] adds in the pull regime *)

  Lemma en_up_credit (c : cfg o) s :
    enabled p gfl c (MIn (IUp s UP)) = true -> 0 < credit (ms c) s.
  Proof.
    intros He. start_in He Hlive Hdel Hg. cbn -[Nat.ltb] in He.
    apply andb_prop in He. destruct He as [_ Hu].
    rewrite Hone in Hu. cbn -[Nat.ltb] in Hu. now apply Nat.ltb_lt in Hu.
  Qed.

  Lemma en_dn_owed (c : cfg o) i d :
    d <> DH -> enabled p gfl c (MIn (IDn i d)) = true -> 0 < owed (ms c) i.
  Proof.
    intros Hd He. start_in He Hlive Hdel Hg. cbn -[Nat.ltb] in He.
    apply andb_prop in He. destruct He as [_ He].
    destruct d; try congruence; apply andb_prop in He; destruct He as [_ He];
      rewrite Hpullable in He; cbn -[Nat.ltb] in He; now apply Nat.ltb_lt in He.
  Qed.

  (** ** Settling an activation *)

  Lemma pquiet m :
    (sk_over (sk m 0) = true -> forall i, us m i <> ULive) ->
    (forall s, err_due m s = None) ->
    (sk m 0 = SLive -> (forall i, In i (ports m) -> owed m i = 0) -> npull m 0 = ndata m 0) ->
    check_quiescent p m = [].
  Proof.
    intros H1 H2 H3. apply quiescent_nil; auto.
    intros _ Hov i _. specialize (H1 Hov i). destruct (us m i); try reflexivity; congruence.
  Qed.

  Ltac dph Hph :=
    destruct Hph as [Hst' Hsd Hsk Hun Hdue Howd Hcr Hnp Hnd
                    | Hst' Hsd Hsk Hus0 Hun Hdue Hou Hin Howd Hcr Hnp Hnd Hp0
                    | Had Hsd Hsk Hns' Hdue Hou Hus0 Hin Hco Howi Hcn Hp0
                    | k0 Had Hsd Hsk Hns' Hdue Hou Hus0 Hin Husk How0 Hco Howi Hcn Hpk Hp0
                    | Had Hsd Hsk Hns' Hdue Hnl
                    | k0 rest0 Hst' Had Hsd Hsk Hns' Hdue Hus0 Hou Husk Hnl Hcr Howd Hnp Hpk Hp0
                    | e0 j rest0 Hst' Had Hsd Hsk Hns' Hdue0 Hdue Herr Husj Hnl
                    | j rest0 Hst' Had Hsd Hsk Hns' Hdue Husj Hnl Hus0 Hou ].

  (** pointwise goals about updated maps *)
  Ltac usolve :=
    intros; unfold upd in *;
    repeat match goal with
           | H : forall i, us ?m (S i) = ULive -> i = ?k, H' : us ?m (S ?i) = ULive |- _ =>
               tryif constr_eq i k then fail else (pose proof (H _ H'); subst i)
           | H : context [Nat.eqb ?a ?b] |- _ =>
               revert H; destruct (Nat.eqb_spec a b); intro H; try discriminate; subst
           | |- context [Nat.eqb ?a ?b] => destruct (Nat.eqb_spec a b); try discriminate; subst
           end;
    auto; try congruence; try lia; try solve [exfalso; eauto];
    try (match goal with
         | H : forall i, i <> ?k -> owed _ (S i) = 0 |- owed _ (S _) = 0 => apply H; congruence
         end).

  Ltac close :=
    auto;
    try solve [usolve | intros [|?]; usolve | intros [|?]; cbn; solve [auto] | eauto 7
              | cbn; tauto ].

  Ltac simp Hc Hm Hs Hd :=
    rewrite ?Hc, ?Hm, ?Hs, ?Hd; cbn -[Nat.ltb Nat.leb]; unfold due_on_error;
    repeat (rw_st; rw_cnt; solve_cmp; cbn -[Nat.ltb Nat.leb];
            rewrite ?Nat.eqb_refl, ?upd_same; cbn -[Nat.ltb Nat.leb]).

  (** run the handler of input [i]; [Ein], [Eou] are the values of the two cells *)
  Ltac run_in c i Hdead Hdel Ein Eou :=
    let s' := fresh "s'" in
    let os := fresh "os" in
    let a := fresh "a" in
    let Hh := fresh "Hh" in
    destruct (handle o i (cst c)) as [[s' os] a] eqn:Hh;
    destruct (step_in p c i Hdead Hdel Hh) as (Hc & Hs & Hm & Hd);
    cbn in Hh; unfold fl_then_outer in Hh;
    rewrite ?Ein in Hh; cbn in Hh; rewrite ?Eou in Hh; cbn in Hh;
    let E1 := fresh "E" in let E2 := fresh "E" in let E3 := fresh "E" in
    injection Hh as E1 E2 E3; subst s' os a; cbn in Hs.

  Ltac call_ok Hm :=
    rewrite settle_call in Hm
      by (cbn -[Nat.ltb Nat.leb]; unfold due_on_error;
          repeat (rw_st; rw_cnt; solve_cmp; cbn -[Nat.ltb Nat.leb];
                  rewrite ?Nat.eqb_refl, ?upd_same; cbn -[Nat.ltb Nat.leb]); reflexivity).

  Local Hint Resolve AllDone_cons AllDone_nil : core.

  Lemma pinv_sub (c : cfg o) s aux :
    PInv c -> enabled p gfl c (MIn (ISub s aux)) = true -> PInv (step p c (MIn (ISub s aux))).
  Proof.
    intros [Hv Hdead Hsko Htask Hsw Hph] He.
    pose proof (enabled_deliverable _ _ _ _ He) as Hdel.
    destruct (en_sub p Hns _ _ _ He) as (-> & -> & Hst & Hsd0).
    dph Hph; try congruence.
    destruct (step_in p c (ISub 0 0) Hdead Hdel eq_refl) as (Hc & Hs & Hm & Hd).
    rewrite settle_call in Hm by (cbn; rewrite Hun, Hresub, Hsk; reflexivity).
    constructor; simp Hc Hm Hs Hd; auto; try solve [usolve].
    apply QSub0; simp Hc Hm Hs Hd; auto; try solve [usolve].
    now rewrite Hst.
  Qed.

  Lemma pinv_up (c : cfg o) s u :
    PInv c -> enabled p gfl c (MIn (IUp s u)) = true -> PInv (step p c (MIn (IUp s u))).
  Proof.
    intros [Hv Hdead Hsko Htask Hsw Hph] He.
    pose proof (enabled_deliverable _ _ _ _ He) as Hdel.
    destruct (en_up _ _ _ _ He) as (Htop & Hsk0).
    destruct s as [|s]; [|rewrite Hsko in Hsk0; discriminate].
    assert (Hcred : u = UP -> 0 < credit (ms c) 0) by (intros ->; now apply en_up_credit).
    dph Hph; try congruence; try (rewrite Hsk0 in Hsk; discriminate);
      try (exfalso; eapply only_ret; eauto; fail).
    3: { unfold top_peer_is in Htop. rewrite Hst' in Htop. discriminate. }
    - (* no inner stored: the Pull goes to the outer *)
      assert (Hnl : forall i, us (ms c) (S i) <> ULive)
        by (intros i Hi; apply Hsw in Hi; congruence).
      destruct u as [|e|].
      + specialize (Hcred eq_refl).
        assert (Hcr : credit (ms c) 0 = 1) by lia.
        assert (How0 : owed (ms c) 0 = 0) by lia.
        assert (Hnp : npull (ms c) 0 = ndata (ms c) 0) by lia.
        clear Hco Hcn Hcred.
        run_in c (IUp 0 UP) Hdead Hdel Hin Hou. call_ok Hm.
        constructor; simp Hc Hm Hs Hd; close.
        apply QLiveN; simp Hc Hm Hs Hd; close.
      + run_in c (IUp 0 (UE e)) Hdead Hdel Hin Hou. call_ok Hm.
        constructor; simp Hc Hm Hs Hd; close.
        apply QOver; simp Hc Hm Hs Hd; close.
      + run_in c (IUp 0 UT) Hdead Hdel Hin Hou. call_ok Hm.
        constructor; simp Hc Hm Hs Hd; close.
        apply QOver; simp Hc Hm Hs Hd; close.
    - (* inner [S k0] stored: the Pull goes to it *)
      assert (Honly : forall i, us (ms c) (S i) = ULive -> i = k0)
        by (intros i Hi; apply Hsw in Hi; congruence).
      destruct u as [|e|].
      + specialize (Hcred eq_refl).
        assert (Hcr : credit (ms c) 0 = 1) by lia.
        assert (Howk : owed (ms c) (S k0) = 0) by lia.
        assert (Hnp : npull (ms c) 0 = ndata (ms c) 0) by lia.
        clear Hco Hcn Hcred.
        run_in c (IUp 0 UP) Hdead Hdel Hin Hou. call_ok Hm.
        constructor; simp Hc Hm Hs Hd; close.
        apply QLiveI with (k := k0); simp Hc Hm Hs Hd; close.
      + run_in c (IUp 0 (UE e)) Hdead Hdel Hin Hou. call_ok Hm.
        constructor; simp Hc Hm Hs Hd; close.
        apply QDisp with (j := S k0) (rest := stack c); simp Hc Hm Hs Hd; close.
      + run_in c (IUp 0 UT) Hdead Hdel Hin Hou. call_ok Hm.
        constructor; simp Hc Hm Hs Hd; close.
        apply QDisp with (j := S k0) (rest := stack c); simp Hc Hm Hs Hd; close.
  Qed.

  Lemma pinv_dn (c : cfg o) i d :
    PInv c -> enabled p gfl c (MIn (IDn i d)) = true -> PInv (step p c (MIn (IDn i d))).
  Proof.
    intros [Hv Hdead Hsko Htask Hsw Hph] He.
    pose proof (enabled_deliverable _ _ _ _ He) as Hdel.
    destruct d as [|v|e|].
    1: { (* a greeting *)
      destruct (en_dn_h p Hlate _ _ He) as (Hsub & f & rest & Hst).
      dph Hph; try congruence; try (exfalso; eapply Hns'; eauto; fail).
      + (* the outer greets: the sink is greeted and gets its first credit *)
        rewrite Hst in Hst'. inversion Hst'; subst i f rest. clear Hst'.
        run_in c (IDn 0 DH) Hdead Hdel Hin Hou. call_ok Hm.
        constructor; simp Hc Hm Hs Hd; close.
        apply QLiveN; simp Hc Hm Hs Hd; close.
        rewrite Hst. auto.
      + (* the new inner greets: store its talkback and pull it; the token in
           transit lands on its port *)
        rewrite Hst in Hst'. inversion Hst'; subst i f rest. clear Hst'.
        run_in c (IDn (S k0) DH) Hdead Hdel Hou Hou. call_ok Hm.
        constructor; simp Hc Hm Hs Hd; close.
        apply QLiveI with (k := k0); simp Hc Hm Hs Hd; close.
        rewrite Hst. auto. }
    (* Data, Error, Terminate: the sender is live and owes an answer *)
    all: match goal with
         | |- PInv (step _ _ (MIn (IDn _ ?d))) =>
             destruct (@en_dn p c i d ltac:(discriminate) He) as (Htop & Hlv & Hfresh);
             pose proof (@en_dn_owed c i d ltac:(discriminate) He) as Hpos
         end.
    all: dph Hph;
      try (rewrite Hun in Hlv; discriminate);
      try (destruct i; [congruence | rewrite Hun in Hlv; discriminate]);
      try (exfalso; eapply Hnl; eauto; fail);
      try (exfalso; eapply only_ret; eauto; fail);
      try (unfold top_peer_is in Htop; rewrite Hst' in Htop; cbn [peer_eqb peer_of] in Htop;
           apply Nat.eqb_eq in Htop; subst i; congruence).
    all: destruct i as [|k1];
      try (pose proof (Hsw _ Hlv); congruence);   (* no inner stored, yet an inner speaks *)
      try (exfalso; lia).                        (* an inner is stored, yet the outer speaks *)
    all: try (pose proof (Hsw _ Hlv) as Ein'; rewrite Hin in Ein'; injection Ein' as Ek; subst k1).
    - (* the outer answers the Pull with an inner source: subscribe it *)
      specialize (Hfresh v eq_refl eq_refl).
      assert (Hnl : forall i, us (ms c) (S i) <> ULive)
        by (intros i Hi; apply Hsw in Hi; congruence).
      assert (How0 : owed (ms c) 0 = 1) by lia.
      assert (Hcr : credit (ms c) 0 = 0) by lia.
      assert (Hnp : npull (ms c) 0 = S (ndata (ms c) 0)) by lia.
      clear Hco Hcn Hpos.
      run_in c (IDn 0 (DD v)) Hdead Hdel Hin Hou. call_ok Hm.
      constructor; simp Hc Hm Hs Hd; close.
      apply QSubI with (k := inner_id v) (rest := stack c); simp Hc Hm Hs Hd; close.
    - (* the stored inner answers the Pull with Data: relay *)
      assert (Honly : forall i, us (ms c) (S i) = ULive -> i = k0)
        by (intros i Hi; apply Hsw in Hi; congruence).
      assert (Howk : owed (ms c) (S k0) = 1) by lia.
      assert (Hcr : credit (ms c) 0 = 0) by lia.
      assert (Hnp : npull (ms c) 0 = S (ndata (ms c) 0)) by lia.
      clear Hco Hcn Hpos.
      run_in c (IDn (S k0) (DD v)) Hdead Hdel Hin Hin. call_ok Hm.
      constructor; simp Hc Hm Hs Hd; close.
      apply QLiveI with (k := k0); simp Hc Hm Hs Hd; close.
    - (* the outer fails (no inner stored) *)
      assert (Hnl : forall i, us (ms c) (S i) <> ULive)
        by (intros i Hi; apply Hsw in Hi; congruence).
      run_in c (IDn 0 (DE e)) Hdead Hdel Hin Hou. call_ok Hm.
      constructor; simp Hc Hm Hs Hd; close.
      apply QOver; simp Hc Hm Hs Hd; close.
    - (* the stored inner fails: stop the outer, then fail the sink *)
      assert (Honly : forall i, us (ms c) (S i) = ULive -> i = k0)
        by (intros i Hi; apply Hsw in Hi; congruence).
      run_in c (IDn (S k0) (DE e)) Hdead Hdel Hin Hou. call_ok Hm.
      constructor; simp Hc Hm Hs Hd; close.
      apply QErr with (e := e) (j := 0) (rest := stack c); simp Hc Hm Hs Hd; close.
    - (* the outer completes (no inner stored): complete the sink *)
      assert (Hnl : forall i, us (ms c) (S i) <> ULive)
        by (intros i Hi; apply Hsw in Hi; congruence).
      run_in c (IDn 0 DT) Hdead Hdel Hin Hou. call_ok Hm.
      constructor; simp Hc Hm Hs Hd; close.
      apply QOver; simp Hc Hm Hs Hd; close.
    - (* the stored inner answers the Pull with Terminate: the Pull is
         re-issued to the outer, the token moves to port 0 *)
      assert (Honly : forall i, us (ms c) (S i) = ULive -> i = k0)
        by (intros i Hi; apply Hsw in Hi; congruence).
      assert (Howk : owed (ms c) (S k0) = 1) by lia.
      assert (Hcr : credit (ms c) 0 = 0) by lia.
      assert (Hnp : npull (ms c) 0 = S (ndata (ms c) 0)) by lia.
      clear Hco Hcn Hpos.
      run_in c (IDn (S k0) DT) Hdead Hdel Hin Hou. call_ok Hm.
      constructor; simp Hc Hm Hs Hd; close.
      apply QLiveN; simp Hc Hm Hs Hd; close.
  Qed.

  Lemma pinv_ret (c : cfg o) : PInv c -> enabled p gfl c MRet = true -> PInv (step p c MRet).
  Proof.
    intros [Hv Hdead Hsko Htask Hsw Hph] He.
    destruct (en_ret p Hlate _ He) as (k & cl & rest & Hst & Hsub).
    dph Hph.
    - congruence.
    - rewrite Hst in Hst'. inversion Hst'; subst. exfalso. now apply (Hsub 0).
    - (* live, no inner stored: a finished activation returns.  If this is a
         quiescent point and nothing is owed on port 0, the sink holds the token *)
      rewrite Hst in Had. apply AllDone_inv in Had. destruct Had as [-> Had].
      destruct (step_ret p c Hdead Hst eq_refl) as (Hc & Hs & Hm & Hd).
      rewrite settle_ret in Hm.
      2: { apply pquiet; cbn; [rewrite Hsk; discriminate | exact Hdue |].
           intros _ Hall. specialize (Hall 0 Hp0). lia. }
      constructor; rewrite ?Hc, ?Hm, ?Hs, ?Hd; cbn; auto.
      apply QLiveN; rewrite ?Hc, ?Hm, ?Hs, ?Hd; cbn; auto.
    - (* live, inner [S k0] stored: likewise with port [S k0] *)
      rewrite Hst in Had. apply AllDone_inv in Had. destruct Had as [-> Had].
      destruct (step_ret p c Hdead Hst eq_refl) as (Hc & Hs & Hm & Hd).
      rewrite settle_ret in Hm.
      2: { apply pquiet; cbn; [rewrite Hsk; discriminate | exact Hdue |].
           intros _ Hall. specialize (Hall (S k0) Hpk). lia. }
      constructor; rewrite ?Hc, ?Hm, ?Hs, ?Hd; cbn; auto.
      apply QLiveI with (k := k0); rewrite ?Hc, ?Hm, ?Hs, ?Hd; cbn; auto.
    - (* over *)
      rewrite Hst in Had. apply AllDone_inv in Had. destruct Had as [-> Had].
      destruct (step_ret p c Hdead Hst eq_refl) as (Hc & Hs & Hm & Hd).
      rewrite settle_ret in Hm.
      2: { apply pquiet; cbn; auto. intros Hl. rewrite Hl in Hsk. discriminate. }
      constructor; rewrite ?Hc, ?Hm, ?Hs, ?Hd; cbn; auto.
      apply QOver; rewrite ?Hc, ?Hm, ?Hs, ?Hd; cbn; auto.
    - rewrite Hst in Hst'. inversion Hst'; subst. exfalso. now apply (Hsub (S k0)).
    - (* the other level has been told to stop: fail the sink *)
      rewrite Hst in Hst'. inversion Hst'; subst k cl rest0. clear Hst'.
      destruct (step_ret p c Hdead Hst eq_refl) as (Hc & Hs & Hm & Hd).
      rewrite settle_call in Hm by (cbn; rewrite Hsk, Hnonest, Herr; reflexivity).
      constructor; rewrite ?Hc, ?Hm, ?Hs, ?Hd; cbn; rewrite ?Hsk, ?Hdue0, ?Nat.eqb_refl; cbn; auto.
      apply QOver; rewrite ?Hc, ?Hm, ?Hs, ?Hd; cbn; rewrite ?Hsk, ?Hdue0, ?Nat.eqb_refl; cbn; auto.
      intros [|s]; [apply upd_same | rewrite upd_other by discriminate; apply Hdue].
    - (* the sink disposed, the inner has been told: now the outer *)
      rewrite Hst in Hst'. inversion Hst'; subst k cl rest0. clear Hst'.
      assert (Hr : resume o FlThenOuter (cst c) = (cst c, [], ACall (CUp 0 UT) FlDone)).
      { cbn. unfold fl_then_outer. now rewrite Hou. }
      destruct (step_ret p c Hdead Hst Hr) as (Hc & Hs & Hm & Hd).
      rewrite settle_call in Hm by (cbn; rewrite Hus0; reflexivity).
      constructor; rewrite ?Hc, ?Hm, ?Hs, ?Hd; cbn; auto.
      apply QOver; rewrite ?Hc, ?Hm, ?Hs, ?Hd; cbn; rewrite ?Hsk; auto.
      * intros i. unfold upd. destruct (Nat.eqb_spec i 0); [discriminate|]. apply Hns'.
      * intros [|i]; [rewrite upd_same; discriminate | rewrite upd_other by discriminate; apply Hnl].
  Qed.

  Lemma pinv_step (c : cfg o) m : PInv c -> enabled p gfl c m = true -> PInv (step p c m).
  Proof.
    intros HI He. destruct m as [[s aux|s u|i d|s]|].
    - now apply pinv_sub.
    - now apply pinv_up.
    - now apply pinv_dn.
    - exfalso. destruct HI as [_ _ _ Htask _ _]. unfold enabled in He.
      repeat (apply andb_prop in He; destruct He as [? He]).
      cbn in He. now rewrite Htask in He.
    - now apply pinv_ret.
  Qed.

  Theorem pinv_reach (c : cfg o) : reach p gfl c -> PInv c.
  Proof. induction 1; [apply pinv0 | now apply pinv_step]. Qed.

  (** ** The conservation law the invariant establishes.

      While the sink and the outer are live there is exactly one token:
      [credit 0 + npull 0 = 1 + ndata 0] (the sink holds the credit iff every
      Pull it sent has been answered) and the run is in one of three shapes. *)
  Theorem pull_counts_sec (c : cfg o) :
    reach p gfl c -> sk (ms c) 0 = SLive -> us (ms c) 0 = ULive ->
    credit (ms c) 0 + npull (ms c) 0 = S (ndata (ms c) 0) /\
    In 0 (ports (ms c)) /\
    ((* no inner stored: the token is with the sink or with the outer *)
     (fl_inner (cst c) = None /\
      (forall i, us (ms c) (S i) <> ULive /\ us (ms c) (S i) <> USubd) /\
      credit (ms c) 0 + owed (ms c) 0 = 1 /\ (forall i, owed (ms c) (S i) = 0))
     \/
     (* inner [S k] stored and live: the token is with the sink or with it *)
     (exists k, fl_inner (cst c) = Some (S k) /\ us (ms c) (S k) = ULive /\
                (forall i, i <> k -> us (ms c) (S i) <> ULive /\ us (ms c) (S i) <> USubd) /\
                In (S k) (ports (ms c)) /\ owed (ms c) 0 = 0 /\
                credit (ms c) 0 + owed (ms c) (S k) = 1 /\
                (forall i, i <> k -> owed (ms c) (S i) = 0))
     \/
     (* inner [S k] subscribed, its greeting is the only enabled move: the
        token is in transit (the greeting handler pulls [S k]) *)
     (exists k rest, stack c = (FlDone, CSub (S k)) :: rest /\ us (ms c) (S k) = USubd /\
                     (forall i, us (ms c) (S i) <> ULive) /\
                     (forall i, i <> k -> us (ms c) (S i) <> USubd) /\
                     In (S k) (ports (ms c)) /\ credit (ms c) 0 = 0 /\
                     (forall i, owed (ms c) i = 0))).
  Proof.
    intros Hr Hlive Hl0. destruct (pinv_reach Hr) as [_ _ _ _ Hsw Hph].
    dph Hph; try congruence.
    - (* QLiveN *)
      split; [exact Hcn|]. split; [exact Hp0|]. left.
      split; [exact Hin|]. split; [|split; [exact Hco | exact Howi]].
      intros i. split; [|apply Hns']. intros Hi. apply Hsw in Hi. congruence.
    - (* QLiveI *)
      split; [exact Hcn|]. split; [exact Hp0|]. right. left. exists k0.
      repeat (split; [assumption|]). split; [|auto 6].
      intros i Hne. split; [|apply Hns']. intros Hi. apply Hsw in Hi. congruence.
    - (* QSubI *)
      split; [lia|]. split; [exact Hp0|]. right. right. exists k0, rest0.
      repeat (split; [assumption|]). split; [|auto].
      intros i Hne. apply Hns'. congruence.
  Qed.

  (** at most one port is owed anything, and at most one answer; the port that
      owes is live and subscribed, and then the sink holds no credit *)
  Corollary pull_token_sec (c : cfg o) :
    reach p gfl c -> sk (ms c) 0 = SLive -> us (ms c) 0 = ULive ->
    credit (ms c) 0 <= 1 /\
    (forall i, owed (ms c) i <= 1) /\
    (forall i j, 0 < owed (ms c) i -> 0 < owed (ms c) j -> i = j) /\
    (forall i, 0 < owed (ms c) i ->
       us (ms c) i = ULive /\ In i (ports (ms c)) /\ credit (ms c) 0 = 0 /\
       npull (ms c) 0 = S (ndata (ms c) 0)) /\
    (0 < credit (ms c) 0 -> npull (ms c) 0 = ndata (ms c) 0 /\ forall i, owed (ms c) i = 0).
  Proof.
    intros Hr Hlive Hl0.
    destruct (pull_counts_sec Hr Hlive Hl0) as (Hcn & Hp0 & [HA | [HB | HC]]).
    - destruct HA as (Hin & Hus & Hco & Howi).
      assert (Hz : forall i, 0 < owed (ms c) i -> i = 0).
      { intros [|i] Hi; [reflexivity|]. rewrite Howi in Hi. lia. }
      split; [lia|]. split; [|split; [|split]].
      + intros [|i]; [lia | rewrite Howi; lia].
      + intros i j Hi Hj. rewrite (Hz i Hi), (Hz j Hj). reflexivity.
      + intros i Hi. pose proof (Hz i Hi). subst i. repeat split; auto; lia.
      + intros Hc. split; [lia|]. intros [|i]; [lia | apply Howi].
    - destruct HB as (k & Hin & Husk & Hus & Hpk & How0 & Hco & Howi).
      assert (Hz : forall i, 0 < owed (ms c) i -> i = S k).
      { intros [|i] Hi; [lia|]. destruct (Nat.eq_dec i k) as [->|Hne]; [reflexivity|].
        rewrite (Howi i Hne) in Hi. lia. }
      split; [lia|]. split; [|split; [|split]].
      + intros [|i]; [lia|]. destruct (Nat.eq_dec i k) as [->|Hne]; [lia | rewrite Howi; auto].
      + intros i j Hi Hj. rewrite (Hz i Hi), (Hz j Hj). reflexivity.
      + intros i Hi. pose proof (Hz i Hi). subst i. repeat split; auto; lia.
      + intros Hc. split; [lia|]. intros [|i]; [lia|].
        destruct (Nat.eq_dec i k) as [->|Hne]; [lia | auto].
    - destruct HC as (k & rest & Hst & Husk & Hnl & Hns' & Hpk & Hcr & Howd).
      split; [lia|]. split; [|split; [|split]].
      + intros i. rewrite Howd. lia.
      + intros i j Hi. rewrite Howd in Hi. lia.
      + intros i Hi. rewrite Howd in Hi. lia.
      + intros Hc. lia.
  Qed.

  (** at a quiescent point with a live sink every Pull has been answered, or
      the one unanswered Pull is owed by a live, subscribed upstream (which
      answers it without further prompting from the sink) *)
  Corollary pull_quiescent_sec (c : cfg o) :
    reach p gfl c -> stack c = [] -> sk (ms c) 0 = SLive ->
    us (ms c) 0 = ULive /\
    ((credit (ms c) 0 = 1 /\ npull (ms c) 0 = ndata (ms c) 0 /\ forall i, owed (ms c) i = 0) \/
     (credit (ms c) 0 = 0 /\ npull (ms c) 0 = S (ndata (ms c) 0) /\
      exists i, In i (ports (ms c)) /\ us (ms c) i = ULive /\ owed (ms c) i = 1 /\
                forall j, j <> i -> owed (ms c) j = 0)).
  Proof.
    intros Hr Hst Hlive.
    assert (Hl0 : us (ms c) 0 = ULive).
    { destruct (pinv_reach Hr) as [_ _ _ _ _ Hph]. dph Hph; try congruence.
      rewrite Hlive in Hsk. discriminate. }
    split; [exact Hl0|].
    destruct (pull_counts_sec Hr Hlive Hl0) as (Hcn & Hp0 & [HA | [HB | HC]]).
    - destruct HA as (Hin & Hus & Hco & Howi).
      destruct (credit (ms c) 0) as [|[|n]] eqn:Ec; [right | left | lia].
      + split; [reflexivity|]. split; [lia|]. exists 0.
        repeat split; auto; try lia. intros [|j] Hj; [congruence | apply Howi].
      + split; [reflexivity|]. split; [lia|]. intros [|i]; [lia | apply Howi].
    - destruct HB as (k & Hin & Husk & Hus & Hpk & How0 & Hco & Howi).
      destruct (credit (ms c) 0) as [|[|n]] eqn:Ec; [right | left | lia].
      + split; [reflexivity|]. split; [lia|]. exists (S k).
        repeat split; auto; try lia. intros [|j] Hj; [exact How0 | apply Howi; congruence].
      + split; [reflexivity|]. split; [lia|]. intros [|i]; [lia|].
        destruct (Nat.eq_dec i k) as [->|Hne]; [lia | auto].
    - destruct HC as (k & rest & Hst' & _). congruence.
  Qed.

End FlattenPull.

(** * Exported theorems *)

(** C14 for flatten (together with C01-C05, C17): in the pull regime no
    violation at all is reported in any reachable configuration - in particular
    never [VOverData] (the sink gets at most as many Data as it sent Pulls),
    never [VOverPull] (no second outstanding Pull to the outer or to an inner)
    and never [VUnanswered] (at a quiescent point a Pull without answer is owed
    by a subscribed upstream) - and there is no panic. *)
Theorem flatten_safe_pull p :
  nsinks p = 1 -> resub p = false -> no_nest p = false ->
  c14 p = true -> pullable p = true -> one_pull p = true -> late_ok p = false ->
  forall c : cfg flatten_op, reach p g_flatten c -> viols (ms c) = [] /\ dead c = false.
Proof.
  intros H1 H2 H3 H4 H5 H6 H7 c Hr.
  destruct (pinv_reach H1 H2 H3 H4 H5 H6 H7 Hr). split; assumption.
Qed.
Print Assumptions flatten_safe_pull.

(** the conservation law: while the sink and the outer are live,
    [credit 0 + npull 0 = 1 + ndata 0], and
    - no inner is stored, no inner is live or half-subscribed, and
      [credit 0 + owed 0 = 1], inners owe nothing; or
    - inner [S k] is stored and live, it is the only inner that is, and
      [credit 0 + owed (S k) = 1], the outer and the other inners owe nothing; or
    - inner [S k] has just been subscribed (top of the stack) and only its
      greeting is enabled: nobody owes, the sink has no credit (the greeting
      handler pulls [S k] in the same activation). *)
Theorem flatten_pull_counts p :
  nsinks p = 1 -> resub p = false -> no_nest p = false ->
  c14 p = true -> pullable p = true -> one_pull p = true -> late_ok p = false ->
  forall c : cfg flatten_op, reach p g_flatten c ->
    sk (ms c) 0 = SLive -> us (ms c) 0 = ULive ->
    credit (ms c) 0 + npull (ms c) 0 = S (ndata (ms c) 0) /\
    In 0 (ports (ms c)) /\
    ((fl_inner (cst c) = None /\
      (forall i, us (ms c) (S i) <> ULive /\ us (ms c) (S i) <> USubd) /\
      credit (ms c) 0 + owed (ms c) 0 = 1 /\ (forall i, owed (ms c) (S i) = 0))
     \/
     (exists k, fl_inner (cst c) = Some (S k) /\ us (ms c) (S k) = ULive /\
                (forall i, i <> k -> us (ms c) (S i) <> ULive /\ us (ms c) (S i) <> USubd) /\
                In (S k) (ports (ms c)) /\ owed (ms c) 0 = 0 /\
                credit (ms c) 0 + owed (ms c) (S k) = 1 /\
                (forall i, i <> k -> owed (ms c) (S i) = 0))
     \/
     (exists k rest, stack c = (FlDone, CSub (S k)) :: rest /\ us (ms c) (S k) = USubd /\
                     (forall i, us (ms c) (S i) <> ULive) /\
                     (forall i, i <> k -> us (ms c) (S i) <> USubd) /\
                     In (S k) (ports (ms c)) /\ credit (ms c) 0 = 0 /\
                     (forall i, owed (ms c) i = 0))).
Proof.
  intros H1 H2 H3 H4 H5 H6 H7 c Hr. exact (pull_counts_sec H1 H2 H3 H4 H5 H6 H7 Hr).
Qed.
Print Assumptions flatten_pull_counts.

(** one token: at most one port is owed an answer, and only one; it is live
    and subscribed and the sink then holds no credit; if the sink holds the
    credit every Pull has been answered and nothing is owed *)
Theorem flatten_pull_token p :
  nsinks p = 1 -> resub p = false -> no_nest p = false ->
  c14 p = true -> pullable p = true -> one_pull p = true -> late_ok p = false ->
  forall c : cfg flatten_op, reach p g_flatten c ->
    sk (ms c) 0 = SLive -> us (ms c) 0 = ULive ->
    credit (ms c) 0 <= 1 /\
    (forall i, owed (ms c) i <= 1) /\
    (forall i j, 0 < owed (ms c) i -> 0 < owed (ms c) j -> i = j) /\
    (forall i, 0 < owed (ms c) i ->
       us (ms c) i = ULive /\ In i (ports (ms c)) /\ credit (ms c) 0 = 0 /\
       npull (ms c) 0 = S (ndata (ms c) 0)) /\
    (0 < credit (ms c) 0 -> npull (ms c) 0 = ndata (ms c) 0 /\ forall i, owed (ms c) i = 0).
Proof.
  intros H1 H2 H3 H4 H5 H6 H7 c Hr. exact (pull_token_sec H1 H2 H3 H4 H5 H6 H7 Hr).
Qed.
Print Assumptions flatten_pull_token.

(** at a quiescent point with a live sink (then the outer is live too): every
    Pull has been answered, or the single unanswered one is owed by exactly
    one live subscribed upstream *)
Theorem flatten_pull_quiescent p :
  nsinks p = 1 -> resub p = false -> no_nest p = false ->
  c14 p = true -> pullable p = true -> one_pull p = true -> late_ok p = false ->
  forall c : cfg flatten_op, reach p g_flatten c -> stack c = [] -> sk (ms c) 0 = SLive ->
    us (ms c) 0 = ULive /\
    ((credit (ms c) 0 = 1 /\ npull (ms c) 0 = ndata (ms c) 0 /\ forall i, owed (ms c) i = 0) \/
     (credit (ms c) 0 = 0 /\ npull (ms c) 0 = S (ndata (ms c) 0) /\
      exists i, In i (ports (ms c)) /\ us (ms c) i = ULive /\ owed (ms c) i = 1 /\
                forall j, j <> i -> owed (ms c) j = 0)).
Proof.
  intros H1 H2 H3 H4 H5 H6 H7 c Hr. exact (pull_quiescent_sec H1 H2 H3 H4 H5 H6 H7 Hr).
Qed.
Print Assumptions flatten_pull_quiescent.

(** * Non-vacuity: conformant scripts of the pull regime *)
Definition fl_p_pull : mparams :=
  {| nsinks := 1; late_ok := false; pullable := true; one_pull := true;
     resub := false; no_nest := false; c14 := true |}.

(** Everything re-entrant, one single activation tree: the sink pulls from
    inside its greeting; the outer answers that Pull synchronously with inner
    1 (port 2), which greets inside its subscription and is pulled at once;
    it answers synchronously with Data 10; the sink pulls from inside its data
    handler; the inner answers with Terminate, so the outer is pulled again
    (from inside the inner's Terminate); it answers with inner 2 (port 3):
    Data 20, Pull, Terminate; the outer is pulled a third time and answers
    with Terminate: the sink is completed; 14 pending calls unwind. *)
Definition fl_nested_script : list move :=
  [MIn (ISub 0 0); MIn (IDn 0 DH); MIn (IUp 0 UP);
   MIn (IDn 0 (DD (VN 1))); MIn (IDn 2 DH); MIn (IDn 2 (DD (VN 10))); MIn (IUp 0 UP);
   MIn (IDn 2 DT);
   MIn (IDn 0 (DD (VN 2))); MIn (IDn 3 DH); MIn (IDn 3 (DD (VN 20))); MIn (IUp 0 UP);
   MIn (IDn 3 DT);
   MIn (IDn 0 DT);
   MRet; MRet; MRet; MRet; MRet; MRet; MRet; MRet; MRet; MRet; MRet; MRet; MRet; MRet].

Example flatten_pull_nested :
  all_enabled fl_p_pull g_flatten (cfg0 flatten_op) fl_nested_script = true /\
  let c := run fl_p_pull flatten_op fl_nested_script in
  stack c = [] /\ sk (ms c) 0 = SFinished /\
  data_out 0 (trace c) = [VN 10; VN 20] /\ npull (ms c) 0 = 3 /\ ndata (ms c) 0 = 2 /\
  ports (ms c) = [3; 2; 0] /\ viols (ms c) = [] /\ dead c = false.
Proof. vm_compute. repeat split. Qed.

(** The same traffic with every activation returning before the next message
    (all peers asynchronous): five quiescent points with a live sink and an
    unanswered Pull, owed in turn by the outer, inner 1, inner 1 (second
    Pull), the outer again (re-issued when inner 1 completed) and inner 2 -
    [VUnanswered] does not fire; the script stops at such a point. *)
Definition fl_flat_script : list move :=
  [MIn (ISub 0 0); MIn (IDn 0 DH); MRet; MRet;
   MIn (IUp 0 UP); MRet;                                   (* owed by the outer *)
   MIn (IDn 0 (DD (VN 1))); MIn (IDn 2 DH); MRet; MRet;    (* owed by inner 1 *)
   MIn (IDn 2 (DD (VN 10))); MRet;                         (* answered *)
   MIn (IUp 0 UP); MRet;                                   (* owed by inner 1 *)
   MIn (IDn 2 DT); MRet;                                   (* owed by the outer *)
   MIn (IDn 0 (DD (VN 2))); MIn (IDn 3 DH); MRet; MRet].   (* owed by inner 2 *)

Example flatten_pull_flat :
  all_enabled fl_p_pull g_flatten (cfg0 flatten_op) fl_flat_script = true /\
  let c := run fl_p_pull flatten_op fl_flat_script in
  stack c = [] /\ sk (ms c) 0 = SLive /\ fl_inner (cst c) = Some 3 /\
  data_out 0 (trace c) = [VN 10] /\ npull (ms c) 0 = 2 /\ ndata (ms c) 0 = 1 /\
  credit (ms c) 0 = 0 /\ owed (ms c) 0 = 0 /\ owed (ms c) 2 = 0 /\ owed (ms c) 3 = 1 /\
  viols (ms c) = [] /\ dead c = false.
Proof. vm_compute. repeat split. Qed.

(** The sink disposes from inside its data handler while holding the credit:
    the stored inner, then the outer are told to stop; nothing is left live. *)
Definition fl_dispose_script : list move :=
  [MIn (ISub 0 0); MIn (IDn 0 DH); MIn (IUp 0 UP);
   MIn (IDn 0 (DD (VN 7))); MIn (IDn 8 DH); MIn (IDn 8 (DD (VN 70)));
   MIn (IUp 0 UT); MRet; MRet;
   MRet; MRet; MRet; MRet; MRet; MRet].

Example flatten_pull_dispose :
  all_enabled fl_p_pull g_flatten (cfg0 flatten_op) fl_dispose_script = true /\
  let c := run fl_p_pull flatten_op fl_dispose_script in
  stack c = [] /\ sk (ms c) 0 = SDisposed /\ us (ms c) 0 = UStopped /\ us (ms c) 8 = UStopped /\
  data_out 0 (trace c) = [VN 70] /\ npull (ms c) 0 = 1 /\ ndata (ms c) 0 = 1 /\
  viols (ms c) = [] /\ dead c = false.
Proof. vm_compute. repeat split. Qed.
