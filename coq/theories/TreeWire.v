(** * TreeWire: along every edge of an operator tree, what the parent receives on the wired port is
      what the child sent to its sink, in order (one datum may be in flight). *)

From CB Require Import ProofLib Spec Chain Tree.

Set Implicit Arguments.

Definition in_of_k (k : nat) (m : move) : list val :=
  match m with MIn (IDn k' (DD v)) => if k =? k' then [v] else [] | _ => [] end.

Lemma data_in_ext_k k tr m os fin :
  (forall i, fin <> EIn i) ->
  data_in k (tr ++ move_event m :: map EObs os ++ [fin]) = data_in k tr ++ in_of_k k m.
Proof.
  intros Hfin. rewrite data_in_app. f_equal.
  change (move_event m :: map EObs os ++ [fin]) with ([move_event m] ++ map EObs os ++ [fin]).
  rewrite !data_in_app, data_in_obs.
  assert (E : data_in k [fin] = []).
  { destruct fin as [j| | | | |]; try reflexivity. exfalso. exact (Hfin j eq_refl). }
  rewrite E, !app_nil_r.
  destruct m as [[s a|s u|i [|v| |]|s]|]; reflexivity.
Qed.

Definition tinflight (pd : pending) (P k : nat) : list val :=
  match pd with
  | PTo t (IDn k' (DD v)) => if (t =? P) && (k' =? k) then [v] else []
  | _ => []
  end.

Section TreeWire.
  Variable w : wiring.

  Definition twire_ok (ns : list node) (pd : pending) : Prop :=
    forall c P k U D, par w c = Some (P, k) -> nth_error ns c = Some U -> nth_error ns P = Some D ->
      data_out 0 (ntrace U) = data_in k (ntrace D) ++ tinflight pd P k.

  Variable len : nat.
  Hypothesis Hw : wiring_ok w len.

  Lemma tafter_step_wire (ns : list node) G1 pd_old pd0 x n m :
    nth_error ns x = Some n ->
    nenabled n m = true ->
    twire_ok ns pd_old ->
    (forall t k, t <> x -> tinflight pd_old t k = []) ->
    (forall k c, kid w x k = Some c -> tinflight pd_old x k = in_of_k k m) ->
    let N' := tafter_step w (mk_tnet ns G1 pd0) x (nstep n m) in
    twire_ok (tnodes N') (tpend N').
  Proof.
    intros Hn He Hwr Hoth Hx N'.
    destruct (step_trace_shape _ _ _ _ He) as (os & fin & Htr & Hl & Hfin).
    set (n' := nstep n m) in *.
    change (trace (step (npar n) (ncfg n) m)) with (ntrace n') in Htr.
    change (trace (ncfg n)) with (ntrace n) in Htr.
    change (hd_error (rtrace (step (npar n) (ncfg n) m))) with (nlast n') in Hl.
    assert (Hout : data_out 0 (ntrace n') = data_out 0 (ntrace n) ++ out_of fin)
      by (rewrite Htr; apply data_out_ext).
    assert (Hin : forall k, data_in k (ntrace n') = data_in k (ntrace n) ++ in_of_k k m)
      by (intros k; rewrite Htr; apply data_in_ext_k; exact Hfin).
    set (ns' := set_nth x n' ns).
    assert (Hx' : nth_error ns' x = Some n') by (eapply nth_set_same; eauto).
    assert (Ho' : forall j, j <> x -> nth_error ns' j = nth_error ns j)
      by (intros j Hj; apply nth_set_other; congruence).
    assert (Hnodes : tnodes N' = ns').
    { unfold N', tafter_step. cbn [tnodes tgst]. fold n'. fold ns'. rewrite Hl.
      destruct fin as [|cl| | | |]; try reflexivity.
      - destruct (troute w x cl); reflexivity.
      - destruct G1 as [|[j [|k|]] G1']; reflexivity. }
    (* the in-flight datum of the new pending transfer *)
    assert (Hinf : forall P k, tinflight (tpend N') P k =
              match par w x with
              | Some (P0, k0) => if (P0 =? P) && (k0 =? k) then out_of fin else []
              | None => []
              end).
    { intros P k. unfold N', tafter_step. cbn [tnodes tgst]. fold n'. rewrite Hl.
      destruct fin as [|cl| | | |]; cbn [tpend tinflight out_of];
        try (destruct (par w x) as [[P0 k0]|]; [destruct ((P0 =? P) && (k0 =? k))|]; reflexivity).
      - destruct cl as [j|j u|[|s] d]; cbn [troute].
        + destruct (kid w x j); cbn [tpend tinflight txlate out_of];
            destruct (par w x) as [[P0 k0]|]; try destruct ((P0 =? P) && (k0 =? k)); reflexivity.
        + destruct (kid w x j); cbn [tpend tinflight txlate out_of];
            destruct (par w x) as [[P0 k0]|]; try destruct ((P0 =? P) && (k0 =? k)); reflexivity.
        + destruct (par w x) as [[P0 k0]|] eqn:Ep; cbn [tpend tinflight txlate towner out_of].
          * rewrite Ep. destruct d as [|v| |]; cbn [tinflight out_of];
              destruct ((P0 =? P) && (k0 =? k)); reflexivity.
          * reflexivity.
        + cbn [tpend tinflight out_of].
          destruct (par w x) as [[P0 k0]|]; [destruct ((P0 =? P) && (k0 =? k))|]; reflexivity.
      - destruct G1 as [|[j [|k1|]] G1']; cbn [tpend tinflight];
          destruct (par w x) as [[P0 k0]|]; try destruct ((P0 =? P) && (k0 =? k)); reflexivity. }
    rewrite Hnodes. intros c P k U' D' Hp HU HD. rewrite Hinf.
    destruct Hw as [Hbij Hlt]. destruct (Hlt _ _ _ Hp) as [Hcp _].
    destruct (Nat.eq_dec c x) as [->|Hcx].
    - (* the child side of the edge stepped *)
      rewrite Hx' in HU. inversion HU; subst U'. rewrite Ho' in HD by lia.
      rewrite Hp, !Nat.eqb_refl. cbn [andb].
      rewrite Hout, (Hwr x P k n D' Hp Hn HD), (Hoth P k) by lia. now rewrite app_nil_r.
    - destruct (Nat.eq_dec P x) as [->|Hpx].
      + (* the parent side stepped *)
        rewrite Hx' in HD. inversion HD; subst D'. rewrite Ho' in HU by exact Hcx.
        assert (Hno : match par w x with
                      | Some (P0, k0) => if (P0 =? x) && (k0 =? k) then out_of fin else []
                      | None => []
                      end = []).
        { destruct (par w x) as [[P0 k0]|] eqn:Ep; [|reflexivity].
          destruct (Hlt _ _ _ Ep). replace (P0 =? x) with false by (symmetry; apply Nat.eqb_neq; lia).
          reflexivity. }
        rewrite Hno, app_nil_r, Hin, (Hwr c x k U' n Hp HU Hn).
        rewrite (Hx k c); [reflexivity|]. now apply Hbij.
      + rewrite Ho' in HU, HD by assumption.
        assert (Hno : match par w x with
                      | Some (P0, k0) => if (P0 =? P) && (k0 =? k) then out_of fin else []
                      | None => []
                      end = []).
        { destruct (par w x) as [[P0 k0]|] eqn:Ep; [|reflexivity].
          destruct ((P0 =? P) && (k0 =? k)) eqn:E; [|reflexivity]. exfalso.
          apply andb_prop in E. destruct E as [E1 E2]. apply Nat.eqb_eq in E1, E2. subst P0 k0.
          apply Hcx. apply Hbij in Ep. apply Hbij in Hp. congruence. }
        rewrite Hno, (Hwr c P k U' D' Hp HU HD), (Hoth P k) by exact Hpx. reflexivity.
  Qed.
End TreeWire.

Section TreeWireSound.
  Variable w : wiring.
  Variable sigs : list sig3.
  Hypothesis Hw : wiring_ok w (length sigs).
  Hypothesis Hsafe : forall s, In s sigs -> safe_sig s.
  Hypothesis Hreg : forall s, In s sigs -> tregime_ok s.
  Hypothesis Hsync : forall c P k sc sp,
    par w c = Some (P, k) -> nth_error sigs c = Some sc -> nth_error sigs P = Some sp ->
    late_ok (snd (fst sp)) = true \/ greets_sync_sig sc.

  Lemma tnet_step_wire N mv :
    TInv w sigs N -> tnet_enabled w N mv = true ->
    twire_ok w (tnodes N) (tpend N) -> twire_ok w (tnodes (tnet_step w N mv)) (tpend (tnet_step w N mv)).
  Proof.
    destruct N as [ns G pd]. intros (Hnodes & Hst & Hwf & Hpend & Hlk) He Hwr.
    cbn [tnodes tgst tpend] in *. unfold tnet_enabled, tnet_step in *. cbn [tnodes tgst tpend] in *.
    destruct mv as [x m|]; destruct pd as [|t inp|j]; try discriminate.
    - destruct (nth_error ns x) as [n|] eqn:Hn; [|discriminate].
      apply andb_prop in He. destruct He as [Hen He].
      destruct m as [inp|].
      + apply andb_prop in He. destruct He as [Hext _].
        apply (@tafter_step_wire w (length sigs) Hw ns G PIdle PIdle x n (MIn inp)); auto.
        intros k c Hk. cbn. destruct inp as [s a|s u|i [|v| |]|s]; try reflexivity.
        destruct (Nat.eqb_spec k i) as [->|]; [|reflexivity].
        unfold text_input_ok in Hext. rewrite Hk in Hext. discriminate.
      + apply (@tafter_step_wire w (length sigs) Hw ns (tl G) PIdle PIdle x n MRet); auto.
    - destruct Hpend as [_ (n & Hn & Hen)]. rewrite Hn.
      apply (@tafter_step_wire w (length sigs) Hw ns G (PTo t inp) (PTo t inp) t n (MIn inp)); auto.
      + intros t' k Ht. cbn. destruct inp as [s a|s u|i [|v| |]|s]; try reflexivity.
        destruct (Nat.eqb_spec t t'); [congruence|reflexivity].
      + intros k c _. cbn. destruct inp as [s a|s u|i [|v| |]|s]; try reflexivity.
        rewrite Nat.eqb_refl. cbn. rewrite (Nat.eqb_sym k i). reflexivity.
    - destruct Hpend as (k & Hhd & Hk).
      destruct G as [|e G']; [discriminate|]. cbn in Hhd. inversion Hhd; subst e.
      assert (Hj : j < length sigs) by (destruct Hwf as ((Hko & _) & _); exact Hko).
      destruct Hnodes as [Hsig Hnd].
      destruct (nth_error ns j) as [n|] eqn:Hn.
      2: { apply nth_error_None in Hn. rewrite <- Hsig, map_length in Hj. lia. }
      pose proof (@tret_enabled w sigs Hw Hsafe Hreg Hsync ns G' j k n (PRet j) (conj Hsig Hnd) Hst Hwf Hlk
                    (fun _ _ => eq_refl) Hk Hn) as Hen.
      apply (@tafter_step_wire w (length sigs) Hw ns G' (PRet j) PIdle j n MRet); auto.
  Qed.

  Theorem tree_wire ns N :
    map nsig ns = sigs -> (forall n, In n ns -> ninit n) ->
    tnet_reach w (tnet0 ns) N -> twire_ok w (tnodes N) (tpend N).
  Proof.
    intros Hsig Hinit Hr. induction Hr as [|N mv Hr IH He].
    - intros c P k U D _ HU HD. unfold tnet0 in *. cbn [tnodes tpend tinflight] in *.
      unfold ntrace. rewrite (Hinit U (nth_error_In _ _ HU)), (Hinit D (nth_error_In _ _ HD)).
      reflexivity.
    - apply tnet_step_wire; [|exact He|exact IH].
      exact (tree_inv Hw Hsafe Hreg Hsync Hsig Hinit Hr).
  Qed.
End TreeWireSound.

Print Assumptions tree_wire.
