(** * Inv_interval: the master invariant of interval (one subscription, the
      virtual clock is the environment's [ITick]; the nursery may refuse the
      task: [ISub 0 aux] with [aux <> 0]) *)
From CB Require Import ProofLib Spec.

Set Implicit Arguments.

(** the calls the component made, in order *)
Fixpoint calls (tr : list event) : list call :=
  match tr with
  | [] => []
  | ECall c :: tr' => c :: calls tr'
  | _ :: tr' => calls tr'
  end.

Lemma calls_app tr1 tr2 : calls (tr1 ++ tr2) = calls tr1 ++ calls tr2.
Proof.
  induction tr1 as [|e tr1 IH]; cbn; [reflexivity|].
  destruct e; cbn; try exact IH. now rewrite IH.
Qed.

(** every guard: the nursery may accept or refuse *)
Definition g_any (m : mstate) (i : input) : bool := true.

Section IntervalInv.
  Variable p : mparams.
  Hypothesis Hns : nsinks p = 1.
  Hypothesis Hresub : resub p = false.
  Hypothesis Hnonest : no_nest p = false.
  Hypothesis Hc14 : c14 p = false.
  Let o := interval_op.

  (** the life of the subscription: (subd 0, sk 0, task 0, refused 0) and the cells *)
  Definition phase (m : mstate) (st : iv_st) : Prop :=
    (* not subscribed *)
    (subd m 0 = false /\ sk m 0 = SNone /\ task m 0 = false /\ refused m 0 = None /\
     ndata m 0 = 0) \/
    (* running: the task is asleep (or inside its delivery), the sink is live *)
    (subd m 0 = true /\ sk m 0 = SLive /\ task m 0 = true /\ refused m 0 = None /\
     iv_cleared st = false) \/
    (* the sink disposed: the flag is set, the task leaves at its next expiry *)
    (subd m 0 = true /\ sk m 0 = SDisposed /\ refused m 0 = None /\ iv_cleared st = true) \/
    (* the nursery refused: the sink got the one Error, there is no task *)
    (subd m 0 = true /\ sk m 0 = SFinished /\ task m 0 = false /\ ndata m 0 = 0 /\
     exists e, refused m 0 = Some e).

  Record Inv (c : cfg o) : Prop := {
    i_viols : viols (ms c) = [];
    i_dead : dead c = false;
    i_phase : phase (ms c) (cst c);
    i_nd : iv_i (cst c) = ndata (ms c) 0;
    i_us : forall i, us (ms c) i = UNone;               (* there is no upstream *)
    i_ports : ports (ms c) = [];
    i_due : forall s, err_due (ms c) s = None;
    i_sk_other : forall s, s <> 0 -> sk (ms c) s = SNone;
    i_task_other : forall s, s <> 0 -> task (ms c) s = false;
  }.

  Lemma inv0 : Inv (cfg0 o).
  Proof.
    constructor; cbn; auto. left. repeat split; reflexivity.
  Qed.

  Lemma quiescent (c : cfg o) :
    Inv c -> forall m', ports m' = ports (ms c) -> (forall s, err_due m' s = None) ->
    check_quiescent p m' = [].
  Proof.
    intros [] m' E1 E2. apply quiescent_nil.
    - intros _ _ i Hi. rewrite E1, i_ports0 in Hi. destruct Hi.
    - exact E2.
    - rewrite Hc14. discriminate.
  Qed.

  (** [crush] of ProofLib, except that implications are only specialised with
      proofs (error ids in the context are [nat]s) *)
  Ltac crush' :=
    repeat match goal with
           | |- forall _, _ => intro
           | H : _ \/ _ |- _ => destruct H
           | H : False |- _ => destruct H
           | H : ?A -> _, H' : ?A |- _ =>
               match type of A with Prop => specialize (H H') end
           | |- context [upd _ ?k _ ?x] =>
               unfold upd; destruct (Nat.eqb_spec x k); subst
           | H : context [upd _ ?k _ ?x] |- _ =>
               unfold upd in H; destruct (Nat.eqb_spec x k); subst
           end;
    auto; try congruence; try lia; try tauto.

  Ltac fin' Hc Hm Hs Hd :=
    constructor; unfold phase; rewrite ?Hc, ?Hm, ?Hs, ?Hd; cbn; rewrite ?add_viols_eq; cbn;
    repeat (rw_st; cbn; rewrite ?Nat.eqb_refl; cbn); crush'.

  (** the same for an activation that returns at once: the quiescence check may run *)
  Ltac fin_ret c Hq Hc Hm Hs Hd :=
    constructor; unfold phase; rewrite ?Hc, ?Hm, ?Hs, ?Hd; cbn;
    destruct (cstack (ms c)); rewrite ?add_viols_eq; cbn; rewrite ?Hq; cbn; crush'.

  Ltac phases H :=
    destruct H as [(Hsub & Esk & Etask & Eref & Hnd0) |
                   [(Hsub & Esk & Etask & Eref & Ecl) |
                    [(Hsub & Esk & Eref & Ecl) |
                     (Hsub & Esk & Etask & Hnd0 & e0 & Eref)]]].

  Lemma inv_sub c s aux : Inv c -> enabled p g_any c (MIn (ISub s aux)) = true ->
                          Inv (step p c (MIn (ISub s aux))).
  Proof.
    intros [] He. start_in He Hlive Hdel Hg.
    cbn in He. rewrite Hns in He.
    destruct (at_top c) eqn:Htop; cbn in He; try discriminate.
    destruct s; cbn in He; try discriminate.
    apply negb_true_iff in He.
    phases i_phase0; try congruence.
    destruct aux as [|a].
    - (* the nursery accepts: spawn, greet *)
      destruct (step_in p c (ISub 0 0) Hlive Hdel eq_refl) as (Hc & Hs & Hm & Hd).
      fin' Hc Hm Hs Hd.
    - (* the nursery refuses: the one Error *)
      destruct (step_in p c (ISub 0 (S a)) Hlive Hdel eq_refl) as (Hc & Hs & Hm & Hd).
      fin' Hc Hm Hs Hd.
      right. right. right. repeat split; eauto.
  Qed.

  Lemma inv_up c s u : Inv c -> enabled p g_any c (MIn (IUp s u)) = true ->
                       Inv (step p c (MIn (IUp s u))).
  Proof.
    intros HI He. pose proof (quiescent HI) as Hq. destruct HI.
    start_in He Hlive Hdel Hg.
    cbn in He. apply andb_prop in He. destruct He as [He Hu].
    apply andb_prop in He. destruct He as [Htop Hsk].
    destruct s as [|s]; [|rewrite i_sk_other0 in Hsk by lia; discriminate].
    phases i_phase0; rewrite Esk in Hsk; try discriminate.
    destruct u as [|e|].
    - destruct (step_in p c (IUp 0 UP) Hlive Hdel eq_refl) as (Hc & Hs & Hm & Hd).
      fin_ret c Hq Hc Hm Hs Hd.
    - destruct (step_in p c (IUp 0 (UE e)) Hlive Hdel eq_refl) as (Hc & Hs & Hm & Hd).
      fin_ret c Hq Hc Hm Hs Hd.
    - destruct (step_in p c (IUp 0 UT) Hlive Hdel eq_refl) as (Hc & Hs & Hm & Hd).
      fin_ret c Hq Hc Hm Hs Hd.
  Qed.

  Lemma inv_dn c i d : Inv c -> enabled p g_any c (MIn (IDn i d)) = true ->
                       Inv (step p c (MIn (IDn i d))).
  Proof.
    intros [] He. exfalso. pose proof (enabled_deliverable _ _ _ _ He) as Hdel.
    cbn in Hdel. now rewrite i_us0 in Hdel.
  Qed.

  Lemma inv_tick c s : Inv c -> enabled p g_any c (MIn (ITick s)) = true ->
                       Inv (step p c (MIn (ITick s))).
  Proof.
    intros HI He. pose proof (quiescent HI) as Hq. destruct HI.
    start_in He Hlive Hdel Hg.
    cbn in He. apply andb_prop in He. destruct He as [Htop Htask].
    destruct s as [|s]; [|rewrite i_task_other0 in Htask by lia; discriminate].
    phases i_phase0; try congruence.
    - (* running: the next number *)
      assert (Hh : handle o (ITick 0) (cst c) =
                   ({| iv_i := S (iv_i (cst c)); iv_cleared := iv_cleared (cst c) |}, [],
                    ACall (CDn 0 (DD (VN (iv_i (cst c))))) FDone)).
      { cbn. now rewrite Ecl. }
      destruct (step_in p c (ITick 0) Hlive Hdel Hh) as (Hc & Hs & Hm & Hd).
      fin' Hc Hm Hs Hd.
    - (* disposed: the task leaves its loop *)
      assert (Hh : handle o (ITick 0) (cst c) = (cst c, [OExit 0], ARet)).
      { cbn. now rewrite Ecl. }
      destruct (step_in p c (ITick 0) Hlive Hdel Hh) as (Hc & Hs & Hm & Hd).
      fin_ret c Hq Hc Hm Hs Hd.
  Qed.

  Lemma inv_ret c : Inv c -> enabled p g_any c MRet = true -> Inv (step p c MRet).
  Proof.
    intros HI He. pose proof (quiescent HI) as Hq. destruct HI.
    pose proof (enabled_live _ _ _ _ He) as Hlive.
    destruct (enabled_ret_stack _ _ _ He) as (k & cl & rest & Hst).
    destruct (step_ret p c Hlive Hst eq_refl) as (Hc & Hs & Hm & Hd).
    constructor; unfold phase; rewrite ?Hc, ?Hm, ?Hs, ?Hd; cbn;
      destruct (tl (cstack (ms c))); rewrite ?add_viols_eq; cbn; rewrite ?Hq; auto.
  Qed.

  Lemma inv_step c m : Inv c -> enabled p g_any c m = true -> Inv (step p c m).
  Proof.
    intros HI He. destruct m as [[s aux|s u|i d|s]|].
    - now apply inv_sub.
    - now apply inv_up.
    - now apply inv_dn.
    - now apply inv_tick.
    - now apply inv_ret.
  Qed.

  Theorem inv_reach c : reach p g_any c -> Inv c.
  Proof. induction 1; [apply inv0 | now apply inv_step]. Qed.

  (** ** The trace part *)
  Record TInv (c : cfg o) : Prop := {
    t_out : data_out 0 (trace c) = map VN (seq 0 (iv_i (cst c)));
    t_none : subd (ms c) 0 = false -> calls (trace c) = [];
    t_ref : forall e, refused (ms c) 0 = Some e -> calls (trace c) = [CDn 0 (DE e)];
  }.

  Lemma tinv_keep (c c' : cfg o) evs :
    TInv c -> trace c' = trace c ++ evs -> data_out 0 evs = [] -> calls evs = [] ->
    iv_i (cst c') = iv_i (cst c) -> subd (ms c') 0 = subd (ms c) 0 ->
    refused (ms c') 0 = refused (ms c) 0 -> TInv c'.
  Proof.
    intros [] Ht Ho Hcl Hi Hsb Hrf.
    constructor; rewrite Ht, ?data_out_app, ?calls_app, ?Ho, ?Hcl, ?app_nil_r, ?Hi, ?Hsb, ?Hrf;
      assumption.
  Qed.

  Ltac ms_same Hm :=
    rewrite Hm; cbn;
    repeat match goal with
           | |- context [match ?x with _ => _ end] => destruct x
           end; rewrite ?add_viols_eq; reflexivity.

  Theorem tinv_reach c : reach p g_any c -> TInv c.
  Proof.
    induction 1 as [|c m Hr IH He].
    { constructor; cbn; intros; [reflexivity | reflexivity | discriminate]. }
    pose proof (inv_reach Hr) as HI.
    pose proof (enabled_live _ _ _ _ He) as Hlive.
    destruct m as [inp|].
    - pose proof (enabled_deliverable _ _ _ _ He) as Hdel.
      destruct inp as [s aux|s u|i d|s].
      + (* subscription *)
        destruct HI. start_in He Hlive' Hdel' Hg.
        cbn in He. rewrite Hns in He.
        destruct (at_top c) eqn:Htop; cbn in He; try discriminate.
        destruct s; cbn in He; try discriminate.
        apply negb_true_iff in He.
        phases i_phase0; try congruence.
        destruct IH as [Hout Hnone Href]. specialize (Hnone Hsub).
        assert (Hi0 : iv_i (cst c) = 0) by congruence.
        destruct aux as [|a].
        * pose proof (step_in_trace p c (ISub 0 0) Hlive Hdel eq_refl) as Htr.
          destruct (step_in p c (ISub 0 0) Hlive Hdel eq_refl) as (Hc & Hs & Hm & Hd).
          constructor; rewrite Htr, ?data_out_app, ?calls_app, ?Hc, ?Hm; cbn;
            repeat (rw_st; cbn; rewrite ?Nat.eqb_refl; cbn); rewrite ?add_viols_eq; cbn.
          -- now rewrite app_nil_r, Hout, Hi0.
          -- discriminate.
          -- intros e. rewrite Eref. discriminate.
        * pose proof (step_in_trace p c (ISub 0 (S a)) Hlive Hdel eq_refl) as Htr.
          destruct (step_in p c (ISub 0 (S a)) Hlive Hdel eq_refl) as (Hc & Hs & Hm & Hd).
          constructor; rewrite Htr, ?data_out_app, ?calls_app, ?Hc, ?Hm; cbn;
            repeat (rw_st; cbn; rewrite ?Nat.eqb_refl; cbn); rewrite ?add_viols_eq; cbn.
          -- now rewrite app_nil_r, Hout, Hi0.
          -- discriminate.
          -- intros e Ee. injection Ee as <-. now rewrite Hnone.
      + (* the sink's talkback *)
        destruct HI. start_in He Hlive' Hdel' Hg.
        cbn in He. apply andb_prop in He. destruct He as [He Hu].
        apply andb_prop in He. destruct He as [Htop Hsk].
        destruct s as [|s]; [|rewrite i_sk_other0 in Hsk by lia; discriminate].
        destruct u as [|e|].
        * pose proof (step_in_trace p c (IUp 0 UP) Hlive Hdel eq_refl) as Htr.
          destruct (step_in p c (IUp 0 UP) Hlive Hdel eq_refl) as (Hc & Hs & Hm & Hd).
          eapply tinv_keep; [exact IH | exact Htr | reflexivity | reflexivity
                            | now rewrite Hc | ms_same Hm | ms_same Hm].
        * pose proof (step_in_trace p c (IUp 0 (UE e)) Hlive Hdel eq_refl) as Htr.
          destruct (step_in p c (IUp 0 (UE e)) Hlive Hdel eq_refl) as (Hc & Hs & Hm & Hd).
          eapply tinv_keep; [exact IH | exact Htr | reflexivity | reflexivity
                            | now rewrite Hc | ms_same Hm | ms_same Hm].
        * pose proof (step_in_trace p c (IUp 0 UT) Hlive Hdel eq_refl) as Htr.
          destruct (step_in p c (IUp 0 UT) Hlive Hdel eq_refl) as (Hc & Hs & Hm & Hd).
          eapply tinv_keep; [exact IH | exact Htr | reflexivity | reflexivity
                            | now rewrite Hc | ms_same Hm | ms_same Hm].
      + exfalso. destruct HI. cbn in Hdel. now rewrite i_us0 in Hdel.
      + (* expiry *)
        destruct HI. start_in He Hlive' Hdel' Hg.
        cbn in He. apply andb_prop in He. destruct He as [Htop Htask].
        destruct s as [|s]; [|rewrite i_task_other0 in Htask by lia; discriminate].
        phases i_phase0; try congruence.
        * assert (Hh : handle o (ITick 0) (cst c) =
                       ({| iv_i := S (iv_i (cst c)); iv_cleared := iv_cleared (cst c) |}, [],
                        ACall (CDn 0 (DD (VN (iv_i (cst c))))) FDone)).
          { cbn. now rewrite Ecl. }
          pose proof (step_in_trace p c (ITick 0) Hlive Hdel Hh) as Htr.
          destruct (step_in p c (ITick 0) Hlive Hdel Hh) as (Hc & Hs & Hm & Hd).
          destruct IH as [Hout Hnone Href].
          constructor; rewrite Htr, ?data_out_app, ?calls_app, ?Hc, ?Hm; cbn -[seq];
            repeat (rw_st; cbn -[seq]); rewrite ?add_viols_eq; cbn -[seq].
          -- now rewrite seq_S, map_app, Hout.
          -- congruence.
          -- intros e. rewrite Eref. discriminate.
        * assert (Hh : handle o (ITick 0) (cst c) = (cst c, [OExit 0], ARet)).
          { cbn. now rewrite Ecl. }
          pose proof (step_in_trace p c (ITick 0) Hlive Hdel Hh) as Htr.
          destruct (step_in p c (ITick 0) Hlive Hdel Hh) as (Hc & Hs & Hm & Hd).
          eapply tinv_keep; [exact IH | exact Htr | reflexivity | reflexivity
                            | now rewrite Hc | ms_same Hm | ms_same Hm].
    - destruct (enabled_ret_stack _ _ _ He) as (k & cl & rest & Hst).
      pose proof (step_ret_trace p c Hlive Hst eq_refl) as Htr.
      destruct (step_ret p c Hlive Hst eq_refl) as (Hc & Hs & Hm & Hd).
      eapply tinv_keep; [exact IH | exact Htr | reflexivity | reflexivity
                        | now rewrite Hc | ms_same Hm | ms_same Hm].
  Qed.

End IntervalInv.

(** no protocol violation and no panic in any reachable configuration, whether
    the nursery accepts or refuses.  In particular nothing is delivered after
    the sink disposed (that would be [VAfterDispose]) and the refusal's Error
    is the only message an ungreeted sink ever gets ([VBeforeGreet]). *)
Theorem interval_safe p :
  nsinks p = 1 -> resub p = false -> no_nest p = false -> c14 p = false ->
  forall c : cfg interval_op, reach p (fun _ _ => true) c -> viols (ms c) = [] /\ dead c = false.
Proof.
  intros H1 H2 H3 H4 c Hr.
  assert (HI : Inv c) by (eapply inv_reach; eassumption).
  destruct HI. split; assumption.
Qed.
Print Assumptions interval_safe.

(** C16: the data delivered are 0, 1, 2, ... in order, one per datum counted *)
Theorem interval_counts p :
  nsinks p = 1 -> resub p = false -> no_nest p = false -> c14 p = false ->
  forall c : cfg interval_op, reach p (fun _ _ => true) c ->
  data_out 0 (trace c) = map VN (seq 0 (ndata (ms c) 0)).
Proof.
  intros H1 H2 H3 H4 c Hr.
  assert (HI : Inv c) by (eapply inv_reach; eassumption).
  assert (HT : TInv c) by (eapply tinv_reach; eassumption).
  rewrite <- (i_nd HI). apply (t_out HT).
Qed.
Print Assumptions interval_counts.

(** C16: a refused subscription gets exactly the one Error and nothing else is
    ever called *)
Theorem interval_refused p :
  nsinks p = 1 -> resub p = false -> no_nest p = false -> c14 p = false ->
  forall c : cfg interval_op, reach p (fun _ _ => true) c ->
  forall e, refused (ms c) 0 = Some e -> calls (trace c) = [CDn 0 (DE e)].
Proof.
  intros H1 H2 H3 H4 c Hr.
  assert (HT : TInv c) by (eapply tinv_reach; eassumption).
  apply (t_ref HT).
Qed.
Print Assumptions interval_refused.

(** sanity checks (non-vacuity): an accepted subscription that ticks twice, is
    disposed from inside the third delivery and whose task then leaves; and a
    refused one *)
Module IntervalSanity.
  Definition p0 : mparams :=
    {| nsinks := 1; late_ok := false; pullable := false; one_pull := false;
       resub := false; no_nest := false; c14 := false |}.
  Definition g : mstate -> input -> bool := fun _ _ => true.
  Definition script : list move :=
    [MIn (ISub 0 0); MIn (IUp 0 UP); MRet; MIn (ITick 0); MRet; MIn (ITick 0); MRet;
     MIn (ITick 0); MIn (IUp 0 UT); MRet; MIn (ITick 0)].
  Example script_enabled : all_enabled p0 g (cfg0 interval_op) script = true.
  Proof. vm_compute. reflexivity. Qed.
  Example script_end :
    let c := run p0 interval_op script in
    stack c = [] /\ data_out 0 (trace c) = [VN 0; VN 1; VN 2] /\
    sk (ms c) 0 = SDisposed /\ task (ms c) 0 = false /\ viols (ms c) = [] /\
    enabled p0 g c (MIn (ITick 0)) = false.
  Proof. vm_compute. repeat split; reflexivity. Qed.
  Definition refusal : list move := [MIn (ISub 0 2); MRet].
  Example refusal_enabled : all_enabled p0 g (cfg0 interval_op) refusal = true.
  Proof. vm_compute. reflexivity. Qed.
  Example refusal_end :
    let c := run p0 interval_op refusal in
    calls (trace c) = [CDn 0 (DE 2)] /\ sk (ms c) 0 = SFinished /\ viols (ms c) = [] /\
    enabled p0 g c (MIn (ITick 0)) = false.
  Proof. vm_compute. repeat split; reflexivity. Qed.
End IntervalSanity.
