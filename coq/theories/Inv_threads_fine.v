(** * Inv_threads_fine: C18 for the FINE interleaving model of merge! (ThreadsFine.v), over ALL
      schedules: every access to a talkback cell is a step of its own.

    For every n >= 1, all queues, all endings with at most one failing member among the members
    0..n-1 and every state reachable by any interleaving of [mf_step true n]:

    - [fine_greet_once], [fine_delivered], [fine_one_terminal], [fine_no_data_after_end],
      [fine_no_panic]                       the checks of [merge_check], as for the coarse model;
    - [fine_disposed_at_most_once]          every member's talkback is told to stop at most once;
    - [fine_disposed_exactly_once]          once the output has ended and everything is quiet every
                                            other member was stopped exactly once or completed by itself;
    - [fine_final]                          [merge_check_fine] is empty on every final state;
    - [fine_run_full_reach], [fine_driver_final]   what the driver runs is reachable;
    - [fine_unfixed_refuted], [fine_fixed_h10_ok]  the code before the repair fails on the witness
                                            schedule, the repaired code passes it.

    Method (as in Inv_threads_merge.v): [mf_step true n] is restated as a relation on explicit
    records ([fstep], [fstep_of]); inductive invariants
    - [FTI]  per thread, by program counter: the cell/stop bookkeeping
             (cell = negb stopped while greeting or delivering, ...);
    - [FGE]  ended => the (unique) failing member is sweeping, delivering its Error or finished;
    - [FGI]  end_count <= number of members "done with ending Terminate", with equality as long as
             the output has not ended;
    - [FSW]  the Dekker argument: a sibling the failing member's sweep has passed is stopped, or has
             not yet published / will read ended = true / completed by itself;
    - [FTRI] the trace monitors as functions of the state. *)

From CB Require Import Threads ThreadSpec ThreadsFine Inv_threads_merge.

Set Implicit Arguments.

#[local] Arguments count : simpl never.

(** ** Reachability over all schedules *)

Inductive mf_reach (n : nat) (qs : nat -> list val) (fins : nat -> final) : mf_state -> Prop :=
| mfr0 : mf_reach n qs fins (mf_init true n qs fins)
| mfrS s t : mf_reach n qs fins s -> mf_reach n qs fins (mf_step true n s t).

(** ** The step function (repaired code) as a relation on explicit records *)

Notation FS := mk_mf_state.
Notation FT := mk_mf_thread.

(** how [mf_next] is entered *)
Inductive forigin (t : nat) (st : nat) (cl : nat -> bool) (tr : list tevent)
  : mf_pc -> nat -> list tevent -> Prop :=
| fo_start : st <> 0 -> forigin t st cl tr MfAtStartInc (S st) tr
| fo_greet : forigin t st cl tr MfInGreet st ((t, TEnd) :: tr)
| fo_data : forigin t st cl tr MfInData st ((t, TEnd) :: tr)
| fo_swap : cl t = false -> forigin t st cl tr MfAtSelfSwap st tr.

(** where [mf_sweep_goto] arrives *)
Inductive fgoto (n t e j : nat) (tr : list tevent) : mf_pc -> list tevent -> Prop :=
| fg_sweep j' : j' = (if j =? t then S j else j) -> j' < n -> fgoto n t e j tr (MfAtSweep e j') tr
| fg_err j' : j' = (if j =? t then S j else j) -> n <= j' ->
    fgoto n t e j tr MfInErr ((t, TBegin (DE e)) :: tr).

Inductive fstep (n : nat) : mf_state -> nat -> mf_state -> Prop :=
| fs_fin st ec en cl stp th tr t :
    mf_pcv (th t) = MfFinished ->
    fstep n (FS st ec en cl stp th tr) t (FS st ec en cl stp th tr)
| fs_publish st ec en cl stp th tr t q f :
    th t = FT MfAtPublish q f ->
    fstep n (FS st ec en cl stp th tr) t
      (FS st ec en (upd cl t true) stp (upd th t (FT MfAtEndedLoad q f)) tr)
| fs_load_ended st ec cl stp th tr t q f :
    th t = FT MfAtEndedLoad q f ->
    fstep n (FS st ec true cl stp th tr) t
      (FS st ec true cl stp (upd th t (FT MfAtSelfSwap q f)) tr)
| fs_load_ok st ec cl stp th tr t q f :
    th t = FT MfAtEndedLoad q f ->
    fstep n (FS st ec false cl stp th tr) t
      (FS st ec false cl stp (upd th t (FT MfAtStartInc q f)) tr)
| fs_swap_dispose st ec en cl stp th tr t q f :
    (* the member finds its talkback still in its cell: it takes it out and disposes itself *)
    th t = FT MfAtSelfSwap q f -> cl t = true ->
    fstep n (FS st ec en cl stp th tr) t
      (FS st ec en (upd cl t false) (upd stp t true) (upd th t (FT MfFinished q f))
          ((t, TUp t UT) :: tr))
| fs_publish_old st ec en cl stp th tr t q f :
    (* a program counter of the code before the repair; never reached *)
    th t = FT MfAtPublishOld q f ->
    fstep n (FS st ec en cl stp th tr) t
      (FS st ec en (upd cl t true) stp (upd th t (FT MfAtStartInc q f)) tr)
| fs_start_first ec en cl stp th tr t q f :
    th t = FT MfAtStartInc q f ->
    fstep n (FS 0 ec en cl stp th tr) t
      (FS 1 ec en cl stp (upd th t (FT MfInGreet q f)) ((t, TBegin DH) :: tr))
| fs_next_stopped st ec en cl stp th tr t pc q f st' tr0 :
    th t = FT pc q f -> forigin t st cl tr pc st' tr0 -> stp t = true ->
    fstep n (FS st ec en cl stp th tr) t
      (FS st' ec en cl stp (upd th t (FT MfFinished q f)) tr0)
| fs_next_data st ec en cl stp th tr t pc v q' f st' tr0 :
    th t = FT pc (v :: q') f -> forigin t st cl tr pc st' tr0 -> stp t = false ->
    fstep n (FS st ec en cl stp th tr) t
      (FS st' ec en cl stp (upd th t (FT MfInData q' f)) ((t, TBegin (DD v)) :: tr0))
| fs_next_term st ec en cl stp th tr t pc st' tr0 :
    th t = FT pc [] FinTerm -> forigin t st cl tr pc st' tr0 -> stp t = false ->
    fstep n (FS st ec en cl stp th tr) t
      (FS st' ec en cl stp (upd th t (FT MfAtClear [] FinTerm)) tr0)
| fs_next_err st ec en cl stp th tr t pc e st' tr0 :
    th t = FT pc [] (FinErr e) -> forigin t st cl tr pc st' tr0 -> stp t = false ->
    fstep n (FS st ec en cl stp th tr) t
      (FS st' ec en cl stp (upd th t (FT (MfAtEndedStore e) [] (FinErr e))) tr0)
| fs_next_none st ec en cl stp th tr t pc st' tr0 :
    th t = FT pc [] FinNone -> forigin t st cl tr pc st' tr0 -> stp t = false ->
    fstep n (FS st ec en cl stp th tr) t
      (FS st' ec en cl stp (upd th t (FT MfFinished [] FinNone)) tr0)
| fs_clear st ec en cl stp th tr t q f :
    th t = FT MfAtClear q f ->
    fstep n (FS st ec en cl stp th tr) t
      (FS st ec en (upd cl t false) stp (upd th t (FT MfAtEndInc q f)) tr)
| fs_endinc_last st ec en cl stp th tr t q f :
    th t = FT MfAtEndInc q f -> S ec = n ->
    fstep n (FS st ec en cl stp th tr) t
      (FS st (S ec) en cl stp (upd th t (FT MfInTerm q f)) ((t, TBegin DT) :: tr))
| fs_endinc_notlast st ec en cl stp th tr t q f :
    th t = FT MfAtEndInc q f -> S ec <> n ->
    fstep n (FS st ec en cl stp th tr) t
      (FS st (S ec) en cl stp (upd th t (FT MfFinished q f)) tr)
| fs_ret st ec en cl stp th tr t pc q f :
    th t = FT pc q f -> pc = MfInTerm \/ pc = MfInErr ->
    fstep n (FS st ec en cl stp th tr) t
      (FS st ec en cl stp (upd th t (FT MfFinished q f)) ((t, TEnd) :: tr))
| fs_store st ec en cl stp th tr t e q f pc' tr' :
    th t = FT (MfAtEndedStore e) q f -> fgoto n t e 0 tr pc' tr' ->
    fstep n (FS st ec en cl stp th tr) t
      (FS st ec true cl stp (upd th t (FT pc' q f)) tr')
| fs_sweep_hit st ec en cl stp th tr t e j q f pc' tr' :
    (* the failing member takes sibling j's talkback out of its cell and disposes it *)
    th t = FT (MfAtSweep e j) q f -> cl j = true ->
    fgoto n t e (S j) ((t, TUp j UT) :: tr) pc' tr' ->
    fstep n (FS st ec en cl stp th tr) t
      (FS st ec en (upd cl j false) (upd stp j true) (upd th t (FT pc' q f)) tr')
| fs_sweep_miss st ec en cl stp th tr t e j q f pc' tr' :
    th t = FT (MfAtSweep e j) q f -> cl j = false ->
    fgoto n t e (S j) tr pc' tr' ->
    fstep n (FS st ec en cl stp th tr) t
      (FS st ec en cl stp (upd th t (FT pc' q f)) tr').

Lemma fnext_of n st ec en cl stp th tr t pc q f st' tr0 :
  th t = FT pc q f -> forigin t st cl tr pc st' tr0 ->
  fstep n (FS st ec en cl stp th tr) t (mf_next (FS st' ec en cl stp th tr0) t (FT pc q f)).
Proof.
  intros Hth Ho. unfold mf_next; cbn.
  destruct (stp t) eqn:Hs; cbn.
  - eapply fs_next_stopped; eauto.
  - destruct q as [|v q']; cbn.
    + destruct f; cbn.
      * eapply fs_next_term; eauto.
      * eapply fs_next_err; eauto.
      * eapply fs_next_none; eauto.
    + eapply fs_next_data; eauto.
Qed.

Lemma fgoto_of n st ec en cl stp th tr t pc q f e j :
  exists pc' tr', fgoto n t e j tr pc' tr' /\
    mf_sweep_goto n (FS st ec en cl stp th tr) t (FT pc q f) e j
    = FS st ec en cl stp (upd th t (FT pc' q f)) tr'.
Proof.
  unfold mf_sweep_goto. cbn -[Nat.eqb Nat.ltb].
  destruct (Nat.ltb_spec (if j =? t then S j else j) n) as [Hlt|Hge]; cbn -[Nat.eqb Nat.ltb].
  - eexists _, _. split; [eapply fg_sweep; eauto|reflexivity].
  - eexists _, _. split; [eapply fg_err; eauto|reflexivity].
Qed.

Lemma fstep_of n s t : fstep n s t (mf_step true n s t).
Proof.
  destruct s as [st ec en cl stp th tr].
  unfold mf_step. cbn -[Nat.eqb Nat.ltb mf_next mf_sweep_goto].
  destruct (th t) as [pc q f] eqn:Hth. cbn -[Nat.eqb Nat.ltb mf_next mf_sweep_goto].
  destruct pc; cbn -[Nat.eqb Nat.ltb mf_next mf_sweep_goto].
  - now apply fs_publish.
  - destruct en; cbn.
    + now apply fs_load_ended.
    + now apply fs_load_ok.
  - destruct (cl t) eqn:Ec.
    + unfold mf_next, mf_dispose. cbn. rewrite upd_same. cbn. now apply fs_swap_dispose.
    + apply fnext_of; auto. now constructor.
  - now apply fs_publish_old.
  - destruct st as [|st]; cbn -[mf_next].
    + now apply fs_start_first.
    + apply fnext_of; auto. constructor; lia.
  - apply fnext_of; auto. constructor.
  - apply fnext_of; auto. constructor.
  - now apply fs_clear.
  - destruct (Nat.eqb_spec (S ec) n); cbn.
    + now apply fs_endinc_last.
    + now apply fs_endinc_notlast.
  - eapply fs_ret; eauto.
  - change (FS st ec en cl stp th tr <| mfs_ended := true |>) with (FS st ec true cl stp th tr).
    destruct (fgoto_of n st ec true cl stp th tr t (MfAtEndedStore e) q f e 0) as (pc' & tr' & Hg & ->).
    eapply fs_store; eauto.
  - destruct (cl j) eqn:Ec.
    + unfold mf_dispose, mf_emit.
      change (mf_sweep_goto n _ t) with
        (mf_sweep_goto n (FS st ec en (upd cl j false) (upd stp j true) th ((t, TUp j UT) :: tr)) t).
      destruct (fgoto_of n st ec en (upd cl j false) (upd stp j true) th ((t, TUp j UT) :: tr) t
                  (MfAtSweep e j) q f e (S j)) as (pc' & tr' & Hg & ->).
      eapply fs_sweep_hit; eauto.
    + destruct (fgoto_of n st ec en cl stp th tr t (MfAtSweep e j) q f e (S j)) as (pc' & tr' & Hg & ->).
      eapply fs_sweep_miss; eauto.
  - eapply fs_ret; eauto.
  - apply fs_fin. now rewrite Hth.
Qed.

(** ** State invariants *)

Definition is_err (f : final) : bool := match f with FinErr _ => true | _ => false end.

Ltac brk := repeat match goal with H : _ /\ _ |- _ => destruct H end.
Ltac rwb := repeat match goal with
  | H : ?f ?a = true |- context [?f ?a] => rewrite H
  | H : ?f ?a = false |- context [?f ?a] => rewrite H end.
Ltac fin0 := rwb; cbn; auto; try lia; try congruence.
Ltac fwd := repeat match goal with
  | H : _ /\ _ |- _ => destruct H
  | H : _ \/ _ |- _ => destruct H
  | H : ?a = ?a -> _ |- _ => specialize (H eq_refl)
  | H : ?A -> _, H' : ?A |- _ => specialize (H H')
  end.
Ltac fin1 := repeat (first [split | intro]); fwd;
  solve [fin0 | exfalso; fin0 | left; repeat split; fin0 | right; repeat split; fin0].

Lemma cnt_mono P Q k : (forall j, j < k -> P j = true -> Q j = true) -> cnt P k <= cnt Q k.
Proof.
  induction k; cbn; intros H; [lia|].
  assert (IH : cnt P k <= cnt Q k) by (apply IHk; intros; apply H; auto).
  destruct (P k) eqn:E; [rewrite (H k) by auto|destruct (Q k)]; lia.
Qed.

Lemma cnt_lt P k t : t < k -> P t = false -> cnt P k < k.
Proof.
  intros Ht HP. pose proof (cnt_le P k).
  destruct (Nat.eq_dec (cnt P k) k) as [e|]; [|lia].
  rewrite (cnt_full _ e Ht) in HP. discriminate.
Qed.

Lemma cnt_le_one P k : (forall i j, i < k -> j < k -> P i = true -> P j = true -> i = j) -> cnt P k <= 1.
Proof.
  induction k; cbn; intros H; [lia|].
  destruct (P k) eqn:E.
  - assert (cnt P k = 0); [|lia].
    transitivity (cnt (fun _ => false) k).
    + apply cnt_ext. intros j Hj. destruct (P j) eqn:E2; auto.
      assert (j = k) by (apply H; auto). lia.
    + clear. induction k; cbn; auto.
  - cbn. apply IHk. intros; apply H; auto.
Qed.

Lemma cnt_pos P k t : t < k -> P t = true -> 1 <= cnt P k.
Proof.
  induction k; cbn; intros Ht HP; [lia|].
  destruct (Nat.eq_dec t k) as [->|]; [rewrite HP; lia|].
  assert (1 <= cnt P k) by (apply IHk; auto; lia). lia.
Qed.

Section FineInv.
  Variable n : nat.
  Variable fins : nat -> final.
  Hypothesis amo : forall i j e1 e2, i < n -> j < n -> fins i = FinErr e1 -> fins j = FinErr e2 -> i = j.

  (** per-thread invariant, as a function of the components it reads *)
  Definition FTIc (st : nat) (en : bool) (j : nat) (cl sp : bool) (thr : mf_thread) : Prop :=
    mf_fin thr = fins j /\ (sp = true -> en = true) /\ (en = true -> 1 <= st) /\
    (n <= j -> mf_pcv thr = MfFinished) /\
    (* whoever disposes a member empties its cell in the same step *)
    (cl = true -> sp = false) /\
    (* the failing member is never told to stop *)
    (is_err (mf_fin thr) = true -> sp = false) /\
    match mf_pcv thr with
    | MfAtPublish => cl = false /\ sp = false
    | MfAtEndedLoad => cl = negb sp
    | MfAtSelfSwap => cl = negb sp /\ en = true /\ is_err (mf_fin thr) = false
    | MfAtPublishOld => False
    | MfAtStartInc => cl = negb sp
    | MfInGreet | MfInData => cl = negb sp /\ 1 <= st
    | MfAtClear => cl = negb sp /\ mf_q thr = [] /\ mf_fin thr = FinTerm /\ 1 <= st
    | MfAtEndInc | MfInTerm => cl = false /\ mf_q thr = [] /\ mf_fin thr = FinTerm /\ 1 <= st
    | MfAtEndedStore e => cl = negb sp /\ mf_q thr = [] /\ mf_fin thr = FinErr e /\ 1 <= st
    | MfAtSweep e i =>
        mf_q thr = [] /\ mf_fin thr = FinErr e /\ en = true /\ 1 <= st /\ i < n /\ i <> j /\ cl = true
    | MfInErr => mf_q thr = [] /\ is_err (mf_fin thr) = true /\ en = true /\ 1 <= st /\ cl = true
    | MfFinished =>
        j < n -> 1 <= st /\ (en = false -> mf_q thr = []) /\
                 (is_err (mf_fin thr) = true -> en = true) /\
                 (sp = false -> (mf_fin thr = FinTerm /\ mf_q thr = [] /\ cl = false)
                                \/ (mf_fin thr <> FinTerm /\ cl = true))
    end.

  Definition FTI (s : mf_state) : Prop :=
    forall j, FTIc (mfs_start s) (mfs_ended s) j (mfs_cell s j) (mfs_stopped s j) (mfs_th s j).

  Lemma FTI_init qs : FTI (mf_init true n qs fins).
  Proof.
    intros j. unfold FTIc. cbn -[Nat.ltb].
    destruct (Nat.ltb_spec j n); cbn; repeat split; auto; try congruence; try lia.
  Qed.

  Definition is_sweeping (pc : mf_pc) : bool :=
    match pc with MfAtSweep _ _ | MfInErr | MfFinished => true | _ => false end.

  Definition FGE (s : mf_state) : Prop :=
    mfs_ended s = true ->
    exists k e, k < n /\ fins k = FinErr e /\ is_sweeping (mf_pcv (mfs_th s k)) = true.

  Lemma FGE_init qs : FGE (mf_init true n qs fins).
  Proof. unfold FGE; cbn; discriminate. Qed.

  Lemma flt_of_pc s t : FTI s -> mf_pcv (mfs_th s t) <> MfFinished -> t < n.
  Proof.
    intros HTI Hp. destruct (Nat.lt_ge_cases t n); auto.
    destruct (HTI t) as (_ & _ & _ & H1 & _). exfalso; auto.
  Qed.

  (** a member whose ending is an Error and that is not yet sweeping sees ended = false *)
  Lemma not_ended_yet s t e :
    FTI s -> FGE s -> t < n -> fins t = FinErr e -> is_sweeping (mf_pcv (mfs_th s t)) = false ->
    mfs_ended s = false.
  Proof.
    intros HTI HGE Ht Hf Hp. destruct (mfs_ended s) eqn:E; auto.
    destruct (HGE E) as (k & e0 & Hk & He & Hpc).
    assert (k = t) by (apply (amo (e1 := e0) (e2 := e)); auto). subst k. congruence.
  Qed.

  Lemma FTI_hit st ec en cl stp th tr t e j q f pc' tr' tr0 :
    FTI (FS st ec en cl stp th tr) -> th t = FT (MfAtSweep e j) q f -> cl j = true ->
    fgoto n t e (S j) tr0 pc' tr' ->
    FTI (FS st ec en (upd cl j false) (upd stp j true) (upd th t (FT pc' q f)) tr').
  Proof.
    intros HTI H Hc Hg j0.
    pose proof (HTI t) as Ht; pose proof (HTI j) as Hjj; pose proof (HTI j0) as Hj.
    unfold FTIc in *; cbn -[Nat.ltb Nat.eqb] in *. rewrite H in Ht; cbn in Ht.
    destruct Ht as (Hf & _ & Hes & Hnt & _ & Hsp & Hq & Hfe & Hen & Hst & Hjn & Hjt & Hct).
    assert (Htn : t < n) by (destruct (Nat.lt_ge_cases t n); auto; specialize (Hnt H0); discriminate).
    assert (Hje : is_err (mf_fin (th j)) = false).
    { destruct Hjj as (Hfj & _). destruct (mf_fin (th j)) eqn:E; auto. exfalso. apply Hjt.
      apply (amo (e1 := e0) (e2 := e)); auto; congruence. }
    assert (Hst0 : stp t = false) by (apply Hsp; rewrite Hfe; reflexivity).
    destruct (Nat.eq_dec j0 t) as [->|Hj0t].
    - clear Hj Hjj. rewrite !upd_same. rewrite !upd_other by auto. cbn.
      destruct Hg as [j' Hj' Hlt|j' Hj' Hge]; cbn.
      + destruct (Nat.eqb_spec (S j) t); repeat split; fin0.
      + repeat split; fin0. rewrite Hfe; reflexivity.
    - rewrite (upd_other th (FT pc' q f) Hj0t).
      destruct (Nat.eq_dec j0 j) as [->|Hj0j].
      + clear Hj. rewrite !upd_same. rewrite Hje.
        revert Hjj. destruct (mf_pcv (th j)); intros Hjj.
        all: try solve [fin1].
        all: exfalso; brk;
          match goal with H : mf_fin _ = FinErr _ |- _ => rewrite H in Hje; discriminate end.
      + rewrite !upd_other by assumption. exact Hj.
  Qed.

  Lemma FTI_step s t s' : FTI s -> FGE s -> fstep n s t s' -> FTI s'.
  Proof.
    intros HTI HGE Hs.
    assert (Hne : forall e, t < n -> fins t = FinErr e ->
                    is_sweeping (mf_pcv (mfs_th s t)) = false -> mfs_ended s = false)
      by (intros e; apply not_ended_yet; auto).
    revert HTI HGE Hne. destruct Hs; intros HTI HGE Hne; auto.
    all: intros j0; pose proof (HTI t) as Ht; pose proof (HTI j0) as Hj;
      unfold FTIc in *; cbn -[Nat.ltb Nat.eqb] in *.
    all: try match goal with H : _ = FT _ _ _ |- _ => rewrite H in Ht, Hne end; cbn in Ht, Hne.
    all: try match goal with H : forigin _ _ _ _ _ _ _ |- _ => destruct H end.
    all: try match goal with H : _ = MfInTerm \/ _ |- _ => destruct H; subst end.
    all: try (eapply FTI_hit; eauto; fail).
    all: try match goal with H : fgoto _ _ _ _ _ _ _ |- _ => destruct H end.
    all: try match goal with H : _ = (if ?a =? ?b then _ else _) |- _ => destruct (Nat.eqb_spec a b) end.
    all: try assert (Htn : t < n) by (destruct (Nat.lt_ge_cases t n); auto; exfalso; intuition congruence).
    all: (destruct (Nat.eq_dec j0 t) as [->|Hjt];
          [clear Hj; rewrite ?upd_same | rewrite ?upd_other by assumption]); cbn -[Nat.ltb Nat.eqb].
    all: try exact Hj.
    all: try (revert Hj; match goal with |- context [match mf_pcv ?x with _ => _ end] => destruct (mf_pcv x) end; intros Hj).
    all: try solve [brk; repeat split; intros; fin0].
    all: try solve [fin1].
    all: cbn in Hne.
    all: try solve [brk; try destruct f; cbn in *; destruct (stp t) eqn:?; destruct (cl t) eqn:?; cbn in *; fin1].
  Qed.

  Lemma FGE_step s t s' : FTI s -> FGE s -> fstep n s t s' -> FGE s'.
  Proof.
    intros HTI HGE Hs. revert HTI HGE. destruct Hs; intros HTI HGE; auto.
    all: unfold FGE in *; cbn in *; intros Hen; try discriminate.
    all: try match goal with
         | Hst : ?th ?t = FT (MfAtEndedStore ?e) _ _ |- _ =>
             solve [ exists t, e; pose proof (HTI t) as Ht; unfold FTIc in Ht; cbn in Ht;
                     rewrite Hst in Ht; cbn in Ht; rewrite upd_same; cbn;
                     match goal with H : fgoto _ _ _ _ _ _ _ |- _ => destruct H end; cbn;
                     intuition; try congruence;
                     destruct (Nat.lt_ge_cases t n); auto; exfalso; intuition congruence ]
         end.
    all: destruct (HGE Hen) as (k & e0 & Hk & He & Hpc); exists k, e0; split; [|split]; auto.
    all: pw k t; auto; cbn.
    all: match goal with H : _ = FT _ _ _ |- _ => rewrite H in Hpc end; cbn in Hpc.
    all: try match goal with H : forigin _ _ _ _ _ _ _ |- _ => destruct H end.
    all: try match goal with H : _ = MfInTerm \/ _ |- _ => destruct H; subst end.
    all: try match goal with H : fgoto _ _ _ _ _ _ _ |- _ => destruct H end.
    all: try discriminate; auto.
  Qed.

  (** end_count against the members that are done and whose ending is Terminate: a member that is
      told to stop before its first access of the Terminate arm does not count itself, one that is
      told to stop between [source_talkbacks[i].store(None)] and the counter does *)
  Definition fpc_done (pc : mf_pc) : bool :=
    match pc with MfInTerm | MfFinished => true | _ => false end.
  Definition passedc (th : nat -> mf_thread) (j : nat) : bool :=
    fpc_done (mf_pcv (th j)) && fin_term (mf_fin (th j)).
  Definition FGI (s : mf_state) : Prop :=
    mfs_endc s <= cnt (passedc (mfs_th s)) n /\
    (mfs_ended s = false -> mfs_endc s = cnt (passedc (mfs_th s)) n).

  Lemma FGI_init qs : FGI (mf_init true n qs fins).
  Proof.
    assert (H : cnt (passedc (mfs_th (mf_init true n qs fins))) n = 0).
    { transitivity (cnt (fun _ => false) n).
      - apply cnt_ext. intros j Hj. unfold passedc. cbn -[Nat.ltb].
        destruct (Nat.ltb_spec j n); [reflexivity|lia].
      - clear. induction n; cbn; auto. }
    unfold FGI. rewrite H. cbn. split; auto.
  Qed.

  Lemma passed_same th t thr' :
    fpc_done (mf_pcv thr') && fin_term (mf_fin thr') = passedc th t ->
    cnt (passedc (upd th t thr')) n = cnt (passedc th) n.
  Proof.
    intros H. apply cnt_ext. intros j Hj. unfold passedc in *. pw j t; auto.
  Qed.

  Lemma passed_flip th t thr' :
    t < n -> passedc th t = false -> fpc_done (mf_pcv thr') && fin_term (mf_fin thr') = true ->
    cnt (passedc (upd th t thr')) n = S (cnt (passedc th) n).
  Proof.
    intros Ht H0 H1. apply cnt_flip with (t := t); auto.
    - intros j Hj Hne. unfold passedc. now rewrite upd_other.
    - unfold passedc. now rewrite upd_same.
  Qed.

  Lemma FGI_step s t s' : FTI s -> FGI s -> fstep n s t s' -> FGI s'.
  Proof.
    intros HTI HGI Hs. revert HTI HGI. destruct Hs; intros HTI HGI; auto.
    all: unfold FGI in *; cbn -[Nat.ltb Nat.eqb] in *.
    all: pose proof (HTI t) as Ht; unfold FTIc in Ht; cbn in Ht.
    all: match goal with H : _ = FT _ _ _ |- _ => rewrite H in Ht end; cbn in Ht.
    all: try match goal with H : forigin _ _ _ _ _ _ _ |- _ => destruct H end.
    all: try match goal with H : _ = MfInTerm \/ _ |- _ => destruct H; subst end.
    all: try match goal with H : fgoto _ _ _ _ _ _ _ |- _ => destruct H end.
    all: assert (Htn : t < n) by (destruct (Nat.lt_ge_cases t n); auto; exfalso; intuition congruence).
    all: destruct HGI as [HG1 HG2].
    all: try (is_var f; destruct f); cbn in Ht.
    all: first
      [ rewrite passed_same by (unfold passedc; rewrite H; cbn; brk; subst; cbn; congruence);
        split; auto
      | rewrite passed_flip by (auto; unfold passedc; rewrite H; cbn; brk; subst; cbn; congruence);
        split; [lia|]; intros Hen; first [rewrite HG2 by auto; reflexivity | exfalso; brk; fwd; congruence] ].
    all: try (intros; discriminate).
    all: exfalso; brk; congruence.
  Qed.

  (** the Dekker argument: the failing member k stores [ended] and then looks at every cell; a
      member i publishes its cell and then looks at [ended].  Once k's sweep has passed i, member
      i is stopped, or has not published yet, or is about to read ended = true and dispose itself,
      or has completed by itself: it begins no further delivery. *)
  Definition sweptb (pc : mf_pc) (i : nat) : bool :=
    match pc with MfAtSweep _ j => i <? j | MfInErr | MfFinished => true | _ => false end.
  Definition sw_ok (pc : mf_pc) (cl : bool) : Prop :=
    match pc with
    | MfAtPublish | MfAtEndedLoad | MfAtSelfSwap | MfAtEndInc | MfInTerm => True
    | MfFinished => cl = false
    | _ => False
    end.
  Definition FSW (s : mf_state) : Prop :=
    forall k i e, k < n -> i < n -> i <> k -> fins k = FinErr e ->
      sweptb (mf_pcv (mfs_th s k)) i = true -> mfs_stopped s i = false ->
      sw_ok (mf_pcv (mfs_th s i)) (mfs_cell s i).

  Lemma FSW_init qs : FSW (mf_init true n qs fins).
  Proof.
    intros k i e Hk Hi Hik Hf. cbn -[Nat.ltb]. destruct (Nat.ltb_spec k n); [|lia]. cbn. discriminate.
  Qed.

  Lemma swept_ended s k i e :
    FTI s -> k < n -> fins k = FinErr e -> sweptb (mf_pcv (mfs_th s k)) i = true -> mfs_ended s = true.
  Proof.
    intros HTI Hk Hf Hsw. pose proof (HTI k) as H. unfold FTIc in H.
    destruct H as (Hfin & _ & _ & _ & _ & _ & Hpc). rewrite Hfin, Hf in Hpc. cbn in Hpc.
    destruct (mf_pcv (mfs_th s k)); try discriminate; brk; fwd; auto.
  Qed.

  Lemma fgoto_swept t e j tr pc' tr' i :
    fgoto n t e j tr pc' tr' -> i < n -> i <> t -> sweptb pc' i = true -> i < j.
  Proof.
    intros Hg Hi Hit. destruct Hg as [j' Hj' Hlt|j' Hj' Hge]; cbn; intros Hsw.
    - apply Nat.ltb_lt in Hsw. destruct (Nat.eqb_spec j t); lia.
    - destruct (Nat.eqb_spec j t); lia.
  Qed.

  Lemma FSW_step s t s' : FTI s -> FSW s -> fstep n s t s' -> FSW s'.
  Proof.
    intros HTI HSW Hs.
    pose proof (fun k i e => @swept_ended s k i e HTI) as Hend.
    revert HTI HSW Hend. destruct Hs; intros HTI HSW Hend; auto.
    all: intros k i e0 Hk Hi Hik Hfk; pose proof (HSW k i e0 Hk Hi Hik Hfk) as Hold;
      pose proof (Hend k i e0 Hk Hfk) as Hen; clear Hend;
      cbn -[Nat.ltb] in *; intros Hsw Hst.
    all: destruct (Nat.eq_dec k t) as [->|Hkt];
      [ rewrite upd_same in Hsw; rewrite (upd_other _ _ Hik)
      | rewrite (upd_other _ _ Hkt) in Hsw;
        destruct (Nat.eq_dec i t) as [->|Hit];
        [ rewrite upd_same | rewrite (upd_other _ _ Hit) ] ].
    all: pose proof (HTI t) as Ht; unfold FTIc in Ht; cbn in Ht.
    all: match goal with H : _ = FT _ _ _ |- _ => rewrite H in * end; cbn -[Nat.ltb] in *.
    all: rewrite ?upd_same in *; rewrite ?upd_other in * by auto.
    all: try discriminate.
    all: try solve [auto].
    all: try match goal with H : forigin _ _ _ _ _ _ _ |- _ => destruct H end.
    all: try match goal with H : _ = MfInTerm \/ _ |- _ => destruct H; subst end.
    all: cbn -[Nat.ltb] in *; try discriminate; try exact I.
    all: try solve [exfalso; auto].
    all: try solve [brk; fwd; fin0].
    all: try solve [exfalso; brk; fwd; fin0].
    all: try solve [exfalso; brk; match goal with H : _ = fins _ |- _ => rewrite Hfk in H end;
                    subst; cbn in *; fwd; fin0].
    all: try solve [exfalso; brk; destruct (cl t), (stp t); discriminate].
    - (* the store: nobody is swept yet *)
      pose proof (fgoto_swept H0 Hi Hik Hsw). lia.
    - (* the sweep takes j's talkback *)
      pose proof (fgoto_swept H1 Hi Hik Hsw) as Hlt.
      destruct (Nat.eq_dec i j) as [->|Hij]; [rewrite upd_same in Hst; discriminate|].
      rewrite upd_other in * by auto. apply Hold; auto. apply Nat.ltb_lt. lia.
    - destruct (Nat.eq_dec i j) as [->|Hij]; [rewrite upd_same in Hst; discriminate|].
      rewrite upd_other in * by auto. auto.
    - (* the sweep finds j's cell empty *)
      pose proof (fgoto_swept H1 Hi Hik Hsw) as Hlt.
      destruct (Nat.eq_dec i j) as [->|Hij]; [|apply Hold; auto; apply Nat.ltb_lt; lia].
      clear Hold Hen. pose proof (HTI j) as Hj. unfold FTIc in Hj. cbn in Hj.
      rewrite H0, Hst in Hj. cbn in Hj.
      destruct (mf_pcv (th j)); cbn; auto.
      all: brk; try contradiction; congruence.
  Qed.
End FineInv.

(** ** Trace invariant, on the components it reads *)

Definition f_indata (pc : mf_pc) : bool := match pc with MfInData => true | _ => false end.

(** the member's Error delivery has begun *)
Definition errdone (thr : mf_thread) : bool :=
  match mf_pcv thr with MfInErr | MfFinished => is_err (mf_fin thr) | _ => false end.

Section FTraceInv.
  Variable n : nat.
  Variable qs : nat -> list val.

  Record FTR (st ec de : nat) (stp : nat -> bool) (th : nat -> mf_thread) (tr : list tevent)
    : Prop := mkFTR {
    ftr_greet : count is_begin_greet tr = (if st =? 0 then 0 else 1);
    ftr_bgo : before_greet_ok (rev tr) = true;
    ftr_de : count isDE tr = de;
    ftr_dt : count isDT tr = (if ec =? n then 1 else 0);
    ftr_panic : existsb is_panic tr = false;
    ftr_deliv : forall j, delivered_by j (rev tr) ++ mf_q (th j) = qs j;
    ftr_scan : scan_term o0 false (rev tr) = [];
    ftr_open : forall j, scan_open o0 (rev tr) j = f_indata (mf_pcv (th j));
    ftr_seen : scan_seen false (rev tr) = true -> 1 <= de \/ ec = n;
    ftr_ups : forall j, count (is_up_term_of j) tr = (if stp j then 1 else 0) }.

  Ltac snoc :=
    cbn [rev]; rewrite ?count_cons_t, ?delivered_snoc, ?scan_term_app, ?scan_open_app, ?scan_seen_app;
    cbn [scan_term scan_open scan_seen ev_data existsb is_begin_greet isDE isDT is_panic
         is_up_term_of snd app Nat.add];
    rewrite ?app_nil_r.
  Ltac tr_split := constructor; [ | | | | | intros jj | | intros jj | | intros jj ]; snoc.

  Lemma FTR_silent st ec de stp th th' tr :
    FTR st ec de stp th tr ->
    (forall j, mf_q (th' j) = mf_q (th j) /\ f_indata (mf_pcv (th' j)) = f_indata (mf_pcv (th j))) ->
    FTR st ec de stp th' tr.
  Proof.
    intros [] H. constructor; auto.
    - intros j. destruct (H j) as [-> _]. auto.
    - intros j. destruct (H j) as [_ ->]. auto.
  Qed.

  Lemma FTR_st st ec de stp th tr : FTR st ec de stp th tr -> st <> 0 -> FTR (S st) ec de stp th tr.
  Proof. intros [] H. constructor; auto. destruct st; [lia|]. assumption. Qed.

  Lemma FTR_ec st ec de stp th tr :
    FTR st ec de stp th tr -> ec < n -> S ec <> n -> FTR st (S ec) de stp th tr.
  Proof.
    intros [] H1 H2. constructor; auto.
    - rewrite ftr_dt0. destruct (Nat.eqb_spec ec n), (Nat.eqb_spec (S ec) n); auto; lia.
    - intros Hs. destruct (ftr_seen0 Hs); auto. lia.
  Qed.

  Lemma FTR_up st ec de stp th tr t j :
    FTR st ec de stp th tr -> stp j = false ->
    FTR st ec de (upd stp j true) th ((t, TUp j UT) :: tr).
  Proof.
    intros [] Hj. tr_split; auto.
    - apply bgo_snoc; auto. right. exact I.
    - rewrite ftr_ups0. unfold upd. rewrite (Nat.eqb_sym jj j).
      destruct (Nat.eqb_spec j jj) as [->|Hne]; [rewrite Hj; reflexivity|reflexivity].
  Qed.

  Lemma FTR_end st ec de stp th th' tr t :
    FTR st ec de stp th tr ->
    (forall j, j <> t -> th' j = th j) -> mf_q (th' t) = mf_q (th t) ->
    f_indata (mf_pcv (th' t)) = false ->
    FTR st ec de stp th' ((t, TEnd) :: tr).
  Proof.
    intros [] Ho Hq Hp. tr_split; auto.
    - apply bgo_snoc; auto. right. exact I.
    - destruct (Nat.eq_dec jj t) as [->|Hj]; [rewrite Hq|rewrite Ho by auto]; auto.
    - pw jj t; [now rewrite Hp|]. rewrite Ho by auto. auto.
  Qed.

  Lemma FTR_dh ec de stp th tr t : FTR 0 ec de stp th tr -> FTR 1 ec de stp th ((t, TBegin DH) :: tr).
  Proof.
    intros []. tr_split; auto.
    - rewrite ftr_greet0. reflexivity.
    - apply bgo_snoc; auto. right. exact I.
  Qed.

  Lemma FTR_dd st ec stp th th' tr t v :
    FTR st ec 0 stp th tr ->
    (forall j, j <> t -> th' j = th j) -> mf_q (th t) = v :: mf_q (th' t) ->
    mf_pcv (th' t) = MfInData -> 1 <= st -> ec <> n ->
    FTR st ec 0 stp th' ((t, TBegin (DD v)) :: tr).
  Proof.
    intros [] Ho Hq Hp Hst Hec. tr_split; auto.
    - apply bgo_snoc; auto. left. rewrite count_rev, ftr_greet0. destruct st; [lia|]. cbn. lia.
    - destruct (Nat.eqb_spec jj t) as [->|Hj].
      + rewrite <- app_assoc. cbn. rewrite <- Hq. auto.
      + rewrite app_nil_r. rewrite Ho by auto. auto.
    - destruct (scan_seen false (rev tr)) eqn:E; [|now rewrite ftr_scan0].
      destruct (ftr_seen0 eq_refl); [lia|congruence].
    - pw jj t; [now rewrite Hp|]. rewrite Ho by auto. auto.
  Qed.

  Lemma FTR_dt st ec de stp th tr t :
    FTR st ec de stp th tr -> ec < n -> S ec = n -> 1 <= st ->
    (forall j, f_indata (mf_pcv (th j)) = false) ->
    FTR st (S ec) de stp th ((t, TBegin DT) :: tr).
  Proof.
    intros [] H1 H2 Hst Ho. tr_split; auto.
    - apply bgo_snoc; auto. left. rewrite count_rev, ftr_greet0. destruct st; [lia|]. cbn. lia.
    - rewrite ftr_dt0. destruct (Nat.eqb_spec ec n), (Nat.eqb_spec (S ec) n); auto; lia.
    - rewrite ftr_scan0. rewrite existsb_false; [reflexivity|].
      intros j. rewrite ftr_open0. apply Ho.
  Qed.

  Lemma FTR_de st ec de stp th tr t e :
    FTR st ec de stp th tr -> 1 <= st -> FTR st ec (S de) stp th ((t, TBegin (DE e)) :: tr).
  Proof.
    intros [] Hst. tr_split; auto.
    - apply bgo_snoc; auto. left. rewrite count_rev, ftr_greet0. destruct st; [lia|]. cbn. lia.
    - intros _. left. lia.
  Qed.

  Lemma FTR_origin st ec de cl stp th tr t pc q f st' tr0 :
    FTR st ec de stp th tr -> th t = FT pc q f -> forigin t st cl tr pc st' tr0 ->
    FTR st' ec de stp (upd th t (FT MfFinished q f)) tr0.
  Proof.
    intros HT Hth Ho. destruct Ho.
    - eapply FTR_silent; [apply FTR_st; eauto|].
      intros j. pw j t; auto. rewrite Hth. auto.
    - eapply FTR_end; eauto.
      + intros j Hj. now rewrite upd_other.
      + rewrite upd_same, Hth. reflexivity.
      + now rewrite upd_same.
    - eapply FTR_end; eauto.
      + intros j Hj. now rewrite upd_other.
      + rewrite upd_same, Hth. reflexivity.
      + now rewrite upd_same.
    - eapply FTR_silent; [eauto|].
      intros j. pw j t; auto. rewrite Hth. auto.
  Qed.
End FTraceInv.

(** ** The trace invariant is inductive *)

Lemma cnt_zero_or P k : cnt P k = 0 \/ exists j, j < k /\ P j = true.
Proof.
  induction k; cbn; [now left|].
  destruct (P k) eqn:E; [right; exists k; split; auto|].
  destruct IHk as [->|(j & Hj & HP)]; [now left|right; exists j; split; auto].
Qed.

Section FineTrace.
  Variable n : nat.
  Variable qs : nat -> list val.
  Variable fins : nat -> final.
  Hypothesis amo : forall i j e1 e2, i < n -> j < n -> fins i = FinErr e1 -> fins j = FinErr e2 -> i = j.

  (** number of members whose Error delivery has begun *)
  Definition nde (th : nat -> mf_thread) : nat := cnt (fun j => errdone (th j)) n.

  Definition FTRI (s : mf_state) : Prop :=
    FTR n qs (mfs_start s) (mfs_endc s) (nde (mfs_th s)) (mfs_stopped s) (mfs_th s) (mfs_tr s).

  Lemma FTRI_init : 1 <= n -> FTRI (mf_init true n qs fins).
  Proof.
    intros Hn. unfold FTRI.
    assert (H : nde (mfs_th (mf_init true n qs fins)) = 0).
    { unfold nde. transitivity (cnt (fun _ => false) n).
      - apply cnt_ext. intros j Hj. unfold errdone. cbn -[Nat.ltb].
        destruct (Nat.ltb_spec j n); [reflexivity|lia].
      - clear. induction n; cbn; auto. }
    rewrite H. cbn -[Nat.ltb]. constructor; cbn -[Nat.ltb]; auto.
    - destruct n; [lia|reflexivity].
    - intros j. destruct (j <? n); reflexivity.
    - discriminate.
  Qed.

  Lemma nde_same th t thr' : errdone thr' = errdone (th t) -> nde (upd th t thr') = nde th.
  Proof. intros H. apply cnt_ext. intros j Hj. pw j t; auto. Qed.

  Lemma nde_flip th t thr' :
    t < n -> errdone (th t) = false -> errdone thr' = true -> nde (upd th t thr') = S (nde th).
  Proof.
    intros Ht H0 H1. apply cnt_flip with (t := t); auto.
    - intros j Hj Hne. now rewrite upd_other.
    - now rewrite upd_same.
  Qed.

  (** a member that is about to begin a delivery and has not been told to stop: the Error has not
      begun (this is where the Dekker invariant is used) *)
  Lemma nde_zero s t :
    FTI n fins s -> FSW n fins s -> t < n -> mfs_stopped s t = false ->
    errdone (mfs_th s t) = false -> ~ sw_ok (mf_pcv (mfs_th s t)) (mfs_cell s t) ->
    nde (mfs_th s) = 0.
  Proof.
    intros HTI HSW Ht Hst He Hno.
    destruct (cnt_zero_or (fun j => errdone (mfs_th s j)) n) as [H|(k & Hk & Hek)]; [exact H|].
    exfalso. apply Hno.
    assert (Hkt : t <> k) by (intros ->; congruence).
    destruct (HTI k) as (Hfin & _).
    unfold errdone in Hek.
    destruct (fins k) as [|e|] eqn:Ef; rewrite Hfin in Hek;
      try (destruct (mf_pcv (mfs_th s k)); discriminate).
    apply (HSW k t e); auto.
    destruct (mf_pcv (mfs_th s k)); try discriminate; reflexivity.
  Qed.

  Lemma ec_lt s t : FGI n s -> t < n -> passedc (mfs_th s) t = false -> mfs_endc s < n.
  Proof.
    intros [HG _] Ht Hp. pose proof (cnt_lt _ Ht Hp). lia.
  Qed.

  Ltac silent t Hth :=
    let j := fresh "j" in
    intros j; pw j t; auto; rewrite ?Hth; cbn; auto.

  Ltac side H :=
    rewrite ?H;
    try (match goal with Ho : forigin _ _ _ _ _ _ _ |- _ => destruct Ho end);
    try (match goal with Ho : _ = MfInTerm \/ _ |- _ => destruct Ho; subst end);
    cbn;
    try (match goal with f : final |- _ => is_var f; destruct f end); cbn in *; brk; fwd; congruence.

  Lemma FTRI_step s t s' :
    FTI n fins s -> FGE n fins s -> FGI n s -> FSW n fins s -> FTRI s -> fstep n s t s' -> FTRI s'.
  Proof.
    intros HTI HGE HGI HSW HT Hs. revert HTI HGE HGI HSW HT.
    destruct Hs; intros HTI HGE HGI HSW HT; auto; unfold FTRI in *;
      cbn [mfs_start mfs_endc mfs_ended mfs_stopped mfs_th mfs_tr] in *.
    all: pose proof (HTI t) as Ht; unfold FTIc in Ht; cbn in Ht; rewrite H in Ht; cbn in Ht.
    all: assert (Htn : t < n)
      by (destruct (Nat.lt_ge_cases t n); auto; exfalso;
          try match goal with Ho : forigin _ _ _ _ _ _ _ |- _ => destruct Ho end;
          try match goal with Ho : _ = MfInTerm \/ _ |- _ => destruct Ho; subst end;
          brk; fwd; congruence).
    all: try match goal with Hg : fgoto _ _ _ _ _ _ _ |- _ => destruct Hg end.
    all: first [ rewrite nde_same by (side H) | rewrite nde_flip by (auto; side H) ].
    - eapply FTR_silent; [eauto|]. silent t H.
    - eapply FTR_silent; [eauto|]. silent t H.
    - eapply FTR_silent; [eauto|]. silent t H.
    - (* the member disposes itself *)
      eapply FTR_silent; [apply FTR_up; eauto; brk; fwd; auto|]. silent t H.
    - eapply FTR_silent; [eauto|]. silent t H.
    - eapply FTR_silent; [apply FTR_dh; eauto|]. silent t H.
    - eapply FTR_origin; eauto.
    - (* next: data *)
      pose proof (FTR_origin HT H H0) as HT1.
      assert (Hec : ec < n).
      { apply (ec_lt (s := FS st ec en cl stp th tr) HGI Htn).
        unfold passedc. cbn. rewrite H. cbn. destruct H0; reflexivity. }
      assert (Hde : nde th = 0).
      { destruct H0.
        1-3: apply (nde_zero (s := FS st ec en cl stp th tr) HTI HSW Htn); cbn; auto;
          rewrite H; cbn; auto.
        exfalso. brk. destruct (cl t), (stp t); discriminate. }
      rewrite Hde in *.
      eapply FTR_dd; [exact HT1| | | | |].
      + intros j Hj. now rewrite !upd_other.
      + now rewrite !upd_same.
      + now rewrite upd_same.
      + destruct H0; brk; fwd; lia.
      + lia.
    - eapply FTR_silent; [eapply FTR_origin; eauto|]. silent t H.
    - eapply FTR_silent; [eapply FTR_origin; eauto|]. silent t H.
    - eapply FTR_silent; [eapply FTR_origin; eauto|]. silent t H.
    - eapply FTR_silent; [eauto|]. silent t H.
    - (* the last member counts itself: completion *)
      destruct HGI as [HG1 HG2]. cbn in HG1, HG2.
      assert (Hpt : passedc th t = false) by (unfold passedc; rewrite H; reflexivity).
      pose proof (cnt_lt _ Htn Hpt) as Hlt.
      eapply FTR_silent; [apply FTR_dt; eauto; try lia; brk; auto|]; [|silent t H].
      intros j. destruct (Nat.eq_dec j t) as [->|Hj]; [now rewrite H|].
      destruct (Nat.lt_ge_cases j n) as [Hjn|Hjn].
      + assert (Hc : passedc th j = true).
        { apply cnt_but_one with (k := n) (t := t); auto. lia. }
        unfold passedc in Hc.
        destruct (mf_pcv (th j)); cbn in *; auto; discriminate.
      + destruct (HTI j) as (_ & _ & _ & Hfj & _). cbn in Hfj. now rewrite Hfj.
    - (* a member counts itself, not the last *)
      assert (Hec : ec < n).
      { apply (ec_lt (s := FS st ec en cl stp th tr) HGI Htn).
        unfold passedc. cbn. now rewrite H. }
      eapply FTR_silent; [apply FTR_ec; eauto|]. silent t H.
    - (* return from the terminal delivery *)
      eapply FTR_end; eauto.
      + intros j Hj. now rewrite upd_other.
      + rewrite upd_same, H. reflexivity.
      + now rewrite upd_same.
    - eapply FTR_silent; [eauto|]. silent t H.
    - eapply FTR_silent; [apply FTR_de; eauto; brk; auto|]. silent t H.
    - (* sweep: sibling j is told to stop *)
      eapply FTR_silent; [apply FTR_up; eauto|]; [|silent t H].
      destruct (HTI j) as (_ & _ & _ & _ & Hcs & _). auto.
    - eapply FTR_silent; [apply FTR_de; [apply FTR_up; eauto|brk; auto]|]; [|silent t H].
      destruct (HTI j) as (_ & _ & _ & _ & Hcs & _). auto.
    - eapply FTR_silent; [eauto|]. silent t H.
    - eapply FTR_silent; [apply FTR_de; eauto; brk; auto|]. silent t H.
  Qed.
End FineTrace.

(** ** The theorems (C18 for merge! with the talkback cells as scheduling points, all schedules) *)

Section FineTheorems.
  Variable n : nat.
  Variable qs : nat -> list val.
  Variable fins : nat -> final.
  Hypothesis Hn : 1 <= n.
  Hypothesis amo : at_most_one_err n fins.

  Definition FInv (s : mf_state) : Prop :=
    FTI n fins s /\ FGE n fins s /\ FGI n s /\ FSW n fins s /\ FTRI n qs s.

  Lemma freach_inv s : mf_reach n qs fins s -> FInv s.
  Proof.
    pose proof amo as amo'. unfold at_most_one_err in amo'.
    induction 1 as [|s t _ (H1 & H2 & H3 & H4 & H5)].
    - split; [|split; [|split; [|split]]].
      + apply FTI_init.
      + apply FGE_init.
      + apply FGI_init.
      + apply FSW_init.
      + now apply FTRI_init.
    - pose proof (fstep_of n s t) as Hs. split; [|split; [|split; [|split]]].
      + eapply FTI_step; eauto.
      + eapply FGE_step; eauto.
      + eapply FGI_step; eauto.
      + eapply FSW_step; eauto.
      + eapply FTRI_step; eauto.
  Qed.

  Lemma errdone_err s k : FInv s -> errdone (mfs_th s k) = true -> is_err (fins k) = true.
  Proof.
    intros (H1 & _) He. destruct (H1 k) as (Hfin & _). rewrite <- Hfin.
    unfold errdone in He. destruct (mf_pcv (mfs_th s k)); try discriminate; exact He.
  Qed.

  Lemma nde_le_one s : FInv s -> nde n (mfs_th s) <= 1.
  Proof.
    intros HI. apply cnt_le_one. intros i j Hi Hj Hei Hej.
    pose proof (errdone_err _ HI Hei) as Hi'. pose proof (errdone_err _ HI Hej) as Hj'.
    destruct (fins i) eqn:Ei; try discriminate. destruct (fins j) eqn:Ej; try discriminate.
    eapply amo; eauto.
  Qed.

  Lemma nde_pos_lt s : FInv s -> 1 <= nde n (mfs_th s) -> mfs_endc s < n.
  Proof.
    intros HI Hp.
    destruct (cnt_zero_or (fun j => errdone (mfs_th s j)) n) as [H|(k & Hk & Hek)];
      [unfold nde in Hp; lia|].
    pose proof (errdone_err _ HI Hek) as He. destruct HI as (H1 & _ & H3 & _).
    apply (ec_lt H3 Hk). unfold passedc. destruct (H1 k) as (Hfin & _). rewrite Hfin.
    destruct (fins k); try discriminate. cbn. apply andb_false_r.
  Qed.

  Lemma fendc_le s : FInv s -> mfs_endc s <= n.
  Proof. intros (_ & _ & [H3 _] & _). pose proof (cnt_le (passedc (mfs_th s)) n). lia. Qed.

  (** 1. the sink is greeted at most once, nothing is delivered before the greeting begins *)
  Theorem fine_greet_once s :
    mf_reach n qs fins s ->
    count is_begin_greet (mfs_tr s) <= 1 /\ before_greet_ok (rev (mfs_tr s)) = true.
  Proof.
    intros Hr. destruct (freach_inv Hr) as (_ & _ & _ & _ & []). split; auto.
    rewrite ftr_greet0. destruct (mfs_start s =? 0); lia.
  Qed.

  (** 2. each member's deliveries followed by what it still holds are its queue: its own order,
      nothing forged, nothing twice *)
  Theorem fine_delivered s :
    mf_reach n qs fins s -> forall t, delivered_by t (rev (mfs_tr s)) ++ mf_q (mfs_th s t) = qs t.
  Proof. intros Hr. destruct (freach_inv Hr) as (_ & _ & _ & _ & []). assumption. Qed.

  (** 3. at most one terminal message begins at the sink *)
  Theorem fine_one_terminal s :
    mf_reach n qs fins s -> count is_begin_term (mfs_tr s) <= 1.
  Proof.
    intros Hr. pose proof (freach_inv Hr) as HI.
    pose proof (nde_le_one HI) as Hle. pose proof (nde_pos_lt HI) as Hlt.
    destruct HI as (_ & _ & _ & _ & []).
    rewrite count_term_split, ftr_dt0, ftr_de0.
    destruct (Nat.eqb_spec (mfs_endc s) n); lia.
  Qed.

  (** 4. no completion while a data delivery is in progress, no delivery begins after a terminal
      message began *)
  Theorem fine_no_data_after_end s :
    mf_reach n qs fins s -> scan_term (fun _ => false) false (rev (mfs_tr s)) = [].
  Proof. intros Hr. destruct (freach_inv Hr) as (_ & _ & _ & _ & []). assumption. Qed.

  Theorem fine_no_panic s : mf_reach n qs fins s -> existsb is_panic (mfs_tr s) = false.
  Proof. intros Hr. destruct (freach_inv Hr) as (_ & _ & _ & _ & []). assumption. Qed.

  (** 5. every member's talkback is told to stop at most once, whoever does it *)
  Theorem fine_disposed_at_most_once s :
    mf_reach n qs fins s -> forall j, count (is_up_term_of j) (mfs_tr s) <= 1.
  Proof.
    intros Hr j. destruct (freach_inv Hr) as (_ & _ & _ & _ & []).
    rewrite ftr_ups0. destruct (mfs_stopped s j); lia.
  Qed.

  (** threads that are not members are finished from the start *)
  Lemma fine_finished_ge s t : mf_reach n qs fins s -> n <= t -> mf_finished s t = true.
  Proof.
    intros Hr Ht. destruct (freach_inv Hr) as (H1 & _). destruct (H1 t) as (_ & _ & _ & H & _).
    unfold mf_finished. now rewrite (H Ht).
  Qed.

  (** 6. once the output has ended and everything is quiet, every other member has been told to
      stop exactly once, or had completed by itself *)
  Theorem fine_disposed_exactly_once s :
    mf_reach n qs fins s ->
    (forall t, t < n -> mf_finished s t = true) -> mfs_ended s = true ->
    forall j, j < n -> (forall e, fins j <> FinErr e) ->
      count (is_up_term_of j) (mfs_tr s) = 1
      \/ (mf_q (mfs_th s j) = [] /\ fins j = FinTerm /\ mfs_stopped s j = false).
  Proof.
    intros Hr Hfin Hen j Hj Hne. destruct (freach_inv Hr) as (H1 & H2 & _ & H4 & []).
    rewrite ftr_ups0. destruct (mfs_stopped s j) eqn:Es; [now left|right].
    destruct (H2 Hen) as (k & e & Hk & Hfk & _).
    assert (Hpc : forall t, t < n -> mf_pcv (mfs_th s t) = MfFinished).
    { intros t Ht. specialize (Hfin t Ht). unfold mf_finished in Hfin.
      destruct (mf_pcv (mfs_th s t)); congruence. }
    assert (Hjk : j <> k) by (intros ->; eapply Hne; eauto).
    pose proof (H4 k j e Hk Hj Hjk Hfk) as Hsw. rewrite (Hpc k Hk), (Hpc j Hj) in Hsw.
    specialize (Hsw eq_refl Es). cbn in Hsw.
    pose proof (H1 j) as Hjj. unfold FTIc in Hjj. rewrite (Hpc j Hj), Es, Hsw in Hjj.
    destruct Hjj as (Hf & _ & _ & _ & _ & _ & Hp). destruct (Hp Hj) as (_ & _ & _ & Hd).
    destruct (Hd eq_refl) as [(Ha & Hb & _)|(_ & Hc)]; [|discriminate].
    repeat split; auto. congruence.
  Qed.

  (** 7. the full C18 check, with the talkback cells as scheduling points, on every final state *)
  Theorem fine_final s :
    mf_reach n qs fins s ->
    (forall t, t < n -> mf_finished s t = true) -> merge_check_fine n qs fins (rev (mfs_tr s)) = [].
  Proof.
    intros Hr Hfin. pose proof (freach_inv Hr) as HI.
    pose proof (nde_le_one HI) as Hle. pose proof (nde_pos_lt HI) as Hlt.
    pose proof (fine_one_terminal Hr) as Hone.
    assert (Hpc : forall t, mf_pcv (mfs_th s t) = MfFinished).
    { intros t. assert (Hf : mf_finished s t = true).
      { destruct (Nat.lt_ge_cases t n); auto using fine_finished_ge. }
      unfold mf_finished in Hf. destruct (mf_pcv (mfs_th s t)); congruence. }
    destruct HI as (H1 & H2 & H3 & H4 & []).
    assert (HF : forall t, t < n ->
              mf_fin (mfs_th s t) = fins t /\ (mfs_stopped s t = true -> mfs_ended s = true) /\
              1 <= mfs_start s /\ (mfs_ended s = false -> mf_q (mfs_th s t) = []) /\
              (is_err (fins t) = true -> mfs_ended s = true)).
    { intros t Ht. pose proof (H1 t) as H. unfold FTIc in H. rewrite (Hpc t) in H.
      destruct H as (Ha & Hb & _ & _ & _ & _ & Hc). destruct (Hc Ht) as (Hd & He & Hf & _).
      rewrite Ha in Hf. auto. }
    unfold merge_check_fine. rewrite merge_check_unfold.
    rewrite (flat_map_nil (fun j => flagt (count (is_up_term_of j) (rev (mfs_tr s)) <=? 1) TvDisposedTwice)).
    2:{ intros j _. rewrite count_rev, ftr_ups0.
        destruct (mfs_stopped s j); reflexivity. }
    rewrite app_nil_r, !count_rev, existsb_rev.
    assert (Hst : 1 <= mfs_start s) by (destruct (HF 0 Hn) as (_ & _ & H & _); exact H).
    rewrite ftr_greet0. destruct (Nat.eqb_spec (mfs_start s) 0) as [|_]; [lia|]. cbn [Nat.eqb flagt app].
    rewrite ftr_bgo0. cbn [flagt app].
    destruct (Nat.leb_spec (count is_begin_term (mfs_tr s)) 1); [|lia]. cbn [flagt app].
    rewrite ftr_panic0. cbn [negb flagt app].
    rewrite ftr_scan0. cbn [app].
    rewrite flat_map_nil.
    2:{ intros t _. rewrite <- (ftr_deliv0 t), is_prefix_app. reflexivity. }
    cbn [app].
    destruct (any_err n fins) eqn:Eany.
    - (* a member fails: exactly one Error, no Terminate *)
      apply existsb_exists in Eany. destruct Eany as (f & Hf & He).
      apply in_seq in Hf. destruct (fins f) as [|e|] eqn:Ef; try discriminate.
      assert (Hfn : f < n) by lia.
      assert (Hp : 1 <= nde n (mfs_th s)).
      { apply cnt_pos with (t := f); auto. unfold errdone. rewrite (Hpc f).
        destruct (HF f Hfn) as (-> & _). now rewrite Ef. }
      specialize (Hlt Hp).
      rewrite ftr_de0, ftr_dt0. destruct (Nat.eqb_spec (mfs_endc s) n); [lia|].
      replace (nde n (mfs_th s)) with 1 by lia. reflexivity.
    - (* nobody fails: everything delivered; all Terminate => exactly one completion *)
      assert (Hen : mfs_ended s = false).
      { destruct (mfs_ended s) eqn:E; auto. destruct (H2 E) as (f & e & Hf & He & _).
        assert (Hx : existsb (fun t => match fins t with FinErr _ => true | _ => false end) (seq 0 n) = true).
        { apply existsb_exists. exists f. split; [apply in_seq; lia|]. now rewrite He. }
        unfold any_err in Eany. congruence. }
      rewrite flat_map_nil.
      2:{ intros t Ht. apply in_seq in Ht. destruct (HF t) as (_ & _ & _ & Hq & _); [lia|].
          rewrite <- (ftr_deliv0 t), (Hq Hen), app_nil_r, list_val_eqb_refl. reflexivity. }
      cbn [app].
      destruct (all_term n fins) eqn:Eall; [|reflexivity].
      assert (Hec : mfs_endc s = n).
      { destruct H3 as [_ H3]. rewrite (H3 Hen). apply cnt_all. intros t Ht.
        unfold passedc. rewrite (Hpc t). cbn.
        destruct (HF t Ht) as (Ha & _).
        unfold all_term in Eall. rewrite forallb_forall in Eall.
        specialize (Eall t). rewrite Ha.
        destruct (fins t); try (exfalso; assert (false = true) by (apply Eall; apply in_seq; lia); discriminate).
        reflexivity. }
      rewrite ftr_dt0, Hec, Nat.eqb_refl. reflexivity.
  Qed.
End FineTheorems.

(** ** What the driver runs is reachable *)

Lemma fine_run_sched_reach n qs fins sch : forall s,
  mf_reach n qs fins s -> mf_reach n qs fins (run_sched (mf_step true n) mf_finished sch s).
Proof.
  induction sch as [|t sch IH]; intros s Hr; cbn; auto.
  apply IH. destruct (mf_finished s t); auto. now constructor.
Qed.

Lemma fine_drain_threads_reach n qs fins nth fuel : forall s,
  mf_reach n qs fins s -> mf_reach n qs fins (drain_threads (mf_step true n) mf_finished nth fuel s).
Proof.
  induction fuel as [|fuel IH]; intros s Hr; cbn; auto.
  destruct (first_unfinished mf_finished nth s); auto. apply IH. now constructor.
Qed.

Lemma fine_run_full_reach n qs fins nth sch fuel :
  mf_reach n qs fins (run_full (mf_step true n) mf_finished nth sch fuel (mf_init true n qs fins)).
Proof. unfold run_full. apply fine_drain_threads_reach, fine_run_sched_reach. constructor. Qed.

(** the driver's run, when it ends with every member finished, passes the full check *)
Corollary fine_driver_final n qs fins nth sch fuel :
  1 <= n -> at_most_one_err n fins ->
  let s := run_full (mf_step true n) mf_finished nth sch fuel (mf_init true n qs fins) in
  (forall t, t < n -> mf_finished s t = true) -> merge_check_fine n qs fins (rev (mfs_tr s)) = [].
Proof. intros Hn Ha s Hf. apply fine_final; auto. apply fine_run_full_reach. Qed.

(** ** Replays *)

(** the code before the repair, on the witness schedule of ThreadsFine.v: member 0 passes its
    [ended.load()], member 1 stores the flag and walks the cells (cell 0 still empty), member 0
    publishes its talkback too late and goes on: data reaches the sink after the Error *)
Theorem fine_unfixed_refuted :
  let s := run_full (mf_step false 2) mf_finished 2 h10_sched 400 (mf_init false 2 h10_qs h10_fins) in
  (forall t, t < 2 -> mf_finished s t = true) /\
  In TvAfterTerminal (merge_check_fine 2 h10_qs h10_fins (rev (mfs_tr s))).
Proof.
  split.
  - intros t Ht. destruct t as [|[|t]]; [vm_compute; reflexivity|vm_compute; reflexivity|lia].
  - vm_compute. auto.
Qed.

(** and the same schedule on the repaired code is accepted (non-vacuity): member 1's sweep finds
    member 0's talkback and disposes it *)
Example fine_fixed_h10_ok :
  let s := run_full (mf_step true 2) mf_finished 2 h10_sched 400 (mf_init true 2 h10_qs h10_fins) in
  (forall t, t < 2 -> mf_finished s t = true) /\ merge_check_fine 2 h10_qs h10_fins (rev (mfs_tr s)) = []
  /\ In (1, TUp 0 UT) (mfs_tr s).
Proof.
  split; [|split].
  - intros t Ht. destruct t as [|[|t]]; [vm_compute; reflexivity|vm_compute; reflexivity|lia].
  - vm_compute. reflexivity.
  - vm_compute. auto 10.
Qed.

Print Assumptions fine_greet_once.
Print Assumptions fine_delivered.
Print Assumptions fine_one_terminal.
Print Assumptions fine_no_data_after_end.
Print Assumptions fine_no_panic.
Print Assumptions fine_disposed_at_most_once.
Print Assumptions fine_disposed_exactly_once.
Print Assumptions fine_final.
Print Assumptions fine_run_full_reach.
Print Assumptions fine_driver_final.
Print Assumptions fine_unfixed_refuted.
Print Assumptions fine_fixed_h10_ok.
