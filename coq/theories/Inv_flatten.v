(** * Inv_flatten: the master invariant of flatten (switch semantics), over every
      reachable configuration, and the theorems C01-C05/C17 (safety), C11
      (only the latest inner speaks; completion) and the order of relayed data.

    Regime: [nsinks p = 1], [resub p = false], [no_nest p = false],
    [c14 p = false], [late_ok p = false] (every source, outer and inner,
    greets inside its subscribing call); guard [g_flatten] (an inner source
    the outer emits is fresh).  [pullable], [one_pull] are arbitrary.  The
    number of inner sources and the depth of re-entrancy are unbounded.

    The invariant [Inv] is a few global facts plus a phase [Ph]:
    - [PhInit]   nothing happened yet;
    - [PhSub0]   the sink's subscription is subscribing the outer (only the
                 outer's greeting is enabled);
    - [PhLive]   the sink is live; every suspended activation is [FlDone];
                 [fl_outer = true] iff the outer is live, otherwise it ended
                 and an inner is stored; a stored inner is live;
    - [PhOver]   the sink is disposed/finished, no upstream is live or
                 half-subscribed, only returns are enabled (the cells are not
                 cleared: [fl_inner = Some j] with [us j = UStopped/UEnded]);
    - [PhSwitch] top activation [(FlSubInner k, CUp j UT)]: the old inner has
                 just been stopped, port [S k] is still [UNone], and nothing
                 but the return is enabled (so nobody can subscribe [S k] in
                 between: freshness survives from the outer's Data input);
    - [PhSubI]   top activation [(FlDone, CSub (S k))], [S k] has not greeted:
                 only its greeting is enabled ([fl_inner] may still hold the
                 stopped old inner);
    - [PhErr]    top activation [(FlThenErr e, CUp j UT)]: a level failed, the
                 other one has just been stopped, the Error is due;
    - [PhDisp]   top activation [(FlThenOuter, CUp j UT)]: the sink disposed,
                 the inner has just been stopped, the outer is next.
    In the last four phases and in [PhOver] the environment has exactly one
    enabled move, which makes the transient states harmless. *)
From CB Require Import ProofLib Spec.

Set Implicit Arguments.

(** payloads sent by the inner sources (every port but 0), in arrival order *)
Fixpoint inner_data (tr : list event) : list val :=
  match tr with
  | [] => []
  | EIn (IDn (S _) (DD v)) :: tr' => v :: inner_data tr'
  | _ :: tr' => inner_data tr'
  end.

Lemma inner_data_app tr1 tr2 : inner_data (tr1 ++ tr2) = inner_data tr1 ++ inner_data tr2.
Proof.
  induction tr1 as [|e tr1 IH]; cbn; [reflexivity|].
  destruct e as [[s a|s u|[|j] [|v|e|]|s]|c| | |ob|]; cbn; try exact IH.
  now rewrite IH.
Qed.

Section FlattenInv.
  Variable p : mparams.
  Hypothesis Hns : nsinks p = 1.
  Hypothesis Hresub : resub p = false.
  Hypothesis Hnonest : no_nest p = false.
  Hypothesis Hc14 : c14 p = false.
  Hypothesis Hlate : late_ok p = false.
  Let o := flatten_op.
  Notation gfl := g_flatten.

  (** every suspended activation of the list has nothing left to do *)
  Definition AllDone (st : list (fl_fr * call)) : Prop :=
    forall f cl, In (f, cl) st -> f = FlDone.

  Lemma AllDone_nil : AllDone [].
  Proof. intros f cl []. Qed.

  Lemma AllDone_cons cl st : AllDone st -> AllDone ((FlDone, cl) :: st).
  Proof. intros H f cl' [E|Hin]; [now inversion E | eauto]. Qed.

  Lemma AllDone_inv f cl st : AllDone ((f, cl) :: st) -> f = FlDone /\ AllDone st.
  Proof.
    intros H. split; [apply (H f cl); now left|]. intros f' cl' Hin. apply (H f' cl'). now right.
  Qed.

  (** The phases of a run.  Only the top activation can be a non-trivial
      frame: its pending call is a Terminate to an upstream, which can only
      return. *)
  Inductive Ph (c : cfg o) : Prop :=
  | PhInit :
      stack c = [] -> subd (ms c) 0 = false -> sk (ms c) 0 = SNone ->
      (forall i, us (ms c) i = UNone) -> (forall s, err_due (ms c) s = None) -> Ph c
  | PhSub0 :
      stack c = [(FlDone, CSub 0)] -> subd (ms c) 0 = true -> sk (ms c) 0 = SNone ->
      us (ms c) 0 = USubd -> (forall i, us (ms c) (S i) = UNone) ->
      (forall s, err_due (ms c) s = None) ->
      fl_outer (cst c) = false -> fl_inner (cst c) = None -> Ph c
  | PhLive :
      AllDone (stack c) -> subd (ms c) 0 = true -> sk (ms c) 0 = SLive ->
      (forall i, us (ms c) i <> USubd) -> (forall s, err_due (ms c) s = None) ->
      (fl_outer (cst c) = true /\ us (ms c) 0 = ULive \/
       fl_outer (cst c) = false /\ us (ms c) 0 = UEnded /\ fl_inner (cst c) <> None) ->
      (fl_inner (cst c) = None \/
       exists k, fl_inner (cst c) = Some (S k) /\ us (ms c) (S k) = ULive) -> Ph c
  | PhOver :
      AllDone (stack c) -> subd (ms c) 0 = true -> sk_over (sk (ms c) 0) = true ->
      (forall i, us (ms c) i <> USubd) -> (forall s, err_due (ms c) s = None) ->
      (forall i, us (ms c) i <> ULive) -> Ph c
  | PhSwitch k j rest :
      stack c = (FlSubInner k, CUp j UT) :: rest -> AllDone rest ->
      subd (ms c) 0 = true -> sk (ms c) 0 = SLive ->
      (forall i, us (ms c) i <> USubd) -> (forall s, err_due (ms c) s = None) ->
      us (ms c) 0 = ULive -> fl_outer (cst c) = true ->
      us (ms c) j = UStopped -> us (ms c) (S k) = UNone ->
      (forall i, us (ms c) (S i) <> ULive) -> Ph c
  | PhSubI k rest :
      stack c = (FlDone, CSub (S k)) :: rest -> AllDone rest ->
      subd (ms c) 0 = true -> sk (ms c) 0 = SLive ->
      (forall i, i <> S k -> us (ms c) i <> USubd) -> (forall s, err_due (ms c) s = None) ->
      us (ms c) 0 = ULive -> fl_outer (cst c) = true ->
      us (ms c) (S k) = USubd ->
      (forall i, us (ms c) (S i) <> ULive) -> Ph c
  | PhErr e j rest :
      stack c = (FlThenErr e, CUp j UT) :: rest -> AllDone rest ->
      subd (ms c) 0 = true -> sk (ms c) 0 = SLive ->
      (forall i, us (ms c) i <> USubd) ->
      err_due (ms c) 0 = Some e -> (forall s, err_due (ms c) (S s) = None) ->
      existsb (Nat.eqb e) (errs_in (ms c)) = true ->
      us (ms c) j = UStopped ->
      (forall i, us (ms c) i <> ULive) -> Ph c
  | PhDisp j rest :
      stack c = (FlThenOuter, CUp j UT) :: rest -> AllDone rest ->
      subd (ms c) 0 = true -> sk (ms c) 0 = SDisposed ->
      (forall i, us (ms c) i <> USubd) -> (forall s, err_due (ms c) s = None) ->
      us (ms c) j = UStopped ->
      (forall i, us (ms c) (S i) <> ULive) ->
      (fl_outer (cst c) = true -> us (ms c) 0 = ULive) ->
      (fl_outer (cst c) = false -> us (ms c) 0 <> ULive) -> Ph c.

  Record Inv (c : cfg o) : Prop := {
    i_viols : viols (ms c) = [];
    i_dead : dead c = false;
    i_sk_other : forall s, sk (ms c) (S s) = SNone;
    i_task : forall s, task (ms c) s = false;
    (* C11: an inner that can still speak is the one whose talkback is stored *)
    i_switch : forall k, us (ms c) (S k) = ULive -> fl_inner (cst c) = Some (S k);
    i_ph : Ph c;
  }.

  Lemma inv0 : Inv (cfg0 o).
  Proof.
    constructor; cbn; auto; try discriminate.
    apply PhInit; cbn; auto.
  Qed.

  (** ** What [enabled] says, in propositional form *)

  Lemma en_sub (c : cfg o) s aux :
    enabled p gfl c (MIn (ISub s aux)) = true ->
    s = 0 /\ aux = 0 /\ stack c = [] /\ subd (ms c) 0 = false.
  Proof.
    intros He. start_in He Hlive Hdel Hg. cbn in He, Hg. rewrite Hns in He.
    destruct aux; [|discriminate].
    unfold at_top in He. destruct (stack c); cbn in He; [|discriminate].
    destruct s as [|s]; cbn in He; [|discriminate].
    apply negb_true_iff in He. auto.
  Qed.

  Lemma en_up (c : cfg o) s u :
    enabled p gfl c (MIn (IUp s u)) = true ->
    top_peer_is c (PSink s) = true /\ sk (ms c) s = SLive.
  Proof.
    intros He. start_in He Hlive Hdel Hg. cbn in He.
    apply andb_prop in He. destruct He as [He _].
    apply andb_prop in He. destruct He as [Htop Hsk].
    split; [exact Htop|]. destruct (sk (ms c) s); try discriminate; reflexivity.
  Qed.

  Lemma en_dn_h (c : cfg o) i :
    enabled p gfl c (MIn (IDn i DH)) = true ->
    us (ms c) i = USubd /\ exists f rest, stack c = (f, CSub i) :: rest.
  Proof.
    intros He. start_in He Hlive Hdel Hg. cbn in He. rewrite Hlate in He. cbn in He.
    apply andb_prop in He. destruct He as [_ He].
    apply andb_prop in He. destruct He as [Hus Hst].
    split; [destruct (us (ms c) i); try discriminate; reflexivity|].
    destruct (stack c) as [|[f [j|j u|s d]] rest]; try discriminate.
    apply Nat.eqb_eq in Hst. subst j. now exists f, rest.
  Qed.

  Lemma en_dn (c : cfg o) i d :
    d <> DH -> enabled p gfl c (MIn (IDn i d)) = true ->
    top_peer_is c (PUp i) = true /\ us (ms c) i = ULive /\
    (forall v, i = 0 -> d = DD v -> us (ms c) (S (inner_id v)) = UNone).
  Proof.
    intros Hd He. start_in He Hlive Hdel Hg. cbn in He.
    apply andb_prop in He. destruct He as [Htop He].
    assert (Hl : us_live (us (ms c) i) = true).
    { destruct d; try congruence; apply andb_prop in He; tauto. }
    split; [exact Htop|]. split.
    - destruct (us (ms c) i); try discriminate; reflexivity.
    - intros v -> ->. cbn in Hg. unfold inner_fresh in Hg.
      destruct (us (ms c) (S (inner_id v))); try discriminate; reflexivity.
  Qed.

  Lemma en_ret (c : cfg o) :
    enabled p gfl c MRet = true ->
    exists k cl rest, stack c = (k, cl) :: rest /\
                      forall i, cl = CSub i -> us (ms c) i <> USubd.
  Proof.
    intros He. pose proof (enabled_live _ _ _ _ He) as Hlive.
    unfold enabled in He. rewrite Hlive in He. cbn in He.
    destruct (stack c) as [|[k cl] rest]; [discriminate|].
    exists k, cl, rest. split; [reflexivity|]. intros i ->.
    rewrite Hlate in He. cbn in He. intros E. rewrite E in He. discriminate.
  Qed.

  (** a pending Terminate to an upstream: nothing but its return is enabled *)
  Lemma only_ret (c : cfg o) f j rest inp :
    stack c = (f, CUp j UT) :: rest -> us (ms c) j = UStopped ->
    enabled p gfl c (MIn inp) = true -> False.
  Proof.
    intros Hst Hus He. destruct inp as [s aux|s u|i d|s].
    - apply en_sub in He. destruct He as (_ & _ & E & _). congruence.
    - apply en_up in He. destruct He as [Htop _].
      unfold top_peer_is in Htop. rewrite Hst in Htop. discriminate.
    - destruct d as [|v|e|].
      + apply en_dn_h in He. destruct He as [_ (f' & r' & E)]. congruence.
      + apply en_dn in He; [|discriminate]. destruct He as (Htop & Hl & _).
        unfold top_peer_is in Htop. rewrite Hst in Htop. cbn in Htop.
        apply Nat.eqb_eq in Htop. congruence.
      + apply en_dn in He; [|discriminate]. destruct He as (Htop & Hl & _).
        unfold top_peer_is in Htop. rewrite Hst in Htop. cbn in Htop.
        apply Nat.eqb_eq in Htop. congruence.
      + apply en_dn in He; [|discriminate]. destruct He as (Htop & Hl & _).
        unfold top_peer_is in Htop. rewrite Hst in Htop. cbn in Htop.
        apply Nat.eqb_eq in Htop. congruence.
    - start_in He Hlive Hdel Hg. cbn in He. unfold at_top in He. rewrite Hst in He. discriminate.
  Qed.

  (** ** Settling an activation *)

  Lemma quiet m :
    (sk_over (sk m 0) = true -> forall i, us m i <> ULive) ->
    (forall s, err_due m s = None) -> check_quiescent p m = [].
  Proof.
    intros H1 H2. apply quiescent_nil; auto.
    - intros _ Hov i _. specialize (H1 Hov i). destruct (us m i); try reflexivity; congruence.
    - rewrite Hc14. discriminate.
  Qed.

  Lemma settle_ret m : check_quiescent p m = [] -> ms_settle p o m [] ARet = m.
  Proof. intros H. unfold ms_settle. cbn. destruct (cstack m); [rewrite H|]; reflexivity. Qed.

  Lemma settle_call m cl k :
    check_call p m cl = [] ->
    ms_settle p o m [] (ACall cl k) = set_cstack (mon_call_upd m cl) (cl :: cstack m).
  Proof. intros H. unfold ms_settle. cbn. rewrite H, mon_call_upd_cstack. reflexivity. Qed.

  Ltac dph Hph :=
    destruct Hph as [Hst' Hsd Hsk Hun Hdue
                    | Hst' Hsd Hsk Hus0 Hun Hdue Hou Hin
                    | Had Hsd Hsk Hns' Hdue Hout Hin
                    | Had Hsd Hsk Hns' Hdue Hnl
                    | k0 j rest0 Hst' Had Hsd Hsk Hns' Hdue Hus0 Hou Husj Husk Hnl
                    | k0 rest0 Hst' Had Hsd Hsk Hns' Hdue Hus0 Hou Husk Hnl
                    | e0 j rest0 Hst' Had Hsd Hsk Hns' Hdue0 Hdue Herr Husj Hnl
                    | j rest0 Hst' Had Hsd Hsk Hns' Hdue Husj Hnl Hou1 Hou2 ].

  (** pointwise goals about updated maps *)
  Ltac usolve :=
    intros; unfold upd in *;
    repeat match goal with
           | H : forall i, us ?m (S i) = ULive -> i = ?k, H' : us ?m (S ?i) = ULive |- _ =>
               tryif constr_eq i k then fail else (pose proof (H _ H'); subst i)
           | H : context [Nat.eqb ?a ?b] |- _ =>
               revert H; destruct (Nat.eqb_spec a b); intro H; try discriminate; subst
           | |- context [Nat.eqb ?a ?b] => destruct (Nat.eqb_spec a b); try discriminate; subst
           end;
    auto; try congruence; try solve [exfalso; eauto].

  Ltac close :=
    auto;
    try solve [usolve | intros [|?]; usolve | intros [|?]; cbn; solve [auto] | eauto 7
              | right; eexists; split; [reflexivity | usolve]].

  Ltac simp Hc Hm Hs Hd :=
    rewrite ?Hc, ?Hm, ?Hs, ?Hd; cbn; unfold due_on_error;
    repeat (rw_st; cbn; rewrite ?Nat.eqb_refl, ?upd_same; cbn).

  (** run the handler of input [i]; [Ein], [Eou] are the values of the two cells *)
  Ltac run_in c i Hdead Hdel Ein Eou :=
    let s' := fresh "s'" in
    let os := fresh "os" in
    let a := fresh "a" in
    let Hh := fresh "Hh" in
    destruct (handle o i (cst c)) as [[s' os] a] eqn:Hh;
    destruct (step_in p c i Hdead Hdel Hh) as (Hc & Hs & Hm & Hd);
    cbn in Hh; unfold fl_then_outer in Hh;
    rewrite ?Ein in Hh; cbn in Hh; rewrite ?Eou in Hh; cbn in Hh;
    let E1 := fresh "E" in let E2 := fresh "E" in let E3 := fresh "E" in
    injection Hh as E1 E2 E3; subst s' os a; cbn in Hs.

  Ltac call_ok Hm :=
    rewrite settle_call in Hm
      by (cbn; unfold due_on_error;
          repeat (rw_st; cbn; rewrite ?Nat.eqb_refl, ?upd_same; cbn); reflexivity).

  Local Hint Resolve AllDone_cons AllDone_nil : core.

  Lemma inv_sub (c : cfg o) s aux :
    Inv c -> enabled p gfl c (MIn (ISub s aux)) = true -> Inv (step p c (MIn (ISub s aux))).
  Proof.
    intros [Hv Hdead Hsko Htask Hsw Hph] He.
    pose proof (enabled_deliverable _ _ _ _ He) as Hdel.
    destruct (en_sub _ _ _ He) as (-> & -> & Hst & Hsd0).
    dph Hph; try congruence.
    destruct (step_in p c (ISub 0 0) Hdead Hdel eq_refl) as (Hc & Hs & Hm & Hd).
    rewrite settle_call in Hm by (cbn; rewrite Hun, Hresub, Hsk; reflexivity).
    constructor; simp Hc Hm Hs Hd; auto; try solve [usolve].
    apply PhSub0; simp Hc Hm Hs Hd; auto; try solve [usolve].
    now rewrite Hst.
  Qed.

  Lemma inv_up (c : cfg o) s u :
    Inv c -> enabled p gfl c (MIn (IUp s u)) = true -> Inv (step p c (MIn (IUp s u))).
  Proof.
    intros [Hv Hdead Hsko Htask Hsw Hph] He.
    pose proof (enabled_deliverable _ _ _ _ He) as Hdel.
    destruct (en_up _ _ _ He) as (Htop & Hsk0).
    destruct s as [|s]; [|rewrite Hsko in Hsk0; discriminate].
    dph Hph; try congruence; try (rewrite Hsk0 in Hsk; discriminate);
      try (exfalso; eapply only_ret; eauto; fail).
    2: { unfold top_peer_is in Htop. rewrite Hst' in Htop. discriminate. }
    destruct Hin as [Ein | (k & Ein & Husk)];
      destruct Hout as [(Eou & Hus0) | (Eou & Hus0 & Hne)]; try congruence.
    1: { (* no inner stored, outer present *)
      assert (Hnl : forall i, us (ms c) (S i) <> ULive)
        by (intros i Hi; apply Hsw in Hi; congruence).
      destruct u as [|e|].
      + run_in c (IUp 0 UP) Hdead Hdel Ein Eou. call_ok Hm.
        constructor; simp Hc Hm Hs Hd; close.
        apply PhLive; simp Hc Hm Hs Hd; close.
      + run_in c (IUp 0 (UE e)) Hdead Hdel Ein Eou. call_ok Hm.
        constructor; simp Hc Hm Hs Hd; close.
        apply PhOver; simp Hc Hm Hs Hd; close.
      + run_in c (IUp 0 UT) Hdead Hdel Ein Eou. call_ok Hm.
        constructor; simp Hc Hm Hs Hd; close.
        apply PhOver; simp Hc Hm Hs Hd; close. }
    all: assert (Honly : forall i, us (ms c) (S i) = ULive -> i = k)
        by (intros i Hi; apply Hsw in Hi; congruence).
    all: destruct u as [|e|].
    1,4: run_in c (IUp 0 UP) Hdead Hdel Ein Eou; call_ok Hm;
        (constructor; simp Hc Hm Hs Hd; close);
        apply PhLive; simp Hc Hm Hs Hd; close.
    1,3: run_in c (IUp 0 (UE e)) Hdead Hdel Ein Eou; call_ok Hm;
        (constructor; simp Hc Hm Hs Hd; close);
        apply PhDisp with (j := S k) (rest := stack c); simp Hc Hm Hs Hd; close.
    all: run_in c (IUp 0 UT) Hdead Hdel Ein Eou; call_ok Hm;
        (constructor; simp Hc Hm Hs Hd; close);
        apply PhDisp with (j := S k) (rest := stack c); simp Hc Hm Hs Hd; close.
  Qed.

  Lemma inv_dn (c : cfg o) i d :
    Inv c -> enabled p gfl c (MIn (IDn i d)) = true -> Inv (step p c (MIn (IDn i d))).
  Proof.
    intros [Hv Hdead Hsko Htask Hsw Hph] He.
    pose proof (enabled_deliverable _ _ _ _ He) as Hdel.
    destruct d as [|v|e|].
    1: { (* a greeting *)
      destruct (en_dn_h _ _ He) as (Hsub & f & rest & Hst).
      dph Hph; try congruence; try (exfalso; eapply Hns'; eauto; fail).
      + (* the outer greets *)
        rewrite Hst in Hst'. inversion Hst'; subst i f rest. clear Hst'.
        run_in c (IDn 0 DH) Hdead Hdel Hin Hou. call_ok Hm.
        constructor; simp Hc Hm Hs Hd; close.
        apply PhLive; simp Hc Hm Hs Hd; close.
        rewrite Hst. auto.
      + (* the new inner greets: store its talkback and pull it *)
        rewrite Hst in Hst'. inversion Hst'; subst i f rest. clear Hst'.
        run_in c (IDn (S k0) DH) Hdead Hdel Hou Hou. call_ok Hm.
        constructor; simp Hc Hm Hs Hd; close.
        apply PhLive; simp Hc Hm Hs Hd; close.
        rewrite Hst. auto. }
    (* Data, Error, Terminate: the sender is live *)
    all: match goal with
         | |- Inv (step _ _ (MIn (IDn _ ?d))) =>
             destruct (@en_dn c i d ltac:(discriminate) He) as (Htop & Hlv & Hfresh)
         end.
    all: dph Hph;
      try (rewrite Hun in Hlv; discriminate);
      try (destruct i; [congruence | rewrite Hun in Hlv; discriminate]);
      try (exfalso; eapply Hnl; eauto; fail);
      try (exfalso; eapply only_ret; eauto; fail);
      try (unfold top_peer_is in Htop; rewrite Hst' in Htop; cbn [peer_eqb peer_of] in Htop;
           apply Nat.eqb_eq in Htop; subst i; congruence).
    all: destruct i as [|k1].
    - (* the outer emits an inner source *)
      destruct Hout as [(Eou & Hus0) | (Eou & Hus0 & Hne)]; [|congruence].
      specialize (Hfresh v eq_refl eq_refl).
      destruct Hin as [Ein | (k & Ein & Husk)].
      + assert (Hnl : forall i, us (ms c) (S i) <> ULive)
          by (intros i Hi; apply Hsw in Hi; congruence).
        run_in c (IDn 0 (DD v)) Hdead Hdel Ein Eou. call_ok Hm.
        constructor; simp Hc Hm Hs Hd; close.
        apply PhSubI with (k := inner_id v) (rest := stack c); simp Hc Hm Hs Hd; close.
      + assert (Honly : forall i, us (ms c) (S i) = ULive -> i = k)
          by (intros i Hi; apply Hsw in Hi; congruence).
        run_in c (IDn 0 (DD v)) Hdead Hdel Ein Eou. call_ok Hm.
        constructor; simp Hc Hm Hs Hd; close.
        apply PhSwitch with (k := inner_id v) (j := S k) (rest := stack c);
          simp Hc Hm Hs Hd; close.
    - (* the current inner emits: relay *)
      pose proof (Hsw _ Hlv) as Ein.
      run_in c (IDn (S k1) (DD v)) Hdead Hdel Ein Ein. call_ok Hm.
      constructor; simp Hc Hm Hs Hd; close.
      apply PhLive; simp Hc Hm Hs Hd; close.
    - (* the outer fails *)
      destruct Hout as [(Eou & Hus0) | (Eou & Hus0 & Hne)]; [|congruence].
      destruct Hin as [Ein | (k & Ein & Husk)].
      + assert (Hnl : forall i, us (ms c) (S i) <> ULive)
          by (intros i Hi; apply Hsw in Hi; congruence).
        run_in c (IDn 0 (DE e)) Hdead Hdel Ein Eou. call_ok Hm.
        constructor; simp Hc Hm Hs Hd; close.
        apply PhOver; simp Hc Hm Hs Hd; close.
      + assert (Honly : forall i, us (ms c) (S i) = ULive -> i = k)
          by (intros i Hi; apply Hsw in Hi; congruence).
        run_in c (IDn 0 (DE e)) Hdead Hdel Ein Eou. call_ok Hm.
        constructor; simp Hc Hm Hs Hd; close.
        apply PhErr with (e := e) (j := S k) (rest := stack c); simp Hc Hm Hs Hd; close.
    - (* the current inner fails *)
      pose proof (Hsw _ Hlv) as Ein.
      assert (Honly : forall i, us (ms c) (S i) = ULive -> i = k1)
        by (intros i Hi; apply Hsw in Hi; congruence).
      destruct Hout as [(Eou & Hus0) | (Eou & Hus0 & Hne)].
      + run_in c (IDn (S k1) (DE e)) Hdead Hdel Ein Eou. call_ok Hm.
        constructor; simp Hc Hm Hs Hd; close.
        apply PhErr with (e := e) (j := 0) (rest := stack c); simp Hc Hm Hs Hd; close.
      + run_in c (IDn (S k1) (DE e)) Hdead Hdel Ein Eou. call_ok Hm.
        constructor; simp Hc Hm Hs Hd; close.
        apply PhOver; simp Hc Hm Hs Hd; close.
    - (* the outer completes *)
      destruct Hout as [(Eou & Hus0) | (Eou & Hus0 & Hne)]; [|congruence].
      destruct Hin as [Ein | (k & Ein & Husk)].
      + assert (Hnl : forall i, us (ms c) (S i) <> ULive)
          by (intros i Hi; apply Hsw in Hi; congruence).
        run_in c (IDn 0 DT) Hdead Hdel Ein Eou. call_ok Hm.
        constructor; simp Hc Hm Hs Hd; close.
        apply PhOver; simp Hc Hm Hs Hd; close.
      + assert (Honly : forall i, us (ms c) (S i) = ULive -> i = k)
          by (intros i Hi; apply Hsw in Hi; congruence).
        run_in c (IDn 0 DT) Hdead Hdel Ein Eou.
        rewrite settle_ret in Hm by (apply quiet; cbn; [rewrite Hsk; discriminate | exact Hdue]).
        constructor; simp Hc Hm Hs Hd; rewrite ?Ein; close.
        apply PhLive; simp Hc Hm Hs Hd; rewrite ?Ein; close.
    - (* the current inner completes *)
      pose proof (Hsw _ Hlv) as Ein.
      assert (Honly : forall i, us (ms c) (S i) = ULive -> i = k1)
        by (intros i Hi; apply Hsw in Hi; congruence).
      destruct Hout as [(Eou & Hus0) | (Eou & Hus0 & Hne)].
      + run_in c (IDn (S k1) DT) Hdead Hdel Ein Eou. call_ok Hm.
        constructor; simp Hc Hm Hs Hd; close.
        apply PhLive; simp Hc Hm Hs Hd; close.
      + run_in c (IDn (S k1) DT) Hdead Hdel Ein Eou. call_ok Hm.
        constructor; simp Hc Hm Hs Hd; close.
        apply PhOver; simp Hc Hm Hs Hd; close.
  Qed.

  Lemma inv_ret (c : cfg o) : Inv c -> enabled p gfl c MRet = true -> Inv (step p c MRet).
  Proof.
    intros [Hv Hdead Hsko Htask Hsw Hph] He.
    destruct (en_ret _ He) as (k & cl & rest & Hst & Hsub).
    destruct Hph as [Hst' | Hst' Hsd Hsk Hus0
                     | Had Hsd Hsk Hns' Hdue Hout Hin
                     | Had Hsd Hsk Hns' Hdue Hnl
                     | k0 j rest0 Hst' Had Hsd Hsk Hns' Hdue Hus0 Hou Husj Husk Hnl
                     | k0 rest0 Hst' Had Hsd Hsk Hns' Hdue Hus0 Hou Husk Hnl
                     | e j rest0 Hst' Had Hsd Hsk Hns' Hdue0 Hdue Herr Husj Hnl
                     | j rest0 Hst' Had Hsd Hsk Hns' Hdue Husj Hnl Hou1 Hou2 ].
    - congruence.
    - rewrite Hst in Hst'. inversion Hst'; subst. exfalso. now apply (Hsub 0).
    - (* live, a finished activation returns *)
      rewrite Hst in Had. apply AllDone_inv in Had. destruct Had as [-> Had].
      destruct (step_ret p c Hdead Hst eq_refl) as (Hc & Hs & Hm & Hd).
      rewrite settle_ret in Hm by (apply quiet; cbn; [rewrite Hsk; discriminate | exact Hdue]).
      constructor; rewrite ?Hc, ?Hm, ?Hs, ?Hd; cbn; auto.
      apply PhLive; rewrite ?Hc, ?Hm, ?Hs, ?Hd; cbn; auto.
    - (* over *)
      rewrite Hst in Had. apply AllDone_inv in Had. destruct Had as [-> Had].
      destruct (step_ret p c Hdead Hst eq_refl) as (Hc & Hs & Hm & Hd).
      rewrite settle_ret in Hm by (apply quiet; cbn; auto).
      constructor; rewrite ?Hc, ?Hm, ?Hs, ?Hd; cbn; auto.
      apply PhOver; rewrite ?Hc, ?Hm, ?Hs, ?Hd; cbn; auto.
    - (* the old inner has been told to stop: subscribe the new one *)
      rewrite Hst in Hst'. inversion Hst'; subst k cl rest0. clear Hst'.
      destruct (step_ret p c Hdead Hst eq_refl) as (Hc & Hs & Hm & Hd).
      rewrite settle_call in Hm by (cbn; rewrite Husk, Hresub, Hsk; reflexivity).
      constructor; rewrite ?Hc, ?Hm, ?Hs, ?Hd; cbn; auto.
      + intros k. unfold upd. destruct (Nat.eqb_spec (S k) (S k0)); [discriminate|]. auto.
      + apply PhSubI with (k := k0) (rest := rest); rewrite ?Hc, ?Hm, ?Hs, ?Hd; cbn; auto.
        all: try (intros i; unfold upd; destruct (Nat.eqb_spec i (S k0)); subst; auto; congruence).
        * apply upd_same.
        * intros i. unfold upd. destruct (Nat.eqb_spec (S i) (S k0)); [discriminate|]. auto.
    - rewrite Hst in Hst'. inversion Hst'; subst. exfalso. now apply (Hsub (S k0)).
    - (* the other level has been told to stop: fail the sink *)
      rewrite Hst in Hst'. inversion Hst'; subst k cl rest0. clear Hst'.
      destruct (step_ret p c Hdead Hst eq_refl) as (Hc & Hs & Hm & Hd).
      rewrite settle_call in Hm by (cbn; rewrite Hsk, Hnonest, Herr; reflexivity).
      constructor; rewrite ?Hc, ?Hm, ?Hs, ?Hd; cbn; rewrite ?Hsk, ?Hdue0, ?Nat.eqb_refl; cbn; auto.
      apply PhOver; rewrite ?Hc, ?Hm, ?Hs, ?Hd; cbn; rewrite ?Hsk, ?Hdue0, ?Nat.eqb_refl; cbn; auto.
      intros [|s]; [apply upd_same | rewrite upd_other by discriminate; apply Hdue].
    - (* the sink disposed, the inner has been told: now the outer *)
      rewrite Hst in Hst'. inversion Hst'; subst k cl rest0. clear Hst'.
      destruct (fl_outer (cst c)) eqn:Eou.
      + assert (Hr : resume o FlThenOuter (cst c) = (cst c, [], ACall (CUp 0 UT) FlDone)).
        { cbn. unfold fl_then_outer. now rewrite Eou. }
        destruct (step_ret p c Hdead Hst Hr) as (Hc & Hs & Hm & Hd).
        rewrite settle_call in Hm by (cbn; rewrite (Hou1 eq_refl); reflexivity).
        constructor; rewrite ?Hc, ?Hm, ?Hs, ?Hd; cbn; auto.
        apply PhOver; rewrite ?Hc, ?Hm, ?Hs, ?Hd; cbn; rewrite ?Hsk; auto.
        * intros i. unfold upd. destruct (Nat.eqb_spec i 0); [discriminate|]. apply Hns'.
        * intros [|i]; [rewrite upd_same; discriminate | rewrite upd_other by discriminate; apply Hnl].
      + assert (Hr : resume o FlThenOuter (cst c) = (cst c, [], ARet)).
        { cbn. unfold fl_then_outer. now rewrite Eou. }
        destruct (step_ret p c Hdead Hst Hr) as (Hc & Hs & Hm & Hd).
        assert (Hnl' : forall i, us (ms c) i <> ULive).
        { intros [|i]; auto. }
        rewrite settle_ret in Hm by (apply quiet; cbn; auto).
        constructor; rewrite ?Hc, ?Hm, ?Hs, ?Hd; cbn; auto.
        apply PhOver; rewrite ?Hc, ?Hm, ?Hs, ?Hd; cbn; rewrite ?Hsk; auto.
  Qed.

  Lemma inv_step (c : cfg o) m : Inv c -> enabled p gfl c m = true -> Inv (step p c m).
  Proof.
    intros HI He. destruct m as [[s aux|s u|i d|s]|].
    - now apply inv_sub.
    - now apply inv_up.
    - now apply inv_dn.
    - exfalso. destruct HI as [_ _ _ Htask _ _]. unfold enabled in He.
      repeat (apply andb_prop in He; destruct He as [? He]).
      cbn in He. now rewrite Htask in He.
    - now apply inv_ret.
  Qed.

  Theorem inv_reach (c : cfg o) : reach p gfl c -> Inv c.
  Proof. induction 1; [apply inv0 | now apply inv_step]. Qed.

  (** ** C11, switch: at every control point at most one inner source can
      still speak, and it is the one whose talkback is stored *)
  Theorem switch_one (c : cfg o) j k :
    reach p gfl c -> us (ms c) (S j) = ULive -> us (ms c) (S k) = ULive ->
    j = k /\ fl_inner (cst c) = Some (S k).
  Proof.
    intros Hr Hj Hk. destruct (inv_reach Hr) as [_ _ _ _ Hsw _].
    pose proof (Hsw _ Hj) as Ej. pose proof (Hsw _ Hk) as Ek.
    split; congruence.
  Qed.

  (** ** C11, completion.  While the sink is live some level can still speak,
      or the Error that will finish it is on its way: the top activation is
      the one that told the other level to stop and will deliver the Error
      next ([FlThenErr]), and nothing but the return of that call is enabled. *)
  Theorem live_has_source (c : cfg o) :
    reach p gfl c -> sk (ms c) 0 = SLive ->
    us (ms c) 0 = ULive \/ (exists k, us (ms c) (S k) = ULive) \/
    (exists e j rest, stack c = (FlThenErr e, CUp j UT) :: rest /\
                      err_due (ms c) 0 = Some e /\ us (ms c) j = UStopped).
  Proof.
    intros Hr Hlive. destruct (inv_reach Hr) as [_ _ _ _ _ Hph].
    dph Hph; try congruence; auto.
    - destruct Hout as [(Eou & Hus0) | (Eou & Hus0 & Hne)]; auto.
      destruct Hin as [Ein | (k & Ein & Husk)]; [congruence|]. right. left. eauto.
    - rewrite Hlive in Hsk. discriminate.
    - right. right. exists e0, j, rest0. auto.
  Qed.

  (** ** C11, completion, converse: the sink is sent Terminate only when the
      outer source has completed and no inner source is live *)

  Lemma handle_term i s s' os k :
    fl_handle i s = (s', os, ACall (CDn 0 DT) k) ->
    os = [] /\
    ((i = IDn 0 DT /\ fl_inner s = None) \/
     (exists j, i = IDn (S j) DT /\ fl_outer s = false)).
  Proof.
    destruct s as [ou inn].
    destruct i as [[|?] ?|[|?] [|?|]|[|?] [|?|?|]|?]; cbn; unfold fl_then_outer; cbn;
      destruct inn, ou; intros H; inversion H; eauto.
  Qed.

  Lemma resume_term f s s' os k : fl_resume f s = (s', os, ACall (CDn 0 DT) k) -> False.
  Proof.
    destruct s as [ou inn]. destruct f; cbn; unfold fl_then_outer; cbn;
      try destruct ou; intros H; inversion H.
  Qed.

  (** once the output is finished nothing but returns can happen *)
  Lemma finished_only_ret (c : cfg o) inp :
    Inv c -> sk (ms c) 0 = SFinished -> enabled p gfl c (MIn inp) = true -> False.
  Proof.
    intros [Hv Hdead Hsko Htask Hsw Hph] Hfin He.
    dph Hph; try congruence.
    destruct inp as [s aux|s u|i d|s].
    - apply en_sub in He. destruct He as (-> & _ & _ & E). congruence.
    - apply en_up in He. destruct He as [_ E]. destruct s; [congruence|].
      rewrite Hsko in E. discriminate.
    - destruct d as [|v|e|].
      + apply en_dn_h in He. destruct He as [E _]. now apply Hns' in E.
      + apply en_dn in He; [|discriminate]. destruct He as (_ & E & _). now apply Hnl in E.
      + apply en_dn in He; [|discriminate]. destruct He as (_ & E & _). now apply Hnl in E.
      + apply en_dn in He; [|discriminate]. destruct He as (_ & E & _). now apply Hnl in E.
    - unfold enabled in He.
      repeat (apply andb_prop in He; destruct He as [? He]).
      cbn in He. now rewrite Htask in He.
  Qed.

  Definition term_sent (c : cfg o) : Prop := In (ECall (CDn 0 DT)) (rtrace c).

  Lemma term_inv (c : cfg o) :
    reach p gfl c -> term_sent c -> sk (ms c) 0 = SFinished /\ us (ms c) 0 = UEnded.
  Proof.
    induction 1 as [|c m Hr IH He]; [intros []|].
    pose proof (inv_reach Hr) as HI.
    pose proof (enabled_live _ _ _ _ He) as Hlive.
    intros Hmem. unfold term_sent in Hmem. destruct m as [inp|].
    - pose proof (enabled_deliverable _ _ _ _ He) as Hdel.
      destruct (handle o inp (cst c)) as [[s' os] a] eqn:Hh.
      rewrite (step_in_rtrace p c inp Hlive Hdel Hh) in Hmem.
      destruct Hmem as [E | Hmem].
      + (* the Terminate is sent by this very activation *)
        destruct a as [| |cl k]; try discriminate. cbn in E. injection E as ->.
        destruct (step_in p c inp Hlive Hdel Hh) as (_ & _ & Hm & _).
        destruct HI as [Hv Hdead Hsko Htask Hsw Hph].
        apply handle_term in Hh. destruct Hh as (-> & [(-> & Ein) | (j1 & -> & Eou)]).
        * destruct (@en_dn c 0 DT ltac:(discriminate) He) as (Htop & Hlv & _).
          assert (Hsk : sk (ms c) 0 = SLive).
          { dph Hph; try congruence; try (exfalso; eapply Hnl; eauto; fail);
              try (exfalso; eapply only_ret; eauto; fail). }
          rewrite Hm. unfold ms_settle. cbn [map fold_left mon_event].
          rewrite add_viols_eq. cbn. rewrite Hsk. cbn. auto.
        * destruct (@en_dn c (S j1) DT ltac:(discriminate) He) as (Htop & Hlv & _).
          assert (Hsk : sk (ms c) 0 = SLive /\ us (ms c) 0 = UEnded).
          { dph Hph; try congruence; try (exfalso; eapply Hnl; eauto; fail);
              try (rewrite Hun in Hlv; discriminate).
            - destruct Hout as [(Eou' & Hus0) | (Eou' & Hus0 & Hne)]; [congruence|auto]. }
          destruct Hsk as [Hsk Hus0].
          rewrite Hm. unfold ms_settle. cbn [map fold_left mon_event].
          rewrite add_viols_eq. cbn. rewrite Hsk. cbn. auto.
      + apply in_app_or in Hmem. destruct Hmem as [Hmem | [E | Hmem]].
        * apply in_rev, in_map_iff in Hmem. destruct Hmem as (? & ? & _). discriminate.
        * discriminate.
        * destruct (IH Hmem) as [Hfin _]. exfalso. eapply finished_only_ret; eauto.
    - destruct (enabled_ret_stack _ _ _ He) as (k & cl & rest & Hst).
      destruct (resume o k (cst c)) as [[s' os] a] eqn:Hres.
      rewrite (step_ret_rtrace p c Hlive Hst Hres) in Hmem.
      destruct Hmem as [E | Hmem].
      + destruct a as [| |cl' k']; try discriminate. cbn in E. injection E as ->.
        exfalso. eapply resume_term; eauto.
      + apply in_app_or in Hmem. destruct Hmem as [Hmem | [E | Hmem]].
        * apply in_rev, in_map_iff in Hmem. destruct Hmem as (? & ? & _). discriminate.
        * discriminate.
        * destruct (IH Hmem) as [Hfin Hend].
          destruct HI as [Hv Hdead Hsko Htask Hsw Hph].
          dph Hph; try congruence.
          rewrite Hst in Had. apply AllDone_inv in Had. destruct Had as [-> Had].
          cbn in Hres. injection Hres as <- <- <-.
          destruct (step_ret p c Hlive Hst eq_refl) as (_ & _ & Hm & _).
          rewrite Hm. unfold ms_settle. cbn.
          destruct (tl (cstack (ms c))); rewrite ?add_viols_eq; cbn; auto.
  Qed.

  Theorem term_only_when_done (c : cfg o) :
    reach p gfl c -> In (ECall (CDn 0 DT)) (trace c) ->
    us (ms c) 0 = UEnded /\ forall k, us (ms c) (S k) <> ULive.
  Proof.
    intros Hr Hmem. unfold trace in Hmem. apply in_rev in Hmem.
    destruct (term_inv Hr Hmem) as [Hfin Hend]. split; [exact Hend|].
    destruct (inv_reach Hr) as [_ _ _ _ _ Hph].
    dph Hph; try congruence; try (intros k; apply Hnl).
  Qed.

  (** ** Order: what the sink receives is what the inner sources sent, in
      arrival order (no invariant needed: the relay arm is unconditional) *)
  Theorem order (c : cfg o) : reach p gfl c -> data_out 0 (trace c) = inner_data (trace c).
  Proof.
    induction 1 as [|c m Hr IH He]; [reflexivity|].
    pose proof (enabled_live _ _ _ _ He) as Hlive.
    destruct m as [inp|].
    - pose proof (enabled_deliverable _ _ _ _ He) as Hdel.
      destruct (handle o inp (cst c)) as [[s' os] a] eqn:Hh.
      rewrite (step_in_trace p c inp Hlive Hdel Hh), data_out_app, inner_data_app, IH.
      f_equal. cbn in Hh. destruct (cst c) as [ou inn].
      destruct inp as [[|s] aux|[|s] [|e|]|[|i] [|v|e|]|s]; cbn in Hh;
        unfold fl_then_outer in Hh; cbn in Hh;
        destruct inn, ou; inversion Hh; subst; reflexivity.
    - destruct (enabled_ret_stack _ _ _ He) as (k & cl & rest & Hst).
      destruct (resume o k (cst c)) as [[s' os] a] eqn:Hres.
      rewrite (step_ret_trace p c Hlive Hst Hres), data_out_app, inner_data_app, IH.
      f_equal. cbn in Hres. destruct (cst c) as [ou inn].
      destruct k; cbn in Hres; unfold fl_then_outer in Hres; cbn in Hres;
        try destruct ou; inversion Hres; subst; reflexivity.
  Qed.

End FlattenInv.

(** * Exported theorems *)

(** C01-C05, C17: no protocol violation and no panic in any reachable configuration *)
Theorem flatten_safe p :
  nsinks p = 1 -> resub p = false -> no_nest p = false -> c14 p = false -> late_ok p = false ->
  forall c : cfg flatten_op, reach p g_flatten c -> viols (ms c) = [] /\ dead c = false.
Proof.
  intros H1 H2 H3 H4 H5 c Hr. destruct (inv_reach H1 H2 H3 H4 H5 Hr). split; assumption.
Qed.
Print Assumptions flatten_safe.

(** C11: only the latest inner speaks.  At every control point at most one
    inner source is live, and it is the one whose talkback is stored. *)
Theorem flatten_switch p :
  nsinks p = 1 -> resub p = false -> no_nest p = false -> c14 p = false -> late_ok p = false ->
  forall (c : cfg flatten_op) j k, reach p g_flatten c ->
    us (ms c) (S j) = ULive -> us (ms c) (S k) = ULive ->
    j = k /\ fl_inner (cst c) = Some (S k).
Proof.
  intros H1 H2 H3 H4 H5 c j k Hr. exact (switch_one H1 H2 H3 H4 H5 j k Hr).
Qed.
Print Assumptions flatten_switch.

(** C11: completion.
    (1) While the sink is live, the outer is live, or some inner is live, or
        the top activation is the one that has just told the other level to
        stop and delivers the pending Error to the sink as soon as that call
        returns (nothing but this return is enabled then).
    (2) At a quiescent point the third case is impossible.
    (3) Conversely the sink is sent Terminate only when the outer source has
        completed by itself and no inner source is live. *)
Theorem flatten_completes p :
  nsinks p = 1 -> resub p = false -> no_nest p = false -> c14 p = false -> late_ok p = false ->
  forall c : cfg flatten_op, reach p g_flatten c ->
    (sk (ms c) 0 = SLive ->
     us (ms c) 0 = ULive \/ (exists k, us (ms c) (S k) = ULive) \/
     (exists e j rest, stack c = (FlThenErr e, CUp j UT) :: rest /\
                       err_due (ms c) 0 = Some e /\ us (ms c) j = UStopped)) /\
    (sk (ms c) 0 = SLive -> stack c = [] ->
     us (ms c) 0 = ULive \/ exists k, us (ms c) (S k) = ULive) /\
    (In (ECall (CDn 0 DT)) (trace c) ->
     us (ms c) 0 = UEnded /\ forall k, us (ms c) (S k) <> ULive).
Proof.
  intros H1 H2 H3 H4 H5 c Hr. split; [|split].
  - exact (live_has_source H1 H2 H3 H4 H5 Hr).
  - intros Hlive Hst.
    destruct (live_has_source H1 H2 H3 H4 H5 Hr Hlive) as [H|[H|(e & j & rest & E & _)]]; auto.
    congruence.
  - exact (term_only_when_done H1 H2 H3 H4 H5 Hr).
Qed.
Print Assumptions flatten_completes.

(** the sink receives exactly the payloads of the inner sources, in arrival order *)
Theorem flatten_order p :
  forall c : cfg flatten_op, reach p g_flatten c ->
    data_out 0 (trace c) = inner_data (trace c).
Proof. intros c Hr. exact (order Hr). Qed.
Print Assumptions flatten_order.

(** * Local steps of C11 (what a single handler does; the theorems above say in which
      states these handlers can run) *)

(** a Pull goes to the active inner if there is one, else to the outer, else nowhere *)
Lemma flatten_pull_routing (s : fl_st) :
  fl_handle (IUp 0 UP) s =
  (s, [], match fl_inner s with
          | Some j => ACall (CUp j UP) FlDone
          | None => if fl_outer s then ACall (CUp 0 UP) FlDone else ARet
          end).
Proof. unfold fl_handle. destruct (fl_inner s); [reflexivity|]. destruct (fl_outer s); reflexivity. Qed.

(** an inner source is pulled exactly once on its greeting and becomes the stored one *)
Lemma flatten_inner_greeting (k : nat) (s : fl_st) :
  fl_handle (IDn (S k) DH) s =
  ({| fl_outer := fl_outer s; fl_inner := Some (S k) |}, [], ACall (CUp (S k) UP) FlDone)
  /\ fl_resume FlDone {| fl_outer := fl_outer s; fl_inner := Some (S k) |}
     = ({| fl_outer := fl_outer s; fl_inner := Some (S k) |}, [], ARet).
Proof. split; reflexivity. Qed.

(** a newer inner: the stored one is told to stop (one call), then the new one is subscribed;
    with none stored the new one is subscribed at once *)
Lemma flatten_switch_step (v : val) (s : fl_st) :
  fl_handle (IDn 0 (DD v)) s =
  (s, [], match fl_inner s with
          | Some j => ACall (CUp j UT) (FlSubInner (inner_id v))
          | None => ACall (CSub (S (inner_id v))) FlDone
          end)
  /\ forall s', fl_resume (FlSubInner (inner_id v)) s' = (s', [], ACall (CSub (S (inner_id v))) FlDone).
Proof. split; [unfold fl_handle; destruct (fl_inner s); reflexivity | reflexivity]. Qed.
