(** * MachineFacts: generic lemmas about the machine, used by every Inv_*.v *)
From CB Require Export Machine.

Set Implicit Arguments.

Lemma add_viols_eq vs m : add_viols vs m = m <| viols := vs ++ viols m |>.
Proof.
  unfold add_viols. induction vs as [|v vs IH]; cbn.
  - destruct m; reflexivity.
  - rewrite IH. reflexivity.
Qed.

Lemma mon_call_upd_cstack m c : cstack (mon_call_upd m c) = cstack m.
Proof.
  destruct c as [i|i u|s d]; cbn; try reflexivity.
  - destruct u; reflexivity.
  - destruct d as [|v|e|]; cbn; try reflexivity.
    + destruct (sk m s); reflexivity.
    + destruct (sk m s), (err_due m s) as [e'|]; cbn; try reflexivity;
        destruct (Nat.eqb e e'); reflexivity.
    + destruct (sk m s); reflexivity.
Qed.

Lemma filter_nil A (f : A -> bool) l : (forall x, In x l -> f x = false) -> filter f l = [].
Proof.
  induction l as [|x l IH]; cbn; intros H; [reflexivity|].
  rewrite (H x (or_introl eq_refl)). apply IH. intros y Hy. apply H. now right.
Qed.

Lemma quiescent_nil p m :
  (resub p = false -> sk_over (sk m 0) = true ->
   forall i, In i (ports m) -> us_live (us m i) = false) ->
  (forall s, err_due m s = None) ->
  (c14 p = true -> sk m 0 = SLive -> (forall i, In i (ports m) -> owed m i = 0) ->
   npull m 0 = ndata m 0) ->
  check_quiescent p m = [].
Proof.
  intros H1 H2 H3. unfold check_quiescent.
  assert (E3 : (if c14 p && match sk m 0 with SLive => true | _ => false end
         && forallb (fun i => Nat.eqb (owed m i) 0) (ports m)
         && negb (Nat.eqb (npull m 0) (ndata m 0))
      then [VUnanswered 0] else []) = []).
  { destruct (c14 p) eqn:Ec; cbn; [|reflexivity].
    destruct (sk m 0) eqn:Es; cbn; try reflexivity.
    destruct (forallb (fun i => Nat.eqb (owed m i) 0) (ports m)) eqn:Ef; cbn; [|reflexivity].
    rewrite H3; auto.
    - now rewrite Nat.eqb_refl.
    - intros i Hi. rewrite forallb_forall in Ef. apply Nat.eqb_eq. now apply Ef. }
  rewrite E3, app_nil_r.
  rewrite (filter_nil (fun s => match err_due m s with Some _ => true | None => false end)).
  2: { intros s _. now rewrite H2. }
  destruct (resub p); cbn; [reflexivity|].
  destruct (sk_over (sk m 0)) eqn:E; cbn; [|reflexivity].
  rewrite filter_nil; [reflexivity|]. intros i Hi. now apply H1.
Qed.

Section Facts.
  Variable p : mparams.
  Variable o : op.
  Variable g : mstate -> input -> bool.

  (** what one activation does to the monitor state *)
  Definition ms_settle (m : mstate) (os : list obs) (a : act (Fr o)) : mstate :=
    let m1 := fold_left (mon_event p) (map EObs os) m in
    match a with
    | ARet => mon_event p m1 EDone
    | APanic => mon_event p m1 EPanic
    | ACall c _ => mon_event p m1 (ECall c)
    end.

  Lemma settle_ms (c : cfg o) s' os a : ms (settle p c (s', os, a)) = ms_settle (ms c) os a.
  Proof. destruct a; reflexivity. Qed.

  Lemma settle_cst (c : cfg o) s' os a : cst (settle p c (s', os, a)) = s'.
  Proof. destruct a; reflexivity. Qed.

  Lemma settle_stack (c : cfg o) s' os a :
    stack (settle p c (s', os, a)) =
    match a with ACall cl k => (k, cl) :: stack c | _ => stack c end.
  Proof. destruct a; reflexivity. Qed.

  Lemma settle_dead (c : cfg o) s' os a :
    dead (settle p c (s', os, a)) = match a with APanic => true | _ => dead c end.
  Proof. destruct a; reflexivity. Qed.

  Lemma settle_rtrace (c : cfg o) s' os a :
    rtrace (settle p c (s', os, a)) =
    (match a with ARet => EDone | APanic => EPanic | ACall cl _ => ECall cl end)
      :: rev_append (map EObs os) (rtrace c).
  Proof. destruct a; reflexivity. Qed.

  (** a configuration seen as the four things invariants talk about *)
  Definition view (c : cfg o) := (cst c, stack c, ms c, dead c).

  (** the input step, for a live configuration and a deliverable input *)
  Lemma step_in (c : cfg o) i :
    dead c = false -> deliverable (ms c) i = true ->
    forall s' os a, handle o i (cst c) = (s', os, a) ->
    cst (step p c (MIn i)) = s' /\
    stack (step p c (MIn i)) = match a with ACall cl k => (k, cl) :: stack c | _ => stack c end /\
    ms (step p c (MIn i)) = ms_settle (mon_input p (ms c) i) os a /\
    dead (step p c (MIn i)) = match a with APanic => true | _ => false end.
  Proof.
    intros Hd Hdel s' os a Hh. unfold step. rewrite Hd, Hdel, Hh.
    rewrite settle_cst, settle_stack, settle_ms, settle_dead. cbn. rewrite Hd.
    repeat split; reflexivity.
  Qed.

  Lemma step_ret (c : cfg o) k cl rest :
    dead c = false -> stack c = (k, cl) :: rest ->
    forall s' os a, resume o k (cst c) = (s', os, a) ->
    cst (step p c MRet) = s' /\
    stack (step p c MRet) = match a with ACall cl' k' => (k', cl') :: rest | _ => rest end /\
    ms (step p c MRet) = ms_settle (mon_event p (ms c) ERet) os a /\
    dead (step p c MRet) = match a with APanic => true | _ => false end.
  Proof.
    intros Hd Hst s' os a Hr. unfold step. rewrite Hd, Hst, Hr.
    rewrite settle_cst, settle_stack, settle_ms, settle_dead. cbn. rewrite Hd.
    repeat split; reflexivity.
  Qed.

  (** the events a step appends, latest first *)
  Definition act_event (a : act (Fr o)) : event :=
    match a with ARet => EDone | APanic => EPanic | ACall cl _ => ECall cl end.

  Lemma step_in_rtrace (c : cfg o) i :
    dead c = false -> deliverable (ms c) i = true ->
    forall s' os a, handle o i (cst c) = (s', os, a) ->
    rtrace (step p c (MIn i)) = act_event a :: rev (map EObs os) ++ EIn i :: rtrace c.
  Proof.
    intros Hd Hdel s' os a Hh. unfold step. rewrite Hd, Hdel, Hh, settle_rtrace.
    cbn. now rewrite rev_append_rev.
  Qed.

  Lemma step_ret_rtrace (c : cfg o) k cl rest :
    dead c = false -> stack c = (k, cl) :: rest ->
    forall s' os a, resume o k (cst c) = (s', os, a) ->
    rtrace (step p c MRet) = act_event a :: rev (map EObs os) ++ ERet :: rtrace c.
  Proof.
    intros Hd Hst s' os a Hr. unfold step. rewrite Hd, Hst, Hr, settle_rtrace.
    cbn. now rewrite rev_append_rev.
  Qed.

  Lemma step_in_trace (c : cfg o) i :
    dead c = false -> deliverable (ms c) i = true ->
    forall s' os a, handle o i (cst c) = (s', os, a) ->
    trace (step p c (MIn i)) = trace c ++ EIn i :: map EObs os ++ [act_event a].
  Proof.
    intros Hd Hdel s' os a Hh. unfold trace. rewrite (step_in_rtrace c i Hd Hdel Hh).
    cbn. rewrite rev_app_distr, rev_involutive. cbn. now rewrite <- !app_assoc.
  Qed.

  Lemma step_ret_trace (c : cfg o) k cl rest :
    dead c = false -> stack c = (k, cl) :: rest ->
    forall s' os a, resume o k (cst c) = (s', os, a) ->
    trace (step p c MRet) = trace c ++ ERet :: map EObs os ++ [act_event a].
  Proof.
    intros Hd Hst s' os a Hr. unfold trace. rewrite (step_ret_rtrace c Hd Hst Hr).
    cbn. rewrite rev_app_distr, rev_involutive. cbn. now rewrite <- !app_assoc.
  Qed.

  (** the monitor's stack of pending calls mirrors the machine's *)
  Lemma ms_settle_cstack m os a :
    cstack (ms_settle m os a) =
    match a with ACall c _ => c :: cstack m | _ => cstack m end.
  Proof.
    unfold ms_settle.
    assert (H : forall evs m0, (forall e, In e evs -> exists ob, e = EObs ob) ->
              cstack (fold_left (mon_event p) evs m0) = cstack m0).
    { induction evs as [|e evs IH]; intros m0 Hall; cbn; [reflexivity|].
      rewrite IH by (intros; apply Hall; now right).
      destruct (Hall e (or_introl eq_refl)) as [ob ->]. cbn.
      destruct ob as [r|v|s [|]|s]; reflexivity. }
    assert (Hobs : forall e, In e (map EObs os) -> exists ob, e = EObs ob).
    { intros e He. apply in_map_iff in He. destruct He as [ob [<- _]]. now exists ob. }
    set (m1 := fold_left (mon_event p) (map EObs os) m).
    assert (Hm1 : cstack m1 = cstack m) by (apply H; exact Hobs).
    clearbody m1.
    destruct a as [| |c k]; cbn [mon_event].
    - destruct (cstack m1) eqn:E; rewrite ?add_viols_eq; cbn; congruence.
    - cbn. exact Hm1.
    - rewrite add_viols_eq. cbn. now rewrite mon_call_upd_cstack, Hm1.
  Qed.

  Lemma mon_done_cstack m : cstack (mon_event p m EDone) = cstack m.
  Proof. cbn. destruct (cstack m) eqn:E; rewrite ?add_viols_eq; cbn; congruence. Qed.

  Lemma mon_input_cstack m i : cstack (mon_input p m i) = cstack m.
  Proof.
    destruct i as [s [|aux]|s [|e|]|i [|v|e|]|s]; reflexivity.
  Qed.

  Lemma step_cstack (c : cfg o) m :
    cstack (ms c) = map snd (stack c) ->
    cstack (ms (step p c m)) = map snd (stack (step p c m)).
  Proof.
    intros H. unfold step. destruct (dead c); [exact H|].
    destruct m as [i|].
    - destruct (deliverable (ms c) i).
      + destruct (handle o i (cst c)) as [[s' os] a].
        rewrite settle_ms, settle_stack, ms_settle_cstack. cbn [push_events ms stack fold_left].
        change (cstack (mon_event p (ms c) (EIn i))) with (cstack (mon_input p (ms c) i)).
        rewrite mon_input_cstack. destruct a; cbn; rewrite H; reflexivity.
      + cbn [push_events ms stack fold_left].
        rewrite mon_done_cstack.
        change (cstack (mon_event p (ms c) (EIn i))) with (cstack (mon_input p (ms c) i)).
        now rewrite mon_input_cstack.
    - destruct (stack c) as [|[k cl] rest] eqn:Es; [now rewrite Es|].
      destruct (resume o k (cst c)) as [[s' os] a].
      rewrite settle_ms, settle_stack, ms_settle_cstack. cbn. rewrite H. cbn.
      destruct a; reflexivity.
  Qed.

  Lemma reach_cstack (c : cfg o) : reach p g c -> cstack (ms c) = map snd (stack c).
  Proof. induction 1; [reflexivity | now apply step_cstack]. Qed.

  Lemma enabled_live (c : cfg o) m : enabled p g c m = true -> dead c = false.
  Proof. unfold enabled. destruct (dead c); [discriminate | reflexivity]. Qed.

  Lemma enabled_deliverable (c : cfg o) i :
    enabled p g c (MIn i) = true -> deliverable (ms c) i = true.
  Proof.
    unfold enabled. intros H. apply andb_prop in H. destruct H as [_ H].
    apply andb_prop in H. destruct H as [_ H].
    destruct i as [s aux|s u|i d|s]; cbn in *.
    - reflexivity.
    - apply andb_prop in H. destruct H as [H _]. apply andb_prop in H. destruct H as [_ H].
      destruct (sk (ms c) s); try discriminate; reflexivity.
    - apply andb_prop in H. destruct H as [_ H].
      destruct d; [apply andb_prop in H; destruct H as [H _]| | |];
        try (apply andb_prop in H; destruct H as [H _]);
        destruct (us (ms c) i); try discriminate; reflexivity.
    - apply andb_prop in H. tauto.
  Qed.

  Lemma enabled_ret_stack (c : cfg o) :
    enabled p g c MRet = true -> exists k cl rest, stack c = (k, cl) :: rest.
  Proof.
    unfold enabled. intros H. apply andb_prop in H. destruct H as [_ H].
    destruct (stack c) as [|[k cl] rest]; [discriminate|]. now exists k, cl, rest.
  Qed.

End Facts.
