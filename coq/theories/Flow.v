(** * Flow: message sequences and demand counts of a trace.

    The safety theorems (C01-C05, C17) and the functional equations (C07) say what a component never
    does and what its data are.  The "completes without stalling" half of C06 needs more: how many
    Pulls went up against how many came down, and who ended first.  This file defines the
    projections of a trace those statements talk about; the per-operator lemmas are in Flow_*.v, the
    facts that hold of every component in FlowGeneric.v, and the theorem about whole pipelines in
    Liveness.v. *)

From CB Require Import ProofLib Spec.

Set Implicit Arguments.

(** ** The four message sequences at port 0, in order.
    Upward messages are [None] for the subscription itself and [Some u] for a talkback call. *)

Fixpoint up_in (tr : list event) : list (option umsg) :=
  match tr with
  | [] => []
  | EIn (ISub 0 _) :: tr' => None :: up_in tr'
  | EIn (IUp 0 u) :: tr' => Some u :: up_in tr'
  | _ :: tr' => up_in tr'
  end.

Fixpoint up_out (tr : list event) : list (option umsg) :=
  match tr with
  | [] => []
  | ECall (CSub 0) :: tr' => None :: up_out tr'
  | ECall (CUp 0 u) :: tr' => Some u :: up_out tr'
  | _ :: tr' => up_out tr'
  end.

Fixpoint dn_in (tr : list event) : list dmsg :=
  match tr with
  | [] => []
  | EIn (IDn 0 d) :: tr' => d :: dn_in tr'
  | _ :: tr' => dn_in tr'
  end.

Fixpoint dn_out (tr : list event) : list dmsg :=
  match tr with
  | [] => []
  | ECall (CDn 0 d) :: tr' => d :: dn_out tr'
  | _ :: tr' => dn_out tr'
  end.

Lemma up_in_app tr1 tr2 : up_in (tr1 ++ tr2) = up_in tr1 ++ up_in tr2.
Proof.
  induction tr1 as [|e tr1 IH]; cbn; [reflexivity|].
  destruct e as [[[|s] a|[|s] u|j d|s]|c| | |ob|]; cbn; rewrite ?IH; reflexivity.
Qed.

Lemma up_out_app tr1 tr2 : up_out (tr1 ++ tr2) = up_out tr1 ++ up_out tr2.
Proof.
  induction tr1 as [|e tr1 IH]; cbn; [reflexivity|].
  destruct e as [i|[[|j]|[|j] u|s d]| | |ob|]; cbn; rewrite ?IH; reflexivity.
Qed.

Lemma dn_in_app tr1 tr2 : dn_in (tr1 ++ tr2) = dn_in tr1 ++ dn_in tr2.
Proof.
  induction tr1 as [|e tr1 IH]; cbn; [reflexivity|].
  destruct e as [[s a|s u|[|j] d|s]|c| | |ob|]; cbn; rewrite ?IH; reflexivity.
Qed.

Lemma dn_out_app tr1 tr2 : dn_out (tr1 ++ tr2) = dn_out tr1 ++ dn_out tr2.
Proof.
  induction tr1 as [|e tr1 IH]; cbn; [reflexivity|].
  destruct e as [i|[j|j u|[|s] d]| | |ob|]; cbn; rewrite ?IH; reflexivity.
Qed.

(** ** Counts *)

Definition is_pull (x : option umsg) : bool := match x with Some UP => true | _ => false end.
Definition is_sub (x : option umsg) : bool := match x with None => true | _ => false end.
Definition is_stop (x : option umsg) : bool :=
  match x with Some (UE _) | Some UT => true | _ => false end.
Definition is_hs (d : dmsg) : bool := match d with DH => true | _ => false end.
Definition is_data (d : dmsg) : bool := match d with DD _ => true | _ => false end.
Definition is_end (d : dmsg) : bool := match d with DT | DE _ => true | _ => false end.

Definition cnt A (f : A -> bool) (l : list A) : nat := length (filter f l).

Lemma cnt_app A (f : A -> bool) l1 l2 : cnt f (l1 ++ l2) = cnt f l1 + cnt f l2.
Proof.
  unfold cnt. induction l1 as [|x l1 IH]; cbn; [reflexivity|].
  destruct (f x); cbn; now rewrite IH.
Qed.

Lemma cnt_nil A (f : A -> bool) : cnt f [] = 0.
Proof. reflexivity. Qed.

Lemma cnt_cons A (f : A -> bool) x l : cnt f (x :: l) = (if f x then 1 else 0) + cnt f l.
Proof. unfold cnt. cbn. destruct (f x); reflexivity. Qed.

Lemma cnt_le_length A (f : A -> bool) l : cnt f l <= length l.
Proof. unfold cnt. induction l as [|x l IH]; cbn; [lia|]. destruct (f x); cbn; lia. Qed.

(** Pulls received from the sink / sent to the upstream; greetings and data in both directions *)
Definition pin (tr : list event) : nat := cnt is_pull (up_in tr).
Definition pout (tr : list event) : nat := cnt is_pull (up_out tr).
Definition hin (tr : list event) : nat := cnt is_hs (dn_in tr).
Definition hout (tr : list event) : nat := cnt is_hs (dn_out tr).
Definition din (tr : list event) : nat := cnt is_data (dn_in tr).
Definition dout (tr : list event) : nat := cnt is_data (dn_out tr).

Lemma pin_app a b : pin (a ++ b) = pin a + pin b.
Proof. unfold pin. now rewrite up_in_app, cnt_app. Qed.
Lemma pout_app a b : pout (a ++ b) = pout a + pout b.
Proof. unfold pout. now rewrite up_out_app, cnt_app. Qed.
Lemma hin_app a b : hin (a ++ b) = hin a + hin b.
Proof. unfold hin. now rewrite dn_in_app, cnt_app. Qed.
Lemma hout_app a b : hout (a ++ b) = hout a + hout b.
Proof. unfold hout. now rewrite dn_out_app, cnt_app. Qed.
Lemma din_app a b : din (a ++ b) = din a + din b.
Proof. unfold din. now rewrite dn_in_app, cnt_app. Qed.
Lemma dout_app a b : dout (a ++ b) = dout a + dout b.
Proof. unfold dout. now rewrite dn_out_app, cnt_app. Qed.

(** observations never count *)
Lemma up_in_obs os : up_in (map EObs os) = [].
Proof. induction os as [|ob os IH]; cbn; auto. Qed.
Lemma up_out_obs os : up_out (map EObs os) = [].
Proof. induction os as [|ob os IH]; cbn; auto. Qed.
Lemma dn_in_obs os : dn_in (map EObs os) = [].
Proof. induction os as [|ob os IH]; cbn; auto. Qed.
Lemma dn_out_obs os : dn_out (map EObs os) = [].
Proof. induction os as [|ob os IH]; cbn; auto. Qed.

Lemma pin_obs os : pin (map EObs os) = 0.  Proof. unfold pin. now rewrite up_in_obs. Qed.
Lemma pout_obs os : pout (map EObs os) = 0.  Proof. unfold pout. now rewrite up_out_obs. Qed.
Lemma hin_obs os : hin (map EObs os) = 0.  Proof. unfold hin. now rewrite dn_in_obs. Qed.
Lemma hout_obs os : hout (map EObs os) = 0.  Proof. unfold hout. now rewrite dn_out_obs. Qed.
Lemma din_obs os : din (map EObs os) = 0.  Proof. unfold din. now rewrite dn_in_obs. Qed.
Lemma dout_obs os : dout (map EObs os) = 0.  Proof. unfold dout. now rewrite dn_out_obs. Qed.

(** the data projections of Spec.v are the payloads of the data messages *)
Definition payloads (l : list dmsg) : list val :=
  flat_map (fun d => match d with DD v => [v] | _ => [] end) l.

Lemma payloads_length l : length (payloads l) = cnt is_data l.
Proof.
  unfold cnt, payloads. induction l as [|d l IH]; cbn; [reflexivity|].
  destruct d; cbn; rewrite ?IH; reflexivity.
Qed.

Lemma data_in_payloads tr : data_in 0 tr = payloads (dn_in tr).
Proof.
  induction tr as [|e tr IH]; cbn; [reflexivity|].
  destruct e as [[s a|s u|[|j] [|v|x|]|s]|c| | |ob|]; cbn; rewrite ?IH; reflexivity.
Qed.

Lemma data_out_payloads tr : data_out 0 tr = payloads (dn_out tr).
Proof.
  induction tr as [|e tr IH]; cbn; [reflexivity|].
  destruct e as [i|[j|j u|[|s] [|v|x|]]| | |ob|]; cbn; rewrite ?IH; reflexivity.
Qed.

Lemma din_data_in tr : din tr = length (data_in 0 tr).
Proof. unfold din. now rewrite data_in_payloads, payloads_length. Qed.

Lemma dout_data_out tr : dout tr = length (data_out 0 tr).
Proof. unfold dout. now rewrite data_out_payloads, payloads_length. Qed.

(** ** What one step appends (the shape every per-operator proof uses) *)

Definition ev_counts (e : event) : nat * nat * nat * nat * nat * nat :=
  (pin [e], pout [e], hin [e], hout [e], din [e], dout [e]).

Lemma pin_step tr e os fin :
  pin (tr ++ e :: map EObs os ++ [fin]) = pin tr + pin [e] + pin [fin].
Proof.
  change (e :: map EObs os ++ [fin]) with ([e] ++ map EObs os ++ [fin]).
  rewrite !pin_app, pin_obs. lia.
Qed.
Lemma pout_step tr e os fin :
  pout (tr ++ e :: map EObs os ++ [fin]) = pout tr + pout [e] + pout [fin].
Proof.
  change (e :: map EObs os ++ [fin]) with ([e] ++ map EObs os ++ [fin]).
  rewrite !pout_app, pout_obs. lia.
Qed.
Lemma hin_step tr e os fin :
  hin (tr ++ e :: map EObs os ++ [fin]) = hin tr + hin [e] + hin [fin].
Proof.
  change (e :: map EObs os ++ [fin]) with ([e] ++ map EObs os ++ [fin]).
  rewrite !hin_app, hin_obs. lia.
Qed.
Lemma hout_step tr e os fin :
  hout (tr ++ e :: map EObs os ++ [fin]) = hout tr + hout [e] + hout [fin].
Proof.
  change (e :: map EObs os ++ [fin]) with ([e] ++ map EObs os ++ [fin]).
  rewrite !hout_app, hout_obs. lia.
Qed.
Lemma din_step tr e os fin :
  din (tr ++ e :: map EObs os ++ [fin]) = din tr + din [e] + din [fin].
Proof.
  change (e :: map EObs os ++ [fin]) with ([e] ++ map EObs os ++ [fin]).
  rewrite !din_app, din_obs. lia.
Qed.
Lemma dout_step tr e os fin :
  dout (tr ++ e :: map EObs os ++ [fin]) = dout tr + dout [e] + dout [fin].
Proof.
  change (e :: map EObs os ++ [fin]) with ([e] ++ map EObs os ++ [fin]).
  rewrite !dout_app, dout_obs. lia.
Qed.

(** ** Static facts about the calls an operator can make *)

Definition calls_sat (P : call -> Prop) (o : op) : Prop :=
  (forall i s s' os c k, handle o i s = (s', os, ACall c k) -> P c) /\
  (forall fr s s' os c k, resume o fr s = (s', os, ACall c k) -> P c).

Definition port0 (c : call) : Prop :=
  c = CSub 0 \/ (exists u, c = CUp 0 u) \/ (exists d, c = CDn 0 d).
Definition only_dn (c : call) : Prop := exists d, c = CDn 0 d.
Definition only_up (c : call) : Prop := c = CSub 0 \/ exists u, c = CUp 0 u.

(** events of each kind, for counting steps *)
Definition n_in (tr : list event) : nat :=
  cnt (fun e => match e with EIn _ => true | _ => false end) tr.
Definition n_ret (tr : list event) : nat :=
  cnt (fun e => match e with ERet => true | _ => false end) tr.
Definition n_call (tr : list event) : nat :=
  cnt (fun e => match e with ECall _ => true | _ => false end) tr.

(** ** The flow facts a pipeline stage must provide (proved per operator in Flow_*.v).
    [bound] is [Some n] for take(n), which may end the stream by itself, and [None] otherwise. *)

Record stage_flow (o : op) (p : mparams) (bound : option nat) : Prop := {
  (* demand is never invented: a Pull sent up is a Pull received or a datum swallowed *)
  sf_demand_le : forall c : cfg o, reach p g_std c ->
      pout (trace c) + dout (trace c) <= pin (trace c) + din (trace c);
  (* and none is lost while the stage is at rest and live *)
  sf_demand_eq : forall c : cfg o, reach p g_std c -> stack c = [] -> sk (ms c) 0 = SLive ->
      pout (trace c) + dout (trace c) = pin (trace c) + din (trace c);
  (* the sink is greeted only after the upstream greeted *)
  sf_greet : forall c : cfg o, reach p g_std c -> hout (trace c) <= hin (trace c);
  (* at rest, subscribed and not yet greeting: the upstream was subscribed and has not greeted *)
  sf_wait : forall c : cfg o, reach p g_std c -> stack c = [] ->
      subd (ms c) 0 = true -> sk (ms c) 0 = SNone -> us (ms c) 0 = USubd;
  (* at rest, a live sink means a live upstream *)
  sf_live : forall c : cfg o, reach p g_std c -> stack c = [] ->
      sk (ms c) 0 = SLive -> us (ms c) 0 = ULive;
  (* at rest, a sink that was told the end: either the upstream ended, or (take) the quota is full *)
  sf_fin : forall c : cfg o, reach p g_std c -> stack c = [] ->
      sk (ms c) 0 = SFinished ->
      us (ms c) 0 = UEnded \/ (exists n, bound = Some n /\ dout (trace c) = n);
  sf_calls : calls_sat port0 o;
}.

(** for_each: one Pull per greeting or datum received, never stops its source *)
Record sink_flow (o : op) (p : mparams) : Prop := {
  kf_pulls : forall c : cfg o, reach p g_std c -> pout (trace c) = hin (trace c) + din (trace c);
  kf_nostop : forall c : cfg o, reach p g_std c -> us (ms c) 0 <> UStopped;
  kf_subd : forall c : cfg o, reach p g_std c -> subd (ms c) 0 = true -> us (ms c) 0 <> UNone;
  kf_calls : calls_sat only_up o;
}.

(** from_iter, when its sink sends at most one Pull per message it received ([one_pull]): at rest
    every Pull has been served by exactly one datum *)
Record source_flow (o : op) (p : mparams) : Prop := {
  rf_served : forall c : cfg o, reach p g_std c -> stack c = [] -> sk (ms c) 0 = SLive ->
      pin (trace c) = dout (trace c);
  rf_calls : calls_sat only_dn o;
}.
