(** * Inv_threads_takemerge_fine: C19 for take(max) behind merge! at the granularity of EVERY
      shared-state access (ThreadsTakeMergeFine.v), over ALL schedules, modulo the finding KF4.

    For every max, n, all queues, ALL endings (any number of failing members) and every state
    reachable by any interleaving of [xf_step max n]:

    - [takemerge_fine_safe]            (unconditional) never more than max data, the sink is ended at
                                       most once, every member is told to stop at most once;
    - [takemerge_fine_panic_only_kf4]  a panic happens only if a delivery began before the greeting;
    - [takemerge_fine_complete]        (1 <= max, greeting first) once max data were delivered and
                                       every member is finished, the sink was ended exactly once;
    - [takemerge_fine_final]           [takemerge_check] is empty on such a final state;
    - [takemerge_fine_run_full_reach], [takemerge_fine_driver_final]  what the driver runs is reachable;
    - [takemerge_fine_run_full_total]  every run ends within [takemerge_fine_fuel] steps, any schedule;
    - [takemerge_fine_kf4_witness]     KF4 replayed in the model; [takemerge_fine_example] non-vacuity.

    NOT proved here (stretch of T29): [takemerge_fine_members_stopped].  It needs, on top of the
    invariants below, the cell/stop bookkeeping per program counter (cell = negb stopped on the
    greeting / delivering / sweeping pcs, what a finished never-stopped member looks like),
    end_count <= number of members past the counter, tend => ended \/ n <= end_count \/ a thread at
    XfAtTakeTbLoad/XfAtMgEnded \/ panic, and the Dekker invariant for the two kinds of sweepers
    (ended /\ cell j set => j at XfAtEndedLoad/XfAtSelfSwap, or a sweeper at an index <= j is pending,
    or j is the failing member past its own ended.store).

    Method: no step relation; each invariant is proved by case analysis of [xf_step] itself
    ([xf_crunch]: one goal per branch of the step function), closed by frame lemmas.
    - [I1]  taken = #data begun <= max; #Terminate to member j = b2n (stopped j); stopped j => cell j
            empty; a member at XfAtPublish has an empty cell and is not stopped (a cell is set only by
            its owner's XfAtPublish, once); threads >= n never start;
    - [I2]  the terminal message: a thread at XfAtTakeTbLoad / XfAtMgEnded / XfAtSweepT _ ("holder")
            has set take's [end] flag and no terminal has begun; at most one holder;
            #terminals <= b2n tend, with equality when there is no holder and no panic;
    - [I3]  the ticket argument: taken = max /\ tend unset => a thread is at XfInData max / XfAtEndSwap;
    - [I4]  a greeting in the trace => take's cell is set; a thread at XfInData / XfAtEndSwap /
            XfAtTakeTbLoad => a datum was begun; before_greet_ok => no panic. *)

From CB Require Import Threads ThreadSpec ThreadsFine ThreadsTakeMergeFine Inv_threads_merge
  Inv_threads_total.
From Coq Require Import List Arith Lia Bool.
Import ListNotations.

Set Implicit Arguments.

#[local] Arguments count : simpl never.

(** ** Reachability over all schedules *)

Inductive xf_reach (max n : nat) (qs : nat -> list val) (fins : nat -> final) : xf_state -> Prop :=
| xfr0 : xf_reach max n qs fins (xf_init n qs fins)
| xfrS s t : xf_reach max n qs fins s -> xf_reach max n qs fins (xf_step max n s t).

Definition b2n (b : bool) : nat := if b then 1 else 0.

(** ** KF4, machine-checked *)

Theorem takemerge_fine_kf4_witness :
  let qs := fun t => match t with 0 => [VN 6; VN 9; VN 3] | 1 => [VN 5; VN 1; VN 6] | _ => [] end in
  let s := run_full (xf_step 1 3) xf_finished 3 [2;0;1;2;1;1;0;0;0] 400 (xf_init 3 qs (fun _ => FinNone)) in
  existsb is_panic (xfs_tr s) = true /\ before_greet_ok (rev (xfs_tr s)) = false
  /\ In TvPanic (takemerge_check 1 (rev (xfs_tr s))).
Proof. vm_compute. repeat split; auto. Qed.

Print Assumptions takemerge_fine_kf4_witness.

Example takemerge_fine_example :
  let qs := fun t => match t with 0 => [VN 1] | _ => [] end in
  let fins := fun t => match t with 1 => FinErr 101 | _ => FinTerm end in
  let s := run_full (xf_step 1 2) xf_finished 2 [0;0;0;0;0;0;1;1;1;0;0;0;0;0;0;0;0] 400 (xf_init 2 qs fins) in
  (forall t, t < 2 -> xf_finished s t = true) /\ before_greet_ok (rev (xfs_tr s)) = true
  /\ takemerge_check 1 (rev (xfs_tr s)) = [].
Proof.
  cbv zeta. split; [|split].
  - intros t Ht. destruct t as [|[|t]]; [vm_compute; reflexivity | vm_compute; reflexivity | lia].
  - vm_compute. reflexivity.
  - vm_compute. reflexivity.
Qed.

(** ** The runs end *)

Section TakeMergeFineTotal.
  Variable max : nat.
  Variable n : nat.
  Variable qs : nat -> list val.

  Definition xf_rank (pc : xf_pc) : nat :=
    match pc with
    | XfFinished => 0
    | XfInTermAll | XfInErr => 1
    | XfAtEndSwapT | XfAtEndSwapE _ => 2
    | XfAtEndInc => 3
    | XfAtClear => 4
    | XfAtSweepE _ j => (n - j) + 3
    | XfAtEndedStore _ => n + 4
    | XfInTerm | XfInGreet | XfAtSelfSwap => n + 5
    | XfAtTakeTbStore => n + 6
    | XfAtStartInc => n + 7
    | XfAtEndedLoad => n + 8
    | XfAtPublish => n + 9
    | XfAtSweepT j => (n - j) + n + 6
    | XfAtMgEnded => n + n + 7
    | XfAtTakeTbLoad => n + n + 8
    | XfAtEndSwap => n + n + 9
    | XfInData _ => n + n + 10
    | XfAtTaken _ => n + n + 11
    end.

  Definition xf_C : nat := n + n + 12.

  Definition xf_mu (s : xf_state) (t : nat) : nat :=
    length (xf_q (xfs_th s t)) * xf_C + xf_rank (xf_pcv (xfs_th s t)).

  Definition xf_P (s : xf_state) : Prop := forall t, length (xf_q (xfs_th s t)) <= length (qs t).

  Ltac xft_crunch s t :=
    unfold xf_step, xf_sweepT_goto, xf_sweepE_goto, xf_next, xf_dispose, xf_set, xf_emit;
    destruct (xfs_th s t) as [pc q f] eqn:Eth; destruct pc; cbn -[Nat.ltb Nat.eqb Nat.sub Nat.mul];
    repeat match goal with
           | |- context [if ?b then _ else _] => destruct b eqn:?; cbn -[Nat.ltb Nat.eqb Nat.sub Nat.mul]
           | |- context [match ?q with [] => _ | _ :: _ => _ end] => destruct q; cbn -[Nat.ltb Nat.eqb Nat.sub Nat.mul]
           | |- context [match ?f with FinTerm => _ | FinErr _ => _ | FinNone => _ end] =>
               destruct f; cbn -[Nat.ltb Nat.eqb Nat.sub Nat.mul]
           end.

  Ltac ltb_props :=
    repeat match goal with
           | H : (_ <? _) = true |- _ => apply Nat.ltb_lt in H
           | H : (_ <? _) = false |- _ => apply Nat.ltb_ge in H
           | H : (_ =? _) = true |- _ => apply Nat.eqb_eq in H
           | H : (_ =? _) = false |- _ => apply Nat.eqb_neq in H
           end.

  Lemma xf_step_other s t t' : t' <> t -> xfs_th (xf_step max n s t) t' = xfs_th s t'.
  Proof.
    intros ne. xft_crunch s t; rewrite ?upd_other by exact ne; reflexivity.
  Qed.

  Lemma xf_step_q s t :
    length (xf_q (xfs_th (xf_step max n s t) t)) <= length (xf_q (xfs_th s t)).
  Proof.
    xft_crunch s t; rewrite ?upd_same, ?Eth; cbn; lia.
  Qed.

  Lemma xf_step_dec s t : xf_finished s t = false -> xf_mu (xf_step max n s t) t < xf_mu s t.
  Proof.
    unfold xf_finished, xf_mu, xf_C.
    xft_crunch s t; intros Hf; try discriminate; rewrite ?upd_same;
      cbn -[Nat.ltb Nat.eqb Nat.sub Nat.mul]; cbn [length Nat.mul]; ltb_props; lia.
  Qed.

  Lemma xf_P_step s t : xf_P s -> xf_P (xf_step max n s t).
  Proof.
    intros Hp t'. destruct (Nat.eq_dec t' t) as [->|ne].
    - pose proof (xf_step_q s t). specialize (Hp t). lia.
    - rewrite xf_step_other by exact ne. apply Hp.
  Qed.

  Definition xf_bnd (t : nat) : nat := length (qs t) * xf_C + (n + n + 11).

  Lemma xf_mu_bnd s t : xf_P s -> xf_mu s t <= xf_bnd t.
  Proof.
    intros Hp. specialize (Hp t). unfold xf_mu, xf_bnd.
    pose proof (Nat.mul_le_mono_r _ _ xf_C Hp).
    destruct (xf_pcv (xfs_th s t)); cbn; lia.
  Qed.

  Lemma xf_others s t t' : t' <> t -> xf_finished (xf_step max n s t) t' = xf_finished s t'.
  Proof. intros ne. unfold xf_finished. now rewrite xf_step_other. Qed.
End TakeMergeFineTotal.

Definition takemerge_fine_fuel (n : nat) (qs : nat -> list val) (nth : nat) : nat :=
  sum_from (fun t => length (qs t) * (n + n + 12) + (n + n + 11)) 0 nth.

Theorem takemerge_fine_run_full_total max n qs fins nth sch fuel :
  fuel >= takemerge_fine_fuel n qs nth ->
  let s := run_full (xf_step max n) xf_finished nth sch fuel (xf_init n qs fins) in
  forall t, t < nth -> xf_finished s t = true.
Proof.
  intros Hfuel s. subst s.
  apply (@run_full_total _ (xf_step max n) xf_finished nth (xf_P qs) (xf_mu n) (xf_bnd n qs)).
  - intros s t. apply xf_P_step.
  - intros s t _. apply xf_step_dec.
  - intros s t t'. apply xf_others.
  - intros s t. apply xf_mu_bnd.
  - intros t. cbn. lia.
  - exact Hfuel.
Qed.

Example takemerge_fine_fuel_driver :
  takemerge_fine_fuel 3 (fun _ => [VN 1; VN 2; VN 3; VN 4]) 3 <= 400.
Proof. vm_compute. lia. Qed.

Print Assumptions takemerge_fine_run_full_total.

(** ** Generic list facts *)

Lemma bgo_prefix l e : before_greet_ok (l ++ [e]) = true -> before_greet_ok l = true.
Proof.
  induction l as [|[t0 [[| | |]| | |]] l IH]; cbn; intros H; auto.
Qed.

Lemma bgo_data_greet l :
  before_greet_ok l = true -> 1 <= count is_begin_data l -> 1 <= count is_begin_greet l.
Proof.
  induction l as [|[t0 [[| | |]| | |]] l IH]; rewrite ?count_cons; cbn; intros H Hd;
    try discriminate; try lia; auto.
Qed.

Lemma count_ext A (f g : A -> bool) l : (forall x, f x = g x) -> count f l = count g l.
Proof.
  intros H. unfold count. induction l as [|x l IH]; [reflexivity|]. cbn. rewrite H.
  destruct (g x); cbn; now rewrite IH.
Qed.

(** ** The invariants, by case analysis of the step function *)

Notation XS := mk_xf_state.
Notation XT := mk_xf_thread.

Ltac xf_red := cbn -[Nat.ltb Nat.eqb upd count b2n]; rewrite ?upd_same.

Ltac xf_crunch :=
  unfold xf_step, xf_next, xf_sweepT_goto, xf_sweepE_goto, xf_dispose, xf_set, xf_emit; xf_red;
  repeat (match goal with
          | |- context [if ?b then _ else _] => destruct b eqn:?
          | |- context [match ?q with [] => _ | _ :: _ => _ end] => destruct q
          | |- context [match ?f with FinTerm => _ | FinErr _ => _ | FinNone => _ end] => destruct f
          end; xf_red).

Ltac props :=
  repeat match goal with
         | H : (_ <? _) = true |- _ => apply Nat.ltb_lt in H
         | H : (_ <? _) = false |- _ => apply Nat.ltb_ge in H
         | H : (_ =? _) = true |- _ => apply Nat.eqb_eq in H
         | H : (_ =? _) = false |- _ => apply Nat.eqb_neq in H
         end.

Ltac pwx j :=
  repeat match goal with
         | |- context [upd _ ?i _ j] =>
             destruct (Nat.eq_dec j i) as [->|?]; [rewrite ?upd_same | rewrite ?upd_other by assumption]
         end.

Ltac eqbs :=
  rewrite ?Nat.eqb_refl;
  repeat match goal with
         | H : ?j <> ?i |- context [?i =? ?j] => rewrite (proj2 (Nat.eqb_neq i j)) by congruence
         | H : ?j <> ?i |- context [?j =? ?i] => rewrite (proj2 (Nat.eqb_neq j i)) by congruence
         end.

(* case analysis on every [f x] (f a boolean map) that occurs in the goal or a hypothesis *)
Ltac bcase f :=
  repeat match goal with
         | |- context [f ?x] =>
             lazymatch goal with
             | H' : f x = _ |- _ => fail
             | _ => destruct (f x) eqn:?
             end
         | H : context [f ?x] |- _ =>
             lazymatch goal with
             | H' : f x = _ |- _ => fail
             | _ => destruct (f x) eqn:?
             end
         end.

Section Proofs.
  Variable max n : nat.
  Variable qs : nat -> list val.
  Variable fins : nat -> final.

  Definition pcof (s : xf_state) (t : nat) : xf_pc := xf_pcv (xfs_th s t).

  (** *** I1: the counters, the cells and the trace *)
  Record I1 (s : xf_state) : Prop := {
    a_taken : xfs_taken s = count is_begin_data (xfs_tr s);
    a_le : xfs_taken s <= max;
    a_up : forall j, count (is_up_term_of j) (xfs_tr s) = b2n (xfs_stopped s j);
    a_cell : forall j, xfs_stopped s j = true -> xfs_cell s j = false;
    a_pub : forall j, pcof s j = XfAtPublish -> xfs_cell s j = false /\ xfs_stopped s j = false;
    a_out : forall j, n <= j -> pcof s j = XfFinished }.

  Lemma I1_init : I1 (xf_init n qs fins).
  Proof.
    constructor; unfold pcof; cbn -[Nat.ltb]; auto; try lia; try discriminate.
    intros j Hj. destruct (Nat.ltb_spec j n); [lia|reflexivity].
  Qed.

  Lemma I1_step s t : I1 s -> I1 (xf_step max n s t).
  Proof.
    destruct s as [st ec en cell stp tk te ttb th tr].
    intros [Ha Hb Hc Hd He Hf]. unfold pcof in *. cbn [xfs_taken xfs_tr xfs_stopped xfs_cell xfs_th] in *.
    pose proof (He t) as Het. pose proof (Hf t) as Hft.
    destruct (th t) as [pc q f] eqn:Hth. 
    unfold xf_step. cbn [xfs_th]. rewrite Hth. cbn [xf_pcv] in *.
    destruct pc; xf_crunch; props.
    all: constructor; unfold pcof; xf_red;
      rewrite ?count_cons_t; cbn [is_begin_data is_up_term_of snd]; try assumption; try lia.
    all: try (intros jj; pose proof (Hc jj) as Hcj; pose proof (Hd jj) as Hdj; pose proof (He jj) as Hej;
              pose proof (Hf jj) as Hfj; clear Hc Hd He Hf;
              rewrite ?count_cons_t; cbn [is_up_term_of snd]; pwx jj; xf_red; eqbs;
              rewrite ?Hth in *; cbn [xf_pcv] in *;
              bcase stp; bcase cell; cbn [b2n] in *;
              intuition (try congruence; try lia; try discriminate); fail).
  Qed.

  (** *** I2: the sink's terminal message *)
  Definition is_holder (p : xf_pc) : bool :=
    match p with XfAtTakeTbLoad | XfAtMgEnded | XfAtSweepT _ => true | _ => false end.

  Record I2 (s : xf_state) : Prop := {
    b_hold : forall t, is_holder (pcof s t) = true ->
                       xfs_tend s = true /\ count is_begin_term (xfs_tr s) = 0;
    b_uniq : forall t1 t2, is_holder (pcof s t1) = true -> is_holder (pcof s t2) = true -> t1 = t2;
    b_le : count is_begin_term (xfs_tr s) <= b2n (xfs_tend s);
    b_eq : (forall t, is_holder (pcof s t) = false) -> existsb is_panic (xfs_tr s) = false ->
           count is_begin_term (xfs_tr s) = b2n (xfs_tend s) }.

  Lemma I2_init : I2 (xf_init n qs fins).
  Proof.
    assert (H : forall t, is_holder (pcof (xf_init n qs fins) t) = false).
    { intros t. unfold pcof. cbn -[Nat.ltb]. destruct (t <? n); reflexivity. }
    constructor.
    - intros t Ht. rewrite H in Ht. discriminate.
    - intros t1 t2 Ht. rewrite H in Ht. discriminate.
    - unfold count. cbn. lia.
    - reflexivity.
  Qed.

  Lemma I2_frame s s' t :
    I2 s -> xfs_tend s' = xfs_tend s ->
    count is_begin_term (xfs_tr s') = count is_begin_term (xfs_tr s) ->
    (existsb is_panic (xfs_tr s') = false -> existsb is_panic (xfs_tr s) = false) ->
    (forall t0, t0 <> t -> pcof s' t0 = pcof s t0) ->
    is_holder (pcof s' t) = is_holder (pcof s t) -> I2 s'.
  Proof.
    intros [Ha Hb Hc Hd] Ht Hn Hp Ho Hh.
    assert (Hall : forall t0, is_holder (pcof s' t0) = is_holder (pcof s t0)).
    { intros t0. destruct (Nat.eq_dec t0 t) as [->|ne]; [assumption|]. now rewrite Ho. }
    constructor.
    - intros t0. rewrite Hall, Ht, Hn. apply Ha.
    - intros t1 t2. rewrite !Hall. apply Hb.
    - now rewrite Ht, Hn.
    - intros H1 H2. rewrite Ht, Hn. apply Hd; auto. intros t0. rewrite <- Hall. apply H1.
  Qed.

  Lemma I2_nobody s : I2 s -> xfs_tend s = false ->
    (forall t, is_holder (pcof s t) = false) /\ count is_begin_term (xfs_tr s) = 0.
  Proof.
    intros [Ha Hb Hc Hd] Ht. split.
    - intros t. destruct (is_holder (pcof s t)) eqn:E; auto. destruct (Ha t E). congruence.
    - rewrite Ht in Hc. cbn in Hc. lia.
  Qed.

  (** a swap that finds the flag unset and ends the sink in the same step *)
  Lemma I2_set s s' t :
    I2 s -> xfs_tend s = false -> xfs_tend s' = true ->
    count is_begin_term (xfs_tr s') = 1 ->
    (forall t0, t0 <> t -> pcof s' t0 = pcof s t0) -> is_holder (pcof s' t) = false -> I2 s'.
  Proof.
    intros HI Hf Ht Hn Ho H2. destruct (I2_nobody HI Hf) as [Hno _].
    assert (Hp : forall t0, is_holder (pcof s' t0) = false).
    { intros t0. destruct (Nat.eq_dec t0 t) as [->|ne]; [assumption|]. rewrite Ho by assumption. apply Hno. }
    constructor.
    - intros t0 H. rewrite Hp in H. discriminate.
    - intros t1 t2 H. rewrite Hp in H. discriminate.
    - rewrite Ht, Hn. cbn. lia.
    - intros _ _. now rewrite Ht, Hn.
  Qed.

  (** the thread between the claim and the sink's Terminate leaves: it ends the sink, or panics *)
  Lemma I2_leave s s' t :
    I2 s -> is_holder (pcof s t) = true -> is_holder (pcof s' t) = false ->
    (forall t0, t0 <> t -> pcof s' t0 = pcof s t0) -> xfs_tend s' = xfs_tend s ->
    (count is_begin_term (xfs_tr s') = 1 \/
     (count is_begin_term (xfs_tr s') = 0 /\ existsb is_panic (xfs_tr s') = true)) -> I2 s'.
  Proof.
    intros [Ha Hb Hc Hd] Hh Hl Ho Ht Hn.
    destruct (Ha t Hh) as [Hte _].
    assert (Hp : forall t0, is_holder (pcof s' t0) = false).
    { intros t0. destruct (Nat.eq_dec t0 t) as [->|ne]; [assumption|]. rewrite Ho by assumption.
      destruct (is_holder (pcof s t0)) eqn:E; auto. exfalso. apply ne. now apply Hb. }
    constructor.
    - intros t0 H. rewrite Hp in H. discriminate.
    - intros t1 t2 H. rewrite Hp in H. discriminate.
    - rewrite Ht, Hte. cbn. destruct Hn as [->|[-> _]]; lia.
    - intros _ Hnp. rewrite Ht, Hte. destruct Hn as [->|[_ Hn]]; [reflexivity|congruence].
  Qed.

  Lemma I2_step s t : I1 s -> I2 s -> I2 (xf_step max n s t).
  Proof.
    destruct s as [st ec en cell stp tk te ttb th tr].
    intros _ HI.
    destruct (th t) as [pc q f] eqn:Hth.
    unfold xf_step. cbn [xfs_th]. rewrite Hth. cbn [xf_pcv] in *.
    destruct pc; xf_crunch; props.
    all: try solve [ apply (@I2_frame _ _ t HI); unfold pcof; xf_red;
           [ reflexivity
           | rewrite ?count_cons_t; cbn [is_begin_term snd]; auto
           | cbn [existsb is_panic snd orb]; auto
           | intros t0 ne; now rewrite upd_other
           | rewrite Hth; reflexivity ] ].
    all: try solve [ apply (@I2_set _ _ t HI); unfold pcof; xf_red;
           [ reflexivity | reflexivity
           | let Hz := fresh in
             pose proof (proj2 (I2_nobody HI eq_refl)) as Hz; cbn [xfs_tr] in Hz;
             rewrite ?count_cons_t; cbn [is_begin_term snd]; rewrite Hz; reflexivity
           | intros t0 ne; now rewrite upd_other
           | reflexivity ] ].
    all: try solve [ apply (@I2_leave _ _ t HI); unfold pcof; xf_red;
           [ rewrite Hth; reflexivity
           | reflexivity
           | intros t0 ne; now rewrite upd_other
           | reflexivity
           | rewrite ?count_cons_t; cbn [is_begin_term snd existsb is_panic orb];
             assert (Hz : count is_begin_term tr = 0)
               by (apply (b_hold HI t); unfold pcof; cbn [xfs_th]; rewrite Hth; reflexivity);
             rewrite Hz; auto ] ].
    all: try assumption.
    (* the holder of the last ticket finds the flag unset *)
    destruct (I2_nobody HI eq_refl) as [Hno Hz]. unfold pcof in Hno. cbn [xfs_th xfs_tr] in Hno, Hz.
    constructor; unfold pcof; xf_red.
    - intros t0 _. auto.
    - intros t1 t2. pw t1 t; pw t2 t; auto; intros H1 H2; rewrite Hno in *; discriminate.
    - rewrite Hz. cbn. lia.
    - intros Hnh. specialize (Hnh t). rewrite upd_same in Hnh. discriminate.
  Qed.

  (** *** I3: the ticket argument *)
  Definition is_hpc (p : xf_pc) : bool :=
    match p with XfInData t' => Nat.eqb t' max | XfAtEndSwap => true | _ => false end.

  Definition I3 (s : xf_state) : Prop :=
    1 <= max -> xfs_taken s = max -> xfs_tend s = true \/ exists t, is_hpc (pcof s t) = true.

  Lemma I3_init : I3 (xf_init n qs fins).
  Proof. intros H1 H2. cbn in H2. lia. Qed.

  Lemma I3_frame s s' t :
    I3 s -> xfs_taken s' = xfs_taken s -> (xfs_tend s = true -> xfs_tend s' = true) ->
    (forall t0, t0 <> t -> pcof s' t0 = pcof s t0) ->
    (is_hpc (pcof s t) = true -> is_hpc (pcof s' t) = true \/ xfs_tend s' = true) -> I3 s'.
  Proof.
    intros HI Hk He Ho Hh Hpos Hm. rewrite Hk in Hm.
    destruct (HI Hpos Hm) as [H|[t0 H]]; [left; auto|].
    destruct (Nat.eq_dec t0 t) as [->|ne].
    - destruct (Hh H); [right; exists t; assumption | left; assumption].
    - right. exists t0. now rewrite Ho.
  Qed.

  Lemma I3_step s t : I3 s -> I3 (xf_step max n s t).
  Proof.
    destruct s as [st ec en cell stp tk te ttb th tr].
    intros HI.
    destruct (th t) as [pc q f] eqn:Hth.
    unfold xf_step. cbn [xfs_th]. rewrite Hth. cbn [xf_pcv] in *.
    destruct pc; xf_crunch; props.
    all: try solve [ apply (@I3_frame _ _ t HI); unfold pcof; xf_red;
           [ reflexivity
           | auto
           | intros t0 ne; now rewrite upd_other
           | rewrite Hth; cbn [xf_pcv is_hpc];
             let Hh := fresh in intros Hh; auto; try discriminate;
             apply Nat.eqb_eq in Hh; contradiction ] ].
    all: try assumption.
    (* a ticket is taken *)
    intros Hpos Hm. cbn in Hm. right. exists t. unfold pcof. xf_red. cbn [xf_pcv is_hpc]. rewrite Hm. apply Nat.eqb_refl.
  Qed.

  (** *** I4: the greeting, and the panic (KF4) *)
  Definition in_deliv (p : xf_pc) : bool :=
    match p with XfInData _ | XfAtEndSwap | XfAtTakeTbLoad => true | _ => false end.

  Record I4 (s : xf_state) : Prop := {
    c_greet : 1 <= count is_begin_greet (xfs_tr s) -> xfs_ttb s = true;
    c_data : forall t, in_deliv (pcof s t) = true -> 1 <= count is_begin_data (xfs_tr s);
    c_panic : before_greet_ok (rev (xfs_tr s)) = true -> existsb is_panic (xfs_tr s) = false }.

  Lemma I4_init : I4 (xf_init n qs fins).
  Proof.
    constructor; unfold pcof; cbn -[Nat.ltb]; auto.
    - unfold count. cbn. lia.
    - intros t. destruct (t <? n); discriminate.
  Qed.

  Lemma I4_step s t : I4 s -> I4 (xf_step max n s t).
  Proof.
    destruct s as [st ec en cell stp tk te ttb th tr].
    intros [Hg Hd Hp]. unfold pcof in *. cbn [xfs_ttb xfs_tr xfs_th] in *.
    pose proof (Hd t) as Hdt.
    destruct (th t) as [pc q f] eqn:Hth.
    unfold xf_step. cbn [xfs_th]. rewrite Hth. cbn [xf_pcv in_deliv] in *.
    destruct pc; xf_crunch; props.
    all: constructor; unfold pcof; xf_red; rewrite ?count_cons_t; cbn [is_begin_greet is_begin_data snd];
      try assumption; try (intros; reflexivity).
    all: cbn [in_deliv] in Hdt.
    all: try (intros jj; pwx jj; xf_red; intros Hx; try discriminate Hx; try (specialize (Hd _ Hx));
              try specialize (Hdt eq_refl); lia).
    all: try (intros Hb; repeat (apply bgo_prefix in Hb); cbn [is_panic snd orb]; auto; fail).
    (* KF4: the panic is reached only if a datum was begun before the greeting *)
    intros Hb. apply bgo_prefix in Hb. exfalso.
    assert (H1 : 1 <= count is_begin_greet tr).
    { rewrite <- (count_rev is_begin_greet). apply bgo_data_greet; auto. rewrite count_rev. auto. }
    specialize (Hg H1). discriminate.
  Qed.

  (** *** the invariants together *)
  Definition Inv (s : xf_state) : Prop := I1 s /\ I2 s /\ I3 s /\ I4 s.

  Lemma reach_inv s : xf_reach max n qs fins s -> Inv s.
  Proof.
    induction 1 as [|s t _ (H1 & H2 & H3 & H4)].
    - split; [|split; [|split]]; [apply I1_init | apply I2_init | apply I3_init | apply I4_init].
    - split; [|split; [|split]].
      + now apply I1_step.
      + now apply I2_step.
      + now apply I3_step.
      + now apply I4_step.
  Qed.

  Theorem takemerge_fine_safe s : xf_reach max n qs fins s ->
    count is_begin_data (xfs_tr s) <= max
    /\ count is_begin_term (xfs_tr s) <= 1
    /\ (forall j, count (is_up_term_of j) (xfs_tr s) <= 1).
  Proof.
    intros Hr. destruct (reach_inv Hr) as ([Ha Hb Hc Hd He Hf] & [Hm Hu Hle Heq] & _ & _).
    split; [|split].
    - now rewrite <- Ha.
    - destruct (xfs_tend s); cbn in Hle; lia.
    - intros j. rewrite Hc. destruct (xfs_stopped s j); cbn; lia.
  Qed.

  Theorem takemerge_fine_panic_only_kf4 s : xf_reach max n qs fins s ->
    before_greet_ok (rev (xfs_tr s)) = true -> existsb is_panic (xfs_tr s) = false.
  Proof. intros Hr. destruct (reach_inv Hr) as (_ & _ & _ & [_ _ Hp]). exact Hp. Qed.

  Lemma finished_pc s : I1 s -> (forall t, t < n -> xf_finished s t = true) ->
    forall t, pcof s t = XfFinished.
  Proof.
    intros H1 Hfin t. destruct (Nat.lt_ge_cases t n) as [Hlt|Hge]; [|now apply (a_out H1)].
    specialize (Hfin t Hlt). unfold xf_finished in Hfin. unfold pcof.
    destruct (xf_pcv (xfs_th s t)); try discriminate. reflexivity.
  Qed.

  Theorem takemerge_fine_complete s : 1 <= max -> xf_reach max n qs fins s ->
    (forall t, t < n -> xf_finished s t = true) -> before_greet_ok (rev (xfs_tr s)) = true ->
    max <= count is_begin_data (xfs_tr s) -> count is_begin_term (xfs_tr s) = 1.
  Proof.
    intros Hpos Hr Hfin Hbg Hmax. destruct (reach_inv Hr) as (H1 & H2 & H3 & H4).
    pose proof (finished_pc H1 Hfin) as Hpc.
    assert (Hm : xfs_taken s = max) by (pose proof (a_taken H1); pose proof (a_le H1); lia).
    assert (Hte : xfs_tend s = true).
    { destruct (H3 Hpos Hm) as [Ht|[t Ht]]; [exact Ht|]. rewrite Hpc in Ht. discriminate. }
    rewrite (b_eq H2), Hte; auto.
    - intros t. now rewrite Hpc.
    - now apply (c_panic H4).
  Qed.

  Theorem takemerge_fine_final s : 1 <= max -> xf_reach max n qs fins s ->
    (forall t, t < n -> xf_finished s t = true) -> before_greet_ok (rev (xfs_tr s)) = true ->
    takemerge_check max (rev (xfs_tr s)) = [].
  Proof.
    intros Hpos Hr Hfin Hbg. destruct (takemerge_fine_safe Hr) as (H1 & H2 & H3).
    pose proof (takemerge_fine_panic_only_kf4 Hr Hbg) as H4.
    unfold takemerge_check. cbv zeta.
    match goal with |- context [forallb ?f ?l] => assert (Hup : forallb f l = true) end.
    { apply forallb_forall. intros i _. apply Nat.leb_le. rewrite count_rev.
      rewrite (@count_ext _ _ (is_up_term_of i)); [apply H3|].
      intros [t0 [m| |j [| |]|]]; cbn; try reflexivity; apply Nat.eqb_sym. }
    rewrite Hup, !count_rev, existsb_rev, H4.
    rewrite (proj2 (Nat.leb_le _ _) H1), (proj2 (Nat.leb_le _ _) H2).
    destruct (Nat.leb_spec max (count is_begin_data (xfs_tr s))) as [Hle|Hlt]; [|reflexivity].
    rewrite (takemerge_fine_complete Hpos Hr Hfin Hbg Hle). reflexivity.
  Qed.
End Proofs.


Lemma xf_run_sched_reach max n qs fins sch : forall s,
  xf_reach max n qs fins s -> xf_reach max n qs fins (run_sched (xf_step max n) xf_finished sch s).
Proof.
  induction sch as [|t sch IH]; intros s Hr; cbn; auto.
  apply IH. destruct (xf_finished s t); auto. now constructor.
Qed.

Lemma xf_drain_threads_reach max n qs fins nth fuel : forall s,
  xf_reach max n qs fins s ->
  xf_reach max n qs fins (drain_threads (xf_step max n) xf_finished nth fuel s).
Proof.
  induction fuel as [|fuel IH]; intros s Hr; cbn; auto.
  destruct (first_unfinished xf_finished nth s); auto. apply IH. now constructor.
Qed.

Lemma takemerge_fine_run_full_reach max n qs fins nth sch fuel :
  xf_reach max n qs fins (run_full (xf_step max n) xf_finished nth sch fuel (xf_init n qs fins)).
Proof. unfold run_full. apply xf_drain_threads_reach, xf_run_sched_reach. constructor. Qed.

Corollary takemerge_fine_driver_final max n qs fins nth sch fuel : 1 <= max ->
  let s := run_full (xf_step max n) xf_finished nth sch fuel (xf_init n qs fins) in
  (forall t, t < n -> xf_finished s t = true) -> before_greet_ok (rev (xfs_tr s)) = true ->
  takemerge_check max (rev (xfs_tr s)) = [].
Proof. intros Hpos s Hf Hb. apply takemerge_fine_final with (n := n) (qs := qs) (fins := fins); auto. apply takemerge_fine_run_full_reach. Qed.


Print Assumptions takemerge_fine_safe.
Print Assumptions takemerge_fine_panic_only_kf4.
Print Assumptions takemerge_fine_complete.
Print Assumptions takemerge_fine_final.
Print Assumptions takemerge_fine_run_full_reach.
Print Assumptions takemerge_fine_driver_final.
Print Assumptions takemerge_fine_example.
