(** * Machine: components as resumable handlers, the generic re-entrant machine,
      the conformant environment and the protocol monitor.

    A component (one operator, source or sink of the crate, wired between
    environment puppets) is an [op]: a state type [St] (the Arc'ed cells of
    the Rust closure tree), a frame type [Fr] (what a handler still has to do
    after one of its outgoing calls returns, with the locals it needs) and two
    functions.  [handle i s] runs the handler that input [i] enters, from its
    entry up to its first outgoing call (or to its return); [resume k s] runs
    a suspended handler from the return of its pending call to its next call.
    Both read the state *as it is then*: everything that nested, re-entrant
    calls changed in between is visible, which is the whole point.

    The machine keeps the stack of suspended handler activations.  While a
    call is pending control is with the environment, which is inside the
    peer's handler: it may perform further inputs (re-entrancy) or return. *)

From CB Require Export Base.
From RecordUpdate Require Export RecordSet.
Export RecordSetNotations.

Set Implicit Arguments.

Inductive act (F : Type) : Type :=
| ARet                          (* the handler returns *)
| APanic                        (* a panic!/expect/unwrap site is hit *)
| ACall (c : call) (k : F).     (* call a peer, then continue with [k] *)
Arguments ARet {F}.
Arguments APanic {F}.

Record op : Type := {
  St : Type;
  Fr : Type;
  st0 : St;
  handle : input -> St -> St * list obs * act Fr;
  resume : Fr -> St -> St * list obs * act Fr;
}.

(** ** The monitor state: what an observer of the trace knows.

    It is a function of the events alone, so that the *same* definition is
    run over traces of the model (inside [cfg], where [enabled] reads it) and,
    extracted, over traces recorded from the real crate. *)

Inductive sks : Type :=
| SNone          (* not greeted *)
| SLive          (* greeted, neither side has terminated *)
| SDisposed      (* the sink sent Terminate/Error upward *)
| SFinished.     (* the sink received Terminate/Error *)

Inductive uss : Type :=
| UNone          (* not subscribed *)
| USubd          (* subscribed, has not greeted yet *)
| ULive          (* greeted, alive *)
| UEnded         (* sent Terminate/Error by itself *)
| UStopped.      (* received Terminate/Error from the component *)

(** Kinds of protocol violation the monitor reports, with the property each
    one falls under. *)
Inductive vkind : Type :=
| VGreetTwice (s : nat)        (* C01 *)
| VBeforeGreet (s : nat)       (* C01 *)
| VAfterFinish (s : nat)       (* C02 *)
| VAfterDispose (s : nat)      (* C03 *)
| VSubTwice (i : nat)          (* C04 *)
| VSubAfterOver (i : nat)      (* C04 *)
| VUpEarly (i : nat)           (* C04: talkback used before the upstream greeted *)
| VPullAfterEnd (i : nat)      (* C04: Pull sent to an upstream that ended by itself *)
| VStopAfterEnd (i : nat)      (* C04: Terminate/Error sent to an upstream that ended by itself *)
| VPullAfterStop (i : nat)     (* C04: Pull sent to an upstream the component already stopped *)
| VStopAfterStop (i : nat)     (* C04: an upstream is told to stop a second time *)
| VOrphan (i : nat)            (* C04: output over at a quiescent point, upstream still live *)
| VErrLost (s : nat)           (* C05 *)
| VErrChanged (s : nat)        (* C05: an Error nobody sent *)
| VNested (s : nat)            (* C15: delivery begun inside a data delivery to the same sink *)
| VOverPull (i : nat)          (* C14: second outstanding Pull to a pullable upstream *)
| VOverData (s : nat)          (* C14: more Data than Pulls *)
| VUnanswered (s : nat)        (* C14: quiescent, nothing owed upstream, yet a Pull has no answer *)
| VPanic.                      (* C17 *)

Record mstate : Type := mk_mstate {
  subd : nat -> bool;            (* sink s has subscribed *)
  sk : nat -> sks;
  us : nat -> uss;
  ports : list nat;              (* upstream ports subscribed so far, latest first *)
  owed : nat -> nat;             (* Pulls upstream i received and has not answered *)
  credit : nat -> nat;           (* messages sink s received and has not answered with a Pull *)
  task : nat -> bool;            (* interval: the task of subscription s is asleep *)
  refused : nat -> option nat;   (* interval: the nursery refused the task of sink s with this error *)
  err_due : nat -> option nat;   (* an upstream Error that sink s must still receive *)
  errs_in : list nat;            (* ids of all errors peers have sent so far *)
  npull : nat -> nat;            (* Pulls sent by sink s *)
  ndata : nat -> nat;            (* Data received by sink s *)
  cstack : list call;            (* pending calls, innermost first *)
  viols : list vkind;            (* violations, latest first *)
}.

#[export] Instance eta_mstate : Settable _ :=
  settable! mk_mstate <subd; sk; us; ports; owed; credit; task; refused; err_due; errs_in;
                       npull; ndata; cstack; viols>.

Definition ms0 : mstate := {|
  subd := fun _ => false; sk := fun _ => SNone; us := fun _ => UNone; ports := [];
  owed := fun _ => 0; credit := fun _ => 0; task := fun _ => false;
  refused := fun _ => None;
  err_due := fun _ => None; errs_in := []; npull := fun _ => 0; ndata := fun _ => 0;
  cstack := []; viols := [] |}.

(** Static parameters of the experiment: how many sinks there are, and which
    sub-relation of the conformant environment is in force. *)
Record mparams : Type := {
  nsinks : nat;        (* sinks are 0 .. nsinks-1 (1 except for share) *)
  late_ok : bool;      (* upstreams may greet after the subscribing call returned (merge) *)
  pullable : bool;     (* upstreams only answer Pulls, one answer each (C14, C06) *)
  one_pull : bool;     (* sinks send at most one Pull per message received (C14) *)
  resub : bool;        (* share: the upstream may be subscribed again after it ended *)
  no_nest : bool;      (* C15 (from_iter): no delivery may begin inside a data delivery *)
  c14 : bool;          (* the demand-conservation counts of C14 are checked *)
}.

Definition sk_over (k : sks) : bool :=
  match k with SDisposed | SFinished => true | _ => false end.
Definition us_live (u : uss) : bool :=
  match u with ULive => true | _ => false end.

Definition add_viol (v : vkind) (m : mstate) : mstate := m <| viols := v :: viols m |>.

Definition add_viols (vs : list vkind) (m : mstate) : mstate :=
  fold_right add_viol m vs.

(** *** Checks made when the component performs a call *)

Fixpoint in_data_delivery (s : nat) (st : list call) : bool :=
  match st with
  | [] => false
  | CDn s' (DD _) :: st' => Nat.eqb s s' || in_data_delivery s st'
  | _ :: st' => in_data_delivery s st'
  end.

Definition check_call (p : mparams) (m : mstate) (c : call) : list vkind :=
  match c with
  | CDn s DH =>
      match sk m s with SNone => [] | _ => [VGreetTwice s] end
  | CDn s d =>
      (match sk m s with
       | SNone =>
           (* the one sanctioned exception (C01, C16): the single Error with
              which interval refuses a subscription whose task was not spawned *)
           match d, refused m s with
           | DE e, Some e' => if Nat.eqb e e' then [] else [VBeforeGreet s]
           | _, _ => [VBeforeGreet s]
           end
       | SLive => []
       | SDisposed => [VAfterDispose s]
       | SFinished => [VAfterFinish s]
       end)
      ++ (if no_nest p && in_data_delivery s (cstack m) then [VNested s] else [])
      ++ (match d with
          | DE e =>
              (if existsb (Nat.eqb e) (errs_in m) then [] else [VErrChanged s])
          | DT => match err_due m s with Some _ => [VErrLost s] | None => [] end
          | DD _ => if c14 p && (npull m s <=? ndata m s) then [VOverData s] else []
          | DH => []
          end)
  | CSub i =>
      (match us m i with
       | UNone => []
       | UEnded | UStopped => if resub p then [] else [VSubTwice i]
       | _ => [VSubTwice i]
       end)
      ++ (if negb (resub p) && sk_over (sk m 0) then [VSubAfterOver i] else [])
  | CUp i u =>
      (match us m i with
       | UNone | USubd => [VUpEarly i]
       | ULive => []
       | UEnded => [if umsg_is_term u then VStopAfterEnd i else VPullAfterEnd i]
       | UStopped => [if umsg_is_term u then VStopAfterStop i else VPullAfterStop i]
       end)
      ++ (match u with
          | UP => if c14 p && (0 <? owed m i) then [VOverPull i] else []
          | _ => []
          end)
  end.

(** *** State updates *)

Definition set_sk (m : mstate) (s : nat) (k : sks) : mstate := m <| sk := upd (sk m) s k |>.
Definition set_us (m : mstate) (i : nat) (u : uss) : mstate := m <| us := upd (us m) i u |>.
Definition set_owed (m : mstate) (i n : nat) : mstate := m <| owed := upd (owed m) i n |>.
Definition set_credit (m : mstate) (s n : nat) : mstate := m <| credit := upd (credit m) s n |>.
Definition set_task (m : mstate) (s : nat) (b : bool) : mstate := m <| task := upd (task m) s b |>.
Definition set_subd (m : mstate) (s : nat) : mstate := m <| subd := upd (subd m) s true |>.
Definition add_port (m : mstate) (i : nat) : mstate := m <| ports := i :: ports m |>.
Definition set_err_due (m : mstate) (f : nat -> option nat) : mstate := m <| err_due := f |>.
Definition add_err_in (m : mstate) (e : nat) : mstate := m <| errs_in := e :: errs_in m |>.
Definition inc_npull (m : mstate) (s : nat) : mstate :=
  m <| npull := upd (npull m) s (S (npull m s)) |>.
Definition inc_ndata (m : mstate) (s : nat) : mstate :=
  m <| ndata := upd (ndata m) s (S (ndata m s)) |>.
Definition set_cstack (m : mstate) (st : list call) : mstate := m <| cstack := st |>.

(** a sink that was live when an upstream failed must receive that error *)
Definition due_on_error (p : mparams) (m : mstate) (e : nat) : nat -> option nat :=
  fun s => if (s <? nsinks p) && match sk m s with SLive => true | _ => false end
           then Some e else err_due m s.

(** the Error with which interval refuses a subscription is not sent by any
    peer; the harness prints NurseErr::Spawn as E1 and NurseErr::Closed as E2
    (errors sent by puppets have ids >= 100) *)
Definition spawn_err_id (aux : nat) : nat := aux.

Definition mon_input (p : mparams) (m : mstate) (i : input) : mstate :=
  match i with
  | ISub s 0 => set_subd m s
  | ISub s aux =>
      add_err_in (set_subd m s) (spawn_err_id aux)
        <| refused := upd (refused m) s (Some (spawn_err_id aux)) |>
  | IUp s u =>
      let m := match u with
               | UP => inc_npull (set_credit m s (pred (credit m s))) s
               | UE e => add_err_in (set_err_due (set_sk m s SDisposed)
                                       (upd (err_due m) s None)) e
               | UT => set_err_due (set_sk m s SDisposed) (upd (err_due m) s None)
               end in m
  | IDn i d =>
      match d with
      | DH => set_us m i ULive
      | DD _ => set_owed m i (pred (owed m i))
      | DE e =>
          add_err_in (set_err_due (set_owed (set_us m i UEnded) i (pred (owed m i)))
                        (due_on_error p m e)) e
      | DT => set_owed (set_us m i UEnded) i (pred (owed m i))
      end
  | ITick _ => m
  end.

Definition mon_call_upd (m : mstate) (c : call) : mstate :=
  match c with
  | CSub i => add_port (set_us m i USubd) i
  | CUp i UP => set_owed m i (S (owed m i))
  | CUp i _ => set_us m i UStopped
  | CDn s DH =>
      set_credit (match sk m s with SNone => set_sk m s SLive | _ => m end) s (S (credit m s))
  | CDn s (DD _) => inc_ndata (set_credit m s (S (credit m s))) s
  | CDn s (DE e) =>
      let m' := match sk m s with SDisposed => m | _ => set_sk m s SFinished end in
      match err_due m s with
      | Some e' => if Nat.eqb e e' then set_err_due m' (upd (err_due m) s None) else m'
      | None => m'
      end
  | CDn s DT =>
      match sk m s with SDisposed => m | _ => set_sk m s SFinished end
  end.

Definition mon_obs (m : mstate) (o : obs) : mstate :=
  match o with
  | OSpawn s true => set_task m s true
  | OExit s => set_task m s false
  | _ => m
  end.

(** at a quiescent point (no call pending) an output that is over must have
    no live upstream left, and no error may still be undelivered *)
Definition check_quiescent (p : mparams) (m : mstate) : list vkind :=
  (if negb (resub p) && sk_over (sk m 0)
   then map VOrphan (filter (fun i => us_live (us m i)) (ports m)) else [])
  ++ map VErrLost (filter (fun s => match err_due m s with Some _ => true | None => false end)
                     (seq 0 (nsinks p)))
  ++ (if c14 p && match sk m 0 with SLive => true | _ => false end
         && forallb (fun i => Nat.eqb (owed m i) 0) (ports m)
         && negb (Nat.eqb (npull m 0) (ndata m 0))
      then [VUnanswered 0] else []).

Definition mon_event (p : mparams) (m : mstate) (ev : event) : mstate :=
  match ev with
  | EIn i => mon_input p m i
  | ECall c =>
      let vs := check_call p m c in
      let m := mon_call_upd m c in
      add_viols vs (set_cstack m (c :: cstack m))
  | ERet => set_cstack m (tl (cstack m))
  | EDone =>
      match cstack m with
      | [] => add_viols (check_quiescent p m) m
      | _ => m
      end
  | EObs o => mon_obs m o
  | EPanic => add_viol VPanic m
  end.

Definition mon_trace (p : mparams) (tr : list event) : mstate :=
  fold_left (mon_event p) tr ms0.

(** an input can only be performed if the component has handed out the
    closure it enters: the talkback (to the sink), the handler (to the
    upstream), the task (to the nursery).  Otherwise the harness has nothing
    to call and the move is a no-op for model and crate alike. *)
Definition deliverable (m : mstate) (i : input) : bool :=
  match i with
  | ISub _ _ => true
  | IUp s _ => match sk m s with SNone => false | _ => true end
  | IDn i _ => match us m i with UNone => false | _ => true end
  | ITick s => task m s
  end.

(** ** Configurations and steps *)

Inductive move : Type := MIn (i : input) | MRet.

Record cfg (o : op) : Type := {
  cst : St o;
  stack : list (Fr o * call);     (* suspended activations, innermost first *)
  rtrace : list event;            (* latest first *)
  ms : mstate;
  dead : bool;                    (* a panic happened: the run is over *)
}.

Definition trace o (c : cfg o) : list event := rev (rtrace c).

Definition cfg0 (o : op) : cfg o :=
  {| cst := st0 o; stack := []; rtrace := []; ms := ms0; dead := false |}.

Section Step.
  Variable p : mparams.
  Variable o : op.

  Definition push_events (evs : list event) (c : cfg o) : cfg o :=
    {| cst := cst c; stack := stack c;
       rtrace := rev_append evs (rtrace c);
       ms := fold_left (mon_event p) evs (ms c);
       dead := dead c |}.

  (** the component ran from [c] and produced [r] *)
  Definition settle (c : cfg o) (r : St o * list obs * act (Fr o)) : cfg o :=
    let '(s', os, a) := r in
    let c1 := push_events (map EObs os) c in
    match a with
    | ARet =>
        let c2 := push_events [EDone] c1 in
        {| cst := s'; stack := stack c2; rtrace := rtrace c2; ms := ms c2; dead := dead c2 |}
    | APanic =>
        let c2 := push_events [EPanic] c1 in
        {| cst := s'; stack := stack c2; rtrace := rtrace c2; ms := ms c2; dead := true |}
    | ACall cl k =>
        let c2 := push_events [ECall cl] c1 in
        {| cst := s'; stack := (k, cl) :: stack c2; rtrace := rtrace c2; ms := ms c2;
           dead := dead c2 |}
    end.

  (** [step] is total: a disabled move is still executed (the harness does
      the same), so that model and crate can be compared on non-conformant
      scripts as well.  Only [MRet] with no pending call and any move after a
      panic are no-ops. *)
  Definition step (c : cfg o) (m : move) : cfg o :=
    if dead c then c else
    match m with
    | MIn i =>
        if deliverable (ms c) i
        then settle (push_events [EIn i] c) (handle o i (cst c))
        else push_events [EIn i; EDone] c
    | MRet =>
        match stack c with
        | [] => c
        | (k, _) :: rest =>
            let c1 := push_events [ERet] c in
            settle {| cst := cst c1; stack := rest; rtrace := rtrace c1; ms := ms c1;
                      dead := dead c1 |}
                   (resume o k (cst c))
        end
    end.

  Definition run (ms : list move) : cfg o := fold_left step ms (cfg0 o).

  (** ** The conformant environment

      [xguard] is a component-specific side condition on inputs (flatten: an
      inner source the outer emits is a fresh one). *)
  Variable xguard : mstate -> input -> bool.

  Definition top_peer_is (c : cfg o) (q : peer) : bool :=
    match stack c with
    | [] => true
    | (_, cl) :: _ => peer_eqb (peer_of cl) q
    end.

  Definition at_top (c : cfg o) : bool :=
    match stack c with [] => true | _ => false end.

  Definition enabled (c : cfg o) (m : move) : bool :=
    negb (dead c) &&
    match m with
    | MRet =>
        match stack c with
        | [] => false
        | (_, CSub i) :: _ =>
            late_ok p || negb (match us (ms c) i with USubd => true | _ => false end)
        | _ => true
        end
    | MIn inp =>
        xguard (ms c) inp &&
        match inp with
        | ISub s _ => at_top c && (s <? nsinks p) && negb (subd (ms c) s)
        | IUp s u =>
            top_peer_is c (PSink s) &&
            match sk (ms c) s with SLive => true | _ => false end &&
            match u with
            | UP => negb (one_pull p) || (0 <? credit (ms c) s)
            | _ => true
            end
        | IDn i d =>
            top_peer_is c (PUp i) &&
            match d with
            | DH =>
                match us (ms c) i with USubd => true | _ => false end &&
                (late_ok p ||
                 match stack c with (_, CSub j) :: _ => Nat.eqb i j | _ => false end)
            | _ =>
                us_live (us (ms c) i) && (negb (pullable p) || (0 <? owed (ms c) i))
            end
        | ITick s => at_top c && task (ms c) s
        end
    end.

  Inductive reach : cfg o -> Prop :=
  | reach0 : reach (cfg0 o)
  | reachS c m : reach c -> enabled c m = true -> reach (step c m).

  (** every script whose moves are enabled one after the other stays inside
      what the theorems quantify over *)
  Fixpoint all_enabled (c : cfg o) (ms : list move) : bool :=
    match ms with
    | [] => true
    | m :: ms' => enabled c m && all_enabled (step c m) ms'
    end.

  Lemma reach_run_from c ms :
    reach c -> all_enabled c ms = true -> reach (fold_left step ms c).
  Proof.
    revert c. induction ms as [|m ms IH]; intros c Hc Hall; cbn in *; [exact Hc|].
    apply andb_prop in Hall. destruct Hall as [Hm Hrest].
    apply IH; [apply reachS; assumption | exact Hrest].
  Qed.

  Lemma reach_run ms : all_enabled (cfg0 o) ms = true -> reach (run ms).
  Proof. apply reach_run_from. constructor. Qed.

End Step.

