(** * Flow_take: the flow facts (Flow.v, record [stage_flow]) of take(n).

    What is special about take: a Pull that arrives once [tk_taken = n] is swallowed and a datum
    that arrives then is dropped, so demand is only conserved while [tk_taken < n]; and take ends
    the stream by itself after the n-th datum.  The protocol part (which phases (sk, us) there
    are, what the stack looks like in each) is [Inv_take.inv_reach]; this file adds the counts. *)

From CB Require Import ProofLib Spec Flow Inv_take Inv_take_end.

Set Implicit Arguments.

(** ** Facts about the monitor that hold of every component *)
Section MonitorMonotone.
  Variable p : mparams.

  (** what [mon_event] keeps, over the events of one activation *)
  Lemma settle_pres (P : mstate -> Prop) (o : op) :
    (forall mm ev, (forall i, ev <> EIn i) -> P mm -> P (mon_event p mm ev)) ->
    forall m os (a : act (Fr o)), P m -> P (ms_settle p o m os a).
  Proof.
    intros HP m os a H0. unfold ms_settle.
    assert (H1 : P (fold_left (mon_event p) (map EObs os) m)).
    { revert m H0. induction os as [|ob os IH]; intros m H0; cbn [map fold_left]; [exact H0|].
      apply IH. apply HP; [intros i; discriminate | exact H0]. }
    destruct a as [| |cl k]; apply HP; try exact H1; intros i; discriminate.
  Qed.

  Lemma step_pres (P : mstate -> Prop) (o : op) (c : cfg o) (m : move) :
    (forall mm ev, (forall i, ev <> EIn i) -> P mm -> P (mon_event p mm ev)) ->
    (forall mm i, m = MIn i -> P mm -> P (mon_input p mm i)) ->
    P (ms c) -> P (ms (step p c m)).
  Proof.
    intros HP HPi H0. unfold step. destruct (dead c); [exact H0|].
    destruct m as [i|].
    - destruct (deliverable (ms c) i).
      + destruct (handle o i (cst c)) as [[s' os] a]. rewrite settle_ms.
        apply settle_pres; [exact HP|]. cbn. apply (HPi _ i eq_refl H0).
      + cbn [push_events ms fold_left].
        apply HP; [intros j; discriminate|]. apply (HPi _ i eq_refl H0).
    - destruct (stack c) as [|[k cl] rest]; [exact H0|].
      destruct (resume o k (cst c)) as [[s' os] a]. rewrite settle_ms.
      apply settle_pres; [exact HP|]. cbn [push_events ms fold_left].
      apply HP; [intros j; discriminate | exact H0].
  Qed.

  Lemma sk_add_viols vs m : sk (add_viols vs m) = sk m.
  Proof. now rewrite add_viols_eq. Qed.
  Lemma us_add_viols vs m : us (add_viols vs m) = us m.
  Proof. now rewrite add_viols_eq. Qed.
  Lemma subd_add_viols vs m : subd (add_viols vs m) = subd m.
  Proof. now rewrite add_viols_eq. Qed.

  Ltac brk :=
    cbn;
    repeat (match goal with
            | |- context [match sk ?m ?s with _ => _ end] => destruct (sk m s) eqn:?
            | |- context [match err_due ?m ?s with _ => _ end] => destruct (err_due m s) eqn:?
            | |- context [match cstack ?m with _ => _ end] => destruct (cstack m) eqn:?
            | |- context [if Nat.eqb ?a ?b then _ else _] => destruct (Nat.eqb_spec a b); subst
            | |- context [upd _ _ _ _] => unfold upd
            end; cbn).

  (** a sink that disposed stays disposed *)
  Lemma sk_disp_call m cl s : sk m s = SDisposed -> sk (mon_call_upd m cl) s = SDisposed.
  Proof.
    intros H. destruct cl as [i|i [|e|]|s' [|v|e|]]; brk; auto; congruence.
  Qed.

  Lemma sk_disp_event m ev s : sk m s = SDisposed -> sk (mon_event p m ev) s = SDisposed.
  Proof.
    intros H. destruct ev as [i|cl| | |ob|].
    - destruct i as [s' [|aux]|s' [|e|]|i [|v|e|]|s']; brk; auto.
    - cbn [mon_event]. rewrite sk_add_viols. now apply sk_disp_call.
    - exact H.
    - cbn [mon_event]. destruct (cstack m); [now rewrite sk_add_viols | exact H].
    - destruct ob as [r|v|s' [|]|s']; exact H.
    - exact H.
  Qed.

  (** an upstream that was subscribed never becomes unsubscribed again *)
  Lemma us_subd_call m cl i : us m i <> UNone -> us (mon_call_upd m cl) i <> UNone.
  Proof.
    intros H. destruct cl as [j|j [|e|]|s' [|v|e|]]; brk; auto; discriminate.
  Qed.

  Lemma us_subd_event m ev i : us m i <> UNone -> us (mon_event p m ev) i <> UNone.
  Proof.
    intros H. destruct ev as [inp|cl| | |ob|].
    - destruct inp as [s' [|aux]|s' [|e|]|j [|v|e|]|s']; brk; auto; discriminate.
    - cbn [mon_event]. rewrite us_add_viols. now apply us_subd_call.
    - exact H.
    - cbn [mon_event]. destruct (cstack m); [now rewrite us_add_viols | exact H].
    - destruct ob as [r|v|s' [|]|s']; exact H.
    - exact H.
  Qed.

  (** only the subscription of sink [s] sets [subd s] *)
  Lemma subd_call m cl : subd (mon_call_upd m cl) = subd m.
  Proof. destruct cl as [j|j [|e|]|s' [|v|e|]]; brk; auto. Qed.

  Lemma subd_event m ev s : (forall i, ev <> EIn i) -> subd (mon_event p m ev) s = subd m s.
  Proof.
    intros H. destruct ev as [inp|cl| | |ob|].
    - exfalso. apply (H inp). reflexivity.
    - cbn [mon_event]. rewrite subd_add_viols. cbn. now rewrite subd_call.
    - reflexivity.
    - cbn [mon_event]. destruct (cstack m); [now rewrite subd_add_viols | reflexivity].
    - destruct ob as [r|v|s' [|]|s']; reflexivity.
    - reflexivity.
  Qed.

  Lemma subd_input m inp s :
    (forall aux, inp <> ISub s aux) -> subd (mon_input p m inp) s = subd m s.
  Proof.
    intros H. destruct inp as [s' [|aux]|s' [|e|]|j [|v|e|]|s']; brk; auto;
      exfalso; eapply H; reflexivity.
  Qed.

  Lemma step_disposed (o : op) (c : cfg o) m s :
    sk (ms c) s = SDisposed -> sk (ms (step p c m)) s = SDisposed.
  Proof.
    apply (@step_pres (fun mm => sk mm s = SDisposed)).
    - intros mm ev _. apply sk_disp_event.
    - intros mm i _. apply (@sk_disp_event mm (EIn i)).
  Qed.

  Lemma step_us_subd (o : op) (c : cfg o) m i :
    us (ms c) i <> UNone -> us (ms (step p c m)) i <> UNone.
  Proof.
    apply (@step_pres (fun mm => us mm i <> UNone)).
    - intros mm ev _. apply us_subd_event.
    - intros mm j _. apply (@us_subd_event mm (EIn j)).
  Qed.

  Lemma step_subd (o : op) (c : cfg o) m s :
    (forall aux, m <> MIn (ISub s aux)) -> subd (ms (step p c m)) s = subd (ms c) s.
  Proof.
    intros Hm. apply (@step_pres (fun mm => subd mm s = subd (ms c) s)).
    - intros mm ev Hev E. now rewrite subd_event.
    - intros mm i -> E. rewrite subd_input; [exact E|]. intros aux ->. now apply (Hm aux).
    - reflexivity.
  Qed.

  (** the first event of a stop sent by the sink *)
  Lemma settle_stop_disposed (o : op) m s u os (a : act (Fr o)) :
    u <> UP -> sk (ms_settle p o (mon_input p m (IUp s u)) os a) s = SDisposed.
  Proof.
    intros Hu. apply (@settle_pres (fun mm => sk mm s = SDisposed)).
    - intros mm ev _. apply sk_disp_event.
    - destruct u as [|e|]; [congruence| |]; cbn; unfold upd; now rewrite Nat.eqb_refl.
  Qed.

  (** the end of the source, passed on to the sink *)
  Lemma us_call_dn m s d i : us (mon_call_upd m (CDn s d)) i = us m i.
  Proof.
    destruct d; cbn;
      repeat match goal with |- context [match ?x with _ => _ end] => destruct x end; reflexivity.
  Qed.

  Lemma settle_src_end (o : op) m d d' (k : Fr o) :
    (d = DT \/ exists e, d = DE e) ->
    us (ms_settle p o (mon_input p m (IDn 0 d)) [] (ACall (CDn 0 d') k)) 0 = UEnded.
  Proof.
    intros Hd. unfold ms_settle. cbn [map fold_left]. unfold mon_event at 1.
    rewrite us_add_viols. unfold set_cstack. cbn [us set]. rewrite us_call_dn.
    destruct Hd as [-> | [e ->]]; cbn; unfold upd; reflexivity.
  Qed.

  (** the subscription of the upstream *)
  Lemma settle_sub_subd (o : op) m inp (k : Fr o) i :
    us (ms_settle p o (mon_input p m inp) [] (ACall (CSub i) k)) i = USubd.
  Proof.
    unfold ms_settle. cbn [map fold_left mon_event]. rewrite us_add_viols. cbn.
    unfold upd. now rewrite Nat.eqb_refl.
  Qed.
End MonitorMonotone.

Section TakeFlow.
  Variable max : nat.
  Hypothesis Hmax : 1 <= max.
  Variable p : mparams.
  Hypothesis Hns : nsinks p = 1.
  Hypothesis Hresub : resub p = false.
  Hypothesis Hnonest : no_nest p = false.
  Hypothesis Hc14 : c14 p = false.
  Local Notation o := (take_op max).

  (** the counts, and the two facts about the monitor state that [Inv] does not have *)
  Record FInv (c : cfg o) : Prop := {
    f_le : pout (trace c) + dout (trace c) <= pin (trace c) + din (trace c);
    (* nothing was swallowed or dropped while the quota is not full *)
    f_eq : tk_taken (cst c) < max ->
           pout (trace c) + dout (trace c) = pin (trace c) + din (trace c);
    f_greet : hout (trace c) <= hin (trace c);
    (* [tk_end] is set by a stop of the sink, by the n-th delivery, or by the end of the source *)
    f_full : tk_end (cst c) = true ->
             tk_taken (cst c) = max \/ sk (ms c) 0 = SDisposed \/ us (ms c) 0 = UEnded;
    f_subd : subd (ms c) 0 = true -> us (ms c) 0 <> UNone;
  }.

  (** the frame of the n-th delivery is only on the stack when the quota is full, as long as
      nobody has ended the stream *)
  Lemma phase_nth k u st cl rest :
    phase max k u st ((TkAfterData max, cl) :: rest) -> tk_end st = false -> tk_taken st = max.
  Proof.
    intros Hph Hend.
    assert (Hlow : low max ((TkAfterData max, cl) :: rest) -> False).
    { intros Hl. apply low_inv in Hl. destruct Hl as [Hl _]. unfold fr_low in Hl. cbn in Hl.
      now apply Hl. }
    destruct k, u; cbn in Hph; try (exfalso; tauto).
    - destruct Hph as (_ & _ & [[_ Hl] | [E _]]); [tauto | exact E].
    - destruct Hph as (E & _). congruence.
    - destruct Hph as (E & _). congruence.
    - destruct Hph as (E & _). congruence.
  Qed.

  Ltac inj Hh s' os a := injection Hh as ? ? ?; subst s' os a.
  Ltac split_ifs Hh :=
    repeat match type of Hh with
           | context [if ?b then _ else _] => destruct b eqn:?
           end.

  Ltac counts Htr :=
    rewrite Htr, ?pin_step, ?pout_step, ?din_step, ?dout_step, ?hin_step, ?hout_step;
    repeat match goal with
           | H : ?X = pin (trace ?c) |- context [pin (trace ?c)] => rewrite <- H
           | H : ?X = pout (trace ?c) |- context [pout (trace ?c)] => rewrite <- H
           | H : ?X = din (trace ?c) |- context [din (trace ?c)] => rewrite <- H
           | H : ?X = dout (trace ?c) |- context [dout (trace ?c)] => rewrite <- H
           | H : ?X = hin (trace ?c) |- context [hin (trace ?c)] => rewrite <- H
           | H : ?X = hout (trace ?c) |- context [hout (trace ?c)] => rewrite <- H
           end; cbn.

  (** the three reasons for [tk_end] carry over a step: the quota stays full, a sink that disposed stays
      disposed, and after the end of the source only do-nothing returns are enabled
      ([take_after_source_end_quiet]) *)
  Ltac full3 Ifull Hend Hq Hue :=
    let E := fresh "E" in
    destruct (Ifull Hend) as [E|[E|E]];
    [ now left
    | right; left; auto
    | first [ exfalso; destruct (Hq E) as [Hmv _]; discriminate
            | right; right; exact (Hue E) ] ].

  Theorem finv_reach (c : cfg o) : reach p g_std c -> FInv c.
  Proof.
    induction 1 as [|c m Hr IH He].
    { constructor; cbn; auto; intros; discriminate. }
    pose proof (inv_reach Hmax Hns Hresub Hnonest Hc14 Hr) as HI.
    pose proof (inv_reach Hmax Hns Hresub Hnonest Hc14 (reachS m Hr He)) as HI'.
    pose proof (enabled_live _ _ _ _ He) as Hlive.
    pose proof (@step_disposed p o c m 0) as Hdisp.
    pose proof (@step_us_subd p o c m 0) as Hus.
    pose proof (@step_subd p o c m 0) as Hsubd.
    pose proof (i_dead HI') as Hd'.
    destruct IH as [Ile Ieq Igr Ifull Isubd].
    pose proof (fun E => take_after_source_end_quiet Hns Hresub Hnonest Hc14 Hmax m Hr E He) as Hq.
    assert (Hue : us (ms c) 0 = UEnded -> us (ms (step p c m)) 0 = UEnded).
    { intros E. destruct (Hq E) as [-> (k0 & cl0 & rest0 & Hst0 & Hres0)].
      destruct (step_ret p c Hlive Hst0 (Hres0 (cst c))) as (_ & _ & Hm0 & _).
      rewrite Hm0. unfold ms_settle. cbn.
      destruct (tl (cstack (ms c))); cbn; rewrite ?us_add_viols; exact E. }
    remember (pin (trace c)) as Pi eqn:EPi. remember (pout (trace c)) as Po eqn:EPo.
    remember (din (trace c)) as Di eqn:EDi. remember (dout (trace c)) as Do eqn:EDo.
    remember (hin (trace c)) as Gi eqn:EGi. remember (hout (trace c)) as Go eqn:EGo.
    destruct m as [inp|].
    - pose proof (enabled_deliverable _ _ _ _ He) as Hdel.
      destruct (handle o inp (cst c)) as [[s' os] a] eqn:Hh.
      pose proof (step_in_trace p c inp Hlive Hdel Hh) as Htr.
      destruct (step_in p c inp Hlive Hdel Hh) as (Hc & _ & Hm & Hd).
      pose proof (eq_trans (eq_sym Hd) Hd') as Hdd. clear Hd.
      destruct inp as [[|s] aux|[|s] u|[|i] d|s].
      + (* the subscription *)
        cbn in Hh. inj Hh s' os a.
        assert (Ht0 : tk_taken (cst c) = 0).
        { start_in He Hlive' Hdel' Hg. cbn in He.
          apply andb_prop in He. destruct He as [_ He]. apply negb_true_iff in He.
          pose proof (i_phase HI) as Hph. rewrite (i_subd HI He) in Hph.
          destruct (sk (ms c) 0); cbn in Hph; try tauto. }
        constructor.
        * counts Htr. lia.
        * rewrite Hc. cbn. intros _. counts Htr. lia.
        * counts Htr. lia.
        * rewrite Hc. cbn. discriminate.
        * intros _. rewrite Hm, settle_sub_subd. discriminate.
      + cbn in Hh. inj Hh s' os a.
        constructor.
        * counts Htr. lia.
        * rewrite Hc. intros Hlt. counts Htr. lia.
        * counts Htr. lia.
        * rewrite Hc. intros Hend. full3 Ifull Hend Hq Hue.
        * rewrite Hsubd by (intros aux'; discriminate). auto.
      + destruct u as [|e|]; cbn -[Nat.ltb] in Hh; split_ifs Hh; inj Hh s' os a;
          try discriminate.
        * (* Pull passed on *)
          constructor.
          -- counts Htr. lia.
          -- rewrite Hc. intros Hlt. counts Htr. lia.
          -- counts Htr. lia.
          -- rewrite Hc. intros Hend. full3 Ifull Hend Hq Hue.
          -- rewrite Hsubd by (intros aux'; discriminate). auto.
        * (* Pull swallowed: the quota is full *)
          match goal with H : (_ <? _) = false |- _ => apply Nat.ltb_ge in H end.
          constructor.
          -- counts Htr. lia.
          -- rewrite Hc. intros Hlt. exfalso. lia.
          -- counts Htr. lia.
          -- rewrite Hc. intros Hend. full3 Ifull Hend Hq Hue.
          -- rewrite Hsubd by (intros aux'; discriminate). auto.
        * (* Error from the sink *)
          constructor.
          -- counts Htr. lia.
          -- rewrite Hc. cbn. intros Hlt. counts Htr. lia.
          -- counts Htr. lia.
          -- intros _. right. left. rewrite Hm. apply settle_stop_disposed. discriminate.
          -- rewrite Hsubd by (intros aux'; discriminate). auto.
        * (* Terminate from the sink *)
          constructor.
          -- counts Htr. lia.
          -- rewrite Hc. cbn. intros Hlt. counts Htr. lia.
          -- counts Htr. lia.
          -- intros _. right. left. rewrite Hm. apply settle_stop_disposed. discriminate.
          -- rewrite Hsubd by (intros aux'; discriminate). auto.
      + cbn in Hh. inj Hh s' os a.
        constructor.
        * counts Htr. lia.
        * rewrite Hc. intros Hlt. counts Htr. lia.
        * counts Htr. lia.
        * rewrite Hc. intros Hend. full3 Ifull Hend Hq Hue.
        * rewrite Hsubd by (intros aux'; discriminate). auto.
      + destruct d as [|v|e|]; cbn -[Nat.ltb] in Hh; split_ifs Hh; inj Hh s' os a.
        * (* greeting *)
          constructor.
          -- counts Htr. lia.
          -- rewrite Hc. cbn. intros Hlt. counts Htr. lia.
          -- counts Htr. lia.
          -- rewrite Hc. cbn. intros Hend.
             full3 Ifull Hend Hq Hue.
          -- rewrite Hsubd by (intros aux'; discriminate). auto.
        * (* datum passed on *)
          match goal with H : (_ <? _) = true |- _ => apply Nat.ltb_lt in H end.
          constructor.
          -- counts Htr. lia.
          -- rewrite Hc. cbn. intros Hlt. counts Htr. lia.
          -- counts Htr. lia.
          -- rewrite Hc. cbn. intros Hend.
             destruct (Ifull Hend) as [E|[E|E]]; [exfalso; lia | right; left; auto | exfalso; destruct (Hq E) as [Hmv _]; discriminate].
          -- rewrite Hsubd by (intros aux'; discriminate). auto.
        * (* datum dropped: the quota is full *)
          match goal with H : (_ <? _) = false |- _ => apply Nat.ltb_ge in H end.
          constructor.
          -- counts Htr. lia.
          -- rewrite Hc. intros Hlt. exfalso. lia.
          -- counts Htr. lia.
          -- rewrite Hc. intros Hend. full3 Ifull Hend Hq Hue.
          -- rewrite Hsubd by (intros aux'; discriminate). auto.
        * (* Error of the source after the end was claimed: dropped *)
          constructor.
          -- counts Htr. lia.
          -- rewrite Hc. intros Hlt. counts Htr. lia.
          -- counts Htr. lia.
          -- rewrite Hc. intros _.
             destruct (Ifull eq_refl) as [E|[E|E]];
               [now left | right; left; auto | exfalso; destruct (Hq E) as [Hmv _]; discriminate].
          -- rewrite Hsubd by (intros aux'; discriminate). auto.
        * (* Error of the source: the end is claimed and passed on *)
          constructor.
          -- counts Htr. lia.
          -- rewrite Hc. cbn. intros Hlt. counts Htr. lia.
          -- counts Htr. lia.
          -- intros _. right. right. rewrite Hm. apply settle_src_end. right; eauto.
          -- rewrite Hsubd by (intros aux'; discriminate). auto.
        * (* Terminate of the source after the end was claimed: dropped *)
          constructor.
          -- counts Htr. lia.
          -- rewrite Hc. intros Hlt. counts Htr. lia.
          -- counts Htr. lia.
          -- rewrite Hc. intros _.
             destruct (Ifull eq_refl) as [E|[E|E]];
               [now left | right; left; auto | exfalso; destruct (Hq E) as [Hmv _]; discriminate].
          -- rewrite Hsubd by (intros aux'; discriminate). auto.
        * (* Terminate of the source: the end is claimed and passed on *)
          constructor.
          -- counts Htr. lia.
          -- rewrite Hc. cbn. intros Hlt. counts Htr. lia.
          -- counts Htr. lia.
          -- intros _. right. right. rewrite Hm. apply settle_src_end. now left.
          -- rewrite Hsubd by (intros aux'; discriminate). auto.
      + cbn in Hh. destruct d; inj Hh s' os a.
        all: constructor;
          [ counts Htr; lia
          | rewrite Hc; intros Hlt; counts Htr; lia
          | counts Htr; lia
          | rewrite Hc; intros Hend; full3 Ifull Hend Hq Hue
          | rewrite Hsubd by (intros aux'; discriminate); auto ].
      + cbn in Hh. inj Hh s' os a.
        constructor;
          [ counts Htr; lia
          | rewrite Hc; intros Hlt; counts Htr; lia
          | counts Htr; lia
          | rewrite Hc; intros Hend; full3 Ifull Hend Hq Hue
          | rewrite Hsubd by (intros aux'; discriminate); auto ].
    - destruct (enabled_ret_stack _ _ _ He) as (k & cl & rest & Hst).
      destruct (resume o k (cst c)) as [[s' os] a] eqn:Hres.
      pose proof (step_ret_trace p c Hlive Hst Hres) as Htr.
      destruct (step_ret p c Hlive Hst Hres) as (Hc & _ & Hm & Hd).
      pose proof (eq_trans (eq_sym Hd) Hd') as Hdd. clear Hd.
      destruct k as [|t|]; cbn in Hres; split_ifs Hres; inj Hres s' os a; try discriminate.
      + constructor;
          [ counts Htr; lia
          | rewrite Hc; intros Hlt; counts Htr; lia
          | counts Htr; lia
          | rewrite Hc; intros Hend; full3 Ifull Hend Hq Hue
          | rewrite Hsubd by (intros aux'; discriminate); auto ].
      + (* the n-th delivery returned: take stops the upstream *)
        match goal with H : (_ && _) = true |- _ => apply andb_prop in H; destruct H as [Et Een] end.
        apply Nat.eqb_eq in Et. subst t. apply negb_true_iff in Een.
        pose proof (i_phase HI) as Hph. rewrite Hst in Hph.
        pose proof (@phase_nth _ _ _ _ _ Hph Een) as Hfull.
        constructor.
        * counts Htr. lia.
        * rewrite Hc. cbn. intros Hlt. counts Htr. lia.
        * counts Htr. lia.
        * rewrite Hc. cbn. intros _. now left.
        * rewrite Hsubd by (intros aux'; discriminate). auto.
      + constructor;
          [ counts Htr; lia
          | rewrite Hc; intros Hlt; counts Htr; lia
          | counts Htr; lia
          | rewrite Hc; intros Hend; full3 Ifull Hend Hq Hue
          | rewrite Hsubd by (intros aux'; discriminate); auto ].
      + constructor;
          [ counts Htr; lia
          | rewrite Hc; intros Hlt; counts Htr; lia
          | counts Htr; lia
          | rewrite Hc; intros Hend; full3 Ifull Hend Hq Hue
          | rewrite Hsubd by (intros aux'; discriminate); auto ].
  Qed.

  (** the data delivered so far are counted by [tk_taken] *)
  Lemma dout_taken (c : cfg o) : reach p g_std c -> dout (trace c) = tk_taken (cst c).
  Proof.
    intros Hr. destruct (tinv_reach Hmax Hns Hresub Hnonest Hc14 Hr) as [Hlen Hout].
    now rewrite dout_data_out, Hout, firstn_length, Hlen.
  Qed.

  (** at rest with the sink live the quota is not full and the upstream is live *)
  Lemma rest_live (c : cfg o) :
    reach p g_std c -> stack c = [] -> sk (ms c) 0 = SLive ->
    us (ms c) 0 = ULive /\ tk_taken (cst c) < max.
  Proof.
    intros Hr Hst Hsk.
    pose proof (i_phase (inv_reach Hmax Hns Hresub Hnonest Hc14 Hr)) as Hph.
    rewrite Hst, Hsk in Hph.
    destruct (us (ms c) 0); cbn in Hph; try tauto.
    - destruct Hph as (_ & _ & [[Hlt _] | [_ (v & rest & Hnil & _)]]); [auto | discriminate].
    - destruct Hph as (_ & rest & Hnil & _). discriminate.
  Qed.

  Lemma take_calls : calls_sat port0 o.
  Proof.
    split.
    - intros i s s' os cl k Hh.
      destruct i as [[|j] aux|[|j] [|e|]|[|j] [|v|e|]|j]; cbn -[Nat.ltb] in Hh;
        split_ifs Hh; inversion Hh; subst; unfold port0; eauto.
    - intros fr s s' os cl k Hh.
      destruct fr as [|t|]; cbn in Hh; split_ifs Hh; inversion Hh; subst; unfold port0; eauto.
  Qed.

  Theorem take_stage_flow_sec : stage_flow o p (Some max).
  Proof.
    constructor.
    - intros c Hr. apply (f_le (finv_reach Hr)).
    - intros c Hr Hst Hsk. apply (f_eq (finv_reach Hr)). now apply rest_live.
    - intros c Hr. apply (f_greet (finv_reach Hr)).
    - intros c Hr Hst Hsb Hsk.
      pose proof (i_phase (inv_reach Hmax Hns Hresub Hnonest Hc14 Hr)) as Hph.
      pose proof (f_subd (finv_reach Hr) Hsb) as Hne.
      rewrite Hsk in Hph. destruct (us (ms c) 0); cbn in Hph; tauto.
    - intros c Hr Hst Hsk. now apply rest_live.
    - intros c Hr Hst Hsk.
      pose proof (i_phase (inv_reach Hmax Hns Hresub Hnonest Hc14 Hr)) as Hph.
      rewrite Hsk in Hph. destruct (us (ms c) 0) eqn:Eus; cbn in Hph; try tauto.
      right. exists max. split; [reflexivity|].
      destruct Hph as (Hend & _).
      destruct (f_full (finv_reach Hr) Hend) as [E|[E|E]]; [|congruence|congruence].
      now rewrite dout_taken.
    - exact take_calls.
  Qed.

End TakeFlow.

Theorem take_stage_flow (n : nat) p :
  nsinks p = 1 -> resub p = false -> no_nest p = false -> c14 p = false -> 1 <= n ->
  stage_flow (take_op n) p (Some n).
Proof. intros H1 H2 H3 H4 Hn. exact (@take_stage_flow_sec n Hn p H1 H2 H3 H4). Qed.
Print Assumptions take_stage_flow.
