(** * Inv_relay_pull: property C14 (demand conservation) for the pass-through
      operators map, filter, scan, skip in the pull regime.

    The counting invariant is the same for the four operators: before the
    greeting nothing is counted; while sink 0 and upstream 0 are live

      owed 0 + ndata 0 = npull 0      (every Pull is answered or owed upstream)
      credit 0 + owed 0 = 1           (the single credit is with the sink or upstream)

    filter and skip answer a dropped item with a Pull of their own: the item
    takes [owed] from 1 to 0 and the re-request takes it back to 1, so the two
    equations are unaffected and the dropped items need not be counted. *)
From CB Require Import ProofLib Spec.

Set Implicit Arguments.

(** decide the comparisons the C14 checks make, from the arithmetic facts in
    the context *)
Ltac solve_cmp :=
  repeat match goal with
         | |- context [?a <=? ?b] =>
             first [ rewrite (proj2 (Nat.leb_gt a b)) by lia
                   | rewrite (proj2 (Nat.leb_le a b)) by lia ]
         | |- context [?a <? ?b] =>
             first [ rewrite (proj2 (Nat.ltb_ge a b)) by lia
                   | rewrite (proj2 (Nat.ltb_lt a b)) by lia ]
         end.

(** rewrite with the known values of the demand counters *)
Ltac rw_cnt :=
  repeat match goal with
         | H : owed ?m 0 = _ |- context [owed ?m 0] => rewrite H
         | H : credit ?m 0 = _ |- context [credit ?m 0] => rewrite H
         end.

Ltac finp Hc Hm Hs Hd :=
  constructor; rewrite ?Hc, ?Hm, ?Hs, ?Hd; try clear Hc;
  cbn -[Nat.ltb Nat.leb add_viols]; rewrite ?add_viols_eq; cbn -[Nat.ltb Nat.leb];
  unfold due_on_error;
  repeat (rw_st; rw_cnt; solve_cmp; cbn -[Nat.ltb Nat.leb]; rewrite ?Nat.eqb_refl;
          cbn -[Nat.ltb Nat.leb]);
  cbn; crush.

(** use the invariant's implications whose premise became trivial, drop those
    whose premise became absurd *)
Ltac spec_refl :=
  repeat match goal with
         | H : ?x = ?x -> _ |- _ => specialize (H eq_refl)
         | H : SNone = SLive -> _ |- _ => clear H
         | H : SLive = SNone -> _ |- _ => clear H
         | H : SDisposed = _ -> _ |- _ => clear H
         | H : SFinished = _ -> _ |- _ => clear H
         end.

(** ** map *)
Section MapPull.
  Variable f : val -> val.
  Variable p : mparams.
  Hypothesis Hns : nsinks p = 1.
  Hypothesis Hresub : resub p = false.
  Hypothesis Hnonest : no_nest p = false.
  Hypothesis Hc14 : c14 p = true.
  Hypothesis Hpullable : pullable p = true.
  Hypothesis Hone : one_pull p = true.
  Let o := map_op f.
  Notation gd := g_std.

  Record InvM (c : cfg o) : Prop := {
    m_viols : viols (ms c) = [];
    m_dead : dead c = false;
    m_pair : paired (sk (ms c) 0) (us (ms c) 0);
    m_subd : subd (ms c) 0 = false -> us (ms c) 0 = UNone;
    m_due : forall s, err_due (ms c) s = None;
    m_ports : forall i, In i (ports (ms c)) -> i = 0;
    m_inport : us (ms c) 0 <> UNone -> In 0 (ports (ms c));
    m_sk_other : forall s, s <> 0 -> sk (ms c) s = SNone;
    m_us_other : forall i, i <> 0 -> us (ms c) i = UNone;
    m_task : forall s, task (ms c) s = false;
    (* nothing is counted before the greeting *)
    m_zero : sk (ms c) 0 = SNone ->
             credit (ms c) 0 = 0 /\ owed (ms c) 0 = 0 /\ npull (ms c) 0 = 0 /\ ndata (ms c) 0 = 0;
    (* while live: every Pull is either answered or owed by the upstream, and
       the sink's one credit is either with the sink or travelling upstream *)
    m_cnt : sk (ms c) 0 = SLive ->
            owed (ms c) 0 + ndata (ms c) 0 = npull (ms c) 0 /\
            credit (ms c) 0 + owed (ms c) 0 = 1;
  }.

  Lemma minv0 : InvM (cfg0 o).
  Proof.
    constructor; cbn; auto; try constructor; intros; try tauto; try discriminate.
  Qed.

  Lemma minv_sub c s aux : InvM c -> enabled p gd c (MIn (ISub s aux)) = true ->
                           InvM (step p c (MIn (ISub s aux))).
  Proof.
    intros [] He. start_in He Hlive Hdel Hg.
    cbn in He, Hg. rewrite Hns in He. destruct aux; [|discriminate].
    destruct (at_top c) eqn:Htop; cbn in He; try discriminate.
    destruct s; cbn in He; try discriminate.
    apply negb_true_iff in He. specialize (m_subd0 He).
    cases_pair c Esk Eus; try congruence. spec_refl.
    destruct (step_in p c (ISub 0 0) Hlive Hdel eq_refl) as (Hc & Hs & Hm & Hd).
    finp Hc Hm Hs Hd.
  Qed.

  Lemma minv_up c s u : InvM c -> enabled p gd c (MIn (IUp s u)) = true ->
                        InvM (step p c (MIn (IUp s u))).
  Proof.
    intros [] He. start_in He Hlive Hdel Hg.
    cbn -[Nat.ltb] in He. apply andb_prop in He. destruct He as [He Hu].
    apply andb_prop in He. destruct He as [Htop Hsk].
    destruct s as [|s]; [|rewrite m_sk_other0 in Hsk by lia; discriminate].
    cases_pair c Esk Eus; try discriminate. spec_refl.
    destruct m_cnt0 as [Hn Hco].
    assert (Hp0 : In 0 (ports (ms c))) by (apply m_inport0; discriminate).
    pose proof (eq_refl : handle o (IUp 0 u) (cst c) = (cst c, [], ACall (CUp 0 u) FDone)) as Hh.
    destruct (step_in p c (IUp 0 u) Hlive Hdel Hh) as (Hc & Hs & Hm & Hd).
    destruct u as [|e|].
    - (* Pull: the sink holds the credit, so nothing is owed upstream *)
      rewrite Hone in Hu. cbn -[Nat.ltb] in Hu. apply Nat.ltb_lt in Hu.
      assert (Hcr : credit (ms c) 0 = 1) by lia.
      assert (How : owed (ms c) 0 = 0) by lia.
      finp Hc Hm Hs Hd.
    - finp Hc Hm Hs Hd.
    - finp Hc Hm Hs Hd.
  Qed.

  Lemma minv_dn c i d : InvM c -> enabled p gd c (MIn (IDn i d)) = true ->
                        InvM (step p c (MIn (IDn i d))).
  Proof.
    intros [] He. start_in He Hlive Hdel Hg.
    cbn -[Nat.ltb] in He. apply andb_prop in He. destruct He as [Htop He].
    destruct i as [|i].
    2: { rewrite m_us_other0 in He by lia. destruct d; cbn in He; discriminate. }
    cases_pair c Esk Eus; destruct d as [|v|e|]; cbn -[Nat.ltb] in He; try discriminate.
    all: spec_refl.
    all: assert (Hp0 : In 0 (ports (ms c))) by (apply m_inport0; discriminate).
    2: { (* Data: the upstream answers the one Pull it owes *)
      destruct m_cnt0 as [Hn Hco]. rewrite Hpullable in He. cbn -[Nat.ltb] in He.
      apply Nat.ltb_lt in He.
      assert (Hcr : credit (ms c) 0 = 0) by lia.
      assert (How : owed (ms c) 0 = 1) by lia.
      destruct (step_in p c (IDn 0 (DD v)) Hlive Hdel eq_refl) as (Hc & Hs & Hm & Hd).
      finp Hc Hm Hs Hd. }
    all: destruct (step_in p c (IDn 0 _) Hlive Hdel eq_refl) as (Hc & Hs & Hm & Hd).
    - (* greeting *)
      destruct m_zero0 as (Hcr & How & Hnp & Hnd).
      finp Hc Hm Hs Hd.
    - destruct m_cnt0 as [Hn Hco]. finp Hc Hm Hs Hd.
    - destruct m_cnt0 as [Hn Hco]. finp Hc Hm Hs Hd.
  Qed.

  Lemma minv_ret c : InvM c -> enabled p gd c MRet = true -> InvM (step p c MRet).
  Proof.
    intros [] He.
    pose proof (enabled_live _ _ _ _ He) as Hlive.
    destruct (enabled_ret_stack _ _ _ He) as (k & cl & rest & Hst).
    destruct (step_ret p c Hlive Hst eq_refl) as (Hc & Hs & Hm & Hd).
    assert (Hq : forall m', sk m' = sk (ms c) -> us m' = us (ms c) -> ports m' = ports (ms c) ->
                            err_due m' = err_due (ms c) -> owed m' = owed (ms c) ->
                            npull m' = npull (ms c) -> ndata m' = ndata (ms c) ->
                            check_quiescent p m' = []).
    { intros m' E1 E2 E3 E4 E5 E6 E7. apply quiescent_nil.
      - intros _ Hov i Hi. rewrite E3 in Hi. rewrite (m_ports0 i Hi), E2.
        rewrite E1 in Hov. inversion m_pair0 as [A B|A B|A B|A B|A B];
          rewrite <- A in Hov; try discriminate; reflexivity.
      - intros s. now rewrite E4.
      - (* VUnanswered: live and nothing owed, so every Pull was answered *)
        intros _ Hl Hall. rewrite E1 in Hl. destruct (m_cnt0 Hl) as [Hn Hco].
        assert (Hin : In 0 (ports m')).
        { rewrite E3. apply m_inport0. inversion m_pair0; congruence. }
        specialize (Hall 0 Hin). rewrite E5 in Hall. rewrite E6, E7. lia. }
    constructor; rewrite ?Hc, ?Hm, ?Hs, ?Hd; cbn;
      destruct (tl (cstack (ms c))); rewrite ?add_viols_eq; cbn; rewrite ?Hq; auto.
  Qed.

  Lemma minv_step c m : InvM c -> enabled p gd c m = true -> InvM (step p c m).
  Proof.
    intros HI He. destruct m as [[s aux|s u|i d|s]|].
    - now apply minv_sub.
    - now apply minv_up.
    - now apply minv_dn.
    - exfalso. destruct HI. unfold enabled in He.
      repeat (apply andb_prop in He; destruct He as [? He]).
      cbn in He. now rewrite m_task0 in He.
    - now apply minv_ret.
  Qed.

  Theorem minv_reach c : reach p gd c -> InvM c.
  Proof. induction 1; [apply minv0 | now apply minv_step]. Qed.
End MapPull.

(** C14 for map: no over-pull, no unrequested data, no unanswered pull (and
    none of the C01-C05, C17 violations either) in the pull regime *)
Theorem map_safe_pull (f : val -> val) p :
  nsinks p = 1 -> resub p = false -> no_nest p = false ->
  c14 p = true -> pullable p = true -> one_pull p = true ->
  forall c : cfg (map_op f), reach p g_std c -> viols (ms c) = [] /\ dead c = false.
Proof.
  intros H1 H2 H3 H4 H5 H6 c Hr. destruct (minv_reach H1 H2 H3 H4 H5 H6 Hr). split; assumption.
Qed.
Print Assumptions map_safe_pull.

(** ** filter *)
Section FilterPull.
  Variable cond : val -> bool.
  Variable p : mparams.
  Hypothesis Hns : nsinks p = 1.
  Hypothesis Hresub : resub p = false.
  Hypothesis Hnonest : no_nest p = false.
  Hypothesis Hc14 : c14 p = true.
  Hypothesis Hpullable : pullable p = true.
  Hypothesis Hone : one_pull p = true.
  Let o := filter_op cond.
  Notation gd := g_std.

  Record InvF (c : cfg o) : Prop := {
    f_viols : viols (ms c) = [];
    f_dead : dead c = false;
    f_pair : paired (sk (ms c) 0) (us (ms c) 0);
    f_subd : subd (ms c) 0 = false -> us (ms c) 0 = UNone;
    f_due : forall s, err_due (ms c) s = None;
    f_ports : forall i, In i (ports (ms c)) -> i = 0;
    f_inport : us (ms c) 0 <> UNone -> In 0 (ports (ms c));
    f_sk_other : forall s, s <> 0 -> sk (ms c) s = SNone;
    f_us_other : forall i, i <> 0 -> us (ms c) i = UNone;
    f_task : forall s, task (ms c) s = false;
    (* nothing is counted before the greeting *)
    f_zero : sk (ms c) 0 = SNone ->
             credit (ms c) 0 = 0 /\ owed (ms c) 0 = 0 /\ npull (ms c) 0 = 0 /\ ndata (ms c) 0 = 0;
    (* while live: every Pull is either answered or owed by the upstream, and
       the sink's one credit is either with the sink or travelling upstream *)
    f_cnt : sk (ms c) 0 = SLive ->
            owed (ms c) 0 + ndata (ms c) 0 = npull (ms c) 0 /\
            credit (ms c) 0 + owed (ms c) 0 = 1;
    (* the talkback cell is set as soon as the upstream has greeted *)
    f_tb : us (ms c) 0 = ULive -> cst c = true;
  }.

  Lemma finv0 : InvF (cfg0 o).
  Proof.
    constructor; cbn; auto; try constructor; intros; try tauto; try discriminate.
  Qed.

  Lemma finv_sub c s aux : InvF c -> enabled p gd c (MIn (ISub s aux)) = true ->
                           InvF (step p c (MIn (ISub s aux))).
  Proof.
    intros [] He. start_in He Hlive Hdel Hg.
    cbn in He, Hg. rewrite Hns in He. destruct aux; [|discriminate].
    destruct (at_top c) eqn:Htop; cbn in He; try discriminate.
    destruct s; cbn in He; try discriminate.
    apply negb_true_iff in He. specialize (f_subd0 He).
    cases_pair c Esk Eus; try congruence. spec_refl.
    destruct (step_in p c (ISub 0 0) Hlive Hdel eq_refl) as (Hc & Hs & Hm & Hd).
    finp Hc Hm Hs Hd.
  Qed.

  Lemma finv_up c s u : InvF c -> enabled p gd c (MIn (IUp s u)) = true ->
                        InvF (step p c (MIn (IUp s u))).
  Proof.
    intros [] He. start_in He Hlive Hdel Hg.
    cbn -[Nat.ltb] in He. apply andb_prop in He. destruct He as [He Hu].
    apply andb_prop in He. destruct He as [Htop Hsk].
    destruct s as [|s]; [|rewrite f_sk_other0 in Hsk by lia; discriminate].
    cases_pair c Esk Eus; try discriminate. spec_refl.
    destruct f_cnt0 as [Hn Hco].
    assert (Hp0 : In 0 (ports (ms c))) by (apply f_inport0; discriminate).
    pose proof f_tb0 as Htb.
    assert (Hh : handle o (IUp 0 u) (cst c) = (cst c, [], ACall (CUp 0 u) FDone)).
    { cbn. rewrite Htb. reflexivity. }
    destruct (step_in p c (IUp 0 u) Hlive Hdel Hh) as (Hc & Hs & Hm & Hd).
    destruct u as [|e|].
    - (* Pull: the sink holds the credit, so nothing is owed upstream *)
      rewrite Hone in Hu. cbn -[Nat.ltb] in Hu. apply Nat.ltb_lt in Hu.
      assert (Hcr : credit (ms c) 0 = 1) by lia.
      assert (How : owed (ms c) 0 = 0) by lia.
      finp Hc Hm Hs Hd.
    - finp Hc Hm Hs Hd.
    - finp Hc Hm Hs Hd.
  Qed.

  Lemma finv_dn c i d : InvF c -> enabled p gd c (MIn (IDn i d)) = true ->
                        InvF (step p c (MIn (IDn i d))).
  Proof.
    intros [] He. start_in He Hlive Hdel Hg.
    cbn -[Nat.ltb] in He. apply andb_prop in He. destruct He as [Htop He].
    destruct i as [|i].
    2: { rewrite f_us_other0 in He by lia. destruct d; cbn in He; discriminate. }
    cases_pair c Esk Eus; destruct d as [|v|e|]; cbn -[Nat.ltb] in He; try discriminate.
    all: spec_refl.
    all: assert (Hp0 : In 0 (ports (ms c))) by (apply f_inport0; discriminate).
    2: { (* Data: the upstream answers the one Pull it owes *)
      destruct f_cnt0 as [Hn Hco]. rewrite Hpullable in He. cbn -[Nat.ltb] in He.
      apply Nat.ltb_lt in He.
      assert (Hcr : credit (ms c) 0 = 0) by lia.
      assert (How : owed (ms c) 0 = 1) by lia.
      pose proof f_tb0 as Htb.
      destruct (cond v) eqn:Ecv.
      - assert (Hh : handle o (IDn 0 (DD v)) (cst c) = (cst c, [], ACall (CDn 0 (DD v)) FDone)).
        { cbn. rewrite Ecv. reflexivity. }
        destruct (step_in p c (IDn 0 (DD v)) Hlive Hdel Hh) as (Hc & Hs & Hm & Hd).
        finp Hc Hm Hs Hd.
      - (* dropped: the answer is consumed and a new Pull is owed *)
        assert (Hh : handle o (IDn 0 (DD v)) (cst c) = (cst c, [], ACall (CUp 0 UP) FDone)).
        { cbn. rewrite Ecv, Htb. reflexivity. }
        destruct (step_in p c (IDn 0 (DD v)) Hlive Hdel Hh) as (Hc & Hs & Hm & Hd).
        finp Hc Hm Hs Hd. }
    all: destruct (step_in p c (IDn 0 _) Hlive Hdel eq_refl) as (Hc & Hs & Hm & Hd).
    - (* greeting *)
      destruct f_zero0 as (Hcr & How & Hnp & Hnd).
      finp Hc Hm Hs Hd.
    - destruct f_cnt0 as [Hn Hco]. finp Hc Hm Hs Hd.
    - destruct f_cnt0 as [Hn Hco]. finp Hc Hm Hs Hd.
  Qed.

  Lemma finv_ret c : InvF c -> enabled p gd c MRet = true -> InvF (step p c MRet).
  Proof.
    intros [] He.
    pose proof (enabled_live _ _ _ _ He) as Hlive.
    destruct (enabled_ret_stack _ _ _ He) as (k & cl & rest & Hst).
    destruct (step_ret p c Hlive Hst eq_refl) as (Hc & Hs & Hm & Hd).
    assert (Hq : forall m', sk m' = sk (ms c) -> us m' = us (ms c) -> ports m' = ports (ms c) ->
                            err_due m' = err_due (ms c) -> owed m' = owed (ms c) ->
                            npull m' = npull (ms c) -> ndata m' = ndata (ms c) ->
                            check_quiescent p m' = []).
    { intros m' E1 E2 E3 E4 E5 E6 E7. apply quiescent_nil.
      - intros _ Hov i Hi. rewrite E3 in Hi. rewrite (f_ports0 i Hi), E2.
        rewrite E1 in Hov. inversion f_pair0 as [A B|A B|A B|A B|A B];
          rewrite <- A in Hov; try discriminate; reflexivity.
      - intros s. now rewrite E4.
      - (* VUnanswered: live and nothing owed, so every Pull was answered *)
        intros _ Hl Hall. rewrite E1 in Hl. destruct (f_cnt0 Hl) as [Hn Hco].
        assert (Hin : In 0 (ports m')).
        { rewrite E3. apply f_inport0. inversion f_pair0; congruence. }
        specialize (Hall 0 Hin). rewrite E5 in Hall. rewrite E6, E7. lia. }
    constructor; rewrite ?Hc, ?Hm, ?Hs, ?Hd; cbn;
      destruct (tl (cstack (ms c))); rewrite ?add_viols_eq; cbn; rewrite ?Hq; auto.
  Qed.

  Lemma finv_step c m : InvF c -> enabled p gd c m = true -> InvF (step p c m).
  Proof.
    intros HI He. destruct m as [[s aux|s u|i d|s]|].
    - now apply finv_sub.
    - now apply finv_up.
    - now apply finv_dn.
    - exfalso. destruct HI. unfold enabled in He.
      repeat (apply andb_prop in He; destruct He as [? He]).
      cbn in He. now rewrite f_task0 in He.
    - now apply finv_ret.
  Qed.

  Theorem finv_reach c : reach p gd c -> InvF c.
  Proof. induction 1; [apply finv0 | now apply finv_step]. Qed.
End FilterPull.

(** C14 for filter: no over-pull, no unrequested data, no unanswered pull (and
    none of the C01-C05, C17 violations either) in the pull regime *)
Theorem filter_safe_pull (cond : val -> bool) p :
  nsinks p = 1 -> resub p = false -> no_nest p = false ->
  c14 p = true -> pullable p = true -> one_pull p = true ->
  forall c : cfg (filter_op cond), reach p g_std c -> viols (ms c) = [] /\ dead c = false.
Proof.
  intros H1 H2 H3 H4 H5 H6 c Hr. destruct (finv_reach H1 H2 H3 H4 H5 H6 Hr). split; assumption.
Qed.
Print Assumptions filter_safe_pull.

(** ** scan *)
Section ScanPull.
  Variable reducer : val -> val -> val.
  Variable seed : val.
  Variable p : mparams.
  Hypothesis Hns : nsinks p = 1.
  Hypothesis Hresub : resub p = false.
  Hypothesis Hnonest : no_nest p = false.
  Hypothesis Hc14 : c14 p = true.
  Hypothesis Hpullable : pullable p = true.
  Hypothesis Hone : one_pull p = true.
  Let o := scan_op reducer seed.
  Notation gd := g_std.

  Record InvA (c : cfg o) : Prop := {
    a_viols : viols (ms c) = [];
    a_dead : dead c = false;
    a_pair : paired (sk (ms c) 0) (us (ms c) 0);
    a_subd : subd (ms c) 0 = false -> us (ms c) 0 = UNone;
    a_due : forall s, err_due (ms c) s = None;
    a_ports : forall i, In i (ports (ms c)) -> i = 0;
    a_inport : us (ms c) 0 <> UNone -> In 0 (ports (ms c));
    a_sk_other : forall s, s <> 0 -> sk (ms c) s = SNone;
    a_us_other : forall i, i <> 0 -> us (ms c) i = UNone;
    a_task : forall s, task (ms c) s = false;
    (* nothing is counted before the greeting *)
    a_zero : sk (ms c) 0 = SNone ->
             credit (ms c) 0 = 0 /\ owed (ms c) 0 = 0 /\ npull (ms c) 0 = 0 /\ ndata (ms c) 0 = 0;
    (* while live: every Pull is either answered or owed by the upstream, and
       the sink's one credit is either with the sink or travelling upstream *)
    a_cnt : sk (ms c) 0 = SLive ->
            owed (ms c) 0 + ndata (ms c) 0 = npull (ms c) 0 /\
            credit (ms c) 0 + owed (ms c) 0 = 1;
  }.

  Lemma ainv0 : InvA (cfg0 o).
  Proof.
    constructor; cbn; auto; try constructor; intros; try tauto; try discriminate.
  Qed.

  Lemma ainv_sub c s aux : InvA c -> enabled p gd c (MIn (ISub s aux)) = true ->
                           InvA (step p c (MIn (ISub s aux))).
  Proof.
    intros [] He. start_in He Hlive Hdel Hg.
    cbn in He, Hg. rewrite Hns in He. destruct aux; [|discriminate].
    destruct (at_top c) eqn:Htop; cbn in He; try discriminate.
    destruct s; cbn in He; try discriminate.
    apply negb_true_iff in He. specialize (a_subd0 He).
    cases_pair c Esk Eus; try congruence. spec_refl.
    destruct (step_in p c (ISub 0 0) Hlive Hdel eq_refl) as (Hc & Hs & Hm & Hd).
    finp Hc Hm Hs Hd.
  Qed.

  Lemma ainv_up c s u : InvA c -> enabled p gd c (MIn (IUp s u)) = true ->
                        InvA (step p c (MIn (IUp s u))).
  Proof.
    intros [] He. start_in He Hlive Hdel Hg.
    cbn -[Nat.ltb] in He. apply andb_prop in He. destruct He as [He Hu].
    apply andb_prop in He. destruct He as [Htop Hsk].
    destruct s as [|s]; [|rewrite a_sk_other0 in Hsk by lia; discriminate].
    cases_pair c Esk Eus; try discriminate. spec_refl.
    destruct a_cnt0 as [Hn Hco].
    assert (Hp0 : In 0 (ports (ms c))) by (apply a_inport0; discriminate).
    pose proof (eq_refl : handle o (IUp 0 u) (cst c) = (cst c, [], ACall (CUp 0 u) FDone)) as Hh.
    destruct (step_in p c (IUp 0 u) Hlive Hdel Hh) as (Hc & Hs & Hm & Hd).
    destruct u as [|e|].
    - (* Pull: the sink holds the credit, so nothing is owed upstream *)
      rewrite Hone in Hu. cbn -[Nat.ltb] in Hu. apply Nat.ltb_lt in Hu.
      assert (Hcr : credit (ms c) 0 = 1) by lia.
      assert (How : owed (ms c) 0 = 0) by lia.
      finp Hc Hm Hs Hd.
    - finp Hc Hm Hs Hd.
    - finp Hc Hm Hs Hd.
  Qed.

  Lemma ainv_dn c i d : InvA c -> enabled p gd c (MIn (IDn i d)) = true ->
                        InvA (step p c (MIn (IDn i d))).
  Proof.
    intros [] He. start_in He Hlive Hdel Hg.
    cbn -[Nat.ltb] in He. apply andb_prop in He. destruct He as [Htop He].
    destruct i as [|i].
    2: { rewrite a_us_other0 in He by lia. destruct d; cbn in He; discriminate. }
    cases_pair c Esk Eus; destruct d as [|v|e|]; cbn -[Nat.ltb] in He; try discriminate.
    all: spec_refl.
    all: assert (Hp0 : In 0 (ports (ms c))) by (apply a_inport0; discriminate).
    2: { (* Data: the upstream answers the one Pull it owes *)
      destruct a_cnt0 as [Hn Hco]. rewrite Hpullable in He. cbn -[Nat.ltb] in He.
      apply Nat.ltb_lt in He.
      assert (Hcr : credit (ms c) 0 = 0) by lia.
      assert (How : owed (ms c) 0 = 1) by lia.
      destruct (step_in p c (IDn 0 (DD v)) Hlive Hdel eq_refl) as (Hc & Hs & Hm & Hd).
      finp Hc Hm Hs Hd. }
    all: destruct (step_in p c (IDn 0 _) Hlive Hdel eq_refl) as (Hc & Hs & Hm & Hd).
    - (* greeting *)
      destruct a_zero0 as (Hcr & How & Hnp & Hnd).
      finp Hc Hm Hs Hd.
    - destruct a_cnt0 as [Hn Hco]. finp Hc Hm Hs Hd.
    - destruct a_cnt0 as [Hn Hco]. finp Hc Hm Hs Hd.
  Qed.

  Lemma ainv_ret c : InvA c -> enabled p gd c MRet = true -> InvA (step p c MRet).
  Proof.
    intros [] He.
    pose proof (enabled_live _ _ _ _ He) as Hlive.
    destruct (enabled_ret_stack _ _ _ He) as (k & cl & rest & Hst).
    destruct (step_ret p c Hlive Hst eq_refl) as (Hc & Hs & Hm & Hd).
    assert (Hq : forall m', sk m' = sk (ms c) -> us m' = us (ms c) -> ports m' = ports (ms c) ->
                            err_due m' = err_due (ms c) -> owed m' = owed (ms c) ->
                            npull m' = npull (ms c) -> ndata m' = ndata (ms c) ->
                            check_quiescent p m' = []).
    { intros m' E1 E2 E3 E4 E5 E6 E7. apply quiescent_nil.
      - intros _ Hov i Hi. rewrite E3 in Hi. rewrite (a_ports0 i Hi), E2.
        rewrite E1 in Hov. inversion a_pair0 as [A B|A B|A B|A B|A B];
          rewrite <- A in Hov; try discriminate; reflexivity.
      - intros s. now rewrite E4.
      - (* VUnanswered: live and nothing owed, so every Pull was answered *)
        intros _ Hl Hall. rewrite E1 in Hl. destruct (a_cnt0 Hl) as [Hn Hco].
        assert (Hin : In 0 (ports m')).
        { rewrite E3. apply a_inport0. inversion a_pair0; congruence. }
        specialize (Hall 0 Hin). rewrite E5 in Hall. rewrite E6, E7. lia. }
    constructor; rewrite ?Hc, ?Hm, ?Hs, ?Hd; cbn;
      destruct (tl (cstack (ms c))); rewrite ?add_viols_eq; cbn; rewrite ?Hq; auto.
  Qed.

  Lemma ainv_step c m : InvA c -> enabled p gd c m = true -> InvA (step p c m).
  Proof.
    intros HI He. destruct m as [[s aux|s u|i d|s]|].
    - now apply ainv_sub.
    - now apply ainv_up.
    - now apply ainv_dn.
    - exfalso. destruct HI. unfold enabled in He.
      repeat (apply andb_prop in He; destruct He as [? He]).
      cbn in He. now rewrite a_task0 in He.
    - now apply ainv_ret.
  Qed.

  Theorem ainv_reach c : reach p gd c -> InvA c.
  Proof. induction 1; [apply ainv0 | now apply ainv_step]. Qed.
End ScanPull.

(** C14 for scan: no over-pull, no unrequested data, no unanswered pull (and
    none of the C01-C05, C17 violations either) in the pull regime *)
Theorem scan_safe_pull (reducer : val -> val -> val) (seed : val) p :
  nsinks p = 1 -> resub p = false -> no_nest p = false ->
  c14 p = true -> pullable p = true -> one_pull p = true ->
  forall c : cfg (scan_op reducer seed), reach p g_std c -> viols (ms c) = [] /\ dead c = false.
Proof.
  intros H1 H2 H3 H4 H5 H6 c Hr. destruct (ainv_reach H1 H2 H3 H4 H5 H6 Hr). split; assumption.
Qed.
Print Assumptions scan_safe_pull.

(** ** skip *)
Section SkipPull.
  Variable max : nat.
  Variable p : mparams.
  Hypothesis Hns : nsinks p = 1.
  Hypothesis Hresub : resub p = false.
  Hypothesis Hnonest : no_nest p = false.
  Hypothesis Hc14 : c14 p = true.
  Hypothesis Hpullable : pullable p = true.
  Hypothesis Hone : one_pull p = true.
  Let o := skip_op max.
  Notation gd := g_std.

  Record InvK (c : cfg o) : Prop := {
    k_viols : viols (ms c) = [];
    k_dead : dead c = false;
    k_pair : paired (sk (ms c) 0) (us (ms c) 0);
    k_subd : subd (ms c) 0 = false -> us (ms c) 0 = UNone;
    k_due : forall s, err_due (ms c) s = None;
    k_ports : forall i, In i (ports (ms c)) -> i = 0;
    k_inport : us (ms c) 0 <> UNone -> In 0 (ports (ms c));
    k_sk_other : forall s, s <> 0 -> sk (ms c) s = SNone;
    k_us_other : forall i, i <> 0 -> us (ms c) i = UNone;
    k_task : forall s, task (ms c) s = false;
    (* nothing is counted before the greeting *)
    k_zero : sk (ms c) 0 = SNone ->
             credit (ms c) 0 = 0 /\ owed (ms c) 0 = 0 /\ npull (ms c) 0 = 0 /\ ndata (ms c) 0 = 0;
    (* while live: every Pull is either answered or owed by the upstream, and
       the sink's one credit is either with the sink or travelling upstream *)
    k_cnt : sk (ms c) 0 = SLive ->
            owed (ms c) 0 + ndata (ms c) 0 = npull (ms c) 0 /\
            credit (ms c) 0 + owed (ms c) 0 = 1;
    (* the talkback cell is set as soon as the upstream has greeted *)
    k_tb : us (ms c) 0 = ULive -> sk_tb (cst c) = true;
  }.

  Lemma kinv0 : InvK (cfg0 o).
  Proof.
    constructor; cbn; auto; try constructor; intros; try tauto; try discriminate.
  Qed.

  Lemma kinv_sub c s aux : InvK c -> enabled p gd c (MIn (ISub s aux)) = true ->
                           InvK (step p c (MIn (ISub s aux))).
  Proof.
    intros [] He. start_in He Hlive Hdel Hg.
    cbn in He, Hg. rewrite Hns in He. destruct aux; [|discriminate].
    destruct (at_top c) eqn:Htop; cbn in He; try discriminate.
    destruct s; cbn in He; try discriminate.
    apply negb_true_iff in He. specialize (k_subd0 He).
    cases_pair c Esk Eus; try congruence. spec_refl.
    destruct (step_in p c (ISub 0 0) Hlive Hdel eq_refl) as (Hc & Hs & Hm & Hd).
    finp Hc Hm Hs Hd.
  Qed.

  Lemma kinv_up c s u : InvK c -> enabled p gd c (MIn (IUp s u)) = true ->
                        InvK (step p c (MIn (IUp s u))).
  Proof.
    intros [] He. start_in He Hlive Hdel Hg.
    cbn -[Nat.ltb] in He. apply andb_prop in He. destruct He as [He Hu].
    apply andb_prop in He. destruct He as [Htop Hsk].
    destruct s as [|s]; [|rewrite k_sk_other0 in Hsk by lia; discriminate].
    cases_pair c Esk Eus; try discriminate. spec_refl.
    destruct k_cnt0 as [Hn Hco].
    assert (Hp0 : In 0 (ports (ms c))) by (apply k_inport0; discriminate).
    pose proof k_tb0 as Htb.
    assert (Hh : handle o (IUp 0 u) (cst c) = (cst c, [], ACall (CUp 0 u) FDone)).
    { cbn. rewrite Htb. reflexivity. }
    destruct (step_in p c (IUp 0 u) Hlive Hdel Hh) as (Hc & Hs & Hm & Hd).
    destruct u as [|e|].
    - (* Pull: the sink holds the credit, so nothing is owed upstream *)
      rewrite Hone in Hu. cbn -[Nat.ltb] in Hu. apply Nat.ltb_lt in Hu.
      assert (Hcr : credit (ms c) 0 = 1) by lia.
      assert (How : owed (ms c) 0 = 0) by lia.
      finp Hc Hm Hs Hd.
    - finp Hc Hm Hs Hd.
    - finp Hc Hm Hs Hd.
  Qed.

  Lemma kinv_dn c i d : InvK c -> enabled p gd c (MIn (IDn i d)) = true ->
                        InvK (step p c (MIn (IDn i d))).
  Proof.
    intros [] He. start_in He Hlive Hdel Hg.
    cbn -[Nat.ltb] in He. apply andb_prop in He. destruct He as [Htop He].
    destruct i as [|i].
    2: { rewrite k_us_other0 in He by lia. destruct d; cbn in He; discriminate. }
    cases_pair c Esk Eus; destruct d as [|v|e|]; cbn -[Nat.ltb] in He; try discriminate.
    all: spec_refl.
    all: assert (Hp0 : In 0 (ports (ms c))) by (apply k_inport0; discriminate).
    2: { (* Data: the upstream answers the one Pull it owes *)
      destruct k_cnt0 as [Hn Hco]. rewrite Hpullable in He. cbn -[Nat.ltb] in He.
      apply Nat.ltb_lt in He.
      assert (Hcr : credit (ms c) 0 = 0) by lia.
      assert (How : owed (ms c) 0 = 1) by lia.
      pose proof k_tb0 as Htb.
      destruct (sk_skipped (cst c) <? max) eqn:Elt.
      - (* dropped: the answer is consumed and a new Pull is owed *)
        assert (Hh : handle o (IDn 0 (DD v)) (cst c) =
                     ({| sk_skipped := S (sk_skipped (cst c)); sk_tb := sk_tb (cst c) |}, [],
                      ACall (CUp 0 UP) FDone)).
        { cbn -[Nat.ltb]. rewrite Elt, Htb. reflexivity. }
        destruct (step_in p c (IDn 0 (DD v)) Hlive Hdel Hh) as (Hc & Hs & Hm & Hd).
        finp Hc Hm Hs Hd.
      - assert (Hh : handle o (IDn 0 (DD v)) (cst c) = (cst c, [], ACall (CDn 0 (DD v)) FDone)).
        { cbn -[Nat.ltb]. rewrite Elt. reflexivity. }
        destruct (step_in p c (IDn 0 (DD v)) Hlive Hdel Hh) as (Hc & Hs & Hm & Hd).
        finp Hc Hm Hs Hd. }
    all: destruct (step_in p c (IDn 0 _) Hlive Hdel eq_refl) as (Hc & Hs & Hm & Hd).
    - (* greeting *)
      destruct k_zero0 as (Hcr & How & Hnp & Hnd).
      finp Hc Hm Hs Hd.
    - destruct k_cnt0 as [Hn Hco]. finp Hc Hm Hs Hd.
    - destruct k_cnt0 as [Hn Hco]. finp Hc Hm Hs Hd.
  Qed.

  Lemma kinv_ret c : InvK c -> enabled p gd c MRet = true -> InvK (step p c MRet).
  Proof.
    intros [] He.
    pose proof (enabled_live _ _ _ _ He) as Hlive.
    destruct (enabled_ret_stack _ _ _ He) as (k & cl & rest & Hst).
    destruct (step_ret p c Hlive Hst eq_refl) as (Hc & Hs & Hm & Hd).
    assert (Hq : forall m', sk m' = sk (ms c) -> us m' = us (ms c) -> ports m' = ports (ms c) ->
                            err_due m' = err_due (ms c) -> owed m' = owed (ms c) ->
                            npull m' = npull (ms c) -> ndata m' = ndata (ms c) ->
                            check_quiescent p m' = []).
    { intros m' E1 E2 E3 E4 E5 E6 E7. apply quiescent_nil.
      - intros _ Hov i Hi. rewrite E3 in Hi. rewrite (k_ports0 i Hi), E2.
        rewrite E1 in Hov. inversion k_pair0 as [A B|A B|A B|A B|A B];
          rewrite <- A in Hov; try discriminate; reflexivity.
      - intros s. now rewrite E4.
      - (* VUnanswered: live and nothing owed, so every Pull was answered *)
        intros _ Hl Hall. rewrite E1 in Hl. destruct (k_cnt0 Hl) as [Hn Hco].
        assert (Hin : In 0 (ports m')).
        { rewrite E3. apply k_inport0. inversion k_pair0; congruence. }
        specialize (Hall 0 Hin). rewrite E5 in Hall. rewrite E6, E7. lia. }
    constructor; rewrite ?Hc, ?Hm, ?Hs, ?Hd; cbn;
      destruct (tl (cstack (ms c))); rewrite ?add_viols_eq; cbn; rewrite ?Hq; auto.
  Qed.

  Lemma kinv_step c m : InvK c -> enabled p gd c m = true -> InvK (step p c m).
  Proof.
    intros HI He. destruct m as [[s aux|s u|i d|s]|].
    - now apply kinv_sub.
    - now apply kinv_up.
    - now apply kinv_dn.
    - exfalso. destruct HI. unfold enabled in He.
      repeat (apply andb_prop in He; destruct He as [? He]).
      cbn in He. now rewrite k_task0 in He.
    - now apply kinv_ret.
  Qed.

  Theorem kinv_reach c : reach p gd c -> InvK c.
  Proof. induction 1; [apply kinv0 | now apply kinv_step]. Qed.
End SkipPull.

(** C14 for skip: no over-pull, no unrequested data, no unanswered pull (and
    none of the C01-C05, C17 violations either) in the pull regime *)
Theorem skip_safe_pull (max : nat) p :
  nsinks p = 1 -> resub p = false -> no_nest p = false ->
  c14 p = true -> pullable p = true -> one_pull p = true ->
  forall c : cfg (skip_op max), reach p g_std c -> viols (ms c) = [] /\ dead c = false.
Proof.
  intros H1 H2 H3 H4 H5 H6 c Hr. destruct (kinv_reach H1 H2 H3 H4 H5 H6 Hr). split; assumption.
Qed.
Print Assumptions skip_safe_pull.
