(** Property C10 - combine!
    Theorems only: statement, [exact], [Print Assumptions] (statements restated verbatim from the
    Inv_*.v files where they are proved).  See DESIGN.md section 5 for how each renders the property. *)
From CB Require Import ProofLib Spec MonitorSound Results.
From CB Require Import Inv_combine Passive Bcast_merge_combine.

Theorem C10_combine_tuples n p :
  1 <= n -> nsinks p = 1 -> resub p = false -> no_nest p = false -> c14 p = false ->
  late_ok p = false ->
  forall c : cfg (combine_op n), reach p g_std c ->
  (forall j, cb_vals (cst c) j = latest j (rev (trace c))) /\
  (forall tr s d, trace c = tr ++ [ECall (CDn s d)] ->
     s = 0 /\
     match d with
     | DD x => exists l, x = VT l /\ length l = n /\
                 forall j, j < n -> nth_error l j = cb_vals (cst c) j /\
                                    nth_error l j = latest j (rev (trace c)) /\
                                    nth_error l j <> None
     | DE _ => False
     | _ => True
     end) /\
  (0 < ndata (ms c) 0 -> forall j, j < n -> cb_vals (cst c) j <> None).
Proof. exact (@combine_tuples n p). Qed.
Print Assumptions C10_combine_tuples.

Theorem C10_combine_completes n p :
  1 <= n -> nsinks p = 1 -> resub p = false -> no_nest p = false -> c14 p = false ->
  late_ok p = false ->
  forall c : cfg (combine_op n), reach p g_std c ->
  (sk (ms c) 0 = SLive -> exists j, j < n /\ us (ms c) j = ULive) /\
  (sk (ms c) 0 = SFinished -> forall j, j < n -> us (ms c) j = UEnded) /\
  (forall tr s, trace c = tr ++ [ECall (CDn s DT)] ->
     s = 0 /\ sk (ms c) 0 = SFinished /\ forall j, j < n -> us (ms c) j = UEnded).
Proof. exact (@combine_completes n p). Qed.
Print Assumptions C10_combine_completes.

(** ** every sink Pull reaches every member that is still running.  combine! sends it to EVERY member
    0..n-1 (also ended ones: recorded finding KF2 under C04), so in particular to the running ones *)

Theorem C10_combine_pull_broadcast p n :
  nsinks p = 1 -> resub p = false -> no_nest p = false -> c14 p = false -> late_ok p = false ->
  one_pull p = false ->
  1 <= n ->
  forall c : cfg (combine_op n), reach p g_std c -> stack c = [] -> sk (ms c) 0 = SLive ->
  exists fuel,
    let c' := drain p fuel (step p c (MIn (IUp 0 UP))) in
    stack c' = [] /\
    exists evs, trace c' = trace c ++ evs /\
      calls_of evs = map (fun j => CUp j UP) (seq 0 n) /\
      reach p g_std c'.
Proof. exact (@combine_pull_broadcast p n). Qed.
Print Assumptions C10_combine_pull_broadcast.

Theorem C10_combine_pull_broadcast_partial p n :
  nsinks p = 1 -> resub p = false -> no_nest p = false -> c14 p = false -> late_ok p = false ->
  1 <= n ->
  forall c : cfg (combine_op n), reach p g_std c -> stack c = [] -> sk (ms c) 0 = SLive ->
  exists fuel,
    let c' := drain p fuel (step p c (MIn (IUp 0 UP))) in
    stack c' = [] /\
    exists evs, trace c' = trace c ++ evs /\
      calls_of evs = map (fun j => CUp j UP) (seq 0 n) /\
      (enabled p g_std c (MIn (IUp 0 UP)) = true -> reach p g_std c').
Proof. exact (@combine_pull_broadcast_partial p n). Qed.
Print Assumptions C10_combine_pull_broadcast_partial.

Theorem C10_combine_pull_reaches_running p n :
  nsinks p = 1 -> resub p = false -> no_nest p = false -> c14 p = false -> late_ok p = false ->
  1 <= n ->
  forall c : cfg (combine_op n), reach p g_std c ->
  forall j, us (ms c) j = ULive -> In (CUp j UP) (map (fun j => CUp j UP) (seq 0 n)).
Proof. exact (@combine_pull_reaches_running p n). Qed.
Print Assumptions C10_combine_pull_reaches_running.

Theorem C10_combine_term_broadcast p n :
  nsinks p = 1 -> resub p = false -> no_nest p = false -> c14 p = false -> late_ok p = false ->
  1 <= n ->
  forall c : cfg (combine_op n), reach p g_std c -> stack c = [] -> sk (ms c) 0 = SLive ->
  exists fuel,
    let c' := drain p fuel (step p c (MIn (IUp 0 UT))) in
    stack c' = [] /\
    exists evs, trace c' = trace c ++ evs /\
      calls_of evs = map (fun j => CUp j UT) (seq 0 n) /\
      reach p g_std c'.
Proof. exact (@combine_term_broadcast p n). Qed.
Print Assumptions C10_combine_term_broadcast.

(** ** exactly one tuple per member datum once every other member has a value, none before *)

Theorem C10_combine_one_tuple_per_datum_prop p n :
  nsinks p = 1 -> resub p = false -> no_nest p = false -> c14 p = false -> late_ok p = false ->
  1 <= n ->
  forall (c : cfg (combine_op n)) j v, reach p g_std c ->
    enabled p g_std c (MIn (IDn j (DD v))) = true -> j < n ->
    exists evs, trace (step p c (MIn (IDn j (DD v)))) = trace c ++ evs /\
      ((forall k, k < n -> k <> j -> cb_vals (cst c) k <> None) ->
         exists l, calls_of evs = [CDn 0 (DD (VT l))] /\ length l = n /\
                   nth_error l j = Some v /\
                   forall k, k < n -> k <> j -> nth_error l k = cb_vals (cst c) k) /\
      ((exists k, k < n /\ k <> j /\ cb_vals (cst c) k = None) -> calls_of evs = []).
Proof. exact (@combine_one_tuple_per_datum_prop p n). Qed.
Print Assumptions C10_combine_one_tuple_per_datum_prop.

