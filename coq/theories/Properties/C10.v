(** Property C10 - combine!
    Theorems only: statement, [exact], [Print Assumptions] (statements restated verbatim from the
    Inv_*.v files where they are proved).  See DESIGN.md section 5 for how each renders the property. *)
From CB Require Import ProofLib Spec MonitorSound Results.
From CB Require Import Inv_combine.

Theorem C10_combine_tuples n p :
  1 <= n -> nsinks p = 1 -> resub p = false -> no_nest p = false -> c14 p = false ->
  late_ok p = false ->
  forall c : cfg (combine_op n), reach p g_std c ->
  (forall j, cb_vals (cst c) j = latest j (rev (trace c))) /\
  (forall tr s d, trace c = tr ++ [ECall (CDn s d)] ->
     s = 0 /\
     match d with
     | DD x => exists l, x = VT l /\ length l = n /\
                 forall j, j < n -> nth_error l j = cb_vals (cst c) j /\
                                    nth_error l j = latest j (rev (trace c)) /\
                                    nth_error l j <> None
     | DE _ => False
     | _ => True
     end) /\
  (0 < ndata (ms c) 0 -> forall j, j < n -> cb_vals (cst c) j <> None).
Proof. exact (@combine_tuples n p). Qed.
Print Assumptions C10_combine_tuples.

Theorem C10_combine_completes n p :
  1 <= n -> nsinks p = 1 -> resub p = false -> no_nest p = false -> c14 p = false ->
  late_ok p = false ->
  forall c : cfg (combine_op n), reach p g_std c ->
  (sk (ms c) 0 = SLive -> exists j, j < n /\ us (ms c) j = ULive) /\
  (sk (ms c) 0 = SFinished -> forall j, j < n -> us (ms c) j = UEnded) /\
  (forall tr s, trace c = tr ++ [ECall (CDn s DT)] ->
     s = 0 /\ sk (ms c) 0 = SFinished /\ forall j, j < n -> us (ms c) j = UEnded).
Proof. exact (@combine_completes n p). Qed.
Print Assumptions C10_combine_completes.
