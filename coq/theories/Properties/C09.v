(** Property C09 - concat!
    Theorems only: statement, [exact], [Print Assumptions] (statements restated verbatim from the
    Inv_*.v files where they are proved).  See DESIGN.md section 5 for how each renders the property. *)
From CB Require Import ProofLib Spec MonitorSound Results.
From CB Require Import Inv_concat.
From CB Require Import Chain Programs Tree TreePrograms TreeFunctional Order_nary Inv_for_each.


Theorem C09_concat_order n p :
  nsinks p = 1 -> resub p = false -> no_nest p = false -> c14 p = false -> late_ok p = false ->
  forall c : cfg (concat_op n), reach p g_std c ->
    data_out 0 (trace c) = all_in (trace c) /\
    (forall k, S k < n -> us (ms c) (S k) <> UNone -> us (ms c) k = UEnded) /\
    (forall j, us (ms c) j = USubd \/ us (ms c) j = ULive -> j = cc_i (cst c)) /\
    (forall j, j < cc_i (cst c) -> us (ms c) j = UEnded) /\
    (forall j, cc_i (cst c) < j -> us (ms c) j = UNone) /\
    (0 < n -> sk (ms c) 0 = SLive -> top_peer_is c (PSink 0) = true ->
     cc_tb (cst c) = Some (cc_i (cst c)) /\ us (ms c) (cc_i (cst c)) = ULive).
Proof. exact (@concat_order n p). Qed.
Print Assumptions C09_concat_order.

Theorem C09_concat_completes n p :
  nsinks p = 1 -> resub p = false -> no_nest p = false -> c14 p = false -> late_ok p = false ->
  forall c : cfg (concat_op n), reach p g_std c ->
    cc_i (cst c) = dt_in (trace c) /\
    (0 < n -> sk (ms c) 0 = SLive -> cc_i (cst c) < n) /\
    (In (ECall (CDn 0 DT)) (trace c) ->
       sk (ms c) 0 = SFinished /\ dt_in (trace c) = n /\
       forall j, j < n -> us (ms c) j = UEnded /\ In (EIn (IDn j DT)) (trace c)) /\
    (0 < n -> dt_in (trace c) = n -> In (ECall (CDn 0 DT)) (trace c)).
Proof. exact (@concat_completes n p). Qed.
Print Assumptions C09_concat_completes.

Theorem C09_concat_pull_carried n p :
  nsinks p = 1 -> resub p = false -> no_nest p = false -> c14 p = false -> late_ok p = false ->
  forall c : cfg (concat_op n), reach p g_std c ->
    (0 < n -> (cc_got_pull (cst c) = true <-> 0 < npull (ms c) 0)) /\
    (forall j, enabled p g_std c (MIn (IDn j DH)) = true -> 0 < j ->
       (0 < npull (ms c) 0 ->
        trace (step p c (MIn (IDn j DH))) = trace c ++ [EIn (IDn j DH); ECall (CUp j UP)] /\
        stack (step p c (MIn (IDn j DH))) = (CcDone, CUp j UP) :: stack c) /\
       (npull (ms c) 0 = 0 ->
        trace (step p c (MIn (IDn j DH))) = trace c ++ [EIn (IDn j DH); EDone] /\
        stack (step p c (MIn (IDn j DH))) = stack c)).
Proof. exact (@concat_pull_carried n p). Qed.
Print Assumptions C09_concat_pull_carried.

(** includes: no member is subscribed once the output is over (VSubAfterOver) *)
Theorem C09_concat_safe n p :
  nsinks p = 1 -> resub p = false -> no_nest p = false -> c14 p = false -> late_ok p = false ->
  forall c : cfg (concat_op n), reach p g_std c -> viols (ms c) = [] /\ dead c = false.
Proof. exact (@concat_safe n p). Qed.
Print Assumptions C09_concat_safe.

(** ** the list function of concat!: member order *)

Theorem C09_concat_list_function n p :
  nsinks p = 1 -> resub p = false -> no_nest p = false -> c14 p = false -> late_ok p = false ->
  forall c : cfg (concat_op n), reach p g_std c ->
    data_out 0 (trace c) = flat_map (fun k => data_in k (trace c)) (seq 0 n).
Proof. exact (@concat_list_function n p). Qed.
Print Assumptions C09_concat_list_function.

(** inside a program: the outputs of the wired members, one after the other *)
Theorem C09_prog_concat (ts : list tnode) (es : list edge) (N : tnet)
  (Hok : Forall tnode_ok ts) (Hes : edges_okb es (length ts) = true)
  (Hsink : forall e, In e es -> nth_error ts (e_child e) <> Some TSink)
  (Hr : tnet_reach (wiring_of es) (prog_net ts) N) (Hidle : tpend N = PIdle)
  i n k (kids : list nat) (Us : list node) :
    nth_error (tnodes N) i = Some n -> nth_error ts i = Some (TConcat k) ->
    length kids = k -> length Us = k ->
    (forall j c U, nth_error kids j = Some c -> nth_error Us j = Some U ->
       In (c, i, j) es /\ nth_error (tnodes N) c = Some U) ->
    data_out 0 (ntrace n) = flat_map (fun U => data_out 0 (ntrace U)) Us.
Proof. exact (@prog_concat ts es N Hok Hes Hsink Hr Hidle i n k kids Us). Qed.
Print Assumptions C09_prog_concat.

