(** Property C15 - from_iter
    Theorems only: statement, [exact], [Print Assumptions] (statements restated verbatim from the
    Inv_*.v files where they are proved).  See DESIGN.md section 5 for how each renders the property. *)
From CB Require Import Flow Flow_ends.
From CB Require Import ProofLib Spec MonitorSound Results.
From CB Require Import Inv_from_iter.

(** with no_nest p = true: no delivery begins inside a data delivery (VNested) *)
Theorem C15_from_iter_safe (it : nat -> option val) p :
  nsinks p = 1 -> resub p = false -> no_nest p = true -> c14 p = false ->
  forall c : cfg (from_iter_op it), reach p g_std c -> viols (ms c) = [] /\ dead c = false.
Proof. exact (@from_iter_safe it p). Qed.
Print Assumptions C15_from_iter_safe.

Theorem C15_from_iter_loop_stack (it : nat -> option val) p :
  nsinks p = 1 -> resub p = false -> no_nest p = true -> c14 p = false ->
  forall c : cfg (from_iter_op it), reach p g_std c ->
    shape (fi_in_loop (cst c)) (sk (ms c) 0) (stack c) /\
    (forall cl rest, cstack (ms c) = cl :: rest -> in_data_delivery 0 rest = false).
Proof. exact (@from_iter_loop_stack it p). Qed.
Print Assumptions C15_from_iter_loop_stack.

Theorem C15_from_iter_order (it : nat -> option val) p :
  nsinks p = 1 -> resub p = false -> no_nest p = true -> c14 p = false ->
  forall c : cfg (from_iter_op it), reach p g_std c ->
    nexts (trace c) = map it (seq 0 (fi_pos (cst c))) /\
    map Some (data_out 0 (trace c)) =
      filter (fun r => match r with Some _ => true | None => false end) (nexts (trace c)).
Proof. exact (@from_iter_order it p). Qed.
Print Assumptions C15_from_iter_order.

Theorem C15_from_iter_lazy (it : nat -> option val) p :
  nsinks p = 1 -> resub p = false -> no_nest p = true -> c14 p = false ->
  forall c : cfg (from_iter_op it), reach p g_std c ->
    length (nexts (trace c)) <= npull (ms c) 0.
Proof. exact (@from_iter_lazy it p). Qed.
Print Assumptions C15_from_iter_lazy.

Theorem C15_from_iter_done (it : nat -> option val) p :
  nsinks p = 1 -> resub p = false -> no_nest p = true -> c14 p = false ->
  forall c : cfg (from_iter_op it), reach p g_std c ->
    (sk (ms c) 0 = SFinished <-> In None (nexts (trace c))).
Proof. exact (@from_iter_done it p). Qed.
Print Assumptions C15_from_iter_done.

Theorem C15_from_iter_done_exact (it : nat -> option val) p :
  nsinks p = 1 -> resub p = false -> no_nest p = true -> c14 p = false ->
  forall c : cfg (from_iter_op it), reach p g_std c ->
    nexts (trace c) =
    map Some (data_out 0 (trace c)) ++
    match sk (ms c) 0 with SFinished => [None] | _ => [] end.
Proof. exact (@from_iter_done_exact it p). Qed.
Print Assumptions C15_from_iter_done_exact.

Theorem C15_from_iter_disposed_stops (it : nat -> option val) p :
  nsinks p = 1 -> resub p = false -> no_nest p = true -> c14 p = false ->
  forall c : cfg (from_iter_op it), reach p g_std c ->
    (fi_completed (cst c) = true <-> sk (ms c) 0 = SDisposed) /\
    (fi_completed (cst c) = true ->
     forall mvs, all_enabled p g_std c mvs = true ->
       nexts (trace (fold_left (@step p (from_iter_op it)) mvs c)) = nexts (trace c)).
Proof. exact (@from_iter_disposed_stops it p). Qed.
Print Assumptions C15_from_iter_disposed_stops.

(** "one item per Pull": when the sink sends at most one Pull per message it received ([one_pull]), then at
    rest with the sink live the number of Pulls received equals the number of items delivered - no Pull is
    lost to coalescing and none is served twice; from_iter only ever calls its sink (Flow_ends.v) *)
Theorem C15_from_iter_one_item_per_pull (it : nat -> option val) p :
  nsinks p = 1 -> resub p = false -> no_nest p = true -> c14 p = false -> one_pull p = true ->
  source_flow (from_iter_op it) p.
Proof. exact (@from_iter_source_flow it p). Qed.
Print Assumptions C15_from_iter_one_item_per_pull.
