(** Property C01 — theorems only (statement, [exact], [Print Assumptions]).
    See DESIGN.md section 5 for how each statement renders the property. *)
From CB Require Import ProofLib Spec Inv_map.

Theorem C01_map (f : val -> val) p :
  nsinks p = 1 -> resub p = false -> no_nest p = false -> c14 p = false ->
  forall c : cfg (map_op f), reach p g_std c -> viols (ms c) = [] /\ dead c = false.
Proof. exact (@map_safe f p). Qed.
Print Assumptions C01_map.
