(** Property C14 - demand conservation
    Theorems only: statement, [exact], [Print Assumptions] (statements restated verbatim from the
    Inv_*.v files where they are proved).  See DESIGN.md section 5 for how each renders the property. *)
From CB Require Import ProofLib Spec MonitorSound Results.
From CB Require Import Inv_relay_pull Inv_take_pull Inv_from_iter_pull Inv_concat_pull Inv_flatten_pull.
From CB Require Import Flow Flow_relay Flow_drop Flow_take Flow_ends.
From CB Require Import Chain Programs LivenessG ClosedDemand PullPrograms PullReturns.

(** pull regime: the monitor's VOverPull / VOverData / VUnanswered checks never fire *)
Theorem C14_map_safe_pull (f : val -> val) p :
  nsinks p = 1 -> resub p = false -> no_nest p = false ->
  c14 p = true -> pullable p = true -> one_pull p = true ->
  forall c : cfg (map_op f), reach p g_std c -> viols (ms c) = [] /\ dead c = false.
Proof. exact (@map_safe_pull f p). Qed.
Print Assumptions C14_map_safe_pull.

Theorem C14_filter_safe_pull (cond : val -> bool) p :
  nsinks p = 1 -> resub p = false -> no_nest p = false ->
  c14 p = true -> pullable p = true -> one_pull p = true ->
  forall c : cfg (filter_op cond), reach p g_std c -> viols (ms c) = [] /\ dead c = false.
Proof. exact (@filter_safe_pull cond p). Qed.
Print Assumptions C14_filter_safe_pull.

Theorem C14_scan_safe_pull (reducer : val -> val -> val) (seed : val) p :
  nsinks p = 1 -> resub p = false -> no_nest p = false ->
  c14 p = true -> pullable p = true -> one_pull p = true ->
  forall c : cfg (scan_op reducer seed), reach p g_std c -> viols (ms c) = [] /\ dead c = false.
Proof. exact (@scan_safe_pull reducer seed p). Qed.
Print Assumptions C14_scan_safe_pull.

Theorem C14_skip_safe_pull (max : nat) p :
  nsinks p = 1 -> resub p = false -> no_nest p = false ->
  c14 p = true -> pullable p = true -> one_pull p = true ->
  forall c : cfg (skip_op max), reach p g_std c -> viols (ms c) = [] /\ dead c = false.
Proof. exact (@skip_safe_pull max p). Qed.
Print Assumptions C14_skip_safe_pull.

Theorem C14_take_safe_pull p :
  nsinks p = 1 -> resub p = false -> no_nest p = false ->
  c14 p = true -> pullable p = true -> one_pull p = true ->
  forall max, 1 <= max ->
  forall c : cfg (take_op max), reach p g_std c -> viols (ms c) = [] /\ dead c = false.
Proof. exact (@take_safe_pull p). Qed.
Print Assumptions C14_take_safe_pull.

Theorem C14_take_counts_pull p :
  nsinks p = 1 -> resub p = false -> no_nest p = false ->
  c14 p = true -> pullable p = true -> one_pull p = true ->
  forall max, 1 <= max ->
  forall c : cfg (take_op max), reach p g_std c ->
  sk (ms c) 0 = SLive -> us (ms c) 0 = ULive -> ndata (ms c) 0 < max ->
  owed (ms c) 0 + ndata (ms c) 0 = npull (ms c) 0 /\ credit (ms c) 0 + owed (ms c) 0 = 1.
Proof. exact (@take_counts_pull p). Qed.
Print Assumptions C14_take_counts_pull.

Theorem C14_from_iter_safe_pull (it : nat -> option val) p :
  nsinks p = 1 -> resub p = false -> no_nest p = false ->
  c14 p = true -> pullable p = true -> one_pull p = true ->
  forall c : cfg (from_iter_op it), reach p g_std c -> viols (ms c) = [] /\ dead c = false.
Proof. exact (@from_iter_safe_pull it p). Qed.
Print Assumptions C14_from_iter_safe_pull.

Theorem C14_from_iter_counts_pull (it : nat -> option val) p :
  nsinks p = 1 -> resub p = false ->
  c14 p = true -> pullable p = true -> one_pull p = true ->
  forall c : cfg (from_iter_op it), reach p g_std c -> sk (ms c) 0 = SLive ->
    ndata (ms c) 0 + (if fi_got_pull (cst c) then 1 else 0) = npull (ms c) 0 /\
    credit (ms c) 0 + (if fi_got_pull (cst c) then 1 else 0) = 1 /\
    (stack c = [] -> fi_got_pull (cst c) = false /\ npull (ms c) 0 = ndata (ms c) 0).
Proof. exact (@from_iter_counts_pull it p). Qed.
Print Assumptions C14_from_iter_counts_pull.

Theorem C14_from_iter_no_coalescing (it : nat -> option val) p :
  nsinks p = 1 -> resub p = false ->
  c14 p = true -> pullable p = true -> one_pull p = true ->
  forall c : cfg (from_iter_op it), reach p g_std c ->
    fi_got_pull (cst c) = true -> enabled p g_std c (MIn (IUp 0 UP)) = false.
Proof. exact (@from_iter_no_coalescing it p). Qed.
Print Assumptions C14_from_iter_no_coalescing.

Theorem C14_concat_safe_pull n p :
  nsinks p = 1 -> resub p = false -> no_nest p = false ->
  c14 p = true -> pullable p = true -> one_pull p = true -> late_ok p = false ->
  forall c : cfg (concat_op n), reach p g_std c -> viols (ms c) = [] /\ dead c = false.
Proof. exact (@concat_safe_pull n p). Qed.
Print Assumptions C14_concat_safe_pull.

Theorem C14_concat_pull_counts n p :
  nsinks p = 1 -> resub p = false -> no_nest p = false ->
  c14 p = true -> pullable p = true -> one_pull p = true -> late_ok p = false ->
  forall c : cfg (concat_op n), reach p g_std c ->
    (forall j, us (ms c) j = ULive ->
       j = cc_i (cst c) /\ sk (ms c) 0 = SLive /\
       owed (ms c) j + ndata (ms c) 0 = npull (ms c) 0 /\
       credit (ms c) 0 + owed (ms c) j = 1 /\ In j (ports (ms c))) /\
    (forall j, us (ms c) j = USubd ->
       j = cc_i (cst c) /\ credit (ms c) 0 = 0 /\ owed (ms c) j = 0 /\
       npull (ms c) 0 = match j with 0 => 0 | S _ => 1 end + ndata (ms c) 0) /\
    (forall j, cc_i (cst c) < j -> owed (ms c) j = 0).
Proof. exact (@concat_pull_counts n p). Qed.
Print Assumptions C14_concat_pull_counts.

(** ** flatten (guard [g_flatten]: every emitted inner is a fresh source): exactly one token of demand,
    with the sink, on the outer, or on the stored inner *)

Theorem C14_flatten_safe_pull p :
  nsinks p = 1 -> resub p = false -> no_nest p = false ->
  c14 p = true -> pullable p = true -> one_pull p = true -> late_ok p = false ->
  forall c : cfg flatten_op, reach p g_flatten c -> viols (ms c) = [] /\ dead c = false.
Proof. exact (@flatten_safe_pull p). Qed.
Print Assumptions C14_flatten_safe_pull.

Theorem C14_flatten_pull_counts p :
  nsinks p = 1 -> resub p = false -> no_nest p = false ->
  c14 p = true -> pullable p = true -> one_pull p = true -> late_ok p = false ->
  forall c : cfg flatten_op, reach p g_flatten c ->
    sk (ms c) 0 = SLive -> us (ms c) 0 = ULive ->
    credit (ms c) 0 + npull (ms c) 0 = S (ndata (ms c) 0) /\
    In 0 (ports (ms c)) /\
    ((fl_inner (cst c) = None /\
      (forall i, us (ms c) (S i) <> ULive /\ us (ms c) (S i) <> USubd) /\
      credit (ms c) 0 + owed (ms c) 0 = 1 /\ (forall i, owed (ms c) (S i) = 0))
     \/
     (exists k, fl_inner (cst c) = Some (S k) /\ us (ms c) (S k) = ULive /\
                (forall i, i <> k -> us (ms c) (S i) <> ULive /\ us (ms c) (S i) <> USubd) /\
                In (S k) (ports (ms c)) /\ owed (ms c) 0 = 0 /\
                credit (ms c) 0 + owed (ms c) (S k) = 1 /\
                (forall i, i <> k -> owed (ms c) (S i) = 0))
     \/
     (exists k rest, stack c = (FlDone, CSub (S k)) :: rest /\ us (ms c) (S k) = USubd /\
                     (forall i, us (ms c) (S i) <> ULive) /\
                     (forall i, i <> k -> us (ms c) (S i) <> USubd) /\
                     In (S k) (ports (ms c)) /\ credit (ms c) 0 = 0 /\
                     (forall i, owed (ms c) i = 0))).
Proof. exact (@flatten_pull_counts p). Qed.
Print Assumptions C14_flatten_pull_counts.

Theorem C14_flatten_pull_token p :
  nsinks p = 1 -> resub p = false -> no_nest p = false ->
  c14 p = true -> pullable p = true -> one_pull p = true -> late_ok p = false ->
  forall c : cfg flatten_op, reach p g_flatten c ->
    sk (ms c) 0 = SLive -> us (ms c) 0 = ULive ->
    credit (ms c) 0 <= 1 /\
    (forall i, owed (ms c) i <= 1) /\
    (forall i j, 0 < owed (ms c) i -> 0 < owed (ms c) j -> i = j) /\
    (forall i, 0 < owed (ms c) i ->
       us (ms c) i = ULive /\ In i (ports (ms c)) /\ credit (ms c) 0 = 0 /\
       npull (ms c) 0 = S (ndata (ms c) 0)) /\
    (0 < credit (ms c) 0 -> npull (ms c) 0 = ndata (ms c) 0 /\ forall i, owed (ms c) i = 0).
Proof. exact (@flatten_pull_token p). Qed.
Print Assumptions C14_flatten_pull_token.

Theorem C14_flatten_pull_quiescent p :
  nsinks p = 1 -> resub p = false -> no_nest p = false ->
  c14 p = true -> pullable p = true -> one_pull p = true -> late_ok p = false ->
  forall c : cfg flatten_op, reach p g_flatten c -> stack c = [] -> sk (ms c) 0 = SLive ->
    us (ms c) 0 = ULive /\
    ((credit (ms c) 0 = 1 /\ npull (ms c) 0 = ndata (ms c) 0 /\ forall i, owed (ms c) i = 0) \/
     (credit (ms c) 0 = 0 /\ npull (ms c) 0 = S (ndata (ms c) 0) /\
      exists i, In i (ports (ms c)) /\ us (ms c) i = ULive /\ owed (ms c) i = 1 /\
                forall j, j <> i -> owed (ms c) j = 0)).
Proof. exact (@flatten_pull_quiescent p). Qed.
Print Assumptions C14_flatten_pull_quiescent.


(** ** demand conservation without the pull regime (Flow_*.v): in EVERY conformant environment - upstreams
    that also emit unasked, sinks that pull as they like - the trace counts of a stage satisfy
    Pulls sent up + data delivered = Pulls received + data received  (take: <=, and = at rest while live),
    the sink is greeted only after the upstream greeted, and at rest a live sink means a live upstream
    (record [stage_flow] of Flow.v) *)
Theorem C14_map_flow (f : val -> val) p :
  nsinks p = 1 -> resub p = false -> no_nest p = false -> c14 p = false -> stage_flow (map_op f) p None.
Proof. exact (@map_stage_flow f p). Qed.
Print Assumptions C14_map_flow.

Theorem C14_scan_flow (r : val -> val -> val) (seed : val) p :
  nsinks p = 1 -> resub p = false -> no_nest p = false -> c14 p = false -> stage_flow (scan_op r seed) p None.
Proof. exact (@scan_stage_flow r seed p). Qed.
Print Assumptions C14_scan_flow.

Theorem C14_filter_flow (cond : val -> bool) p :
  nsinks p = 1 -> resub p = false -> no_nest p = false -> c14 p = false -> stage_flow (filter_op cond) p None.
Proof. exact (@filter_stage_flow cond p). Qed.
Print Assumptions C14_filter_flow.

Theorem C14_skip_flow (n : nat) p :
  nsinks p = 1 -> resub p = false -> no_nest p = false -> c14 p = false -> stage_flow (skip_op n) p None.
Proof. exact (@skip_stage_flow n p). Qed.
Print Assumptions C14_skip_flow.

Theorem C14_take_flow (n : nat) p :
  nsinks p = 1 -> resub p = false -> no_nest p = false -> c14 p = false -> 1 <= n ->
  stage_flow (take_op n) p (Some n).
Proof. exact (@take_stage_flow n p). Qed.
Print Assumptions C14_take_flow.

(** for_each sends exactly one Pull per greeting or datum received *)
Theorem C14_for_each_flow p :
  nsinks p = 1 -> resub p = false -> no_nest p = false -> c14 p = false -> sink_flow for_each_op p.
Proof. exact (@for_each_sink_flow p). Qed.
Print Assumptions C14_for_each_flow.

(** from_iter, when its sink sends at most one Pull per message received: at rest with the sink live,
    Pulls received = data delivered (nothing about [pullable] or the C14 monitor checks is assumed) *)
Theorem C14_from_iter_flow (it : nat -> option val) p :
  nsinks p = 1 -> resub p = false -> no_nest p = true -> c14 p = false -> one_pull p = true ->
  source_flow (from_iter_op it) p.
Proof. exact (@from_iter_source_flow it p). Qed.
Print Assumptions C14_from_iter_flow.

(** ** C14 for PROGRAMS (PullPrograms.v): every linear pipeline from_iter -> map/filter/scan/take/skip stages
    (any length, any closures, take counts >= 1, ANY iterator), under an external sink that sends at most
    one Pull per message it received ([disciplined]), with every pull schedule - top-level or from inside
    the sink's own handlers - and however the internal transfers nest ([preach]) *)

(** the sink of the program never receives more Data than it sent Pulls *)
Theorem C14_program_no_overdata (it : nat -> option val) (stages : list ustage) :
  Forall ustage_ok stages ->
  forall N, preach it stages N ->
  forall n, nth_error (nodes N) (top stages) = Some n -> dout (ntrace n) <= pin (ntrace n).
Proof. exact (@program_no_overdata it stages). Qed.
Print Assumptions C14_program_no_overdata.

(** ... and at rest, towards a live sink, every Pull has been answered by a datum, without further prompting *)
Theorem C14_program_answers (it : nat -> option val) (stages : list ustage) :
  Forall ustage_ok stages ->
  forall N, preach it stages N -> pend N = PIdle -> gst N = [] ->
  forall n, nth_error (nodes N) (top stages) = Some n -> sk (nms n) 0 = SLive ->
    pin (ntrace n) = dout (ntrace n).
Proof. exact (@program_answers it stages). Qed.
Print Assumptions C14_program_answers.

(** the same in the monitor's own counters (the ones OverData / Unanswered read on crate traces) *)
Theorem C14_program_monitor (it : nat -> option val) (stages : list ustage) :
  Forall ustage_ok stages ->
  forall N, preach it stages N ->
  forall n, nth_error (nodes N) (top stages) = Some n ->
    ndata (nms n) 0 <= npull (nms n) 0 /\
    (pend N = PIdle -> gst N = [] -> sk (nms n) 0 = SLive -> npull (nms n) 0 = ndata (nms n) 0).
Proof.
  exact (fun Hok N Hp n Hn =>
    conj (@program_no_overdata_mon it stages Hok N Hp n Hn)
         (fun Hpd Hg Hl => @program_answers_mon it stages Hok N Hp Hpd Hg n Hn Hl)).
Qed.
Print Assumptions C14_program_monitor.

(** the premises are satisfiable: a run with a Pull sent from inside a data delivery stays inside [preach] *)
Theorem C14_program_example :
  preach PullProgramsSanity.pp_it PullProgramsSanity.pp_stages PullProgramsSanity.pp_N /\
  pend PullProgramsSanity.pp_N = PIdle /\ gst PullProgramsSanity.pp_N = [] /\
  PullProgramsSanity.top_view PullProgramsSanity.pp_N = Some (SLive, 2, 2, 2, 2, [VN 3; VN 5]).
Proof.
  exact (conj PullProgramsSanity.pp_preach
          (conj (proj1 PullProgramsSanity.pp_at_rest)
            (conj (proj1 (proj2 PullProgramsSanity.pp_at_rest))
                  (proj1 (proj2 (proj2 PullProgramsSanity.pp_at_rest)))))).
Qed.
Print Assumptions C14_program_example.

(** inside every pipeline under for_each (ClosedDemand.v): at every link, in every state of the run, the
    sink side has never received more Data than it sent Pulls, and it keeps the one-Pull discipline *)
Theorem C14_closed_no_overdata (it : nat -> option val) (stages : list ustage) :
  Forall ustage_ok stages ->
  forall N, crun it stages N ->
  forall i n, i <= length stages -> nth_error (nodes N) i = Some n -> dout (ntrace n) <= pin (ntrace n).
Proof. exact (@closed_no_overdata it stages). Qed.
Print Assumptions C14_closed_no_overdata.

Theorem C14_closed_disciplined (it : nat -> option val) (stages : list ustage) :
  Forall ustage_ok stages ->
  forall N, crun it stages N ->
  forall i n, nth_error (nodes N) i = Some n ->
    nreach1 n /\ credit (nms n) 0 + pin (ntrace n) = hout (ntrace n) + dout (ntrace n).
Proof. exact (@closed_disciplined it stages). Qed.
Print Assumptions C14_closed_disciplined.

(** "... every Pull is answered by a Data or the end WITHOUT FURTHER PROMPTING" (PullReturns.v): over a finite
    input, from every state of a disciplined run the pending internal transfers finish after at most
    [returns_max] steps and the sink has the turn again - however many moves the sink has made before *)
Theorem C14_program_returns (xs : list val) (stages : list ustage) :
  Forall ustage_ok stages ->
  forall N, preach (fun k => nth_error xs k) stages N ->
  exists m, m <= returns_max xs stages /\ pend (taus m N) = PIdle /\
            preach (fun k => nth_error xs k) stages (taus m N).
Proof. exact (@program_returns_list xs stages). Qed.
Print Assumptions C14_program_returns.

(** every node of such a run makes at most [2 |xs| + 5] calls, whatever the sink does *)
Theorem C14_program_calls_bounded (xs : list val) (it : nat -> option val) :
  (forall k, it k = nth_error xs k) -> forall stages, Forall ustage_ok stages ->
  forall N, preach it stages N ->
  forall i n, nth_error (nodes N) i = Some n -> n_call (ntrace n) <= calls_max xs.
Proof. exact (@program_calls_bounded xs it). Qed.
Print Assumptions C14_program_calls_bounded.
