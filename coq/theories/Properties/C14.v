(** Property C14 - demand conservation
    Theorems only: statement, [exact], [Print Assumptions] (statements restated verbatim from the
    Inv_*.v files where they are proved).  See DESIGN.md section 5 for how each renders the property. *)
From CB Require Import ProofLib Spec MonitorSound Results.
From CB Require Import Inv_relay_pull.

(** pull regime: the monitor's VOverPull / VOverData / VUnanswered checks never fire *)
Theorem C14_map_safe_pull (f : val -> val) p :
  nsinks p = 1 -> resub p = false -> no_nest p = false ->
  c14 p = true -> pullable p = true -> one_pull p = true ->
  forall c : cfg (map_op f), reach p g_std c -> viols (ms c) = [] /\ dead c = false.
Proof. exact (@map_safe_pull f p). Qed.
Print Assumptions C14_map_safe_pull.

Theorem C14_filter_safe_pull (cond : val -> bool) p :
  nsinks p = 1 -> resub p = false -> no_nest p = false ->
  c14 p = true -> pullable p = true -> one_pull p = true ->
  forall c : cfg (filter_op cond), reach p g_std c -> viols (ms c) = [] /\ dead c = false.
Proof. exact (@filter_safe_pull cond p). Qed.
Print Assumptions C14_filter_safe_pull.

Theorem C14_scan_safe_pull (reducer : val -> val -> val) (seed : val) p :
  nsinks p = 1 -> resub p = false -> no_nest p = false ->
  c14 p = true -> pullable p = true -> one_pull p = true ->
  forall c : cfg (scan_op reducer seed), reach p g_std c -> viols (ms c) = [] /\ dead c = false.
Proof. exact (@scan_safe_pull reducer seed p). Qed.
Print Assumptions C14_scan_safe_pull.

Theorem C14_skip_safe_pull (max : nat) p :
  nsinks p = 1 -> resub p = false -> no_nest p = false ->
  c14 p = true -> pullable p = true -> one_pull p = true ->
  forall c : cfg (skip_op max), reach p g_std c -> viols (ms c) = [] /\ dead c = false.
Proof. exact (@skip_safe_pull max p). Qed.
Print Assumptions C14_skip_safe_pull.
