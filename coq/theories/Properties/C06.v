(** Property C06 - pull pipelines compute the corresponding list function.

    What is proved: (1) [sem] - the list function of a pipeline - is left-to-right application of
    the stages' list functions, as pipe! is; (2) the lazy pull interpreter [run_pipe] (Pipe.v),
    which answers one demand at a time exactly the way a puller drives a chain of pull-driven
    stages, delivers [sem p xs] in order, reaches the end, and advances the input iterator at
    most [length xs + 1] times (explicit demand and fuel bounds); (3) for an unbounded input cut
    by a take, the iterator is advanced at most n times.  What ties this to the crate: the
    correspondence run of every check (real pipelines, for_each and a completion probe, against
    [run_pipe]: arguments of f in order, Iterator::next calls, completion).
    (4) For the callbag models of Ops.v themselves, wired into a net (Chain.v): the safety half for
    pipelines and trees (what has been delivered at rest is the list function of what was consumed),
    and - Liveness.v - the liveness half for linear pipelines of map/filter/scan/take/skip over a
    finite input: applying for_each makes the net run by itself to rest in a bounded number of
    steps, for_each has then seen the end, and f was called on the list function of the WHOLE input
    ([C06_pipeline_completes]).  NOT proved: the liveness half for pipelines with concat! or flatten
    stages and for unbounded inputs cut by a take (validated by the correspondence run only) -
    hence "partial" in the manifest. *)
From CB Require Import Pipe PipeCorrect.
From CB Require Import ProofLib Spec Chain Programs Inv_for_each.
From CB Require Import Chain Programs Tree TreePrograms TreeFunctional Order_nary Inv_for_each.
From CB Require Import Flow Wire2 LivenessG PipeNetG LivenessNexts.
From CB Require Inv_from_iter.
From Coq Require Import List Arith.
Import ListNotations.

Theorem C06_pipe_is_left_to_right p s l : sem (p ++ [s]) l = sem1 s (sem p l).
Proof. exact (eq_ind_r (fun x => x = sem1 s (sem p l)) eq_refl (fold_left_app (fun acc s => sem1 s acc) p [s] l)). Qed.
Print Assumptions C06_pipe_is_left_to_right.

Theorem C06_run_pipe_correct : forall p xs demands fuel,
  S (length (sem p xs)) <= demands -> fuel_bound p xs <= fuel ->
  exists pos, run_pipe p xs None demands fuel = (sem p xs, pos, true) /\ pos <= S (length xs).
Proof. exact run_pipe_correct_explicit. Qed.
Print Assumptions C06_run_pipe_correct.

Theorem C06_take_stops_unbounded_input : forall p1 n p2 xs base k demands fuel,
  forallb PipeCorrect.oneshot p1 = true -> n <= length xs + k ->
  let p := p1 ++ StTake n :: p2 in
  let xs' := xs ++ seq base k in
  S (length (sem p xs')) <= demands -> fuel_bound p xs' <= fuel ->
  exists pos, run_pipe p xs (Some base) demands fuel = (sem p xs', pos, true) /\ pos <= n.
Proof. exact run_pipe_take_unbounded. Qed.
Print Assumptions C06_take_stops_unbounded_input.

(** ** the composed callbag models (Chain.v, Programs.v): for every pipeline of map/filter/scan/take/skip
    stages of any length over any iterator, wired component to component, in every reachable state in
    which the environment has the turn *)

(** stage k has delivered the list function of the first k stages applied to what from_iter delivered *)
Theorem C06_pipeline_functional it stages b N :
  Forall ustage_ok stages -> net_reach (pipe_net it stages b) N -> pend N = PIdle ->
  forall k nk n0, k <= length stages ->
    nth_error (nodes N) k = Some nk -> nth_error (nodes N) 0 = Some n0 ->
    data_out 0 (ntrace nk) = usem (firstn k stages) (data_out 0 (ntrace n0)).
Proof. exact (@pipeline_functional it stages b N). Qed.
Print Assumptions C06_pipeline_functional.

(** with for_each at the end: f has been called on exactly the list function of what from_iter has
    delivered, in order, and that is the defined prefix of the iterator pulled so far *)
Theorem C06_pipeline_for_each it stages N :
  Forall ustage_ok stages -> net_reach (pipe_net it stages true) N -> pend N = PIdle ->
  forall nf n0,
    nth_error (nodes N) (S (length stages)) = Some nf -> nth_error (nodes N) 0 = Some n0 ->
    user_calls (ntrace nf) = usem stages (data_out 0 (ntrace n0)) /\
    exists pos, map Some (data_out 0 (ntrace n0)) =
                filter (fun r => match r with Some _ => true | None => false end)
                       (map it (seq 0 pos)).
Proof. exact (@pipeline_for_each it stages N). Qed.
Print Assumptions C06_pipeline_for_each.

(** the premises are satisfiable: a five-item pipeline runs by itself to completion *)
Theorem C06_pipeline_example :
  net_all_enabled (pipe_net ex_it ex_stages true) ex_moves_exact = true /\
  pend (net_run (pipe_net ex_it ex_stages true) ex_moves_exact) = PIdle.
Proof. exact ex_pipeline_enabled. Qed.
Print Assumptions C06_pipeline_example.

(** ** programs with concat! stages and trees (TreeFunctional.v): at every idle point of a reachable program net *)

(** a map/filter/scan/take/skip node has delivered its list function of what its child delivered *)
Theorem C06_prog_stage (ts : list tnode) (es : list edge) (N : tnet)
  (Hok : Forall tnode_ok ts) (Hes : edges_okb es (length ts) = true)
  (Hsink : forall e, In e es -> nth_error ts (e_child e) <> Some TSink)
  (Hr : tnet_reach (wiring_of es) (prog_net ts) N) (Hidle : tpend N = PIdle)
  i n s c U :
    nth_error (tnodes N) i = Some n -> nth_error ts i = Some (TStage s) ->
    In (c, i, 0) es -> nth_error (tnodes N) c = Some U ->
    data_out 0 (ntrace n) = usem1 s (data_out 0 (ntrace U)).
Proof. exact (@prog_stage ts es N Hok Hes Hsink Hr Hidle i n s c U). Qed.
Print Assumptions C06_prog_stage.

(** a concat! node has delivered its members' outputs one after the other, in member order (append) *)
Theorem C06_prog_concat (ts : list tnode) (es : list edge) (N : tnet)
  (Hok : Forall tnode_ok ts) (Hes : edges_okb es (length ts) = true)
  (Hsink : forall e, In e es -> nth_error ts (e_child e) <> Some TSink)
  (Hr : tnet_reach (wiring_of es) (prog_net ts) N) (Hidle : tpend N = PIdle)
  i n k (kids : list nat) (Us : list node) :
    nth_error (tnodes N) i = Some n -> nth_error ts i = Some (TConcat k) ->
    length kids = k -> length Us = k ->
    (forall j c U, nth_error kids j = Some c -> nth_error Us j = Some U ->
       In (c, i, j) es /\ nth_error (tnodes N) c = Some U) ->
    data_out 0 (ntrace n) = flat_map (fun U => data_out 0 (ntrace U)) Us.
Proof. exact (@prog_concat ts es N Hok Hes Hsink Hr Hidle i n k kids Us). Qed.
Print Assumptions C06_prog_concat.

(** for_each has called its closure on exactly what its child delivered *)
Theorem C06_prog_sink (ts : list tnode) (es : list edge) (N : tnet)
  (Hok : Forall tnode_ok ts) (Hes : edges_okb es (length ts) = true)
  (Hsink : forall e, In e es -> nth_error ts (e_child e) <> Some TSink)
  (Hr : tnet_reach (wiring_of es) (prog_net ts) N) (Hidle : tpend N = PIdle)
  i n c U :
    nth_error (tnodes N) i = Some n -> nth_error ts i = Some TSink ->
    In (c, i, 0) es -> nth_error (tnodes N) c = Some U ->
    user_calls (ntrace n) = data_out 0 (ntrace U).
Proof. exact (@prog_sink ts es N Hok Hes Hsink Hr Hidle i n c U). Qed.
Print Assumptions C06_prog_sink.

(** from_iter has delivered the defined prefix of its iterator *)
Theorem C06_prog_src (ts : list tnode) (es : list edge) (N : tnet)
  (Hok : Forall tnode_ok ts) (Hes : edges_okb es (length ts) = true)
  (Hsink : forall e, In e es -> nth_error ts (e_child e) <> Some TSink)
  (Hr : tnet_reach (wiring_of es) (prog_net ts) N) (Hidle : tpend N = PIdle)
  i n it :
    nth_error (tnodes N) i = Some n -> nth_error ts i = Some (TSrc it) ->
    exists pos, map Some (data_out 0 (ntrace n)) =
                filter (fun r => match r with Some _ => true | None => false end) (map it (seq 0 pos)).
Proof. exact (@prog_src ts es N Hok Hes Hsink Hr i n it). Qed.
Print Assumptions C06_prog_src.


(** ** "... and then completes without stalling" (Liveness.v): linear pipelines of map/filter/scan/take/skip
    (take counts >= 1) over any finite input, as nets of the component models *)

(** every message crosses a link exactly once, in order, in both directions (at most one in flight) *)
Theorem C06_wire_faithful (sigs : list (op * mparams * (mstate -> input -> bool)))
  (Hsafe : forall s, In s sigs -> safe_sig s) (Hreg : forall i s, nth_error sigs i = Some s -> regime_ok i s)
  ns N :
    map nsig ns = sigs -> (forall n, In n ns -> ninit n) ->
    net_reach (net0 ns) N -> wire2_ok (nodes N) (pend N).
Proof. exact (@chain_wire2 sigs Hsafe Hreg ns N). Qed.
Print Assumptions C06_wire_faithful.

(** once for_each is applied the net comes to rest by itself, after at most [steps_max stages B] transfers,
    given a bound B on what from_iter delivers; [crun] = the states after that one environment move and
    internal transfers only *)
Theorem C06_pipeline_terminates (it : nat -> option val) (stages : list ustage) :
  Forall ustage_ok stages ->
  forall B, (forall N, crun it stages N -> forall n0, nth_error (nodes N) 0 = Some n0 -> dout (ntrace n0) <= B) ->
  exists m, m <= steps_max stages B /\ crun it stages (taus m (net_step (NP it stages) (kick stages))) /\
            pend (taus m (net_step (NP it stages) (kick stages))) = PIdle.
Proof. exact (@terminates it stages). Qed.
Print Assumptions C06_pipeline_terminates.

(** the pipeline keeps the discipline "one Pull per message received" towards every one of its nodes:
    each node of such a run is reachable in the environment whose sink pulls only when it has credit *)
Theorem C06_all_one_pull (it : nat -> option val) (stages : list ustage) :
  Forall ustage_ok stages ->
  forall N, crun it stages N -> forall i n, nth_error (nodes N) i = Some n -> nreach1 n.
Proof. exact (@all_one_pull it stages). Qed.
Print Assumptions C06_all_one_pull.

(** ... and whenever such a run is at rest - whatever the iterator - for_each has received the end of
    the stream and f has been called on the list function of what from_iter delivered *)
Theorem C06_rest_means_done (it : nat -> option val) (stages : list ustage) :
  Forall ustage_ok stages ->
  forall N, crun it stages N -> pend N = PIdle ->
  forall nf n0, nth_error (nodes N) (LivenessG.last stages) = Some nf -> nth_error (nodes N) 0 = Some n0 ->
    us (nms nf) 0 = UEnded /\ user_calls (ntrace nf) = usem stages (data_out 0 (ntrace n0)).
Proof. exact (@rest_value it stages). Qed.
Print Assumptions C06_rest_means_done.

(** the whole of C06 for these pipelines over a finite input: the run is finite, ends with for_each
    having seen the end, and f has been called on exactly the list function of the whole input, in order *)
Theorem C06_pipeline_completes (it : nat -> option val) (stages : list ustage) :
  Forall ustage_ok stages ->
  forall xs, (forall k, it k = nth_error xs k) ->
  exists m N, m <= steps_max stages (length xs) /\ N = taus m (net_step (NP it stages) (kick stages)) /\
    net_reach (NP it stages) N /\ pend N = PIdle /\ gst N = [] /\
    exists nf, nth_error (nodes N) (LivenessG.last stages) = Some nf /\
      us (nms nf) 0 = UEnded /\ user_calls (ntrace nf) = usem stages xs.
Proof. exact (@pipeline_completes it stages). Qed.
Print Assumptions C06_pipeline_completes.

(** "... so take over an unbounded iterator stops": ANY iterator, a take after stages that pass every
    datum on (map, scan): the run is finite with a bound that depends on the take's count only, next()
    is called at most n times, for_each has seen the end, f was called on the list function of what
    was consumed *)
Theorem C06_take_stops (it : nat -> option val) (stages : list ustage) :
  Forall ustage_ok stages ->
  forall pre post n, stages = pre ++ UTake n :: post -> Forall LivenessG.oneshot pre ->
  exists m N, m <= steps_max stages n /\ N = taus m (net_step (NP it stages) (kick stages)) /\
    net_reach (NP it stages) N /\ pend N = PIdle /\
    exists nf n0, nth_error (nodes N) (LivenessG.last stages) = Some nf /\ nth_error (nodes N) 0 = Some n0 /\
      us (nms nf) 0 = UEnded /\
      user_calls (ntrace nf) = usem stages (data_out 0 (ntrace n0)) /\
      length (Inv_from_iter.nexts (ntrace n0)) <= n.
Proof. exact (@take_stops it stages). Qed.
Print Assumptions C06_take_stops.

(** the same for the first-order stage descriptions the harness builds on the real crate: the
    extracted runner the correspondence check executes returns the list function, completion, rest *)
Theorem C06_net_pipe_run_correct p xs us :
  ustages_of p = Some us ->
  Forall (fun s => match s with StTake n => 1 <= n | _ => True end) p ->
  exists nx, net_pipe_run p xs None (length xs) = Some (sem p xs, nx, true, true).
Proof. exact (@net_pipe_run_correct p xs us). Qed.
Print Assumptions C06_net_pipe_run_correct.

Theorem C06_net_pipe_run_take_stops p1 n p2 xs inf us :
  ustages_of (p1 ++ StTake n :: p2) = Some us ->
  Forall (fun s => match s with StTake k => 1 <= k | _ => True end) (p1 ++ StTake n :: p2) ->
  Forall (fun s => match s with StMap _ _ | StScan _ _ => True | _ => False end) p1 ->
  exists calls nx, net_pipe_run (p1 ++ StTake n :: p2) xs inf n = Some (calls, nx, true, true) /\ nx <= n.
Proof. exact (@net_pipe_run_take_stops p1 n p2 xs inf us). Qed.
Print Assumptions C06_net_pipe_run_take_stops.

Theorem C06_net_pipe_run_example :
  net_pipe_run [StMap 1 1; StFilter 2 0; StTake 2] [1; 2; 3; 4; 5] None 5 = Some ([2; 4], 3, true, true) /\
  net_pipe_run [StMap 2 1; StTake 3] [] (Some 0) 3 = Some ([1; 3; 5], 3, true, true).
Proof. exact (conj net_pipe_run_example net_pipe_run_unbounded_example). Qed.
Print Assumptions C06_net_pipe_run_example.

(** "The iterator is advanced only on demand (once per element delivered plus once to discover
    exhaustion)": in every reachable state of every pipeline, with or without for_each, over any iterator,
    the results of next() so far are exactly the items from_iter delivered, followed by None iff
    from_iter told its sink the end, and there are never more of them than Pulls from_iter received *)
Theorem C06_pipeline_nexts it stages b N :
  Forall ustage_ok stages -> net_reach (pipe_net it stages b) N ->
  forall n0, nth_error (nodes N) 0 = Some n0 ->
    Inv_from_iter.nexts (ntrace n0) =
      map Some (data_out 0 (ntrace n0)) ++
      match sk (nms n0) 0 with SFinished => [None] | _ => [] end /\
    length (Inv_from_iter.nexts (ntrace n0)) <= pin (ntrace n0).
Proof. exact (@pipeline_nexts it stages b N). Qed.
Print Assumptions C06_pipeline_nexts.

Theorem C06_pipeline_nexts_bound (xs : list val) stages b N :
  Forall ustage_ok stages -> net_reach (pipe_net (fun k => nth_error xs k) stages b) N ->
  forall n0, nth_error (nodes N) 0 = Some n0 ->
    length (Inv_from_iter.nexts (ntrace n0)) <= S (length xs).
Proof. exact (@pipeline_nexts_bound xs stages b N). Qed.
Print Assumptions C06_pipeline_nexts_bound.
