(** Property C06 - pull pipelines compute the corresponding list function.

    What is proved: (1) [sem] - the list function of a pipeline - is left-to-right application of
    the stages' list functions, as pipe! is; (2) the lazy pull interpreter [run_pipe] (Pipe.v),
    which answers one demand at a time exactly the way a puller drives a chain of pull-driven
    stages, delivers [sem p xs] in order, reaches the end, and advances the input iterator at
    most [length xs + 1] times (explicit demand and fuel bounds); (3) for an unbounded input cut
    by a take, the iterator is advanced at most n times.  What ties this to the crate: the
    correspondence run of every check (real pipelines, for_each and a completion probe, against
    [run_pipe]: arguments of f in order, Iterator::next calls, completion).  NOT proved: that the
    composition of the callbag models of Ops.v refines [run_pipe] for arbitrary nesting depth
    (the per-stage contracts are C07/C14/C15); that step is validated by the correspondence run
    only - hence "partial" in the manifest. *)
From CB Require Import Pipe PipeCorrect.
From Coq Require Import List Arith.
Import ListNotations.

Theorem C06_pipe_is_left_to_right p s l : sem (p ++ [s]) l = sem1 s (sem p l).
Proof. exact (eq_ind_r (fun x => x = sem1 s (sem p l)) eq_refl (fold_left_app (fun acc s => sem1 s acc) p [s] l)). Qed.
Print Assumptions C06_pipe_is_left_to_right.

Theorem C06_run_pipe_correct : forall p xs demands fuel,
  S (length (sem p xs)) <= demands -> fuel_bound p xs <= fuel ->
  exists pos, run_pipe p xs None demands fuel = (sem p xs, pos, true) /\ pos <= S (length xs).
Proof. exact run_pipe_correct_explicit. Qed.
Print Assumptions C06_run_pipe_correct.

Theorem C06_take_stops_unbounded_input : forall p1 n p2 xs base k demands fuel,
  forallb oneshot p1 = true -> n <= length xs + k ->
  let p := p1 ++ StTake n :: p2 in
  let xs' := xs ++ seq base k in
  S (length (sem p xs')) <= demands -> fuel_bound p xs' <= fuel ->
  exists pos, run_pipe p xs (Some base) demands fuel = (sem p xs', pos, true) /\ pos <= n.
Proof. exact run_pipe_take_unbounded. Qed.
Print Assumptions C06_take_stops_unbounded_input.
