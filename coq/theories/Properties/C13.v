(** Property C13 - subscriptions are independent.  See Twice.v for what the
    model-level statements mean and how the two-subscription correspondence
    and the projection test on the crate tie them to the code. *)
From CB Require Import Machine Ops Twice.

Theorem C13_product p o ms :
  trun p o ms = (run p o (moves_of false ms), run p o (moves_of true ms)).
Proof. exact (@twice_independent p o ms). Qed.
Print Assumptions C13_product.

Theorem C13_fresh_state :
  (forall f, sub_fresh (map_op f)) /\ (forall c, sub_fresh (filter_op c)) /\
  (forall r s, sub_fresh (scan_op r s)) /\ (forall n, sub_fresh (skip_op n)) /\
  (forall n, sub_fresh (take_op n)) /\ (forall it, sub_fresh (from_iter_op it)) /\
  sub_fresh for_each_op /\ (forall n, sub_fresh (merge_op n)) /\
  (forall n, sub_fresh (concat_op n)) /\ (forall n, sub_fresh (combine_op n)) /\
  sub_fresh flatten_op /\ sub_fresh interval_op /\ ~ sub_fresh share_op.
Proof.
  exact (conj map_sub_fresh (conj filter_sub_fresh (conj scan_sub_fresh (conj skip_sub_fresh
        (conj take_sub_fresh (conj from_iter_sub_fresh (conj for_each_sub_fresh
        (conj merge_sub_fresh (conj concat_sub_fresh (conj combine_sub_fresh
        (conj flatten_sub_fresh (conj interval_sub_fresh share_not_sub_fresh)))))))))))).
Qed.
Print Assumptions C13_fresh_state.
