(** Property C11 - flatten: switch semantics, only the latest inner source speaks.
    Theorems only: statement, [exact], [Print Assumptions].  Model: [flatten_op] (Ops.v; port 0 is the
    outer source, the inner source emitted as [DD (VN k)] is port [S k]); environment: the conformant
    environment with the guard [g_flatten] (every emitted inner is a source not subscribed before).
    Proofs: Inv_flatten.v.  The protocol side (C01-C05, C17 for flatten) is in those files. *)
From CB Require Import ProofLib Spec MonitorSound Results Inv_flatten.

(** at every control point at most one inner source is live, and it is the stored one: a
    previous inner never stays live beside a newer one *)
Theorem C11_switch p :
  nsinks p = 1 -> resub p = false -> no_nest p = false -> c14 p = false -> late_ok p = false ->
  forall (c : cfg flatten_op) j k, reach p g_flatten c ->
    us (ms c) (S j) = ULive -> us (ms c) (S k) = ULive ->
    j = k /\ fl_inner (cst c) = Some (S k).
Proof. exact (@flatten_switch p). Qed.
Print Assumptions C11_switch.

(** the sink receives exactly the payloads sent by inner sources, in arrival order (with
    [C11_switch] and the environment's rule that a stopped source is silent: only the latest) *)
Theorem C11_order p :
  forall c : cfg flatten_op, reach p g_flatten c -> data_out 0 (trace c) = inner_data (trace c).
Proof. exact (@flatten_order p). Qed.
Print Assumptions C11_order.

(** completion: a live sink always has a live source behind it (or the Error is on its way), and
    Terminate is sent only when the outer has completed and no inner is live *)
Theorem C11_completes p :
  nsinks p = 1 -> resub p = false -> no_nest p = false -> c14 p = false -> late_ok p = false ->
  forall c : cfg flatten_op, reach p g_flatten c ->
    (sk (ms c) 0 = SLive ->
     us (ms c) 0 = ULive \/ (exists k, us (ms c) (S k) = ULive) \/
     (exists e j rest, stack c = (FlThenErr e, CUp j UT) :: rest /\
                       err_due (ms c) 0 = Some e /\ us (ms c) j = UStopped)) /\
    (sk (ms c) 0 = SLive -> stack c = [] ->
     us (ms c) 0 = ULive \/ exists k, us (ms c) (S k) = ULive) /\
    (In (ECall (CDn 0 DT)) (trace c) ->
     us (ms c) 0 = UEnded /\ forall k, us (ms c) (S k) <> ULive).
Proof. exact (@flatten_completes p). Qed.
Print Assumptions C11_completes.

(** every inner and the outer are subscribed at most once and told to stop at most once, only
    while live; Pulls only reach live sources *)
Theorem C11_dispose_once p (c : cfg flatten_op) :
  std p -> reach p g_flatten c ->
  forall i, sub_once i (trace c) /\ talkback_only_live i (trace c) /\ stop_once i (trace c)
            /\ no_pull_outside i (trace c).
Proof. exact (fun H Hc => pk_c04 (flatten_protocol H Hc)). Qed.
Print Assumptions C11_dispose_once.

(** local steps: Pull routing; one Pull on an inner's greeting; the switch *)
Theorem C11_pull_routing (s : fl_st) :
  fl_handle (IUp 0 UP) s =
  (s, [], match fl_inner s with
          | Some j => ACall (CUp j UP) FlDone
          | None => if fl_outer s then ACall (CUp 0 UP) FlDone else ARet
          end).
Proof. exact (flatten_pull_routing s). Qed.
Print Assumptions C11_pull_routing.

Theorem C11_inner_greeting (k : nat) (s : fl_st) :
  fl_handle (IDn (S k) DH) s =
  ({| fl_outer := fl_outer s; fl_inner := Some (S k) |}, [], ACall (CUp (S k) UP) FlDone)
  /\ fl_resume FlDone {| fl_outer := fl_outer s; fl_inner := Some (S k) |}
     = ({| fl_outer := fl_outer s; fl_inner := Some (S k) |}, [], ARet).
Proof. exact (flatten_inner_greeting k s). Qed.
Print Assumptions C11_inner_greeting.

Theorem C11_switch_step (v : val) (s : fl_st) :
  fl_handle (IDn 0 (DD v)) s =
  (s, [], match fl_inner s with
          | Some j => ACall (CUp j UT) (FlSubInner (inner_id v))
          | None => ACall (CSub (S (inner_id v))) FlDone
          end)
  /\ forall s', fl_resume (FlSubInner (inner_id v)) s' = (s', [], ACall (CSub (S (inner_id v))) FlDone).
Proof. exact (flatten_switch_step v s). Qed.
Print Assumptions C11_switch_step.
