(** Property C17 - no panics with conformant peers
    Theorems only: statement, [exact], [Print Assumptions].  The statements are about the model
    (coq/theories/Ops.v) under the conformant environment (Machine.v: [reach]); the readable trace
    predicates are defined in MonitorSound.v, the parameter regimes in Results.v.  How each
    statement renders the property, and how the model is tied to /repo, is in DESIGN.md. *)
From CB Require Import ProofLib Spec MonitorSound Results.
From CB Require Import Inv_combine Inv_share.
From CB Require Import Chain Programs Tree TreePrograms.

Theorem C17_map (f : val -> val) p (c : cfg (map_op f)) :
  std p -> reach p g_std c -> no_panic (trace c).
Proof. exact (fun H Hc => pk_c17 (map_protocol H Hc)). Qed.
Print Assumptions C17_map.

Theorem C17_filter (cond : val -> bool) p (c : cfg (filter_op cond)) :
  std p -> reach p g_std c -> no_panic (trace c).
Proof. exact (fun H Hc => pk_c17 (filter_protocol H Hc)). Qed.
Print Assumptions C17_filter.

Theorem C17_scan (r : val -> val -> val) (seed : val) p (c : cfg (scan_op r seed)) :
  std p -> reach p g_std c -> no_panic (trace c).
Proof. exact (fun H Hc => pk_c17 (scan_protocol H Hc)). Qed.
Print Assumptions C17_scan.

Theorem C17_skip (max : nat) p (c : cfg (skip_op max)) :
  std p -> reach p g_std c -> no_panic (trace c).
Proof. exact (fun H Hc => pk_c17 (skip_protocol H Hc)). Qed.
Print Assumptions C17_skip.

Theorem C17_take (max : nat) p (c : cfg (take_op max)) (Hmax : 1 <= max) :
  std p -> reach p g_std c -> no_panic (trace c).
Proof. exact (fun H Hc => pk_c17 (take_protocol Hmax H Hc)). Qed.
Print Assumptions C17_take.

Theorem C17_from_iter (it : nat -> option val) p (c : cfg (from_iter_op it)) :
  std_nonest p -> reach p g_std c -> no_panic (trace c).
Proof. exact (fun H Hc => pk_c17 (from_iter_protocol H Hc)). Qed.
Print Assumptions C17_from_iter.

Theorem C17_for_each p (c : cfg for_each_op) :
  std p -> reach p g_std c -> no_panic (trace c).
Proof. exact (fun H Hc => pk_c17 (for_each_protocol H Hc)). Qed.
Print Assumptions C17_for_each.

Theorem C17_interval p (c : cfg interval_op) :
  std p -> reach p (fun _ _ => true) c -> no_panic (trace c).
Proof. exact (fun H Hc => pk_c17 (interval_protocol H Hc)). Qed.
Print Assumptions C17_interval.

Theorem C17_merge (n : nat) p (c : cfg (merge_op n)) (Hn : 1 <= n) :
  std_late p -> reach p g_std c -> no_panic (trace c).
Proof. exact (fun H Hc => pk_c17 (merge_protocol Hn H Hc)). Qed.
Print Assumptions C17_merge.

Theorem C17_concat (n : nat) p (c : cfg (concat_op n)) :
  std p -> reach p g_std c -> no_panic (trace c).
Proof. exact (fun H Hc => pk_c17 (concat_protocol H Hc)). Qed.
Print Assumptions C17_concat.

(** flatten: every emitted inner is a fresh source (guard [g_flatten]) *)
Theorem C17_flatten p (c : cfg flatten_op) :
  std p -> reach p g_flatten c -> no_panic (trace c).
Proof. exact (fun H Hc => pk_c17 (flatten_protocol H Hc)). Qed.
Print Assumptions C17_flatten.

(** share, for every number of sinks, as C12 quantifies it (no nested fan-out: guard [g_share]) *)
Theorem C17_share p (c : cfg share_op) :
  share_regime p -> reach p g_share c -> no_panic (trace c).
Proof. exact (fun H Hc => sk_c17 (share_protocol H Hc)). Qed.
Print Assumptions C17_share.

(** combine (every arity n >= 1).  combine has recorded deviations (known_findings.json: KF1, KF2);
    the theorem is that the monitor never records anything *but* those four kinds, so the
    kinds of this property never occur. *)
Theorem C17_combine (n : nat) p (c : cfg (combine_op n)) :
  1 <= n -> std p -> reach p g_std c -> dead c = false /\ ~ In VPanic (viols (ms c)).
Proof. exact (@combine_c17 n p c). Qed.
Print Assumptions C17_combine.

(** ** programs: every component of every linear pipeline
    [pipe!(from_iter(it), stages.. [, for_each(f)])] with stages from map/filter/scan/take/skip, of any
    length, in every reachable state of the wired components (composition theorem, Chain.v/Programs.v) *)
Theorem C17_pipeline it stages b N :
  Forall ustage_ok stages -> net_reach (pipe_net it stages b) N ->
  forall i n, nth_error (nodes N) i = Some n -> no_panic (ntrace n) /\ dead (ncfg n) = false.
Proof.
  exact (fun Hok Hr i n Hn =>
           conj (pk_c17 (proj1 (@pipeline_protocol it stages b N Hok Hr i n Hn)))
                (proj2 (@pipeline_protocol it stages b N Hok Hr i n Hn))).
Qed.
Print Assumptions C17_pipeline.

(** ** programs: every component of every TREE of from_iter / interval leaves and map / filter / scan /
    take / skip / merge! / concat! nodes (for_each at roots), wired child to parent port, in every
    reachable state, whatever the external peers do (composition theorem for trees, Tree.v/TreePrograms.v;
    combine! is excluded: its broadcast to ended members, KF2, breaks its children's assumptions) *)
Theorem C17_program (ts : list tnode) (es : list edge) (N : tnet) :
  Forall tnode_ok ts -> edges_okb es (length ts) = true ->
  (forall e, In e es -> nth_error ts (e_child e) <> Some TSink) ->
  tnet_reach (wiring_of es) (prog_net ts) N ->
  forall i n, nth_error (tnodes N) i = Some n ->
  no_panic (ntrace n) /\ dead (ncfg n) = false.
Proof.
  exact (fun Hok He Hs Hr i n Hn =>
           conj (pk_c17 (proj1 (@program_protocol ts es N Hok He Hs Hr i n Hn)))
                (proj2 (@program_protocol ts es N Hok He Hs Hr i n Hn))).
Qed.
Print Assumptions C17_program.

(** the premises are satisfiable: concat!(take(1)(from_iter [1;2]), merge!(from_iter [3], map (x10) (from_iter [4])))
    under a scripted sink runs to completion, every move enabled *)
Theorem C17_program_example :
  edges_okb ex_es (length ex_ts) = true /\
  tnet_all_enabled (wiring_of ex_es) (prog_net ex_ts) ex_nmoves = true /\
  let N := tnet_run (wiring_of ex_es) (prog_net ex_ts) ex_nmoves in
  tpend N = PIdle /\ tgst N = [] /\
  option_map (fun n => (data_out 0 (ntrace n), sk (nms n) 0)) (nth_error (tnodes N) 6)
  = Some ([VN 1; VN 3; VN 40], SFinished).
Proof. exact ex_tree_runs. Qed.
Print Assumptions C17_program_example.
