(** Property C18 (placeholder until the invariant proofs over Threads.v are integrated) *)
From CB Require Import Threads.
Theorem C18_schedule_skip S (step : S -> nat -> S) fin (s : S) : run_sched step fin [] s = s.
Proof. reflexivity. Qed.
Print Assumptions C18_schedule_skip.
