(** Property C18 - fan-in is exactly-once under every thread interleaving.
    Theorems only.  Model: the interleaving semantics of Threads.v (one scheduling point per
    instrumented access and per sink delivery, sequential consistency); [cb_reach]/[mg_reach] close the
    initial state under a step of EVERY thread, i.e. under every schedule, for any queues and endings.
    Tie to the code: real OS threads through the cfg(callbag_verif) hooks under the token-passing
    scheduler, compared event by event with this model on every run.
    combine and merge: proved over all schedules (Inv_threads_combine.v, Inv_threads_merge.v).
    [at_most_one_err n fins] is the property's own quantifier ("at most one member failing"). *)
From CB Require Import Threads ThreadSpec ThreadsFine Inv_threads_combine Inv_threads_merge Inv_threads_fine
  Inv_threads_combine_fine Inv_threads_total Inv_threads_always.

Theorem C18_combine_no_panic (n : nat) (qs : nat -> list val) (fins : nat -> final) :
  1 <= n -> forall s, cb_reach n qs fins s ->
  cbs_panicked s = false /\ existsb is_panic (cbs_tr s) = false
  /\ (forall t, ~ In (t, TPanic) (cbs_tr s)).
Proof. exact (@combine_threads_no_panic n qs fins). Qed.
Print Assumptions C18_combine_no_panic.

Theorem C18_combine_greeted_once (n : nat) (qs : nat -> list val) (fins : nat -> final) :
  1 <= n -> forall s, cb_reach n qs fins s ->
  count is_begin_greet (cbs_tr s) <= 1 /\ before_greet_ok (rev (cbs_tr s)) = true.
Proof. exact (@combine_threads_greet_once n qs fins). Qed.
Print Assumptions C18_combine_greeted_once.

(** only complete tuples made of values actually sent *)
Theorem C18_combine_tuples (n : nat) (qs : nat -> list val) (fins : nat -> final) :
  1 <= n -> forall s, cb_reach n qs fins s ->
  forall t x, In (t, TBegin (DD x)) (cbs_tr s) ->
  exists l, x = VT l /\ length l = n /\ tuple_ok qs 0 l = true.
Proof. exact (@combine_threads_tuples n qs fins). Qed.
Print Assumptions C18_combine_tuples.

(** completion at most once, and it begins when no data delivery is in progress *)
Theorem C18_combine_one_terminal (n : nat) (qs : nat -> list val) (fins : nat -> final) :
  1 <= n -> forall s, cb_reach n qs fins s ->
  count is_begin_term (cbs_tr s) <= 1 /\
  (cbs_nend s = 0 ->
   forall t, t < n -> cb_pcv (cbs_th s t) = CbInTerm \/ cb_pcv (cbs_th s t) = CbFinished) /\
  scan_term (fun _ => false) false (rev (cbs_tr s)) = [] /\
  ~ In TvTermDuringData (scan_term (fun _ => false) false (rev (cbs_tr s))) /\
  ~ In TvAfterTerminal (scan_term (fun _ => false) false (rev (cbs_tr s))).
Proof. exact (@combine_threads_one_terminal n qs fins). Qed.
Print Assumptions C18_combine_one_terminal.

(** once every member thread has finished the whole C18 check accepts the trace *)
Theorem C18_combine_final (n : nat) (qs : nat -> list val) (fins : nat -> final) :
  1 <= n -> forall s, cb_reach n qs fins s ->
  (forall t, t < n -> cb_finished s t = true) -> combine_check n qs fins (rev (cbs_tr s)) = [].
Proof. exact (@combine_threads_final n qs fins). Qed.
Print Assumptions C18_combine_final.

(** what the driver runs *)
Theorem C18_combine_driver_run n qs fins nth sch fuel :
  1 <= n ->
  let s := run_full (cb_step true n) cb_finished nth sch fuel (cb_init n qs fins) in
  cbs_panicked s = false /\
  ((forall t, t < n -> cb_finished s t = true) -> combine_check n qs fins (rev (cbs_tr s)) = []).
Proof. exact (@combine_threads_run_full_check n qs fins nth sch fuel). Qed.
Print Assumptions C18_combine_driver_run.

(** the code of the pinned tree (count before store) panics under a schedule *)
Theorem C18_combine_unfixed_refuted :
  cbs_panicked refute_final = true /\
  In (1, TPanic) (cbs_tr refute_final) /\
  In TvPanic (combine_check 2 refute_qs refute_fins (rev (cbs_tr refute_final))).
Proof. exact combine_threads_unfixed_refuted. Qed.
Print Assumptions C18_combine_unfixed_refuted.

(** ** merge! *)

Theorem C18_merge_greeted_once (n : nat) (qs : nat -> list val) (fins : nat -> final) :
  1 <= n -> at_most_one_err n fins -> forall s, mg_reach n qs fins s ->
  count is_begin_greet (mgs_tr s) <= 1 /\ before_greet_ok (rev (mgs_tr s)) = true.
Proof. exact (@merge_threads_greet_once n qs fins). Qed.
Print Assumptions C18_merge_greeted_once.

(** every datum exactly once, each member's own order: what a member has delivered followed by what
    is still in its queue is its original queue *)
Theorem C18_merge_exactly_once (n : nat) (qs : nat -> list val) (fins : nat -> final) :
  1 <= n -> at_most_one_err n fins -> forall s t, mg_reach n qs fins s ->
  delivered_by t (rev (mgs_tr s)) ++ mg_q (mgs_th s t) = qs t.
Proof. exact (@merge_threads_delivered n qs fins). Qed.
Print Assumptions C18_merge_exactly_once.

Theorem C18_merge_one_terminal (n : nat) (qs : nat -> list val) (fins : nat -> final) :
  1 <= n -> at_most_one_err n fins -> forall s, mg_reach n qs fins s ->
  count is_begin_term (mgs_tr s) <= 1.
Proof. exact (@merge_threads_one_terminal n qs fins). Qed.
Print Assumptions C18_merge_one_terminal.

(** completion after every data delivery has returned; no data after a terminal message *)
Theorem C18_merge_completion_after_data (n : nat) (qs : nat -> list val) (fins : nat -> final) :
  1 <= n -> at_most_one_err n fins -> forall s, mg_reach n qs fins s ->
  scan_term (fun _ => false) false (rev (mgs_tr s)) = [] /\
  (mgs_endc s = n -> forall t, t < n ->
     mg_pcv (mgs_th s t) = MgInTerm \/ mg_pcv (mgs_th s t) = MgFinished) /\
  (forall t, scan_open (fun _ => false) (rev (mgs_tr s)) t = true <-> mg_pcv (mgs_th s t) = MgInData).
Proof. exact (@merge_threads_completion_after_data n qs fins). Qed.
Print Assumptions C18_merge_completion_after_data.

Theorem C18_merge_no_panic (n : nat) (qs : nat -> list val) (fins : nat -> final) :
  1 <= n -> at_most_one_err n fins -> forall s, mg_reach n qs fins s ->
  existsb is_panic (mgs_tr s) = false.
Proof. exact (@merge_threads_no_panic n qs fins). Qed.
Print Assumptions C18_merge_no_panic.

(** once every member thread has finished the whole C18 check accepts the trace *)
Theorem C18_merge_final (n : nat) (qs : nat -> list val) (fins : nat -> final) :
  1 <= n -> at_most_one_err n fins -> forall s, mg_reach n qs fins s ->
  (forall t, t < n -> mg_finished s t = true) -> merge_check n qs fins (rev (mgs_tr s)) = [].
Proof. exact (@merge_threads_final_n n qs fins). Qed.
Print Assumptions C18_merge_final.

(** what the driver runs *)
Theorem C18_merge_driver_run n qs fins nth sch fuel :
  1 <= n -> at_most_one_err n fins ->
  let s := run_full (mg_step n) mg_finished nth sch fuel (mg_init n qs fins) in
  (forall t, t < n -> mg_finished s t = true) -> merge_check n qs fins (rev (mgs_tr s)) = [].
Proof. exact (@merge_driver_final n qs fins nth sch fuel). Qed.
Print Assumptions C18_merge_driver_run.

(** ** merge! at the granularity of EVERY shared-state access, the talkback cells included
    (ThreadsFine.v: the model the free-schedule runs of the crate are compared with).  [mf_reach]
    closes the initial state under [mf_step true n s t] for every thread: every schedule. *)

Theorem C18_merge_fine_greeted_once (n : nat) (qs : nat -> list val) (fins : nat -> final) :
  1 <= n -> at_most_one_err n fins -> forall s, mf_reach n qs fins s ->
  count is_begin_greet (mfs_tr s) <= 1 /\ before_greet_ok (rev (mfs_tr s)) = true.
Proof. exact (@fine_greet_once n qs fins). Qed.
Print Assumptions C18_merge_fine_greeted_once.

Theorem C18_merge_fine_exactly_once (n : nat) (qs : nat -> list val) (fins : nat -> final) :
  1 <= n -> at_most_one_err n fins -> forall s, mf_reach n qs fins s ->
  forall t, delivered_by t (rev (mfs_tr s)) ++ mf_q (mfs_th s t) = qs t.
Proof. exact (@fine_delivered n qs fins). Qed.
Print Assumptions C18_merge_fine_exactly_once.

Theorem C18_merge_fine_one_terminal (n : nat) (qs : nat -> list val) (fins : nat -> final) :
  1 <= n -> at_most_one_err n fins -> forall s, mf_reach n qs fins s ->
  count is_begin_term (mfs_tr s) <= 1.
Proof. exact (@fine_one_terminal n qs fins). Qed.
Print Assumptions C18_merge_fine_one_terminal.

(** no completion while a data delivery is in progress and no delivery begins after a terminal message
    began: what the race repaired by 13d4e7e (H10) broke *)
Theorem C18_merge_fine_no_data_after_end (n : nat) (qs : nat -> list val) (fins : nat -> final) :
  1 <= n -> at_most_one_err n fins -> forall s, mf_reach n qs fins s ->
  scan_term (fun _ => false) false (rev (mfs_tr s)) = [].
Proof. exact (@fine_no_data_after_end n qs fins). Qed.
Print Assumptions C18_merge_fine_no_data_after_end.

Theorem C18_merge_fine_no_panic (n : nat) (qs : nat -> list val) (fins : nat -> final) :
  1 <= n -> at_most_one_err n fins -> forall s, mf_reach n qs fins s ->
  existsb is_panic (mfs_tr s) = false.
Proof. exact (@fine_no_panic n qs fins). Qed.
Print Assumptions C18_merge_fine_no_panic.

(** every member's talkback is told to stop at most once, whoever does it (the failing sibling's
    sweep or the member itself when it finds [ended] set after publishing its talkback) *)
Theorem C18_merge_fine_disposed_at_most_once (n : nat) (qs : nat -> list val) (fins : nat -> final) :
  1 <= n -> at_most_one_err n fins -> forall s, mf_reach n qs fins s ->
  forall j, count (is_up_term_of j) (mfs_tr s) <= 1.
Proof. exact (@fine_disposed_at_most_once n qs fins). Qed.
Print Assumptions C18_merge_fine_disposed_at_most_once.

(** once the output has ended and everything is quiet, every other member has been told to stop
    exactly once, or had completed by itself *)
Theorem C18_merge_fine_disposed_exactly_once (n : nat) (qs : nat -> list val) (fins : nat -> final) :
  1 <= n -> at_most_one_err n fins -> forall s, mf_reach n qs fins s ->
  (forall t, t < n -> mf_finished s t = true) -> mfs_ended s = true ->
  forall j, j < n -> (forall e, fins j <> FinErr e) ->
    count (is_up_term_of j) (mfs_tr s) = 1
    \/ (mf_q (mfs_th s j) = [] /\ fins j = FinTerm /\ mfs_stopped s j = false).
Proof. exact (@fine_disposed_exactly_once n qs fins). Qed.
Print Assumptions C18_merge_fine_disposed_exactly_once.

Theorem C18_merge_fine_final (n : nat) (qs : nat -> list val) (fins : nat -> final) :
  1 <= n -> at_most_one_err n fins -> forall s, mf_reach n qs fins s ->
  (forall t, t < n -> mf_finished s t = true) -> merge_check_fine n qs fins (rev (mfs_tr s)) = [].
Proof. exact (@fine_final n qs fins). Qed.
Print Assumptions C18_merge_fine_final.

(** what the driver runs for a script with free=1 *)
Theorem C18_merge_fine_driver_run n qs fins nth sch fuel :
  1 <= n -> at_most_one_err n fins ->
  let s := run_full (mf_step true n) mf_finished nth sch fuel (mf_init true n qs fins) in
  (forall t, t < n -> mf_finished s t = true) -> merge_check_fine n qs fins (rev (mfs_tr s)) = [].
Proof. exact (@fine_driver_final n qs fins nth sch fuel). Qed.
Print Assumptions C18_merge_fine_driver_run.

(** the code before 13d4e7e (the member looks at [ended] first and publishes its talkback afterwards):
    on the witness schedule a datum reaches the sink after the Error *)
Theorem C18_merge_fine_unfixed_refuted :
  let s := run_full (mf_step false 2) mf_finished 2 h10_sched 400 (mf_init false 2 h10_qs h10_fins) in
  (forall t, t < 2 -> mf_finished s t = true) /\
  In TvAfterTerminal (merge_check_fine 2 h10_qs h10_fins (rev (mfs_tr s))).
Proof. exact fine_unfixed_refuted. Qed.
Print Assumptions C18_merge_fine_unfixed_refuted.

(** ** combine! at the granularity of every shared-state access: the member's cell store before
    [n_start.fetch_sub] is one more step that nothing else can see (the stuttering extension of
    ThreadsFine.v, what the driver runs for a combine script with free=1).  Whatever holds of every state
    reachable in the model of Threads.v holds of every state reachable at the finer granularity. *)

Theorem C18_combine_fine_transfer n qs fins (P : cb_state -> Prop) :
  (forall s, cb_reach n qs fins s -> P s) -> forall s, cbf_reach n qs fins s -> P (st_base s).
Proof. exact (@combine_fine_transfer n qs fins P). Qed.
Print Assumptions C18_combine_fine_transfer.

Theorem C18_combine_fine_tuples n qs fins : 1 <= n -> forall s, cbf_reach n qs fins s ->
  forall t x, In (t, TBegin (DD x)) (cbs_tr (st_base s)) ->
  exists l, x = VT l /\ length l = n /\ tuple_ok qs 0 l = true.
Proof. exact (@combine_fine_tuples n qs fins). Qed.
Print Assumptions C18_combine_fine_tuples.

Theorem C18_combine_fine_driver_run n qs fins nth sch fuel : 1 <= n ->
  let s := run_full (stut_step (cb_step true n)) (stut_finished cb_finished) nth sch fuel
             (stut_init (cb_init n qs fins)) in
  cbs_panicked (st_base s) = false /\
  ((forall t, t < n -> stut_finished cb_finished s t = true) ->
   combine_check n qs fins (rev (cbs_tr (st_base s))) = []).
Proof. exact (@combine_fine_driver_run n qs fins nth sch fuel). Qed.
Print Assumptions C18_combine_fine_driver_run.

(** ** "... and completion is delivered": no deadlock, no livelock.  Every run of the driver - ANY schedule
    prefix, then the remaining threads one at a time - finishes every thread within an explicit number of
    steps (combine's [rcu] loop retries only when another thread changed [vals] in between).  Together with
    the [_driver_run] theorems above: the check of the finished trace is empty, unconditionally. *)

Theorem C18_merge_run_total n qs fins nth sch fuel : fuel >= merge_fuel n qs nth ->
  let s := run_full (mg_step n) mg_finished nth sch fuel (mg_init n qs fins) in
  forall t, t < nth -> mg_finished s t = true.
Proof. exact (@merge_run_full_total n qs fins nth sch fuel). Qed.
Print Assumptions C18_merge_run_total.

Theorem C18_merge_fine_run_total n qs fins nth sch fuel : fuel >= merge_fine_fuel n qs nth ->
  let s := run_full (mf_step true n) mf_finished nth sch fuel (mf_init true n qs fins) in
  forall t, t < nth -> mf_finished s t = true.
Proof. exact (@merge_fine_run_full_total n qs fins nth sch fuel). Qed.
Print Assumptions C18_merge_fine_run_total.

Theorem C18_combine_run_total n qs fins nth sch fuel : fuel >= combine_fuel n qs nth ->
  let s := run_full (cb_step true n) cb_finished nth sch fuel (cb_init n qs fins) in
  forall t, t < nth -> cb_finished s t = true.
Proof. exact (@combine_run_full_total n qs fins nth sch fuel). Qed.
Print Assumptions C18_combine_run_total.

Theorem C18_combine_fine_run_total n qs fins nth sch fuel : fuel >= combine_fine_fuel n qs nth ->
  let s := run_full (stut_step (cb_step true n)) (stut_finished cb_finished) nth sch fuel
             (stut_init (cb_init n qs fins)) in
  forall t, t < nth -> stut_finished cb_finished s t = true.
Proof. exact (@combine_fine_run_full_total n qs fins nth sch fuel). Qed.
Print Assumptions C18_combine_fine_run_total.

(** the two halves together, for merge!: whatever the schedule, with enough fuel the run ends and passes the
    whole check (n member threads, at most one failing) *)
Theorem C18_merge_always_passes n qs fins sch fuel :
  1 <= n -> at_most_one_err n fins -> fuel >= merge_fuel n qs n ->
  merge_check n qs fins (rev (mgs_tr (run_full (mg_step n) mg_finished n sch fuel (mg_init n qs fins)))) = [].
Proof. exact (@merge_always_passes n qs fins sch fuel). Qed.
Print Assumptions C18_merge_always_passes.

(** ... and for combine!, any endings *)
Theorem C18_combine_always_passes n qs fins sch fuel :
  1 <= n -> fuel >= combine_fuel n qs n ->
  combine_check n qs fins (rev (cbs_tr (run_full (cb_step true n) cb_finished n sch fuel (cb_init n qs fins)))) = [].
Proof. exact (@combine_always_passes n qs fins sch fuel). Qed.
Print Assumptions C18_combine_always_passes.

(** ... and at the granularity of every access *)
Theorem C18_merge_fine_always_passes n qs fins sch fuel :
  1 <= n -> at_most_one_err n fins -> fuel >= merge_fine_fuel n qs n ->
  merge_check_fine n qs fins
    (rev (mfs_tr (run_full (mf_step true n) mf_finished n sch fuel (mf_init true n qs fins)))) = [].
Proof. exact (@merge_fine_always_passes n qs fins sch fuel). Qed.
Print Assumptions C18_merge_fine_always_passes.
