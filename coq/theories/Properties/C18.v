(** Property C18 - fan-in is exactly-once under every thread interleaving.
    Theorems only.  Model: the interleaving semantics of Threads.v (one scheduling point per
    instrumented access and per sink delivery, sequential consistency); [cb_reach]/[mg_reach] close the
    initial state under a step of EVERY thread, i.e. under every schedule, for any queues and endings.
    Tie to the code: real OS threads through the cfg(callbag_verif) hooks under the token-passing
    scheduler, compared event by event with this model on every run.
    combine: proved in full.  merge: see the end of the file. *)
From CB Require Import Threads ThreadSpec Inv_threads_combine.

Theorem C18_combine_no_panic (n : nat) (qs : nat -> list val) (fins : nat -> final) :
  1 <= n -> forall s, cb_reach n qs fins s ->
  cbs_panicked s = false /\ existsb is_panic (cbs_tr s) = false
  /\ (forall t, ~ In (t, TPanic) (cbs_tr s)).
Proof. exact (@combine_threads_no_panic n qs fins). Qed.
Print Assumptions C18_combine_no_panic.

Theorem C18_combine_greeted_once (n : nat) (qs : nat -> list val) (fins : nat -> final) :
  1 <= n -> forall s, cb_reach n qs fins s ->
  count is_begin_greet (cbs_tr s) <= 1 /\ before_greet_ok (rev (cbs_tr s)) = true.
Proof. exact (@combine_threads_greet_once n qs fins). Qed.
Print Assumptions C18_combine_greeted_once.

(** only complete tuples made of values actually sent *)
Theorem C18_combine_tuples (n : nat) (qs : nat -> list val) (fins : nat -> final) :
  1 <= n -> forall s, cb_reach n qs fins s ->
  forall t x, In (t, TBegin (DD x)) (cbs_tr s) ->
  exists l, x = VT l /\ length l = n /\ tuple_ok qs 0 l = true.
Proof. exact (@combine_threads_tuples n qs fins). Qed.
Print Assumptions C18_combine_tuples.

(** completion at most once, and it begins when no data delivery is in progress *)
Theorem C18_combine_one_terminal (n : nat) (qs : nat -> list val) (fins : nat -> final) :
  1 <= n -> forall s, cb_reach n qs fins s ->
  count is_begin_term (cbs_tr s) <= 1 /\
  (cbs_nend s = 0 ->
   forall t, t < n -> cb_pcv (cbs_th s t) = CbInTerm \/ cb_pcv (cbs_th s t) = CbFinished) /\
  scan_term (fun _ => false) false (rev (cbs_tr s)) = [] /\
  ~ In TvTermDuringData (scan_term (fun _ => false) false (rev (cbs_tr s))) /\
  ~ In TvAfterTerminal (scan_term (fun _ => false) false (rev (cbs_tr s))).
Proof. exact (@combine_threads_one_terminal n qs fins). Qed.
Print Assumptions C18_combine_one_terminal.

(** once every member thread has finished the whole C18 check accepts the trace *)
Theorem C18_combine_final (n : nat) (qs : nat -> list val) (fins : nat -> final) :
  1 <= n -> forall s, cb_reach n qs fins s ->
  (forall t, t < n -> cb_finished s t = true) -> combine_check n qs fins (rev (cbs_tr s)) = [].
Proof. exact (@combine_threads_final n qs fins). Qed.
Print Assumptions C18_combine_final.

(** what the driver runs *)
Theorem C18_combine_driver_run n qs fins nth sch fuel :
  1 <= n ->
  let s := run_full (cb_step true n) cb_finished nth sch fuel (cb_init n qs fins) in
  cbs_panicked s = false /\
  ((forall t, t < n -> cb_finished s t = true) -> combine_check n qs fins (rev (cbs_tr s)) = []).
Proof. exact (@combine_threads_run_full_check n qs fins nth sch fuel). Qed.
Print Assumptions C18_combine_driver_run.

(** the code of the pinned tree (count before store) panics under a schedule *)
Theorem C18_combine_unfixed_refuted :
  cbs_panicked refute_final = true /\
  In (1, TPanic) (cbs_tr refute_final) /\
  In TvPanic (combine_check 2 refute_qs refute_fins (rev (cbs_tr refute_final))).
Proof. exact combine_threads_unfixed_refuted. Qed.
Print Assumptions C18_combine_unfixed_refuted.
