(** Property C20 - the tracing feature is observationally inert.

    The model has no feature flag: one deterministic function [run] gives the
    trace of a script.  C20 is decided by checking that *each* of the three
    builds of the crate (default features; tracing without a subscriber;
    tracing with a subscriber at TRACE level) corresponds to this same model
    on the same scripts (and, directly, that the three recorded traces and
    the numbers of user-closure evaluations are equal).  What Coq contributes
    is only that the reference is a function of the script: two builds that
    both agree with the model agree with each other, on every script. *)
From CB Require Import Machine.

Theorem C20_reference_is_deterministic p o (ms1 ms2 : list move) :
  ms1 = ms2 -> trace (run p o ms1) = trace (run p o ms2).
Proof. intros E. exact (f_equal (fun ms => trace (run p o ms)) E). Qed.
Print Assumptions C20_reference_is_deterministic.
