(** Property C20 - the tracing feature is observationally inert.

    Two ingredients.
    (1) A model of the three macros of src/utils/mod.rs (Tracing.v): if the argument expressions
        of trace!/instrument!/call! (everything after the format string) are pure, the three builds
        - feature off; on without subscriber; on with a TRACE subscriber - perform the same effects
        and the same calls with the same values, and every message expression is evaluated exactly
        once.  The purity premise is audited on /repo's current source by every C20 run (and its
        necessity is the refutation below).
    (2) The operator model has no feature flag: one deterministic function [run] gives the trace of
        a script; every C20 run checks that EACH of the three builds of the crate corresponds to
        this same model on the same scripts (and that the three recorded traces and the numbers of
        user-closure evaluations are equal), so every theorem of C01-C17 transfers to all builds. *)
From CB Require Import Machine Tracing.

Theorem C20_tracing_inert (S V : Type) (body : list (stmt S V)) (md : mode) (s : S) :
  body_pure body -> exec md body s = exec Off body s.
Proof. exact (@tracing_inert S V body md s). Qed.
Print Assumptions C20_tracing_inert.

Theorem C20_message_evaluated_once (S V : Type) (body : list (stmt S V)) (md : mode) (s : S) :
  length (filter (@is_eval V) (snd (exec md body s))) = count_calls body /\
  length (filter (@is_call V) (snd (exec md body s))) = count_calls body.
Proof. exact (@message_evaluated_once S V body md s). Qed.
Print Assumptions C20_message_evaluated_once.

(** an effect inside a trace! argument breaks it: the premise is necessary *)
Theorem C20_impure_trace_arg_refuted :
  exec OnSub bad_body false <> exec Off bad_body false /\
  exec OnNoSub bad_body false = exec Off bad_body false.
Proof. exact impure_trace_arg_refuted. Qed.
Print Assumptions C20_impure_trace_arg_refuted.

Theorem C20_reference_is_deterministic p o (ms1 ms2 : list move) :
  ms1 = ms2 -> trace (run p o ms1) = trace (run p o ms2).
Proof. intros E. exact (f_equal (fun ms => trace (run p o ms)) E). Qed.
Print Assumptions C20_reference_is_deterministic.
