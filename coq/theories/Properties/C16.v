(** Property C16 - interval
    Theorems only: statement, [exact], [Print Assumptions] (statements restated verbatim from the
    Inv_*.v files where they are proved).  See DESIGN.md section 5 for how each renders the property. *)
From CB Require Import ProofLib Spec MonitorSound Results.
From CB Require Import Inv_interval.

Theorem C16_interval_safe p :
  nsinks p = 1 -> resub p = false -> no_nest p = false -> c14 p = false ->
  forall c : cfg interval_op, reach p (fun _ _ => true) c -> viols (ms c) = [] /\ dead c = false.
Proof. exact (@interval_safe p). Qed.
Print Assumptions C16_interval_safe.

Theorem C16_interval_counts p :
  nsinks p = 1 -> resub p = false -> no_nest p = false -> c14 p = false ->
  forall c : cfg interval_op, reach p (fun _ _ => true) c ->
  data_out 0 (trace c) = map VN (seq 0 (ndata (ms c) 0)).
Proof. exact (@interval_counts p). Qed.
Print Assumptions C16_interval_counts.

Theorem C16_interval_refused p :
  nsinks p = 1 -> resub p = false -> no_nest p = false -> c14 p = false ->
  forall c : cfg interval_op, reach p (fun _ _ => true) c ->
  forall e, refused (ms c) 0 = Some e -> calls (trace c) = [CDn 0 (DE e)].
Proof. exact (@interval_refused p). Qed.
Print Assumptions C16_interval_refused.
