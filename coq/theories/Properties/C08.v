(** Property C08 - merge!
    Theorems only: statement, [exact], [Print Assumptions] (statements restated verbatim from the
    Inv_*.v files where they are proved).  See DESIGN.md section 5 for how each renders the property. *)
From CB Require Import ProofLib Spec MonitorSound Results.
From CB Require Import Inv_merge Passive Bcast_merge_combine.
From CB Require Import Chain Programs Tree TreePrograms TreeFunctional Order_nary Inv_for_each.


Theorem C08_merge_order p :
  nsinks p = 1 -> resub p = false -> no_nest p = false -> c14 p = false -> late_ok p = true ->
  forall n, 1 <= n ->
  forall c : cfg (merge_op n), reach p g_std c -> data_out 0 (trace c) = all_in (trace c).
Proof. exact (@merge_order p). Qed.
Print Assumptions C08_merge_order.

Theorem C08_merge_greets p :
  nsinks p = 1 -> resub p = false -> no_nest p = false -> c14 p = false -> late_ok p = true ->
  forall n, 1 <= n ->
  forall c : cfg (merge_op n), reach p g_std c ->
  (exists i, i < n /\ us (ms c) i <> UNone /\ us (ms c) i <> USubd) -> sk (ms c) 0 <> SNone.
Proof. exact (@merge_greets p). Qed.
Print Assumptions C08_merge_greets.

Theorem C08_merge_completes p :
  nsinks p = 1 -> resub p = false -> no_nest p = false -> c14 p = false -> late_ok p = true ->
  forall n, 1 <= n ->
  forall c : cfg (merge_op n), reach p g_std c ->
  (sk (ms c) 0 = SLive -> exists i, i < n /\ us (ms c) i <> UEnded) /\
  ((forall i, i < n -> us (ms c) i = UEnded) -> sk (ms c) 0 = SFinished).
Proof. exact (@merge_completes p). Qed.
Print Assumptions C08_merge_completes.

(** includes: a late greeter after the end is disposed at once (otherwise VOrphan), Pulls only reach live members *)
Theorem C08_merge_safe p :
  nsinks p = 1 -> resub p = false -> no_nest p = false -> c14 p = false -> late_ok p = true ->
  forall n, 1 <= n ->
  forall c : cfg (merge_op n), reach p g_std c -> viols (ms c) = [] /\ dead c = false.
Proof. exact (@merge_safe p). Qed.
Print Assumptions C08_merge_safe.

(** ** what a sink Pull / Terminate DOES (passive continuation, Passive.v): it reaches exactly the members
    that have greeted and not completed, once each, in index order *)

(** a sink that may pull whenever it likes ([one_pull p = false]) *)
Theorem C08_merge_pull_broadcast p n :
  nsinks p = 1 -> resub p = false -> no_nest p = false -> c14 p = false -> late_ok p = true ->
  one_pull p = false ->
  1 <= n ->
  forall c : cfg (merge_op n), reach p g_std c -> stack c = [] -> sk (ms c) 0 = SLive ->
  exists fuel,
    let c' := drain p fuel (step p c (MIn (IUp 0 UP))) in
    stack c' = [] /\
    exists evs, trace c' = trace c ++ evs /\
      calls_of evs = map (fun j => CUp j UP)
                         (filter (fun j => match us (ms c) j with ULive => true | _ => false end)
                                 (seq 0 n)) /\
      reach p g_std c'.
Proof. exact (@merge_pull_broadcast p n). Qed.
Print Assumptions C08_merge_pull_broadcast.

(** any sink policy: the resulting configuration is conformant if the Pull itself was *)
Theorem C08_merge_pull_broadcast_partial p n :
  nsinks p = 1 -> resub p = false -> no_nest p = false -> c14 p = false -> late_ok p = true ->
  1 <= n ->
  forall c : cfg (merge_op n), reach p g_std c -> stack c = [] -> sk (ms c) 0 = SLive ->
  exists fuel,
    let c' := drain p fuel (step p c (MIn (IUp 0 UP))) in
    stack c' = [] /\
    exists evs, trace c' = trace c ++ evs /\
      calls_of evs = map (fun j => CUp j UP)
                         (filter (fun j => match us (ms c) j with ULive => true | _ => false end)
                                 (seq 0 n)) /\
      (enabled p g_std c (MIn (IUp 0 UP)) = true -> reach p g_std c').
Proof. exact (@merge_pull_broadcast_partial p n). Qed.
Print Assumptions C08_merge_pull_broadcast_partial.

Theorem C08_merge_term_broadcast p n :
  nsinks p = 1 -> resub p = false -> no_nest p = false -> c14 p = false -> late_ok p = true ->
  1 <= n ->
  forall c : cfg (merge_op n), reach p g_std c -> stack c = [] -> sk (ms c) 0 = SLive ->
  exists fuel,
    let c' := drain p fuel (step p c (MIn (IUp 0 UT))) in
    stack c' = [] /\
    exists evs, trace c' = trace c ++ evs /\
      calls_of evs = map (fun j => CUp j UT)
                         (filter (fun j => match us (ms c) j with ULive => true | _ => false end)
                                 (seq 0 n)) /\
      reach p g_std c'.
Proof. exact (@merge_term_broadcast p n). Qed.
Print Assumptions C08_merge_term_broadcast.

Theorem C08_merge_error_broadcast p n e :
  nsinks p = 1 -> resub p = false -> no_nest p = false -> c14 p = false -> late_ok p = true ->
  1 <= n ->
  forall c : cfg (merge_op n), reach p g_std c -> stack c = [] -> sk (ms c) 0 = SLive ->
  exists fuel,
    let c' := drain p fuel (step p c (MIn (IUp 0 (UE e)))) in
    stack c' = [] /\
    exists evs, trace c' = trace c ++ evs /\
      calls_of evs = map (fun j => CUp j (UE e))
                         (filter (fun j => match us (ms c) j with ULive => true | _ => false end)
                                 (seq 0 n)) /\
      reach p g_std c'.
Proof. exact (@merge_error_broadcast p n e). Qed.
Print Assumptions C08_merge_error_broadcast.


(** ** each member's own order is preserved: the output is an interleaving of the members' sequences *)

Theorem C08_merge_interleaves n p :
  nsinks p = 1 -> resub p = false -> no_nest p = false -> c14 p = false -> 1 <= n ->
  forall c : cfg (merge_op n), reach p g_std c ->
    interleave (map (fun k => data_in k (trace c)) (seq 0 n)) (data_out 0 (trace c)).
Proof. exact (@merge_interleaves n p). Qed.
Print Assumptions C08_merge_interleaves.

(** inside a program: an interleaving of the wired members' outputs *)
Theorem C08_prog_merge (ts : list tnode) (es : list edge) (N : tnet)
  (Hok : Forall tnode_ok ts) (Hes : edges_okb es (length ts) = true)
  (Hsink : forall e, In e es -> nth_error ts (e_child e) <> Some TSink)
  (Hr : tnet_reach (wiring_of es) (prog_net ts) N) (Hidle : tpend N = PIdle)
  i n k (kids : list nat) (Us : list node) :
    nth_error (tnodes N) i = Some n -> nth_error ts i = Some (TMerge k) ->
    length kids = k -> length Us = k ->
    (forall j c U, nth_error kids j = Some c -> nth_error Us j = Some U ->
       In (c, i, j) es /\ nth_error (tnodes N) c = Some U) ->
    interleave (map (fun U => data_out 0 (ntrace U)) Us) (data_out 0 (ntrace n)).
Proof. exact (@prog_merge ts es N Hok Hes Hsink Hr Hidle i n k kids Us). Qed.
Print Assumptions C08_prog_merge.

