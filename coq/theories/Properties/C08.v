(** Property C08 - merge!
    Theorems only: statement, [exact], [Print Assumptions] (statements restated verbatim from the
    Inv_*.v files where they are proved).  See DESIGN.md section 5 for how each renders the property. *)
From CB Require Import ProofLib Spec MonitorSound Results.
From CB Require Import Inv_merge.

Theorem C08_merge_order p :
  nsinks p = 1 -> resub p = false -> no_nest p = false -> c14 p = false -> late_ok p = true ->
  forall n, 1 <= n ->
  forall c : cfg (merge_op n), reach p g_std c -> data_out 0 (trace c) = all_in (trace c).
Proof. exact (@merge_order p). Qed.
Print Assumptions C08_merge_order.

Theorem C08_merge_greets p :
  nsinks p = 1 -> resub p = false -> no_nest p = false -> c14 p = false -> late_ok p = true ->
  forall n, 1 <= n ->
  forall c : cfg (merge_op n), reach p g_std c ->
  (exists i, i < n /\ us (ms c) i <> UNone /\ us (ms c) i <> USubd) -> sk (ms c) 0 <> SNone.
Proof. exact (@merge_greets p). Qed.
Print Assumptions C08_merge_greets.

Theorem C08_merge_completes p :
  nsinks p = 1 -> resub p = false -> no_nest p = false -> c14 p = false -> late_ok p = true ->
  forall n, 1 <= n ->
  forall c : cfg (merge_op n), reach p g_std c ->
  (sk (ms c) 0 = SLive -> exists i, i < n /\ us (ms c) i <> UEnded) /\
  ((forall i, i < n -> us (ms c) i = UEnded) -> sk (ms c) 0 = SFinished).
Proof. exact (@merge_completes p). Qed.
Print Assumptions C08_merge_completes.

(** includes: a late greeter after the end is disposed at once (otherwise VOrphan), Pulls only reach live members *)
Theorem C08_merge_safe p :
  nsinks p = 1 -> resub p = false -> no_nest p = false -> c14 p = false -> late_ok p = true ->
  forall n, 1 <= n ->
  forall c : cfg (merge_op n), reach p g_std c -> viols (ms c) = [] /\ dead c = false.
Proof. exact (@merge_safe p). Qed.
Print Assumptions C08_merge_safe.
