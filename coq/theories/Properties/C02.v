(** Property C02 - termination is final
    Theorems only: statement, [exact], [Print Assumptions].  The statements are about the model
    (coq/theories/Ops.v) under the conformant environment (Machine.v: [reach]); the readable trace
    predicates are defined in MonitorSound.v, the parameter regimes in Results.v.  How each
    statement renders the property, and how the model is tied to /repo, is in DESIGN.md. *)
From CB Require Import ProofLib Spec MonitorSound Results.
From CB Require Import Inv_combine Inv_share.
From CB Require Import Chain Programs Tree TreePrograms.

Theorem C02_map (f : val -> val) p (c : cfg (map_op f)) :
  std p -> reach p g_std c -> forall s, term_final s (trace c).
Proof. exact (fun H Hc => pk_c02 (map_protocol H Hc)). Qed.
Print Assumptions C02_map.

Theorem C02_filter (cond : val -> bool) p (c : cfg (filter_op cond)) :
  std p -> reach p g_std c -> forall s, term_final s (trace c).
Proof. exact (fun H Hc => pk_c02 (filter_protocol H Hc)). Qed.
Print Assumptions C02_filter.

Theorem C02_scan (r : val -> val -> val) (seed : val) p (c : cfg (scan_op r seed)) :
  std p -> reach p g_std c -> forall s, term_final s (trace c).
Proof. exact (fun H Hc => pk_c02 (scan_protocol H Hc)). Qed.
Print Assumptions C02_scan.

Theorem C02_skip (max : nat) p (c : cfg (skip_op max)) :
  std p -> reach p g_std c -> forall s, term_final s (trace c).
Proof. exact (fun H Hc => pk_c02 (skip_protocol H Hc)). Qed.
Print Assumptions C02_skip.

Theorem C02_take (max : nat) p (c : cfg (take_op max)) (Hmax : 1 <= max) :
  std p -> reach p g_std c -> forall s, term_final s (trace c).
Proof. exact (fun H Hc => pk_c02 (take_protocol Hmax H Hc)). Qed.
Print Assumptions C02_take.

Theorem C02_from_iter (it : nat -> option val) p (c : cfg (from_iter_op it)) :
  std_nonest p -> reach p g_std c -> forall s, term_final s (trace c).
Proof. exact (fun H Hc => pk_c02 (from_iter_protocol H Hc)). Qed.
Print Assumptions C02_from_iter.

Theorem C02_interval p (c : cfg interval_op) :
  std p -> reach p (fun _ _ => true) c -> forall s, term_final s (trace c).
Proof. exact (fun H Hc => pk_c02 (interval_protocol H Hc)). Qed.
Print Assumptions C02_interval.

Theorem C02_merge (n : nat) p (c : cfg (merge_op n)) (Hn : 1 <= n) :
  std_late p -> reach p g_std c -> forall s, term_final s (trace c).
Proof. exact (fun H Hc => pk_c02 (merge_protocol Hn H Hc)). Qed.
Print Assumptions C02_merge.

Theorem C02_concat (n : nat) p (c : cfg (concat_op n)) :
  std p -> reach p g_std c -> forall s, term_final s (trace c).
Proof. exact (fun H Hc => pk_c02 (concat_protocol H Hc)). Qed.
Print Assumptions C02_concat.

(** flatten: every emitted inner is a fresh source (guard [g_flatten]) *)
Theorem C02_flatten p (c : cfg flatten_op) :
  std p -> reach p g_flatten c -> forall s, term_final s (trace c).
Proof. exact (fun H Hc => pk_c02 (flatten_protocol H Hc)). Qed.
Print Assumptions C02_flatten.

(** share, for every number of sinks, as C12 quantifies it (no nested fan-out: guard [g_share]) *)
Theorem C02_share p (c : cfg share_op) :
  share_regime p -> reach p g_share c -> forall s, term_final s (trace c).
Proof. exact (fun H Hc => sk_c02 (share_protocol H Hc)). Qed.
Print Assumptions C02_share.

(** combine (every arity n >= 1).  combine has recorded deviations (known_findings.json: KF1, KF2);
    the theorem is that the monitor never records anything *but* those four kinds, so the
    kinds of this property never occur. *)
Theorem C02_combine (n : nat) p (c : cfg (combine_op n)) :
  1 <= n -> std p -> reach p g_std c -> (forall s, ~ In (VAfterFinish s) (viols (ms c))).
Proof. exact (@combine_c02 n p c). Qed.
Print Assumptions C02_combine.

(** ** programs: every component of every linear pipeline
    [pipe!(from_iter(it), stages.. [, for_each(f)])] with stages from map/filter/scan/take/skip, of any
    length, in every reachable state of the wired components (composition theorem, Chain.v/Programs.v) *)
Theorem C02_pipeline it stages b N :
  Forall ustage_ok stages -> net_reach (pipe_net it stages b) N ->
  forall i n, nth_error (nodes N) i = Some n -> forall s, term_final s (ntrace n).
Proof. exact (fun Hok Hr i n Hn => pk_c02 (proj1 (@pipeline_protocol it stages b N Hok Hr i n Hn))). Qed.
Print Assumptions C02_pipeline.

(** ** programs: every component of every TREE of from_iter / interval leaves and map / filter / scan /
    take / skip / merge! / concat! nodes (for_each at roots), wired child to parent port, in every
    reachable state, whatever the external peers do (composition theorem for trees, Tree.v/TreePrograms.v;
    combine! is excluded: its broadcast to ended members, KF2, breaks its children's assumptions) *)
Theorem C02_program (ts : list tnode) (es : list edge) (N : tnet) :
  Forall tnode_ok ts -> edges_okb es (length ts) = true ->
  (forall e, In e es -> nth_error ts (e_child e) <> Some TSink) ->
  tnet_reach (wiring_of es) (prog_net ts) N ->
  forall i n, nth_error (tnodes N) i = Some n ->
  forall s, term_final s (ntrace n).
Proof. exact (fun Hok He Hs Hr i n Hn => pk_c02 (proj1 (@program_protocol ts es N Hok He Hs Hr i n Hn))). Qed.
Print Assumptions C02_program.
