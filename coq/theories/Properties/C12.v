(** Property C12 - share
    Theorems only: statement, [exact], [Print Assumptions] (statements restated verbatim from the
    Inv_*.v files where they are proved).  See DESIGN.md section 5 for how each renders the property. *)
From CB Require Import ProofLib Spec MonitorSound Results.
From CB Require Import Inv_share Passive Fanout_share.

Theorem C12_share_one_upstream p :
  resub p = true -> no_nest p = false -> c14 p = false -> late_ok p = false ->
  forall c : cfg share_op, reach p g_share c ->
  (if in_term_fanout c then us (ms c) 0 = UEnded
   else (us (ms c) 0 = ULive \/ us (ms c) 0 = USubd) <-> sh_sinks (cst c) <> []) /\
  (forall m, enabled p g_share c m = true ->
   forall i tr, rtrace (step p c m) = ECall (CSub i) :: tr ->
   i = 0 /\ (exists s, m = MIn (ISub s 0)) /\ stack c = [] /\
   sh_sinks (cst c) = [] /\ (forall s, sk (ms c) s <> SLive) /\
   us (ms c) 0 <> ULive /\ us (ms c) 0 <> USubd).
Proof. exact (@share_one_upstream p). Qed.
Print Assumptions C12_share_one_upstream.

Theorem C12_share_refcount p :
  resub p = true -> no_nest p = false -> c14 p = false -> late_ok p = false ->
  forall c : cfg share_op, reach p g_share c -> stack c = [] ->
  ((exists s, sk (ms c) s = SLive) <-> us (ms c) 0 = ULive).
Proof. exact (@share_refcount p). Qed.
Print Assumptions C12_share_refcount.

Theorem C12_share_safe p :
  resub p = true -> no_nest p = false -> c14 p = false -> late_ok p = false ->
  forall c : cfg share_op, reach p g_share c -> viols (ms c) = [] /\ dead c = false.
Proof. exact (@share_safe p). Qed.
Print Assumptions C12_share_safe.

(** ** every attached sink receives every datum and the termination emitted while it is attached.
    Stated for the passive continuation (Passive.v): after the upstream's message every pending
    delivery is answered by a plain return.  [sh_sinks] is the attached list in attach order. *)

Theorem C12_share_attached p :
  resub p = true -> no_nest p = false -> c14 p = false -> late_ok p = false ->
  forall c : cfg share_op, reach p g_share c -> stack c = [] ->
    (forall s, In s (sh_sinks (cst c)) <-> sk (ms c) s = SLive) /\
    NoDup (sh_sinks (cst c)).
Proof. exact (@share_attached p). Qed.
Print Assumptions C12_share_attached.

Theorem C12_share_fanout_data p :
  resub p = true -> no_nest p = false -> c14 p = false -> late_ok p = false ->
  forall (c : cfg share_op) v, reach p g_share c -> stack c = [] ->
    enabled p g_share c (MIn (IDn 0 (DD v))) = true ->
    exists fuel,
      let c' := drain p fuel (step p c (MIn (IDn 0 (DD v)))) in
      stack c' = [] /\
      exists evs, trace c' = trace c ++ evs /\
        calls_of evs = map (fun s => CDn s (DD v)) (sh_sinks (cst c)) /\
        sh_sinks (cst c') = sh_sinks (cst c) /\ reach p g_share c'.
Proof. exact (@share_fanout_data p). Qed.
Print Assumptions C12_share_fanout_data.

(** a terminal message reaches every attached sink once, the list is cleared, and the next
    subscriber starts a fresh upstream subscription *)
Theorem C12_share_fanout_term p :
  resub p = true -> no_nest p = false -> c14 p = false -> late_ok p = false ->
  forall (c : cfg share_op) d, reach p g_share c -> stack c = [] ->
    dmsg_is_term d = true ->
    enabled p g_share c (MIn (IDn 0 d)) = true ->
    exists fuel,
      let c' := drain p fuel (step p c (MIn (IDn 0 d))) in
      stack c' = [] /\
      exists evs, trace c' = trace c ++ evs /\
        calls_of evs = map (fun s => CDn s d) (sh_sinks (cst c)) /\
        sh_sinks (cst c') = [] /\ reach p g_share c' /\
        (forall k aux,
           handle share_op (ISub k aux) (cst c') =
           ({| sh_sinks := [k]; sh_tb := sh_tb (cst c'); sh_first := k |}, [],
            ACall (CSub 0) ShDone)) /\
        (forall k, enabled p g_share c' (MIn (ISub k 0)) = true ->
           trace (step p c' (MIn (ISub k 0))) = trace c' ++ [EIn (ISub k 0); ECall (CSub 0)]).
Proof. exact (@share_fanout_term p). Qed.
Print Assumptions C12_share_fanout_term.

(** exactly the sinks that are live receive the message, each once *)
Theorem C12_share_fanout_once p :
  resub p = true -> no_nest p = false -> c14 p = false -> late_ok p = false ->
  forall (c : cfg share_op) d, reach p g_share c -> stack c = [] -> d <> DH ->
    enabled p g_share c (MIn (IDn 0 d)) = true ->
    exists fuel,
      let c' := drain p fuel (step p c (MIn (IDn 0 d))) in
      stack c' = [] /\ reach p g_share c' /\
      exists evs, trace c' = trace c ++ evs /\
        NoDup (calls_of evs) /\
        (forall cl, In cl (calls_of evs) -> exists s, cl = CDn s d) /\
        (forall s, In (CDn s d) (calls_of evs) <-> sk (ms c) s = SLive).
Proof. exact (@share_fanout_once p). Qed.
Print Assumptions C12_share_fanout_once.
