(** Property C12 - share
    Theorems only: statement, [exact], [Print Assumptions] (statements restated verbatim from the
    Inv_*.v files where they are proved).  See DESIGN.md section 5 for how each renders the property. *)
From CB Require Import ProofLib Spec MonitorSound Results.
From CB Require Import Inv_share.

Theorem C12_share_one_upstream p :
  resub p = true -> no_nest p = false -> c14 p = false -> late_ok p = false ->
  forall c : cfg share_op, reach p g_share c ->
  (if in_term_fanout c then us (ms c) 0 = UEnded
   else (us (ms c) 0 = ULive \/ us (ms c) 0 = USubd) <-> sh_sinks (cst c) <> []) /\
  (forall m, enabled p g_share c m = true ->
   forall i tr, rtrace (step p c m) = ECall (CSub i) :: tr ->
   i = 0 /\ (exists s, m = MIn (ISub s 0)) /\ stack c = [] /\
   sh_sinks (cst c) = [] /\ (forall s, sk (ms c) s <> SLive) /\
   us (ms c) 0 <> ULive /\ us (ms c) 0 <> USubd).
Proof. exact (@share_one_upstream p). Qed.
Print Assumptions C12_share_one_upstream.

Theorem C12_share_refcount p :
  resub p = true -> no_nest p = false -> c14 p = false -> late_ok p = false ->
  forall c : cfg share_op, reach p g_share c -> stack c = [] ->
  ((exists s, sk (ms c) s = SLive) <-> us (ms c) 0 = ULive).
Proof. exact (@share_refcount p). Qed.
Print Assumptions C12_share_refcount.

Theorem C12_share_safe p :
  resub p = true -> no_nest p = false -> c14 p = false -> late_ok p = false ->
  forall c : cfg share_op, reach p g_share c -> viols (ms c) = [] /\ dead c = false.
Proof. exact (@share_safe p). Qed.
Print Assumptions C12_share_safe.
