(** Property C19 - take(n) never over-delivers when deliveries race.
    Theorems only.  The model is the interleaving semantics of Threads.v (one scheduling point per
    instrumented access, sequential consistency); [tk_reach] closes the initial state under
    [tk_step true max s t] for every thread [t], i.e. under EVERY schedule, for ANY number of
    threads and ANY queues.  Tie to the code: real OS threads through the cfg(callbag_verif)
    hooks under the token-passing scheduler, compared event by event with this model. *)
From CB Require Import Threads ThreadSpec ThreadsFine ThreadsTakeMerge ThreadsTakeCombine Inv_threads_take
  Inv_threads_takemerge Inv_threads_take_fine Inv_threads_takecombine Inv_threads_total
  Inv_threads_always ThreadsTakeMergeFine Inv_threads_takemerge_fine Inv_threads_takemerge_fine2.

Theorem C19_safe max qs s :
  tk_reach max qs s ->
  count is_begin_data (tks_tr s) <= max /\ count is_up_term (tks_tr s) <= 1
  /\ count is_begin_term (tks_tr s) <= 1.
Proof. exact (@take_threads_safe max qs s). Qed.
Print Assumptions C19_safe.

Theorem C19_complete max qs s :
  1 <= max -> tk_reach max qs s -> (forall t, tk_finished s t = true) ->
  max <= count is_begin_data (tks_tr s) ->
  count is_up_term (tks_tr s) = 1 /\ count is_begin_term (tks_tr s) = 1.
Proof. exact (@take_threads_complete max qs s). Qed.
Print Assumptions C19_complete.

(** what the driver runs: any schedule, then the remaining threads drained in index order *)
Theorem C19_driver_run max qs n sch fuel :
  1 <= max -> (forall t, n <= t -> qs t = []) ->
  let s := run_full (tk_step true max) tk_finished n sch fuel (tk_init qs) in
  first_unfinished tk_finished n s = None ->
  take_check max (rev (tks_tr s)) = [].
Proof. exact (@run_full_check_n max qs n sch fuel). Qed.
Print Assumptions C19_driver_run.

(** the code as it was on the pinned tree (load, then fetch_add) is refuted by a schedule *)
Theorem C19_unfixed_refuted :
  exists qs sch,
    let s := run_full (tk_step false 1) tk_finished 2 sch 50 (tk_init qs) in
    count is_begin_data (tks_tr s) = 2 /\ ~ count is_begin_data (tks_tr s) <= 1.
Proof. exact take_threads_unfixed_refuted. Qed.
Print Assumptions C19_unfixed_refuted.

(** ** take(max) behind merge! of n member threads (ThreadsTakeMerge.v: the composition of the two
    racing operators, compared with the crate step by step).  [xm_reach] closes the initial state under
    [xm_step true max n s t] for every thread: every schedule; ANY number of members may fail. *)

Theorem C19_takemerge_safe max n qs fins s :
  xm_reach max n qs fins s ->
  count is_begin_data (xms_tr s) <= max
  /\ count is_begin_term (xms_tr s) <= 1
  /\ (forall j, count (is_up_term_of j) (xms_tr s) <= 1)
  /\ existsb is_panic (xms_tr s) = false.
Proof. exact (@takemerge_safe max n qs fins s). Qed.
Print Assumptions C19_takemerge_safe.

(** once max data were delivered and everything is quiet the sink has been ended exactly once ... *)
Theorem C19_takemerge_complete max n qs fins s :
  1 <= max -> xm_reach max n qs fins s -> (forall t, t < n -> xm_finished s t = true) ->
  max <= count is_begin_data (xms_tr s) -> count is_begin_term (xms_tr s) = 1.
Proof. exact (@takemerge_complete max n qs fins s). Qed.
Print Assumptions C19_takemerge_complete.

(** ... and take has ended its upstream: every member was told to stop exactly once, or had ended by itself *)
Theorem C19_takemerge_members_stopped max n qs fins s :
  1 <= max -> xm_reach max n qs fins s -> (forall t, t < n -> xm_finished s t = true) ->
  max <= count is_begin_data (xms_tr s) ->
  forall j, j < n -> count (is_up_term_of j) (xms_tr s) = 1
                     \/ (xm_q (xms_th s j) = [] /\ fins j <> FinNone /\ xms_stopped s j = false).
Proof. exact (@takemerge_members_stopped max n qs fins s). Qed.
Print Assumptions C19_takemerge_members_stopped.

Theorem C19_takemerge_order max n qs fins s t :
  xm_reach max n qs fins s -> is_prefix (delivered_by t (rev (xms_tr s))) (qs t) = true.
Proof. exact (@takemerge_order max n qs fins s t). Qed.
Print Assumptions C19_takemerge_order.

Theorem C19_takemerge_driver_run max n qs fins nth sch fuel :
  1 <= max ->
  let s := run_full (xm_step true max n) xm_finished nth sch fuel (xm_init n qs fins) in
  (forall t, t < n -> xm_finished s t = true) -> takemerge_check max (rev (xms_tr s)) = [].
Proof. exact (@takemerge_driver_final max n qs fins nth sch fuel). Qed.
Print Assumptions C19_takemerge_driver_run.

(** the code before 7f77d2f (H11): a member failing while the delivery that reaches max is in progress
    ends the sink twice *)
Theorem C19_takemerge_unfixed_refuted :
  let s := run_full (xm_step false 1 2) xm_finished 2 h11_sched 400 (xm_init 2 h11_qs h11_fins) in
  (forall t, t < 2 -> xm_finished s t = true) /\ count is_begin_term (xms_tr s) = 2
  /\ In TvSinkTermTwice (takemerge_check 1 (rev (xms_tr s))).
Proof. exact takemerge_unfixed_refuted. Qed.
Print Assumptions C19_takemerge_unfixed_refuted.

(** ** take at the granularity of every shared-state access: the delivery that reaches max claims the end
    ([end.swap(true)]) and reads the talkback cell before it stops the upstream and completes the sink; in
    between [end] is set and nothing has been sent yet ([tkf_step], ThreadsFine.v: what the driver runs for a
    take script with free=1) *)

Theorem C19_fine_safe max qs s :
  tkf_reach max qs s ->
  count is_begin_data (tks_tr s) <= max /\ count is_up_term (tks_tr s) <= 1
  /\ count is_begin_term (tks_tr s) <= 1.
Proof. exact (@take_fine_safe max qs s). Qed.
Print Assumptions C19_fine_safe.

Theorem C19_fine_complete max qs s :
  1 <= max -> tkf_reach max qs s -> (forall t, tk_finished s t = true) ->
  max <= count is_begin_data (tks_tr s) ->
  count is_up_term (tks_tr s) = 1 /\ count is_begin_term (tks_tr s) = 1.
Proof. exact (@take_fine_complete max qs s). Qed.
Print Assumptions C19_fine_complete.

Theorem C19_fine_driver_run max qs n sch fuel :
  1 <= max -> (forall t, n <= t -> qs t = []) ->
  let s := run_full (tkf_step max) tk_finished n sch fuel (tk_init qs) in
  first_unfinished tk_finished n s = None ->
  take_check max (rev (tks_tr s)) = [].
Proof. exact (@take_fine_driver_run max qs n sch fuel). Qed.
Print Assumptions C19_fine_driver_run.

(** ** take(max) behind combine! of n member threads (ThreadsTakeCombine.v; the README's
    [pipe!(combine!(interval, interval), ..., take(n), ...)] shape), every schedule, any endings *)

Theorem C19_takecombine_safe max n qs fins s : 1 <= n -> xc_reach max n qs fins s ->
  count is_begin_data (xcs_tr s) <= max
  /\ count is_begin_term (xcs_tr s) <= 1
  /\ (forall j, count (is_up_term_of j) (xcs_tr s) <= 1)
  /\ xcs_panicked s = false /\ existsb is_panic (xcs_tr s) = false.
Proof. exact (@takecombine_safe max n qs fins s). Qed.
Print Assumptions C19_takecombine_safe.

(** only complete tuples made of values actually sent reach the sink *)
Theorem C19_takecombine_tuples max n qs fins s : 1 <= n -> xc_reach max n qs fins s ->
  forall t x, In (t, TBegin (DD x)) (xcs_tr s) ->
  exists l, x = VT l /\ length l = n /\ tuple_ok qs 0 l = true.
Proof. exact (@takecombine_tuples max n qs fins s). Qed.
Print Assumptions C19_takecombine_tuples.

Theorem C19_takecombine_complete max n qs fins s : 1 <= n -> 1 <= max -> xc_reach max n qs fins s ->
  (forall t, t < n -> xc_finished s t = true) ->
  max <= count is_begin_data (xcs_tr s) -> count is_begin_term (xcs_tr s) = 1.
Proof. exact (@takecombine_complete max n qs fins s). Qed.
Print Assumptions C19_takecombine_complete.

(** take ended its upstream: combine's sink talkback told EVERY member to stop, exactly once *)
Theorem C19_takecombine_members_stopped max n qs fins s : 1 <= n -> 1 <= max -> xc_reach max n qs fins s ->
  (forall t, t < n -> xc_finished s t = true) -> max <= count is_begin_data (xcs_tr s) ->
  forall j, j < n -> count (is_up_term_of j) (xcs_tr s) = 1.
Proof. exact (@takecombine_members_stopped max n qs fins s). Qed.
Print Assumptions C19_takecombine_members_stopped.

Theorem C19_takecombine_driver_run max n qs fins nth sch fuel : 1 <= n -> 1 <= max ->
  let s := run_full (xc_step true max n) xc_finished nth sch fuel (xc_init n qs fins) in
  xcs_panicked s = false /\
  ((forall t, t < n -> xc_finished s t = true) -> takecombine_check max n qs (rev (xcs_tr s)) = []).
Proof. exact (@takecombine_driver_final max n qs fins nth sch fuel). Qed.
Print Assumptions C19_takecombine_driver_run.

(** ** every run of the driver finishes every thread (no deadlock, no livelock), any schedule *)

Theorem C19_run_total max qs nth sch fuel : fuel >= take_fuel qs nth ->
  let s := run_full (tk_step true max) tk_finished nth sch fuel (tk_init qs) in
  forall t, t < nth -> tk_finished s t = true.
Proof. exact (@take_run_full_total max qs nth sch fuel). Qed.
Print Assumptions C19_run_total.

Theorem C19_fine_run_total max qs nth sch fuel : fuel >= take_fuel qs nth ->
  let s := run_full (tkf_step max) tk_finished nth sch fuel (tk_init qs) in
  forall t, t < nth -> tk_finished s t = true.
Proof. exact (@take_fine_run_full_total max qs nth sch fuel). Qed.
Print Assumptions C19_fine_run_total.

Theorem C19_takemerge_run_total max n qs fins nth sch fuel : fuel >= takemerge_fuel n qs nth ->
  let s := run_full (xm_step true max n) xm_finished nth sch fuel (xm_init n qs fins) in
  forall t, t < nth -> xm_finished s t = true.
Proof. exact (@takemerge_run_full_total max n qs fins nth sch fuel). Qed.
Print Assumptions C19_takemerge_run_total.

Theorem C19_takecombine_run_total max n qs fins nth sch fuel : fuel >= takecombine_fuel n qs nth ->
  let s := run_full (xc_step true max n) xc_finished nth sch fuel (xc_init n qs fins) in
  forall t, t < nth -> xc_finished s t = true.
Proof. exact (@takecombine_run_full_total max n qs fins nth sch fuel). Qed.
Print Assumptions C19_takecombine_run_total.

(** the two halves together, take behind merge!: whatever the schedule and however many members fail, with
    enough fuel the run ends and passes the whole check *)
Theorem C19_takemerge_always_passes max n qs fins sch fuel :
  1 <= max -> fuel >= takemerge_fuel n qs n ->
  takemerge_check max (rev (xms_tr (run_full (xm_step true max n) xm_finished n sch fuel (xm_init n qs fins)))) = [].
Proof. exact (@takemerge_always_passes max n qs fins sch fuel). Qed.
Print Assumptions C19_takemerge_always_passes.

(** ... take behind combine!, any endings ... *)
Theorem C19_takecombine_always_passes max n qs fins sch fuel :
  1 <= n -> 1 <= max -> fuel >= takecombine_fuel n qs n ->
  takecombine_check max n qs
    (rev (xcs_tr (run_full (xc_step true max n) xc_finished n sch fuel (xc_init n qs fins)))) = [].
Proof. exact (@takecombine_always_passes max n qs fins sch fuel). Qed.
Print Assumptions C19_takecombine_always_passes.

(** ... and take alone *)
Theorem C19_always_passes max qs n sch fuel :
  1 <= max -> (forall t, n <= t -> qs t = []) -> fuel >= take_fuel qs n ->
  take_check max (rev (tks_tr (run_full (tk_step true max) tk_finished n sch fuel (tk_init qs)))) = [].
Proof. exact (@take_always_passes max qs n sch fuel). Qed.
Print Assumptions C19_always_passes.

(** ** take behind merge! with EVERY shared-state access a step (ThreadsTakeMergeFine.v): the sink side (take at
    max) ends merge's output one cell access at a time, racing with greeting, completing and failing members.
    The model has the known finding KF4 as the crate has it (a datum overtaking the first greeter's Handshake
    makes take panic on its empty talkback cell). *)

(** unconditional: any endings, any order of greeting and data *)
Theorem C19_takemerge_fine_safe max n qs fins s : xf_reach max n qs fins s ->
  count is_begin_data (xfs_tr s) <= max
  /\ count is_begin_term (xfs_tr s) <= 1
  /\ (forall j, count (is_up_term_of j) (xfs_tr s) <= 1).
Proof. exact (@takemerge_fine_safe max n qs fins s). Qed.
Print Assumptions C19_takemerge_fine_safe.

(** a panic happens only in the class of KF4: some delivery began before the greeting *)
Theorem C19_takemerge_fine_panic_only_kf4 max n qs fins s : xf_reach max n qs fins s ->
  before_greet_ok (rev (xfs_tr s)) = true -> existsb is_panic (xfs_tr s) = false.
Proof. exact (@takemerge_fine_panic_only_kf4 max n qs fins s). Qed.
Print Assumptions C19_takemerge_fine_panic_only_kf4.

Theorem C19_takemerge_fine_complete max n qs fins s : 1 <= max -> xf_reach max n qs fins s ->
  (forall t, t < n -> xf_finished s t = true) -> before_greet_ok (rev (xfs_tr s)) = true ->
  max <= count is_begin_data (xfs_tr s) -> count is_begin_term (xfs_tr s) = 1.
Proof. exact (@takemerge_fine_complete max n qs fins s). Qed.
Print Assumptions C19_takemerge_fine_complete.

Theorem C19_takemerge_fine_driver_run max n qs fins nth sch fuel : 1 <= max ->
  let s := run_full (xf_step max n) xf_finished nth sch fuel (xf_init n qs fins) in
  (forall t, t < n -> xf_finished s t = true) -> before_greet_ok (rev (xfs_tr s)) = true ->
  takemerge_check max (rev (xfs_tr s)) = [].
Proof. exact (@takemerge_fine_driver_final max n qs fins nth sch fuel). Qed.
Print Assumptions C19_takemerge_fine_driver_run.

Theorem C19_takemerge_fine_run_total max n qs fins nth sch fuel : fuel >= takemerge_fine_fuel n qs nth ->
  let s := run_full (xf_step max n) xf_finished nth sch fuel (xf_init n qs fins) in
  forall t, t < nth -> xf_finished s t = true.
Proof. exact (@takemerge_fine_run_full_total max n qs fins nth sch fuel). Qed.
Print Assumptions C19_takemerge_fine_run_total.

(** KF4 itself, machine-checked: take(1) behind merge of 3, member 0's datum overtakes member 1's greeting *)
Theorem C19_takemerge_fine_kf4_witness :
  let qs := fun t => match t with 0 => [VN 6; VN 9; VN 3] | 1 => [VN 5; VN 1; VN 6] | _ => [] end in
  let s := run_full (xf_step 1 3) xf_finished 3 [2;0;1;2;1;1;0;0;0] 400 (xf_init 3 qs (fun _ => FinNone)) in
  existsb is_panic (xfs_tr s) = true /\ before_greet_ok (rev (xfs_tr s)) = false
  /\ In TvPanic (takemerge_check 1 (rev (xfs_tr s))).
Proof. exact takemerge_fine_kf4_witness. Qed.
Print Assumptions C19_takemerge_fine_kf4_witness.

(** take ends its upstream also when merge's sink-side sweep walks the cells one access at a time while
    members greet, complete and fail concurrently (the Dekker argument for both kinds of sweeper) *)
Theorem C19_takemerge_fine_members_stopped max n qs fins s : 1 <= max -> xf_reach max n qs fins s ->
  (forall t, t < n -> xf_finished s t = true) -> before_greet_ok (rev (xfs_tr s)) = true ->
  max <= count is_begin_data (xfs_tr s) ->
  forall j, j < n -> count (is_up_term_of j) (xfs_tr s) = 1
                     \/ (xf_q (xfs_th s j) = [] /\ fins j <> FinNone /\ xfs_stopped s j = false).
Proof. exact (@takemerge_fine_members_stopped max n qs fins s). Qed.
Print Assumptions C19_takemerge_fine_members_stopped.

(** the two halves together at that granularity: every run ends, and unless a delivery overtook the greeting
    (KF4) the finished trace passes the whole check *)
Theorem C19_takemerge_fine_always_passes max n qs fins sch fuel :
  1 <= max -> fuel >= takemerge_fine_fuel n qs n ->
  let s := run_full (xf_step max n) xf_finished n sch fuel (xf_init n qs fins) in
  before_greet_ok (rev (xfs_tr s)) = true -> takemerge_check max (rev (xfs_tr s)) = [].
Proof. exact (@takemerge_fine_always_passes max n qs fins sch fuel). Qed.
Print Assumptions C19_takemerge_fine_always_passes.
