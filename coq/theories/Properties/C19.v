(** Property C19 - take(n) never over-delivers when deliveries race.
    Theorems only.  The model is the interleaving semantics of Threads.v (one scheduling point per
    instrumented access, sequential consistency); [tk_reach] closes the initial state under
    [tk_step true max s t] for every thread [t], i.e. under EVERY schedule, for ANY number of
    threads and ANY queues.  Tie to the code: real OS threads through the cfg(callbag_verif)
    hooks under the token-passing scheduler, compared event by event with this model. *)
From CB Require Import Threads ThreadSpec Inv_threads_take.

Theorem C19_safe max qs s :
  tk_reach max qs s ->
  count is_begin_data (tks_tr s) <= max /\ count is_up_term (tks_tr s) <= 1
  /\ count is_begin_term (tks_tr s) <= 1.
Proof. exact (@take_threads_safe max qs s). Qed.
Print Assumptions C19_safe.

Theorem C19_complete max qs s :
  1 <= max -> tk_reach max qs s -> (forall t, tk_finished s t = true) ->
  max <= count is_begin_data (tks_tr s) ->
  count is_up_term (tks_tr s) = 1 /\ count is_begin_term (tks_tr s) = 1.
Proof. exact (@take_threads_complete max qs s). Qed.
Print Assumptions C19_complete.

(** what the driver runs: any schedule, then the remaining threads drained in index order *)
Theorem C19_driver_run max qs n sch fuel :
  1 <= max -> (forall t, n <= t -> qs t = []) ->
  let s := run_full (tk_step true max) tk_finished n sch fuel (tk_init qs) in
  first_unfinished tk_finished n s = None ->
  take_check max (rev (tks_tr s)) = [].
Proof. exact (@run_full_check_n max qs n sch fuel). Qed.
Print Assumptions C19_driver_run.

(** the code as it was on the pinned tree (load, then fetch_add) is refuted by a schedule *)
Theorem C19_unfixed_refuted :
  exists qs sch,
    let s := run_full (tk_step false 1) tk_finished 2 sch 50 (tk_init qs) in
    count is_begin_data (tks_tr s) = 2 /\ ~ count is_begin_data (tks_tr s) <= 1.
Proof. exact take_threads_unfixed_refuted. Qed.
Print Assumptions C19_unfixed_refuted.
