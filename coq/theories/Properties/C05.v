(** Property C05 - errors are not lost.
    Theorems only.  [errors_ok] (Results.v) is the statement that the two error clauses of the
    protocol monitor never fire; see there and Machine.v ([err_due], [check_call], [check_quiescent])
    for their exact meaning.  combine is the recorded exception (KF1), with its witness. *)
From CB Require Import ProofLib Spec MonitorSound Results.
From CB Require Import Inv_map Inv_filter Inv_scan Inv_skip Inv_take Inv_merge Inv_concat Inv_combine Inv_share Inv_flatten.

Theorem C05_map (f : val -> val) p (c : cfg (map_op f)) :
  nsinks p = 1 -> resub p = false -> no_nest p = false -> c14 p = false -> reach p g_std c -> errors_ok (ms c).
Proof. exact (fun H1 H2 H3 H4 Hc => @errors_ok_nil _ (proj1 (@map_safe f p H1 H2 H3 H4 c Hc))). Qed.
Print Assumptions C05_map.

Theorem C05_filter (cond : val -> bool) p (c : cfg (filter_op cond)) :
  nsinks p = 1 -> resub p = false -> no_nest p = false -> c14 p = false -> reach p g_std c -> errors_ok (ms c).
Proof. exact (fun H1 H2 H3 H4 Hc => @errors_ok_nil _ (proj1 (@filter_safe cond p H1 H2 H3 H4 c Hc))). Qed.
Print Assumptions C05_filter.

Theorem C05_scan (r : val -> val -> val) (seed : val) p (c : cfg (scan_op r seed)) :
  nsinks p = 1 -> resub p = false -> no_nest p = false -> c14 p = false -> reach p g_std c -> errors_ok (ms c).
Proof. exact (fun H1 H2 H3 H4 Hc => @errors_ok_nil _ (proj1 (@scan_safe r seed p H1 H2 H3 H4 c Hc))). Qed.
Print Assumptions C05_scan.

Theorem C05_skip (max : nat) p (c : cfg (skip_op max)) :
  nsinks p = 1 -> resub p = false -> no_nest p = false -> c14 p = false -> reach p g_std c -> errors_ok (ms c).
Proof. exact (fun H1 H2 H3 H4 Hc => @errors_ok_nil _ (proj1 (@skip_safe max p H1 H2 H3 H4 c Hc))). Qed.
Print Assumptions C05_skip.

Theorem C05_take (max : nat) p (c : cfg (take_op max)) :
  1 <= max -> nsinks p = 1 -> resub p = false -> no_nest p = false -> c14 p = false -> reach p g_std c -> errors_ok (ms c).
Proof. exact (fun Hm H1 H2 H3 H4 Hc => @errors_ok_nil _ (proj1 (@take_safe p H1 H2 H3 H4 max Hm c Hc))). Qed.
Print Assumptions C05_take.

Theorem C05_merge (n : nat) p (c : cfg (merge_op n)) :
  1 <= n -> nsinks p = 1 -> resub p = false -> no_nest p = false -> c14 p = false -> late_ok p = true -> reach p g_std c -> errors_ok (ms c).
Proof. exact (fun Hm H1 H2 H3 H4 H5 Hc => @errors_ok_nil _ (proj1 (@merge_safe p H1 H2 H3 H4 H5 n Hm c Hc))). Qed.
Print Assumptions C05_merge.

Theorem C05_concat (n : nat) p (c : cfg (concat_op n)) :
  nsinks p = 1 -> resub p = false -> no_nest p = false -> c14 p = false -> late_ok p = false -> reach p g_std c -> errors_ok (ms c).
Proof. exact (fun H1 H2 H3 H4 H5 Hc => @errors_ok_nil _ (proj1 (@concat_safe n p H1 H2 H3 H4 H5 c Hc))). Qed.
Print Assumptions C05_concat.

Theorem C05_flatten p (c : cfg flatten_op) :
  nsinks p = 1 -> resub p = false -> no_nest p = false -> c14 p = false -> late_ok p = false -> reach p g_flatten c -> errors_ok (ms c).
Proof. exact (fun H1 H2 H3 H4 H5 Hc => @errors_ok_nil _ (proj1 (@flatten_safe p H1 H2 H3 H4 H5 c Hc))). Qed.
Print Assumptions C05_flatten.

Theorem C05_share p (c : cfg share_op) :
  resub p = true -> no_nest p = false -> c14 p = false -> late_ok p = false -> reach p g_share c -> errors_ok (ms c).
Proof. exact (fun H1 H2 H3 H4 Hc => @errors_ok_nil _ (proj1 (@share_safe p H1 H2 H3 H4 c Hc))). Qed.
Print Assumptions C05_share.

(** combine: the full statement is false of the faithful model (and of the crate: the witness
    script is replayed on every run, KNOWN-FINDING KF1) *)
Theorem C05_combine_refuted :
  all_enabled p_std g_std (cfg0 (combine_op 2)) kf1_script = true
  /\ In (VErrLost 0) (viols (ms (run p_std (combine_op 2) kf1_script))).
Proof. exact combine_c05_refuted. Qed.
Print Assumptions C05_combine_refuted.

(** ... but an Error that does reach the sink is never a forged one, and nothing else goes wrong *)
Theorem C05_combine_partial (n : nat) p (c : cfg (combine_op n)) :
  1 <= n -> std p -> reach p g_std c -> forall s, ~ In (VErrChanged s) (viols (ms c)).
Proof.
  exact (fun Hn Hs Hc s Hin =>
           proj1 (Forall_forall _ _) (proj2 (combine_known Hn Hs Hc)) _ Hin).
Qed.
Print Assumptions C05_combine_partial.
