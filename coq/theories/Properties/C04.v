(** Property C04 - no orphaned or doubly-terminated upstream
    Theorems only: statement, [exact], [Print Assumptions].  The statements are about the model
    (coq/theories/Ops.v) under the conformant environment (Machine.v: [reach]); the readable trace
    predicates are defined in MonitorSound.v, the parameter regimes in Results.v.  How each
    statement renders the property, and how the model is tied to /repo, is in DESIGN.md. *)
From CB Require Import ProofLib Spec MonitorSound Results.
From CB Require Import Inv_combine Inv_share.
From CB Require Import Chain Programs Tree TreePrograms.

Theorem C04_map (f : val -> val) p (c : cfg (map_op f)) :
  std p -> reach p g_std c -> forall i, sub_once i (trace c) /\ talkback_only_live i (trace c) /\ stop_once i (trace c) /\ no_pull_outside i (trace c).
Proof. exact (fun H Hc => pk_c04 (map_protocol H Hc)). Qed.
Print Assumptions C04_map.

Theorem C04_filter (cond : val -> bool) p (c : cfg (filter_op cond)) :
  std p -> reach p g_std c -> forall i, sub_once i (trace c) /\ talkback_only_live i (trace c) /\ stop_once i (trace c) /\ no_pull_outside i (trace c).
Proof. exact (fun H Hc => pk_c04 (filter_protocol H Hc)). Qed.
Print Assumptions C04_filter.

Theorem C04_scan (r : val -> val -> val) (seed : val) p (c : cfg (scan_op r seed)) :
  std p -> reach p g_std c -> forall i, sub_once i (trace c) /\ talkback_only_live i (trace c) /\ stop_once i (trace c) /\ no_pull_outside i (trace c).
Proof. exact (fun H Hc => pk_c04 (scan_protocol H Hc)). Qed.
Print Assumptions C04_scan.

Theorem C04_skip (max : nat) p (c : cfg (skip_op max)) :
  std p -> reach p g_std c -> forall i, sub_once i (trace c) /\ talkback_only_live i (trace c) /\ stop_once i (trace c) /\ no_pull_outside i (trace c).
Proof. exact (fun H Hc => pk_c04 (skip_protocol H Hc)). Qed.
Print Assumptions C04_skip.

Theorem C04_take (max : nat) p (c : cfg (take_op max)) (Hmax : 1 <= max) :
  std p -> reach p g_std c -> forall i, sub_once i (trace c) /\ talkback_only_live i (trace c) /\ stop_once i (trace c) /\ no_pull_outside i (trace c).
Proof. exact (fun H Hc => pk_c04 (take_protocol Hmax H Hc)). Qed.
Print Assumptions C04_take.

Theorem C04_for_each p (c : cfg for_each_op) :
  std p -> reach p g_std c -> forall i, sub_once i (trace c) /\ talkback_only_live i (trace c) /\ stop_once i (trace c) /\ no_pull_outside i (trace c).
Proof. exact (fun H Hc => pk_c04 (for_each_protocol H Hc)). Qed.
Print Assumptions C04_for_each.

Theorem C04_merge (n : nat) p (c : cfg (merge_op n)) (Hn : 1 <= n) :
  std_late p -> reach p g_std c -> forall i, sub_once i (trace c) /\ talkback_only_live i (trace c) /\ stop_once i (trace c) /\ no_pull_outside i (trace c).
Proof. exact (fun H Hc => pk_c04 (merge_protocol Hn H Hc)). Qed.
Print Assumptions C04_merge.

Theorem C04_concat (n : nat) p (c : cfg (concat_op n)) :
  std p -> reach p g_std c -> forall i, sub_once i (trace c) /\ talkback_only_live i (trace c) /\ stop_once i (trace c) /\ no_pull_outside i (trace c).
Proof. exact (fun H Hc => pk_c04 (concat_protocol H Hc)). Qed.
Print Assumptions C04_concat.

(** flatten: every emitted inner is a fresh source (guard [g_flatten]) *)
Theorem C04_flatten p (c : cfg flatten_op) :
  std p -> reach p g_flatten c -> forall i, sub_once i (trace c) /\ talkback_only_live i (trace c) /\ stop_once i (trace c) /\ no_pull_outside i (trace c).
Proof. exact (fun H Hc => pk_c04 (flatten_protocol H Hc)). Qed.
Print Assumptions C04_flatten.

(** combine (every arity n >= 1).  combine has recorded deviations (known_findings.json: KF1, KF2);
    the theorem is that the monitor never records anything *but* those four kinds, so the
    kinds of this property never occur. *)
Theorem C04_combine (n : nat) p (c : cfg (combine_op n)) :
  1 <= n -> std p -> reach p g_std c -> (forall i, ~ In (VSubTwice i) (viols (ms c)) /\ ~ In (VSubAfterOver i) (viols (ms c)) /\ ~ In (VUpEarly i) (viols (ms c)) /\ ~ In (VStopAfterStop i) (viols (ms c)) /\ ~ In (VOrphan i) (viols (ms c))).
Proof. exact (@combine_c04 n p c). Qed.
Print Assumptions C04_combine.

(** ** programs: every component of every linear pipeline
    [pipe!(from_iter(it), stages.. [, for_each(f)])] with stages from map/filter/scan/take/skip, of any
    length, in every reachable state of the wired components (composition theorem, Chain.v/Programs.v) *)
Theorem C04_pipeline it stages b N :
  Forall ustage_ok stages -> net_reach (pipe_net it stages b) N ->
  forall i n, nth_error (nodes N) i = Some n ->
  forall j, sub_once j (ntrace n) /\ talkback_only_live j (ntrace n) /\ stop_once j (ntrace n)
            /\ no_pull_outside j (ntrace n).
Proof. exact (fun Hok Hr i n Hn => pk_c04 (proj1 (@pipeline_protocol it stages b N Hok Hr i n Hn))). Qed.
Print Assumptions C04_pipeline.

(** ** programs: every component of every TREE of from_iter / interval leaves and map / filter / scan /
    take / skip / merge! / concat! nodes (for_each at roots), wired child to parent port, in every
    reachable state, whatever the external peers do (composition theorem for trees, Tree.v/TreePrograms.v;
    combine! is excluded: its broadcast to ended members, KF2, breaks its children's assumptions) *)
Theorem C04_program (ts : list tnode) (es : list edge) (N : tnet) :
  Forall tnode_ok ts -> edges_okb es (length ts) = true ->
  (forall e, In e es -> nth_error ts (e_child e) <> Some TSink) ->
  tnet_reach (wiring_of es) (prog_net ts) N ->
  forall i n, nth_error (tnodes N) i = Some n ->
  forall j, sub_once j (ntrace n) /\ talkback_only_live j (ntrace n) /\ stop_once j (ntrace n)
            /\ no_pull_outside j (ntrace n).
Proof. exact (fun Hok He Hs Hr i n Hn => pk_c04 (proj1 (@program_protocol ts es N Hok He Hs Hr i n Hn))). Qed.
Print Assumptions C04_program.
