(** Property C07 - unary operators are incremental list functions
    Theorems only: statement, [exact], [Print Assumptions] (statements restated verbatim from the
    Inv_*.v files where they are proved).  See DESIGN.md section 5 for how each renders the property. *)
From CB Require Import ProofLib Spec MonitorSound Results.
From CB Require Import Inv_map Inv_filter Inv_scan Inv_skip Inv_take Inv_take_end.

(** at every control point: delivered = map f received *)
Theorem C07_map_functional (f : val -> val) p :
  nsinks p = 1 -> resub p = false -> no_nest p = false -> c14 p = false ->
  forall c : cfg (map_op f), reach p g_std c ->
    data_out 0 (trace c) = map f (data_in 0 (trace c)).
Proof. exact (@map_functional_top f p). Qed.
Print Assumptions C07_map_functional.

Theorem C07_filter_functional (cond : val -> bool) p :
  nsinks p = 1 -> resub p = false -> no_nest p = false -> c14 p = false ->
  forall c : cfg (filter_op cond),
    reach p g_std c -> data_out 0 (trace c) = filter cond (data_in 0 (trace c)).
Proof. exact (@filter_functional cond p). Qed.
Print Assumptions C07_filter_functional.

Theorem C07_scan_functional (reducer : val -> val -> val) (seed : val) p :
  nsinks p = 1 -> resub p = false -> no_nest p = false -> c14 p = false ->
  forall c : cfg (scan_op reducer seed),
    reach p g_std c -> data_out 0 (trace c) = scan_list reducer seed (data_in 0 (trace c)).
Proof. exact (@scan_functional reducer seed p). Qed.
Print Assumptions C07_scan_functional.

Theorem C07_skip_functional (max : nat) p :
  nsinks p = 1 -> resub p = false -> no_nest p = false -> c14 p = false ->
  forall c : cfg (skip_op max),
    reach p g_std c -> data_out 0 (trace c) = skipn max (data_in 0 (trace c)).
Proof. exact (@skip_functional max p). Qed.
Print Assumptions C07_skip_functional.

Theorem C07_take_functional p :
  nsinks p = 1 -> resub p = false -> no_nest p = false -> c14 p = false ->
  forall max, 1 <= max ->
  forall c : cfg (take_op max), reach p g_std c ->
  data_out 0 (trace c) = firstn max (data_in 0 (trace c)).
Proof. exact (@take_functional p). Qed.
Print Assumptions C07_take_functional.

(** take completes the sink and stops upstream right after the nth item *)
Theorem C07_take_complete p :
  nsinks p = 1 -> resub p = false -> no_nest p = false -> c14 p = false ->
  forall max, 1 <= max ->
  forall c : cfg (take_op max), reach p g_std c ->
  ndata (ms c) 0 <= max /\
  (stack c = [] -> max <= ndata (ms c) 0 -> sk (ms c) 0 <> SLive /\ us (ms c) 0 <> ULive).
Proof. exact (@take_complete p). Qed.
Print Assumptions C07_take_complete.

(** sink and upstream end together (paired: SFinished <-> UEnded, SDisposed <-> UStopped) *)
Theorem C07_filter_paired (cond : val -> bool) p :
  nsinks p = 1 -> resub p = false -> no_nest p = false -> c14 p = false ->
  forall c : cfg (filter_op cond), reach p g_std c -> paired (sk (ms c) 0) (us (ms c) 0).
Proof. exact (@filter_paired cond p). Qed.
Print Assumptions C07_filter_paired.

Theorem C07_scan_paired (reducer : val -> val -> val) (seed : val) p :
  nsinks p = 1 -> resub p = false -> no_nest p = false -> c14 p = false ->
  forall c : cfg (scan_op reducer seed), reach p g_std c -> paired (sk (ms c) 0) (us (ms c) 0).
Proof. exact (@scan_paired reducer seed p). Qed.
Print Assumptions C07_scan_paired.

Theorem C07_skip_paired (max : nat) p :
  nsinks p = 1 -> resub p = false -> no_nest p = false -> c14 p = false ->
  forall c : cfg (skip_op max), reach p g_std c -> paired (sk (ms c) 0) (us (ms c) 0).
Proof. exact (@skip_paired max p). Qed.
Print Assumptions C07_skip_paired.

(** take claims its end with [end.swap(true)] on every path (fix 7f77d2f): in the conformant sequential
    environment the flag is unset whenever the source can end, so the end of the source always reaches
    the sink ([paired]); the guard only matters under threads (C19) *)
Theorem C07_take_end_unset_when_source_ends p :
  nsinks p = 1 -> resub p = false -> no_nest p = false -> c14 p = false ->
  forall max, 1 <= max ->
  forall (c : cfg (take_op max)) (m : dmsg),
  reach p g_std c -> (m = DT \/ exists e, m = DE e) ->
  enabled p g_std c (MIn (IDn 0 m)) = true -> tk_end (cst c) = false.
Proof. exact (@take_end_unset_when_source_ends p). Qed.
Print Assumptions C07_take_end_unset_when_source_ends.
