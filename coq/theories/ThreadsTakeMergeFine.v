(** * ThreadsTakeMergeFine: take(max) behind merge! at the granularity of EVERY shared-state access

    [ThreadsTakeMerge.v] with the talkback cells as steps of their own, as [ThreadsFine.v] does for
    merge! alone.  What this adds over both: the party that ends merge's output here can be the
    SINK (take reaching max calls merge's sink talkback, which sets [ended] and then takes every
    member's talkback out of its cell, one access per cell), racing at cell granularity with a
    member that is greeting ([store] its cell, [load] ended, [swap] its own cell) or completing
    ([store(None)]) or failing (its own sweep over the siblings' cells).  The repair 13d4e7e rewrote
    the sink-side sweep as well; [ThreadsFine.v] only has failing members as ending parties.

    Writing this model exposed a genuine defect (KF4, DESIGN.md 1.2): merge! lets a member's datum through
    to its sink before the thread of the FIRST greeter has delivered the sink's Handshake (nothing orders
    the two; for merge! alone no instrumented access lies in that window, here take's own cell store
    does).  If that datum is the max-th, take reads its still empty talkback cell and panics
    ([XfAtTakeTbLoad]).  The model has the panic, as the crate has; the theorems are stated for the runs in
    which no delivery begins before the greeting ([before_greet_ok]).

    Accesses in the order of /repo/src/merge.rs and /repo/src/take.rs:

      greeting   source_talkbacks[i].store(Some)      XfAtPublish
                 ended.load()                          XfAtEndedLoad
                 source_talkbacks[i].swap(None)        XfAtSelfSwap        (saw ended)
                 start_count.fetch_add(1)              XfAtStartInc
                 take: source_talkback.store(Some)     XfAtTakeTbStore     (the first greeter greets take)
                 (sink Handshake)                      XfInGreet
      Data v     taken.fetch_update(..)                XfAtTaken v
                 (sink Data)                           XfInData t'
                 end.swap(true)                        XfAtEndSwap         (t' = max)
                 take: source_talkback.load()          XfAtTakeTbLoad
                 merge talkback: ended.store(true)     XfAtMgEnded
                 source_talkbacks[j].swap(None)        XfAtSweepT j        (every j, the own cell too)
                 (sink Terminate)                      XfInTerm
      Terminate  source_talkbacks[i].store(None)       XfAtClear
                 end_count.fetch_add(1)                XfAtEndInc
                 take: end.swap(true)                  XfAtEndSwapT        (last member)
                 (sink Terminate)                      XfInTermAll
      Error e    ended.store(true)                     XfAtEndedStore e
                 source_talkbacks[j].swap(None)        XfAtSweepE e j      (every j <> i)
                 take: end.swap(true)                  XfAtEndSwapE e
                 (sink Error)                          XfInErr *)

From CB Require Export ThreadSpec ThreadsFine.

Set Implicit Arguments.

Inductive xf_pc : Type :=
| XfAtPublish
| XfAtEndedLoad
| XfAtSelfSwap
| XfAtStartInc
| XfAtTakeTbStore
| XfInGreet
| XfAtTaken (v : val)
| XfInData (t' : nat)
| XfAtEndSwap
| XfAtTakeTbLoad
| XfAtMgEnded
| XfAtSweepT (j : nat)
| XfInTerm
| XfAtClear
| XfAtEndInc
| XfAtEndSwapT
| XfInTermAll
| XfAtEndedStore (e : nat)
| XfAtSweepE (e : nat) (j : nat)
| XfAtEndSwapE (e : nat)
| XfInErr
| XfFinished.

Record xf_thread : Type := mk_xf_thread { xf_pcv : xf_pc; xf_q : list val; xf_fin : final }.

Record xf_state : Type := mk_xf_state {
  xfs_start : nat; xfs_endc : nat; xfs_ended : bool;   (* merge *)
  xfs_cell : nat -> bool;
  xfs_stopped : nat -> bool;
  xfs_taken : nat; xfs_tend : bool;                    (* take *)
  xfs_ttb : bool;                                      (* take's own cell holds merge's talkback *)
  xfs_th : nat -> xf_thread;
  xfs_tr : list tevent;
}.

#[export] Instance eta_xf_thread : Settable _ := settable! mk_xf_thread <xf_pcv; xf_q; xf_fin>.
#[export] Instance eta_xf_state : Settable _ :=
  settable! mk_xf_state <xfs_start; xfs_endc; xfs_ended; xfs_cell; xfs_stopped; xfs_taken; xfs_tend;
                         xfs_ttb; xfs_th; xfs_tr>.

Section TakeMergeFine.
  Variable max : nat.
  Variable n : nat.

  Definition xf_init (qs : nat -> list val) (fins : nat -> final) : xf_state :=
    {| xfs_start := 0; xfs_endc := 0; xfs_ended := false;
       xfs_cell := fun _ => false; xfs_stopped := fun _ => false;
       xfs_taken := 0; xfs_tend := false; xfs_ttb := false;
       xfs_th := fun t => {| xf_pcv := if t <? n then XfAtPublish else XfFinished;
                             xf_q := qs t; xf_fin := fins t |};
       xfs_tr := [] |}.

  Definition xf_set (s : xf_state) (t : nat) (th : xf_thread) : xf_state :=
    s <| xfs_th := upd (xfs_th s) t th |>.
  Definition xf_emit (s : xf_state) (t : nat) (e : tev) : xf_state :=
    s <| xfs_tr := (t, e) :: xfs_tr s |>.

  (** between two calls of the member's handler *)
  Definition xf_next (s : xf_state) (t : nat) (th : xf_thread) : xf_state :=
    if xfs_stopped s t then xf_set s t (th <| xf_pcv := XfFinished |>)
    else
      match xf_q th with
      | v :: q' => xf_set s t (th <| xf_pcv := XfAtTaken v |> <| xf_q := q' |>)
      | [] =>
          match xf_fin th with
          | FinTerm => xf_set s t (th <| xf_pcv := XfAtClear |>)
          | FinErr e => xf_set s t (th <| xf_pcv := XfAtEndedStore e |>)
          | FinNone => xf_set s t (th <| xf_pcv := XfFinished |>)
          end
      end.

  (** Terminate to member [j]'s talkback, called by thread [t], which has just emptied its cell *)
  Definition xf_dispose (s : xf_state) (t j : nat) : xf_state :=
    xf_emit (s <| xfs_stopped := upd (xfs_stopped s) j true |>
               <| xfs_cell := upd (xfs_cell s) j false |>) t (TUp j UT).

  (** the sink-side sweep (every cell) arrives at index [j]; after the last cell take completes the sink *)
  Definition xf_sweepT_goto (s : xf_state) (t : nat) (th : xf_thread) (j : nat) : xf_state :=
    if j <? n then xf_set s t (th <| xf_pcv := XfAtSweepT j |>)
    else xf_set (xf_emit s t (TBegin DT)) t (th <| xf_pcv := XfInTerm |>).

  (** the failing member's sweep (every cell but its own); after the last cell take's Error arm is entered *)
  Definition xf_sweepE_goto (s : xf_state) (t : nat) (th : xf_thread) (e j : nat) : xf_state :=
    let j' := if Nat.eqb j t then S j else j in
    if j' <? n then xf_set s t (th <| xf_pcv := XfAtSweepE e j' |>)
    else xf_set s t (th <| xf_pcv := XfAtEndSwapE e |>).

  Definition xf_step (s : xf_state) (t : nat) : xf_state :=
    let th := xfs_th s t in
    match xf_pcv th with
    | XfAtPublish =>
        xf_set (s <| xfs_cell := upd (xfs_cell s) t true |>) t (th <| xf_pcv := XfAtEndedLoad |>)
    | XfAtEndedLoad =>
        xf_set s t (th <| xf_pcv := if xfs_ended s then XfAtSelfSwap else XfAtStartInc |>)
    | XfAtSelfSwap =>
        xf_next (if xfs_cell s t then xf_dispose s t t else s) t th
    | XfAtStartInc =>
        let sc := S (xfs_start s) in
        let s1 := s <| xfs_start := sc |> in
        if Nat.eqb sc 1 then xf_set s1 t (th <| xf_pcv := XfAtTakeTbStore |>)
        else xf_next s1 t th
    | XfAtTakeTbStore =>
        xf_set (xf_emit (s <| xfs_ttb := true |>) t (TBegin DH)) t (th <| xf_pcv := XfInGreet |>)
    | XfInGreet => xf_next (xf_emit s t TEnd) t th
    | XfAtTaken v =>
        if xfs_taken s <? max then
          let t' := S (xfs_taken s) in
          xf_set (xf_emit (s <| xfs_taken := t' |>) t (TBegin (DD v))) t (th <| xf_pcv := XfInData t' |>)
        else xf_next s t th
    | XfInData t' =>
        let s1 := xf_emit s t TEnd in
        if Nat.eqb t' max then xf_set s1 t (th <| xf_pcv := XfAtEndSwap |>) else xf_next s1 t th
    | XfAtEndSwap =>
        if xfs_tend s then xf_next s t th
        else xf_set (s <| xfs_tend := true |>) t (th <| xf_pcv := XfAtTakeTbLoad |>)
    | XfAtTakeTbLoad =>
        (* [.expect("source talkback not set")]: the delivery that reached max overtook the greeting (KF4) *)
        if xfs_ttb s then xf_set s t (th <| xf_pcv := XfAtMgEnded |>)
        else xf_set (xf_emit s t TPanic) t (th <| xf_pcv := XfFinished |>)
    | XfAtMgEnded => xf_sweepT_goto (s <| xfs_ended := true |>) t th 0
    | XfAtSweepT j =>
        xf_sweepT_goto (if xfs_cell s j then xf_dispose s t j else s) t th (S j)
    | XfInTerm => xf_next (xf_emit s t TEnd) t th
    | XfAtClear =>
        xf_set (s <| xfs_cell := upd (xfs_cell s) t false |>) t (th <| xf_pcv := XfAtEndInc |>)
    | XfAtEndInc =>
        let ec := S (xfs_endc s) in
        let s1 := s <| xfs_endc := ec |> in
        xf_set s1 t (th <| xf_pcv := if Nat.eqb ec n then XfAtEndSwapT else XfFinished |>)
    | XfAtEndSwapT =>
        if xfs_tend s then xf_set s t (th <| xf_pcv := XfFinished |>)
        else xf_set (xf_emit (s <| xfs_tend := true |>) t (TBegin DT)) t (th <| xf_pcv := XfInTermAll |>)
    | XfAtEndedStore e => xf_sweepE_goto (s <| xfs_ended := true |>) t th e 0
    | XfAtSweepE e j =>
        xf_sweepE_goto (if xfs_cell s j then xf_dispose s t j else s) t th e (S j)
    | XfAtEndSwapE e =>
        if xfs_tend s then xf_set s t (th <| xf_pcv := XfFinished |>)
        else xf_set (xf_emit (s <| xfs_tend := true |>) t (TBegin (DE e))) t (th <| xf_pcv := XfInErr |>)
    | XfInTermAll | XfInErr => xf_set (xf_emit s t TEnd) t (th <| xf_pcv := XfFinished |>)
    | XfFinished => s
    end.

  Definition xf_finished (s : xf_state) (t : nat) : bool :=
    match xf_pcv (xfs_th s t) with XfFinished => true | _ => false end.
End TakeMergeFine.
