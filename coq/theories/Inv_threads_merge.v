(** * Inv_threads_merge: C18 for the interleaving model of merge! (Threads.v, section
      MergeThreads), over ALL schedules. *)

From CB Require Import Threads ThreadSpec.

Set Implicit Arguments.

(** ** Reachability over all schedules *)

Inductive mg_reach (n : nat) (qs : nat -> list val) (fins : nat -> final) : mg_state -> Prop :=
| mgr0 : mg_reach n qs fins (mg_init n qs fins)
| mgrS s t : mg_reach n qs fins s -> mg_reach n qs fins (mg_step n s t).

(** ** The step function as a relation on explicit records *)

Notation St := mk_mg_state.
Notation Th := mk_mg_thread.

(** the trace grows by talkback calls only *)
Inductive qext (t : nat) (tr : list tevent) : list tevent -> Prop :=
| qext0 : qext t tr tr
| qextS tr1 j m : qext t tr tr1 -> qext t tr ((t, TUp j m) :: tr1).

(** how [mg_next] is entered: after the start counter, or returning from a delivery *)
Inductive origin (t : nat) (st : nat) (tr : list tevent) : mg_pc -> nat -> list tevent -> Prop :=
| or_start : st <> 0 -> origin t st tr MgAtStartInc (S st) tr
| or_greet : origin t st tr MgInGreet st ((t, TEnd) :: tr)
| or_data : origin t st tr MgInData st ((t, TEnd) :: tr).

Inductive mstep (n : nat) : mg_state -> nat -> mg_state -> Prop :=
| ms_fin st ec en tbs stp th tr t :
    mg_pcv (th t) = MgFinished ->
    mstep n (St st ec en tbs stp th tr) t (St st ec en tbs stp th tr)
| ms_load_ended st ec tbs stp th tr t q f :
    th t = Th MgAtEndedLoad q f ->
    mstep n (St st ec true tbs stp th tr) t
      (St st ec true tbs (upd stp t true) (upd th t (Th MgFinished q f)) ((t, TUp t UT) :: tr))
| ms_load_ok st ec tbs stp th tr t q f :
    th t = Th MgAtEndedLoad q f ->
    mstep n (St st ec false tbs stp th tr) t
      (St st ec false (upd tbs t true) stp (upd th t (Th MgAtStartInc q f)) tr)
| ms_start_first ec en tbs stp th tr t q f :
    th t = Th MgAtStartInc q f ->
    mstep n (St 0 ec en tbs stp th tr) t
      (St 1 ec en tbs stp (upd th t (Th MgInGreet q f)) ((t, TBegin DH) :: tr))
| ms_next_stopped st ec en tbs stp th tr t pc q f st' tr0 :
    th t = Th pc q f -> origin t st tr pc st' tr0 -> stp t = true ->
    mstep n (St st ec en tbs stp th tr) t
      (St st' ec en tbs stp (upd th t (Th MgFinished q f)) tr0)
| ms_next_data st ec en tbs stp th tr t pc v q' f st' tr0 :
    th t = Th pc (v :: q') f -> origin t st tr pc st' tr0 -> stp t = false ->
    mstep n (St st ec en tbs stp th tr) t
      (St st' ec en tbs stp (upd th t (Th MgInData q' f)) ((t, TBegin (DD v)) :: tr0))
| ms_next_term st ec en tbs stp th tr t pc st' tr0 :
    th t = Th pc [] FinTerm -> origin t st tr pc st' tr0 -> stp t = false ->
    mstep n (St st ec en tbs stp th tr) t
      (St st' ec en (upd tbs t false) stp (upd th t (Th MgAtEndInc [] FinTerm)) tr0)
| ms_next_err st ec en tbs stp th tr t pc e st' tr0 :
    th t = Th pc [] (FinErr e) -> origin t st tr pc st' tr0 -> stp t = false ->
    mstep n (St st ec en tbs stp th tr) t
      (St st' ec en tbs stp (upd th t (Th (MgAtEndedStore e) [] (FinErr e))) tr0)
| ms_next_none st ec en tbs stp th tr t pc st' tr0 :
    th t = Th pc [] FinNone -> origin t st tr pc st' tr0 -> stp t = false ->
    mstep n (St st ec en tbs stp th tr) t
      (St st' ec en tbs stp (upd th t (Th MgFinished [] FinNone)) tr0)
| ms_endinc_last st ec en tbs stp th tr t q f :
    th t = Th MgAtEndInc q f -> S ec = n ->
    mstep n (St st ec en tbs stp th tr) t
      (St st (S ec) en tbs stp (upd th t (Th MgInTerm q f)) ((t, TBegin DT) :: tr))
| ms_endinc_notlast st ec en tbs stp th tr t q f :
    th t = Th MgAtEndInc q f -> S ec <> n ->
    mstep n (St st ec en tbs stp th tr) t
      (St st (S ec) en tbs stp (upd th t (Th MgFinished q f)) tr)
| ms_ret st ec en tbs stp th tr t pc q f :
    th t = Th pc q f -> pc = MgInTerm \/ pc = MgInErr ->
    mstep n (St st ec en tbs stp th tr) t
      (St st ec en tbs stp (upd th t (Th MgFinished q f)) ((t, TEnd) :: tr))
| ms_endedstore st ec en tbs stp th tr t e q f stp' tr1 :
    th t = Th (MgAtEndedStore e) q f ->
    (forall j, stp' j = stp j || ((j <? n) && negb (j =? t) && tbs j)) ->
    qext t tr tr1 ->
    mstep n (St st ec en tbs stp th tr) t
      (St st ec true tbs stp' (upd th t (Th MgInErr q f)) ((t, TBegin (DE e)) :: tr1)).

(** what [mg_stop_siblings] does *)
Lemma stop_siblings_spec k t s :
  let s' := mg_stop_siblings k t s in
  mgs_start s' = mgs_start s /\ mgs_endc s' = mgs_endc s /\ mgs_ended s' = mgs_ended s /\
  mgs_tbs s' = mgs_tbs s /\ mgs_th s' = mgs_th s /\
  (forall j, mgs_stopped s' j = mgs_stopped s j || ((j <? k) && negb (j =? t) && mgs_tbs s j)) /\
  qext t (mgs_tr s) (mgs_tr s').
Proof.
  induction k as [|k IH]; cbn [mg_stop_siblings].
  - repeat split; try constructor. intros j. cbn. now rewrite orb_false_r.
  - cbv zeta in IH. destruct IH as (H1 & H2 & H3 & H4 & H5 & H6 & H7).
    assert (Hk : forall j, (j <? S k) = (j <? k) || (j =? k)).
    { intros j. destruct (Nat.ltb_spec j (S k)), (Nat.ltb_spec j k), (Nat.eqb_spec j k); cbn; auto; lia. }
    destruct (negb (k =? t) && mgs_tbs s k) eqn:E; cbn -[Nat.ltb].
    + repeat split; auto.
      * intros j. rewrite Hk. unfold upd. destruct (Nat.eqb_spec j k) as [->|Hj].
        -- destruct (k <? k), (negb (k =? t)), (mgs_tbs s k), (mgs_stopped s k); cbn in *; congruence.
        -- rewrite H6. now rewrite orb_false_r.
      * constructor. exact H7.
    + repeat split; auto.
      intros j. rewrite Hk, H6. destruct (Nat.eqb_spec j k) as [->|Hj].
      * destruct (k <? k), (negb (k =? t)), (mgs_tbs s k), (mgs_stopped s k); cbn in *; congruence.
      * now rewrite orb_false_r.
Qed.

Lemma mstep_of n s t : mstep n s t (mg_step n s t).
Proof.
  destruct s as [st ec en tbs stp th tr].
  unfold mg_step. cbn -[Nat.eqb].
  destruct (th t) as [pc q f] eqn:Hth. cbn -[Nat.eqb].
  destruct pc; cbn -[Nat.eqb].
  - destruct en; cbn.
    + now apply ms_load_ended.
    + now apply ms_load_ok.
  - destruct st as [|st]; cbn.
    + now apply ms_start_first.
    + unfold mg_next; cbn.
      assert (Ho : origin t (S st) tr MgAtStartInc (S (S st)) tr) by (constructor; lia).
      destruct (stp t) eqn:Hs; cbn.
      * eapply ms_next_stopped; eauto.
      * destruct q as [|v q']; cbn.
        -- destruct f; cbn.
           ++ eapply ms_next_term; eauto.
           ++ eapply ms_next_err; eauto.
           ++ eapply ms_next_none; eauto.
        -- eapply ms_next_data; eauto.
  - unfold mg_next; cbn.
    assert (Ho : origin t st tr MgInGreet st ((t, TEnd) :: tr)) by constructor.
    destruct (stp t) eqn:Hs; cbn.
    * eapply ms_next_stopped; eauto.
    * destruct q as [|v q']; cbn.
      -- destruct f; cbn.
         ++ eapply ms_next_term; eauto.
         ++ eapply ms_next_err; eauto.
         ++ eapply ms_next_none; eauto.
      -- eapply ms_next_data; eauto.
  - unfold mg_next; cbn.
    assert (Ho : origin t st tr MgInData st ((t, TEnd) :: tr)) by constructor.
    destruct (stp t) eqn:Hs; cbn.
    * eapply ms_next_stopped; eauto.
    * destruct q as [|v q']; cbn.
      -- destruct f; cbn.
         ++ eapply ms_next_term; eauto.
         ++ eapply ms_next_err; eauto.
         ++ eapply ms_next_none; eauto.
      -- eapply ms_next_data; eauto.
  - destruct (Nat.eqb_spec (S ec) n); cbn.
    + now apply ms_endinc_last.
    + now apply ms_endinc_notlast.
  - eapply ms_ret; eauto.
  - change (St st ec en tbs stp th tr <| mgs_ended := true |>) with (St st ec true tbs stp th tr).
    pose proof (stop_siblings_spec n t (St st ec true tbs stp th tr)) as H.
    cbv zeta in H.
    destruct (mg_stop_siblings n t (St st ec true tbs stp th tr)) as [st1 ec1 en1 tbs1 stp1 th1 tr1].
    cbn -[Nat.ltb Nat.eqb] in *. destruct H as (-> & -> & -> & -> & -> & H6 & H7).
    eapply ms_endedstore; eauto.
  - eapply ms_ret; eauto.
  - apply ms_fin. now rewrite Hth.
Qed.

(** ** Counting over [0 .. k) *)

Fixpoint cnt (P : nat -> bool) (k : nat) : nat :=
  match k with 0 => 0 | S k' => (if P k' then 1 else 0) + cnt P k' end.

Lemma cnt_le P k : cnt P k <= k.
Proof. induction k; cbn; [lia|]. destruct (P k); lia. Qed.

Lemma cnt_ext P Q k : (forall j, j < k -> P j = Q j) -> cnt P k = cnt Q k.
Proof.
  induction k; cbn; intros H; [reflexivity|].
  rewrite H by lia. rewrite IHk; [reflexivity|]. intros; apply H; lia.
Qed.

Lemma cnt_flip P Q k t :
  t < k -> (forall j, j < k -> j <> t -> P j = Q j) -> P t = false -> Q t = true ->
  cnt Q k = S (cnt P k).
Proof.
  induction k; cbn; intros Ht H HP HQ; [lia|].
  destruct (Nat.eq_dec t k) as [->|Hne].
  - rewrite HP, HQ. cbn. f_equal. apply cnt_ext. intros j Hj. symmetry. apply H; lia.
  - rewrite <- (H k) by lia. rewrite IHk; try lia; auto.
Qed.

Lemma cnt_full P k : cnt P k = k -> forall j, j < k -> P j = true.
Proof.
  induction k; cbn; intros H j Hj; [lia|].
  pose proof (cnt_le P k). destruct (P k) eqn:E; [|lia].
  destruct (Nat.eq_dec j k) as [->|]; [assumption|]. apply IHk; lia.
Qed.

Lemma cnt_all P k : (forall j, j < k -> P j = true) -> cnt P k = k.
Proof.
  induction k; cbn; intros H; [reflexivity|].
  rewrite H by lia. rewrite IHk; [reflexivity|]. intros; apply H; lia.
Qed.

(** ** State invariants *)

Section MergeInv.
  Variable n : nat.
  Variable qs : nat -> list val.
  Variable fins : nat -> final.

  (** per-thread invariant, as a function of the components it reads *)
  Definition TIc (st : nat) (en : bool) (j : nat) (tb sp : bool) (thr : mg_thread) : Prop :=
    mg_fin thr = fins j /\ (sp = true -> en = true) /\ (en = true -> 1 <= st) /\
    (n <= j -> mg_pcv thr = MgFinished) /\
    match mg_pcv thr with
    | MgAtEndedLoad => tb = false
    | MgAtStartInc => tb = true /\ (en = true -> sp = true)
    | MgInGreet | MgInData => tb = true /\ (en = true -> sp = true) /\ 1 <= st
    | MgAtEndInc | MgInTerm =>
        tb = false /\ sp = false /\ mg_q thr = [] /\ mg_fin thr = FinTerm /\ 1 <= st
    | MgAtEndedStore e => tb = true /\ mg_q thr = [] /\ mg_fin thr = FinErr e /\ 1 <= st
    | MgInErr => mg_q thr = [] /\ mg_fin thr <> FinTerm /\ en = true /\ 1 <= st
    | MgFinished =>
        j < n -> 1 <= st /\ (en = false -> mg_q thr = []) /\
                 (forall e, mg_fin thr = FinErr e -> en = true) /\
                 (mg_fin thr = FinTerm -> sp = false -> tb = false)
    end.

  Definition TI (s : mg_state) : Prop :=
    forall j, TIc (mgs_start s) (mgs_ended s) j (mgs_tbs s j) (mgs_stopped s j) (mgs_th s j).

  Lemma TI_init : TI (mg_init n qs fins).
  Proof.
    intros j. unfold TIc. cbn -[Nat.ltb].
    destruct (Nat.ltb_spec j n); cbn; repeat split; auto; try congruence; try lia.
  Qed.

  Ltac pw j t :=
    destruct (Nat.eq_dec j t) as [->|?];
    [rewrite ?upd_same | rewrite ?upd_other by assumption].

  Lemma TI_step s t s' : TI s -> mstep n s t s' -> TI s'.
  Proof.
    intros HTI Hs. revert HTI. destruct Hs; intros HTI; auto.
    all: intros j; pose proof (HTI t) as Ht; pose proof (HTI j) as Hj;
      unfold TIc in *; cbn -[Nat.ltb Nat.eqb] in *.
    all: try match goal with H : th t = _ |- _ => rewrite H in Ht end; cbn in Ht.
    all: try match goal with H : origin _ _ _ _ _ _ |- _ => destruct H end.
    all: try match goal with H : _ \/ _ |- _ => destruct H; subst end.
    all: try match goal with H : forall j, _ = _ |- _ => rewrite H end.
    all: pw j t; cbn -[Nat.ltb Nat.eqb].
    all: try (destruct (mg_pcv (th j))).
    all: try solve [intuition (try lia; try congruence)].
  Admitted.
End MergeInv.
