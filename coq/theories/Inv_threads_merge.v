(** * Inv_threads_merge: C18 for the interleaving model of merge! (Threads.v, section
      MergeThreads), over ALL schedules.

    For every n >= 1, all queues, all endings with at most one failing member among the
    members 0..n-1, and every state reachable by any interleaving of [mg_step]:

    - [merge_threads_greet_once]               the sink is greeted at most once and nothing is
                                               delivered before the greeting begins;
    - [merge_threads_one_terminal]             at most one Terminate/Error begins at the sink;
    - [merge_threads_order]                    each member's data in its own order, nothing forged,
                                               nothing twice ([merge_threads_delivered]: delivered
                                               ++ remaining queue = the member's queue);
    - [merge_threads_completion_after_data]    [scan_term] reports nothing (no completion during a
                                               data delivery, no data after a terminal message),
                                               and once [end_count] is full every member is in
                                               MgInTerm or MgFinished;
    - [merge_threads_no_panic];
    - [merge_threads_final]                    on every final state [merge_check] is empty, with or
                                               without a failing member;
    - [run_full_reach]                         what the driver runs is reachable.

    Method: [mg_step] is restated as a relation on explicit records ([mstep], [mstep_of]); four
    inductive invariants: [TI] (per thread, by program counter), [GE] (ended => the failing
    member is past its store), [GI] (end_count = number of members that counted themselves,
    characterised without ghost state as "pc in {MgInTerm, MgFinished}, ending Terminate, never
    told to stop") and [TRI] (the trace monitors, as functions of the state).

    Model of the repaired merge.rs (a member publishes its talkback before [ended.load()], every
    party that ends the output takes a member's talkback out of its cell before disposing it):
    [mgs_tbs] starts true for the members and a greeting or delivering member has
    [mgs_tbs = negb mgs_stopped] (clause by clause in [TIc]).  The member's own disposal at MgAtEndedLoad is dead in this model
    ([merge_threads_self_dispose_dead]) because the store and the swaps are one step.

    Findings.
    - In this model no data delivery begins after the Error began: the failing member's store,
      the Terminate calls to all siblings whose slot is set and the begin of the Error delivery
      are one step, a sibling tests "told to stop" in the same step in which its next delivery
      begins, and a sibling that is still greeting (its slot is set from the start now) is told
      to stop in that step as well and reads [ended = true] next.  So
      [TvAfterTerminal] is unreachable and the full check holds in the failing case too (for the
      model before the repair also confirmed by [vm_compute] over all 2^14 schedule prefixes of n=2, qs 0 = [VN 1; VN 3],
      fins 1 = FinErr 101).  What CAN happen, and what [merge_check] does not flag, is that the
      Error begins while a sibling's data delivery is still in progress ([error_during_data]).
    - The hypothesis "at most one failing member" is necessary: with two failing members both
      deliver their Error ([two_failures_two_errors]). *)

From CB Require Import Threads ThreadSpec.

Set Implicit Arguments.

(** ** Reachability over all schedules *)

Inductive mg_reach (n : nat) (qs : nat -> list val) (fins : nat -> final) : mg_state -> Prop :=
| mgr0 : mg_reach n qs fins (mg_init n qs fins)
| mgrS s t : mg_reach n qs fins s -> mg_reach n qs fins (mg_step n s t).

(** ** The step function as a relation on explicit records *)

Notation St := mk_mg_state.
Notation Th := mk_mg_thread.

(** the trace grows by talkback calls only *)
Inductive qext (t : nat) (tr : list tevent) : list tevent -> Prop :=
| qext0 : qext t tr tr
| qextS tr1 j m : qext t tr tr1 -> qext t tr ((t, TUp j m) :: tr1).

(** how [mg_next] is entered: after the start counter, or returning from a delivery *)
Inductive origin (t : nat) (st : nat) (tr : list tevent) : mg_pc -> nat -> list tevent -> Prop :=
| or_start : st <> 0 -> origin t st tr MgAtStartInc (S st) tr
| or_greet : origin t st tr MgInGreet st ((t, TEnd) :: tr)
| or_data : origin t st tr MgInData st ((t, TEnd) :: tr).

Inductive mstep (n : nat) : mg_state -> nat -> mg_state -> Prop :=
| ms_fin st ec en tbs stp th tr t :
    mg_pcv (th t) = MgFinished ->
    mstep n (St st ec en tbs stp th tr) t (St st ec en tbs stp th tr)
| ms_load_ended st ec tbs stp th tr t q f :
    (* the output ended during the greeting and the talkback is still in its cell: the member
       takes it out and disposes itself *)
    th t = Th MgAtEndedLoad q f -> tbs t = true ->
    mstep n (St st ec true tbs stp th tr) t
      (St st ec true (upd tbs t false) (upd stp t true) (upd th t (Th MgFinished q f))
          ((t, TUp t UT) :: tr))
| ms_load_taken st ec tbs stp th tr t q f :
    (* the ending party already took the talkback (and disposed the member) *)
    th t = Th MgAtEndedLoad q f -> tbs t = false ->
    mstep n (St st ec true tbs stp th tr) t
      (St st ec true tbs stp (upd th t (Th MgFinished q f)) tr)
| ms_load_ok st ec tbs stp th tr t q f :
    th t = Th MgAtEndedLoad q f ->
    mstep n (St st ec false tbs stp th tr) t
      (St st ec false tbs stp (upd th t (Th MgAtStartInc q f)) tr)
| ms_start_first ec en tbs stp th tr t q f :
    th t = Th MgAtStartInc q f ->
    mstep n (St 0 ec en tbs stp th tr) t
      (St 1 ec en tbs stp (upd th t (Th MgInGreet q f)) ((t, TBegin DH) :: tr))
| ms_next_stopped st ec en tbs stp th tr t pc q f st' tr0 :
    th t = Th pc q f -> origin t st tr pc st' tr0 -> stp t = true ->
    mstep n (St st ec en tbs stp th tr) t
      (St st' ec en tbs stp (upd th t (Th MgFinished q f)) tr0)
| ms_next_data st ec en tbs stp th tr t pc v q' f st' tr0 :
    th t = Th pc (v :: q') f -> origin t st tr pc st' tr0 -> stp t = false ->
    mstep n (St st ec en tbs stp th tr) t
      (St st' ec en tbs stp (upd th t (Th MgInData q' f)) ((t, TBegin (DD v)) :: tr0))
| ms_next_term st ec en tbs stp th tr t pc st' tr0 :
    th t = Th pc [] FinTerm -> origin t st tr pc st' tr0 -> stp t = false ->
    mstep n (St st ec en tbs stp th tr) t
      (St st' ec en (upd tbs t false) stp (upd th t (Th MgAtEndInc [] FinTerm)) tr0)
| ms_next_err st ec en tbs stp th tr t pc e st' tr0 :
    th t = Th pc [] (FinErr e) -> origin t st tr pc st' tr0 -> stp t = false ->
    mstep n (St st ec en tbs stp th tr) t
      (St st' ec en tbs stp (upd th t (Th (MgAtEndedStore e) [] (FinErr e))) tr0)
| ms_next_none st ec en tbs stp th tr t pc st' tr0 :
    th t = Th pc [] FinNone -> origin t st tr pc st' tr0 -> stp t = false ->
    mstep n (St st ec en tbs stp th tr) t
      (St st' ec en tbs stp (upd th t (Th MgFinished [] FinNone)) tr0)
| ms_endinc_last st ec en tbs stp th tr t q f :
    th t = Th MgAtEndInc q f -> S ec = n ->
    mstep n (St st ec en tbs stp th tr) t
      (St st (S ec) en tbs stp (upd th t (Th MgInTerm q f)) ((t, TBegin DT) :: tr))
| ms_endinc_notlast st ec en tbs stp th tr t q f :
    th t = Th MgAtEndInc q f -> S ec <> n ->
    mstep n (St st ec en tbs stp th tr) t
      (St st (S ec) en tbs stp (upd th t (Th MgFinished q f)) tr)
| ms_ret st ec en tbs stp th tr t pc q f :
    th t = Th pc q f -> pc = MgInTerm \/ pc = MgInErr ->
    mstep n (St st ec en tbs stp th tr) t
      (St st ec en tbs stp (upd th t (Th MgFinished q f)) ((t, TEnd) :: tr))
| ms_endedstore st ec en tbs stp th tr t e q f tbs' stp' tr1 :
    th t = Th (MgAtEndedStore e) q f ->
    (forall j, stp' j = stp j || ((j <? n) && negb (j =? t) && tbs j)) ->
    (forall j, tbs' j = tbs j && negb ((j <? n) && negb (j =? t))) ->
    qext t tr tr1 ->
    mstep n (St st ec en tbs stp th tr) t
      (St st ec true tbs' stp' (upd th t (Th MgInErr q f)) ((t, TBegin (DE e)) :: tr1)).

(** what [mg_stop_siblings] does *)
Lemma stop_siblings_spec k t s :
  let s' := mg_stop_siblings k t s in
  mgs_start s' = mgs_start s /\ mgs_endc s' = mgs_endc s /\ mgs_ended s' = mgs_ended s /\
  (forall j, mgs_tbs s' j = mgs_tbs s j && negb ((j <? k) && negb (j =? t))) /\
  mgs_th s' = mgs_th s /\
  (forall j, mgs_stopped s' j = mgs_stopped s j || ((j <? k) && negb (j =? t) && mgs_tbs s j)) /\
  qext t (mgs_tr s) (mgs_tr s').
Proof.
  induction k as [|k IH]; cbn [mg_stop_siblings].
  - repeat split; try constructor; intros j; cbn.
    + now rewrite andb_true_r.
    + now rewrite orb_false_r.
  - cbv zeta in IH. destruct IH as (H1 & H2 & H3 & H4 & H5 & H6 & H7).
    assert (Hk : forall j, (j <? S k) = (j <? k) || (j =? k)).
    { intros j. destruct (Nat.ltb_spec j (S k)), (Nat.ltb_spec j k), (Nat.eqb_spec j k); cbn; auto; lia. }
    assert (Hkk : (k <? k) = false) by (apply Nat.ltb_irrefl).
    destruct (negb (k =? t) && mgs_tbs s k) eqn:E; cbn -[Nat.ltb].
    + repeat split; auto.
      * intros j. rewrite Hk. unfold upd. destruct (Nat.eqb_spec j k) as [->|Hj].
        -- rewrite Hkk. destruct (negb (k =? t)), (mgs_tbs s k); cbn in *; congruence.
        -- rewrite H4. now rewrite orb_false_r.
      * intros j. rewrite Hk. unfold upd. destruct (Nat.eqb_spec j k) as [->|Hj].
        -- rewrite Hkk. destruct (negb (k =? t)), (mgs_tbs s k), (mgs_stopped s k); cbn in *; congruence.
        -- rewrite H6. now rewrite orb_false_r.
      * constructor. exact H7.
    + repeat split; auto.
      * intros j. rewrite Hk, H4. destruct (Nat.eqb_spec j k) as [->|Hj].
        -- rewrite Hkk. destruct (negb (k =? t)), (mgs_tbs s k); cbn in *; congruence.
        -- now rewrite orb_false_r.
      * intros j. rewrite Hk, H6. destruct (Nat.eqb_spec j k) as [->|Hj].
        -- rewrite Hkk. destruct (negb (k =? t)), (mgs_tbs s k), (mgs_stopped s k); cbn in *; congruence.
        -- now rewrite orb_false_r.
Qed.

Lemma mstep_of n s t : mstep n s t (mg_step n s t).
Proof.
  destruct s as [st ec en tbs stp th tr].
  unfold mg_step. cbn -[Nat.eqb].
  destruct (th t) as [pc q f] eqn:Hth. cbn -[Nat.eqb].
  destruct pc; cbn -[Nat.eqb].
  - destruct en; cbn.
    + destruct (tbs t) eqn:Etb; cbn.
      * now apply ms_load_ended.
      * now apply ms_load_taken.
    + now apply ms_load_ok.
  - destruct st as [|st]; cbn.
    + now apply ms_start_first.
    + unfold mg_next; cbn.
      assert (Ho : origin t (S st) tr MgAtStartInc (S (S st)) tr) by (constructor; lia).
      destruct (stp t) eqn:Hs; cbn.
      * eapply ms_next_stopped; eauto.
      * destruct q as [|v q']; cbn.
        -- destruct f; cbn.
           ++ eapply ms_next_term; eauto.
           ++ eapply ms_next_err; eauto.
           ++ eapply ms_next_none; eauto.
        -- eapply ms_next_data; eauto.
  - unfold mg_next; cbn.
    assert (Ho : origin t st tr MgInGreet st ((t, TEnd) :: tr)) by constructor.
    destruct (stp t) eqn:Hs; cbn.
    * eapply ms_next_stopped; eauto.
    * destruct q as [|v q']; cbn.
      -- destruct f; cbn.
         ++ eapply ms_next_term; eauto.
         ++ eapply ms_next_err; eauto.
         ++ eapply ms_next_none; eauto.
      -- eapply ms_next_data; eauto.
  - unfold mg_next; cbn.
    assert (Ho : origin t st tr MgInData st ((t, TEnd) :: tr)) by constructor.
    destruct (stp t) eqn:Hs; cbn.
    * eapply ms_next_stopped; eauto.
    * destruct q as [|v q']; cbn.
      -- destruct f; cbn.
         ++ eapply ms_next_term; eauto.
         ++ eapply ms_next_err; eauto.
         ++ eapply ms_next_none; eauto.
      -- eapply ms_next_data; eauto.
  - destruct (Nat.eqb_spec (S ec) n); cbn.
    + now apply ms_endinc_last.
    + now apply ms_endinc_notlast.
  - eapply ms_ret; eauto.
  - change (St st ec en tbs stp th tr <| mgs_ended := true |>) with (St st ec true tbs stp th tr).
    pose proof (stop_siblings_spec n t (St st ec true tbs stp th tr)) as H.
    cbv zeta in H.
    destruct (mg_stop_siblings n t (St st ec true tbs stp th tr)) as [st1 ec1 en1 tbs1 stp1 th1 tr1].
    cbn -[Nat.ltb Nat.eqb] in *. destruct H as (-> & -> & -> & H4 & -> & H6 & H7).
    eapply ms_endedstore; eauto.
  - eapply ms_ret; eauto.
  - apply ms_fin. now rewrite Hth.
Qed.

(** ** Counting over [0 .. k) *)

Fixpoint cnt (P : nat -> bool) (k : nat) : nat :=
  match k with 0 => 0 | S k' => (if P k' then 1 else 0) + cnt P k' end.

Lemma cnt_le P k : cnt P k <= k.
Proof. induction k; cbn; [lia|]. destruct (P k); lia. Qed.

Lemma cnt_ext P Q k : (forall j, j < k -> P j = Q j) -> cnt P k = cnt Q k.
Proof.
  induction k; cbn; intros H; [reflexivity|].
  rewrite H by lia. rewrite IHk; [reflexivity|]. intros; apply H; lia.
Qed.

Lemma cnt_flip P Q k t :
  t < k -> (forall j, j < k -> j <> t -> P j = Q j) -> P t = false -> Q t = true ->
  cnt Q k = S (cnt P k).
Proof.
  induction k; cbn; intros Ht H HP HQ; [lia|].
  destruct (Nat.eq_dec t k) as [->|Hne].
  - rewrite HP, HQ. cbn. f_equal. apply cnt_ext. intros j Hj. symmetry. apply H; lia.
  - rewrite <- (H k) by lia. rewrite IHk; try lia; auto.
Qed.

Lemma cnt_full P k : cnt P k = k -> forall j, j < k -> P j = true.
Proof.
  induction k; cbn; intros H j Hj; [lia|].
  pose proof (cnt_le P k). destruct (P k) eqn:E; [|lia].
  destruct (Nat.eq_dec j k) as [->|]; [assumption|]. apply IHk; lia.
Qed.

Lemma cnt_all P k : (forall j, j < k -> P j = true) -> cnt P k = k.
Proof.
  induction k; cbn; intros H; [reflexivity|].
  rewrite H by lia. rewrite IHk; [reflexivity|]. intros; apply H; lia.
Qed.

(** ** State invariants *)

Ltac pw j t :=
  destruct (Nat.eq_dec j t) as [->|?];
  [rewrite ?upd_same | rewrite ?upd_other by assumption].

Section MergeInv.
  Variable n : nat.
  Variable fins : nat -> final.

  (** per-thread invariant, as a function of the components it reads *)
  Definition TIc (st : nat) (en : bool) (j : nat) (tb sp : bool) (thr : mg_thread) : Prop :=
    mg_fin thr = fins j /\ (sp = true -> en = true) /\ (en = true -> 1 <= st) /\
    (n <= j -> mg_pcv thr = MgFinished) /\
    (* the talkback of a member that is greeting or delivering is in its cell exactly as long as
       nobody took it out to dispose the member: [tb = negb sp].  (Before the repair of merge.rs
       the cell was filled only after [ended.load()], and never emptied by the ending party.) *)
    match mg_pcv thr with
    | MgAtEndedLoad => tb = negb sp /\ (en = true -> sp = true)
    | MgAtStartInc => tb = negb sp /\ (en = true -> sp = true)
    | MgInGreet | MgInData => tb = negb sp /\ (en = true -> sp = true) /\ 1 <= st
    | MgAtEndInc | MgInTerm =>
        tb = false /\ sp = false /\ mg_q thr = [] /\ mg_fin thr = FinTerm /\ 1 <= st
    | MgAtEndedStore e => tb = negb sp /\ mg_q thr = [] /\ mg_fin thr = FinErr e /\ 1 <= st
    | MgInErr => mg_q thr = [] /\ mg_fin thr <> FinTerm /\ en = true /\ 1 <= st
    | MgFinished =>
        j < n -> 1 <= st /\ (en = false -> mg_q thr = []) /\
                 (forall e, mg_fin thr = FinErr e -> en = true) /\
                 (mg_fin thr = FinTerm -> sp = false -> tb = false)
    end.

  Definition TI (s : mg_state) : Prop :=
    forall j, TIc (mgs_start s) (mgs_ended s) j (mgs_tbs s j) (mgs_stopped s j) (mgs_th s j).

  Lemma TI_init qs : TI (mg_init n qs fins).
  Proof.
    intros j. unfold TIc. cbn -[Nat.ltb].
    destruct (Nat.ltb_spec j n); cbn; repeat split; auto; try congruence; try lia.
  Qed.

  Lemma TI_step s t s' : TI s -> mstep n s t s' -> TI s'.
  Proof.
    intros HTI Hs. revert HTI. destruct Hs; intros HTI; auto.
    all: intros j; pose proof (HTI t) as Ht; pose proof (HTI j) as Hj;
      unfold TIc in *; cbn -[Nat.ltb Nat.eqb] in *.
    all: try match goal with H : _ = Th _ _ _ |- _ => rewrite H in Ht end; cbn in Ht.
    all: try match goal with H : origin _ _ _ _ _ _ |- _ => destruct H end.
    all: try match goal with H : _ \/ _ |- _ => destruct H; subst end.
    all: repeat match goal with H : forall j, _ = _ |- _ => rewrite H; clear H end.
    all: pw j t; cbn -[Nat.ltb Nat.eqb].
    all: try (revert Hj; match goal with |- context [match mg_pcv ?x with _ => _ end] => destruct (mg_pcv x) end; intros Hj).
    all: try solve [intuition (try lia; try congruence)].
    all: match goal with
         | Hne : ?j <> ?t |- context [?sp ?j || (?j <? n) && negb (?j =? ?t) && ?tb ?j] =>
             rewrite (proj2 (Nat.eqb_neq j t) Hne);
             destruct (Nat.ltb_spec j n); destruct (tb j) eqn:?; destruct (sp j) eqn:?
         end; cbn.
    all: try solve [intuition (try lia; try congruence)].
  Qed.
End MergeInv.

Section MergeInv2.
  Variable n : nat.
  Variable fins : nat -> final.
  Hypothesis amo : forall i j e1 e2, i < n -> j < n -> fins i = FinErr e1 -> fins j = FinErr e2 -> i = j.

  Definition GE (s : mg_state) : Prop :=
    mgs_ended s = true ->
    exists f e, f < n /\ fins f = FinErr e /\
      (mg_pcv (mgs_th s f) = MgInErr \/ mg_pcv (mgs_th s f) = MgFinished).

  Lemma GE_init qs : GE (mg_init n qs fins).
  Proof. unfold GE; cbn; discriminate. Qed.

  Lemma GE_step s t s' : TI n fins s -> GE s -> mstep n s t s' -> GE s'.
  Proof.
    intros HTI HGE Hs. revert HTI HGE. destruct Hs; intros HTI HGE; auto.
    all: unfold GE in *; cbn in *; intros Hen; try discriminate.
    all: try match goal with
         | Hst : ?th ?t = Th (MgAtEndedStore ?e) _ _ |- _ =>
             solve [ exists t, e; pose proof (HTI t) as Ht; unfold TIc in Ht; cbn in Ht;
                     rewrite Hst in Ht; cbn in Ht; rewrite upd_same; cbn; intuition; try congruence;
                     destruct (Nat.lt_ge_cases t n); auto; exfalso; intuition congruence ]
         end.
    all: destruct (HGE Hen) as (f0 & e0 & Hf & He & Hpc); exists f0, e0; split; [|split]; auto.
    all: pw f0 t; auto; cbn.
    all: match goal with H : _ = Th _ _ _ |- _ => rewrite H in Hpc end; cbn in Hpc.
    all: try match goal with H : origin _ _ _ _ _ _ |- _ => destruct H end.
    all: try match goal with H : _ = MgInTerm \/ _ |- _ => destruct H; subst end.
    all: try solve [destruct Hpc; try discriminate; auto].
  Qed.

  Definition pc_done (pc : mg_pc) : bool :=
    match pc with MgInTerm | MgFinished => true | _ => false end.
  Definition fin_term (f : final) : bool := match f with FinTerm => true | _ => false end.
  Definition countedc (th : nat -> mg_thread) (stp : nat -> bool) (j : nat) : bool :=
    pc_done (mg_pcv (th j)) && fin_term (mg_fin (th j)) && negb (stp j).
  Definition counted (s : mg_state) : nat -> bool := countedc (mgs_th s) (mgs_stopped s).
  Definition GI (s : mg_state) : Prop := mgs_endc s = cnt (counted s) n.

  Lemma GI_init qs : 1 <= n -> GI (mg_init n qs fins).
  Proof.
    intros Hn. unfold GI. cbn -[Nat.ltb].
    transitivity (cnt (fun _ => false) n).
    - clear. induction n; cbn; auto.
    - apply cnt_ext. intros j Hj. unfold counted, countedc. cbn -[Nat.ltb].
      destruct (Nat.ltb_spec j n); [reflexivity|lia].
  Qed.

  Lemma GI_step s t s' : TI n fins s -> GI s -> mstep n s t s' -> GI s'.
  Proof.
    intros HTI HGI Hs. revert HTI HGI. destruct Hs; intros HTI HGI; auto.
    all: unfold GI, counted in *; cbn -[Nat.ltb Nat.eqb] in *.
    all: pose proof (HTI t) as Ht; unfold TIc in Ht; cbn in Ht.
    all: match goal with H : _ = Th _ _ _ |- _ => rewrite H in Ht end; cbn in Ht.
    all: assert (Htn : t < n) by (destruct (Nat.lt_ge_cases t n); auto; exfalso;
           try match goal with H : origin _ _ _ _ _ _ |- _ => destruct H end;
           try match goal with H : _ \/ _ |- _ => destruct H; subst end; intuition congruence).
    all: rewrite HGI; clear HGI.
    all: first [ apply cnt_ext; intros j Hj | symmetry; apply cnt_flip with (t := t); [assumption|intros j Hj Hne| |] ].
    all: unfold countedc; cbn.
    all: try (pw j t); rewrite ?upd_same; cbn.
    all: try match goal with H : _ = Th _ _ _ |- _ => rewrite H end; cbn.
    all: try match goal with H : origin _ _ _ _ _ _ |- _ => destruct H end.
    all: try match goal with H : _ = MgInTerm \/ _ |- _ => destruct H; subst end.
    all: cbn.
    all: try reflexivity.
    all: try solve [destruct f; cbn; try reflexivity; intuition congruence].
    all: try solve [destruct (stp t); cbn; rewrite ?andb_false_r; intuition congruence].
    all: try solve [destruct Ht as (_ & _ & _ & _ & _ & -> & _ & -> & _); reflexivity].
    pose proof (HTI j) as Hjj; unfold TIc in Hjj; cbn in Hjj.
    rewrite H0. rewrite (proj2 (Nat.eqb_neq j t)) by auto.
    destruct (Nat.ltb_spec j n); [|lia]. cbn.
    destruct (tbs j) eqn:Etb; cbn; [|now rewrite orb_false_r].
    rewrite orb_true_r. cbn. rewrite andb_false_r.
    revert Hjj. destruct (mg_pcv (th j)); cbn; try reflexivity; intros Hjj.
    - intuition congruence.
    - destruct (mg_fin (th j)) eqn:Ef; cbn; try reflexivity.
      destruct (stp j) eqn:Es; cbn; try reflexivity. intuition congruence.
  Qed.
End MergeInv2.

(** ** Facts about the monitors of ThreadSpec *)

Lemma val_eqb_refl : forall v, val_eqb v v = true.
Proof.
  fix IH 1. intros [x|l].
  - apply Nat.eqb_refl.
  - cbn. induction l as [|a l IHl]; [reflexivity|]. rewrite (IH a). exact IHl.
Qed.

Lemma is_prefix_app a b : is_prefix a (a ++ b) = true.
Proof. induction a; cbn; [reflexivity|]. now rewrite val_eqb_refl. Qed.

Lemma list_val_eqb_refl a : list_val_eqb a a = true.
Proof. induction a; cbn; [reflexivity|]. now rewrite val_eqb_refl. Qed.

Definition isDE (e : tevent) : bool := match snd e with TBegin (DE _) => true | _ => false end.
Definition isDT (e : tevent) : bool := match snd e with TBegin DT => true | _ => false end.

#[local] Arguments count : simpl never.

Lemma count_cons A (f : A -> bool) e l : count f (e :: l) = (if f e then 1 else 0) + count f l.
Proof. unfold count. cbn. destruct (f e); reflexivity. Qed.

Lemma count_cons_t (f : tevent -> bool) (e : tevent) (l : list tevent) :
  @count tevent f (e :: l) = (if f e then 1 else 0) + @count tevent f l.
Proof. apply count_cons. Qed.

Lemma count_app A (f : A -> bool) l l' : count f (l ++ l') = count f l + count f l'.
Proof. unfold count. now rewrite filter_app, app_length. Qed.

Lemma count_rev A (f : A -> bool) l : count f (rev l) = count f l.
Proof.
  induction l; cbn; [reflexivity|]. rewrite count_app, !count_cons, IHl. unfold count at 2. cbn. lia.
Qed.

Lemma existsb_rev A (f : A -> bool) l : existsb f (rev l) = existsb f l.
Proof.
  induction l; cbn; [reflexivity|]. rewrite existsb_app, IHl. cbn.
  rewrite orb_false_r. apply orb_comm.
Qed.

Lemma count_term_split l : count is_begin_term l = count isDT l + count isDE l.
Proof.
  induction l as [|[t [[| | |]| | |]] l IH]; rewrite ?count_cons; cbn; try lia.
  reflexivity.
Qed.

Definition not_early (e : tevent) : Prop :=
  match snd e with TBegin DH => True | TBegin _ => False | _ => True end.

Lemma bgo_snoc l e :
  before_greet_ok l = true -> 1 <= count is_begin_greet l \/ not_early e ->
  before_greet_ok (l ++ [e]) = true.
Proof.
  induction l as [|[t0 [[| | |]| | |]] l IH]; cbn; intros H Hd; try reflexivity; try discriminate.
  - destruct Hd as [Hd|Hd]; [unfold count in Hd; cbn in Hd; lia|].
    destruct e as [t [[| | |]| | |]]; cbn in *; auto; contradiction.
  - apply IH; auto.
  - apply IH; auto.
  - apply IH; auto.
Qed.

Definition ev_data (t : nat) (e : tevent) : list val :=
  match e with (t', TBegin (DD v)) => if Nat.eqb t t' then [v] else [] | _ => [] end.

Lemma delivered_snoc t l e : delivered_by t (l ++ [e]) = delivered_by t l ++ ev_data t e.
Proof. unfold delivered_by. rewrite flat_map_app. cbn. now rewrite app_nil_r. Qed.

Fixpoint scan_open (o : nat -> bool) (l : list tevent) : nat -> bool :=
  match l with
  | [] => o
  | (t, TBegin (DD _)) :: l' => scan_open (upd o t true) l'
  | (t, TEnd) :: l' => scan_open (upd o t false) l'
  | _ :: l' => scan_open o l'
  end.

Fixpoint scan_seen (b : bool) (l : list tevent) : bool :=
  match l with
  | [] => b
  | (_, TBegin DT) :: l' | (_, TBegin (DE _)) :: l' => scan_seen true l'
  | _ :: l' => scan_seen b l'
  end.

Lemma scan_term_app l : forall o b l',
  scan_term o b (l ++ l') = scan_term o b l ++ scan_term (scan_open o l) (scan_seen b l) l'.
Proof.
  induction l as [|[t [[| | |]| | |]] l IH]; intros o b l'; cbn [app scan_term scan_open scan_seen];
    rewrite ?IH, ?app_assoc; reflexivity.
Qed.

Lemma scan_open_app l : forall o l', scan_open o (l ++ l') = scan_open (scan_open o l) l'.
Proof.
  induction l as [|[t [[| | |]| | |]] l IH]; intros o l'; cbn [app scan_open]; rewrite ?IH; reflexivity.
Qed.

Lemma scan_seen_app l : forall b l', scan_seen b (l ++ l') = scan_seen (scan_seen b l) l'.
Proof.
  induction l as [|[t [[| | |]| | |]] l IH]; intros b l'; cbn [app scan_seen]; rewrite ?IH; reflexivity.
Qed.

Lemma existsb_false A (f : A -> bool) l : (forall x, f x = false) -> existsb f l = false.
Proof. intros H. induction l; cbn; [reflexivity|]. now rewrite H. Qed.

Lemma flat_map_nil A B (f : A -> list B) l : (forall x, In x l -> f x = []) -> flat_map f l = [].
Proof.
  induction l; cbn; intros H; [reflexivity|]. rewrite H by auto. rewrite IHl; auto.
Qed.

(** ** Trace invariant, on the components it reads *)

Definition o0 : nat -> bool := fun _ => false.
Definition is_indata (pc : mg_pc) : bool := match pc with MgInData => true | _ => false end.

Section TraceInv.
  Variable n : nat.
  Variable qs : nat -> list val.

  Record TR (st ec : nat) (en : bool) (th : nat -> mg_thread) (tr : list tevent) : Prop := mkTR {
    tr_greet : count is_begin_greet tr = (if st =? 0 then 0 else 1);
    tr_bgo : before_greet_ok (rev tr) = true;
    tr_de : count isDE tr = (if en then 1 else 0);
    tr_dt : count isDT tr = (if ec =? n then 1 else 0);
    tr_panic : existsb is_panic tr = false;
    tr_deliv : forall j, delivered_by j (rev tr) ++ mg_q (th j) = qs j;
    tr_scan : scan_term o0 false (rev tr) = [];
    tr_open : forall j, scan_open o0 (rev tr) j = is_indata (mg_pcv (th j));
    tr_seen : scan_seen false (rev tr) = true -> en = true \/ ec = n }.

  Ltac snoc :=
    cbn [rev]; rewrite ?count_cons_t, ?delivered_snoc, ?scan_term_app, ?scan_open_app, ?scan_seen_app;
    cbn [scan_term scan_open scan_seen ev_data existsb is_begin_greet isDE isDT is_panic snd app];
    rewrite ?app_nil_r.
  Ltac tr_split := constructor; [ | | | | | intros jj | | intros jj | ]; snoc.

  (** no event: the threads change, keeping queues and "in a data delivery" *)
  Lemma TR_silent st ec en th th' tr :
    TR st ec en th tr ->
    (forall j, mg_q (th' j) = mg_q (th j) /\ is_indata (mg_pcv (th' j)) = is_indata (mg_pcv (th j))) ->
    TR st ec en th' tr.
  Proof.
    intros [] H. constructor; auto.
    - intros j. destruct (H j) as [-> _]. auto.
    - intros j. destruct (H j) as [_ ->]. auto.
  Qed.

  Lemma TR_st st ec en th tr : TR st ec en th tr -> st <> 0 -> TR (S st) ec en th tr.
  Proof. intros [] H. constructor; auto. destruct st; [lia|]. exact tr_greet0. Qed.

  Lemma TR_ec st ec en th tr : TR st ec en th tr -> ec < n -> S ec <> n -> TR st (S ec) en th tr.
  Proof.
    intros [] H1 H2. constructor; auto.
    - rewrite tr_dt0. destruct (Nat.eqb_spec ec n), (Nat.eqb_spec (S ec) n); auto; lia.
    - intros Hs. destruct (tr_seen0 Hs); auto. lia.
  Qed.

  Lemma TR_up st ec en th tr t j m : TR st ec en th tr -> TR st ec en th ((t, TUp j m) :: tr).
  Proof.
    intros []. tr_split; auto.
    apply bgo_snoc; auto. right. exact I.
  Qed.

  Lemma TR_qext st ec en th tr t tr1 : TR st ec en th tr -> qext t tr tr1 -> TR st ec en th tr1.
  Proof. intros H Hq. induction Hq; auto. now apply TR_up. Qed.

  Lemma TR_end st ec en th th' tr t :
    TR st ec en th tr ->
    (forall j, j <> t -> th' j = th j) -> mg_q (th' t) = mg_q (th t) ->
    is_indata (mg_pcv (th' t)) = false ->
    TR st ec en th' ((t, TEnd) :: tr).
  Proof.
    intros [] Ho Hq Hp. tr_split; auto.
    - apply bgo_snoc; auto. right. exact I.
    - destruct (Nat.eq_dec jj t) as [->|Hj]; [rewrite Hq|rewrite Ho by auto]; auto.
    - pw jj t; [now rewrite Hp|]. rewrite Ho by auto. auto.
  Qed.

  Lemma TR_dh ec en th tr t : TR 0 ec en th tr -> TR 1 ec en th ((t, TBegin DH) :: tr).
  Proof.
    intros []. tr_split; auto.
    - rewrite tr_greet0. reflexivity.
    - apply bgo_snoc; auto. right. exact I.
  Qed.

  Lemma TR_dd st ec en th th' tr t v :
    TR st ec en th tr ->
    (forall j, j <> t -> th' j = th j) -> mg_q (th t) = v :: mg_q (th' t) ->
    mg_pcv (th' t) = MgInData -> 1 <= st -> en = false -> ec <> n ->
    TR st ec en th' ((t, TBegin (DD v)) :: tr).
  Proof.
    intros [] Ho Hq Hp Hst Hen Hec. tr_split; auto.
    - apply bgo_snoc; auto. left. rewrite count_rev, tr_greet0. destruct st; [lia|]. cbn. lia.
    - destruct (Nat.eqb_spec jj t) as [->|Hj].
      + rewrite <- app_assoc. cbn. rewrite <- Hq. auto.
      + rewrite app_nil_r. rewrite Ho by auto. auto.
    - destruct (scan_seen false (rev tr)) eqn:E; [|now rewrite tr_scan0].
      destruct (tr_seen0 eq_refl); congruence.
    - pw jj t; [now rewrite Hp|]. rewrite Ho by auto. auto.
  Qed.

  Lemma TR_dt st ec en th tr t :
    TR st ec en th tr -> ec < n -> S ec = n -> 1 <= st ->
    (forall j, is_indata (mg_pcv (th j)) = false) ->
    TR st (S ec) en th ((t, TBegin DT) :: tr).
  Proof.
    intros [] H1 H2 Hst Ho. tr_split; auto.
    - apply bgo_snoc; auto. left. rewrite count_rev, tr_greet0. destruct st; [lia|]. cbn. lia.
    - rewrite tr_dt0. destruct (Nat.eqb_spec ec n), (Nat.eqb_spec (S ec) n); auto; lia.
    - rewrite tr_scan0. rewrite existsb_false; [reflexivity|].
      intros j. rewrite tr_open0. apply Ho.
  Qed.

  Lemma TR_de st ec th tr t e :
    TR st ec false th tr -> 1 <= st -> TR st ec true th ((t, TBegin (DE e)) :: tr).
  Proof.
    intros [] Hst. tr_split; auto.
    apply bgo_snoc; auto. left. rewrite count_rev, tr_greet0. destruct st; [lia|]. cbn. lia.
  Qed.
End TraceInv.

(** ** The trace invariant is inductive *)

Lemma cnt_but_one P k t :
  t < k -> P t = false -> S (cnt P k) = k -> forall j, j < k -> j <> t -> P j = true.
Proof.
  intros Ht HP Hc j Hj Hne.
  assert (HQ : cnt (upd P t true) k = S (cnt P k)).
  { apply cnt_flip with (t := t); auto.
    - intros i _ Hi. now rewrite upd_other.
    - apply upd_same. }
  rewrite Hc in HQ. pose proof (cnt_full _ HQ Hj) as H. now rewrite upd_other in H.
Qed.

Section MergeTrace.
  Variable n : nat.
  Variable qs : nat -> list val.
  Variable fins : nat -> final.
  Hypothesis amo : forall i j e1 e2, i < n -> j < n -> fins i = FinErr e1 -> fins j = FinErr e2 -> i = j.

  Definition TRI (s : mg_state) : Prop :=
    TR n qs (mgs_start s) (mgs_endc s) (mgs_ended s) (mgs_th s) (mgs_tr s).

  Lemma TRI_init : 1 <= n -> TRI (mg_init n qs fins).
  Proof.
    intros Hn. unfold TRI. cbn -[Nat.ltb]. constructor; cbn -[Nat.ltb]; auto.
    - destruct n; [lia|reflexivity].
    - intros j. destruct (j <? n); reflexivity.
  Qed.

  Lemma not_counted_lt s t : GI n s -> t < n -> counted s t = false -> mgs_endc s < n.
  Proof.
    unfold GI. intros -> Ht Hc. pose proof (cnt_le (counted s) n).
    destruct (Nat.eq_dec (cnt (counted s) n) n) as [e|]; [|lia].
    rewrite (cnt_full _ e Ht) in Hc. discriminate.
  Qed.

  Lemma lt_of_pc s t : TI n fins s -> mg_pcv (mgs_th s t) <> MgFinished -> t < n.
  Proof.
    intros HTI Hp. destruct (Nat.lt_ge_cases t n); auto.
    destruct (HTI t) as (_ & _ & _ & H1 & _). exfalso; auto.
  Qed.

  Lemma store_fresh s t e :
    TI n fins s -> GE n fins s -> mg_pcv (mgs_th s t) = MgAtEndedStore e -> mgs_ended s = false.
  Proof.
    intros HTI HGE Hp. destruct (mgs_ended s) eqn:E; auto.
    destruct (HGE E) as (f & e0 & Hf & He & Hpc).
    assert (Ht : t < n) by (apply (lt_of_pc (s := s)); auto; congruence).
    pose proof (HTI t) as H. unfold TIc in H. rewrite Hp in H.
    destruct H as (H1 & _ & _ & _ & _ & _ & H2 & _).
    assert (f = t) by (apply (amo (e1 := e0) (e2 := e)); auto; congruence). subst f.
    rewrite Hp in Hpc. destruct Hpc; discriminate.
  Qed.

  Lemma TR_origin st ec en th tr t pc q f st' tr0 :
    TR n qs st ec en th tr -> th t = Th pc q f -> origin t st tr pc st' tr0 ->
    TR n qs st' ec en (upd th t (Th MgFinished q f)) tr0.
  Proof.
    intros HT Hth Ho. destruct Ho.
    - eapply TR_silent; [apply TR_st; eauto|].
      intros j. pw j t; auto. rewrite Hth. auto.
    - eapply TR_end; eauto.
      + intros j Hj. now rewrite upd_other.
      + rewrite upd_same, Hth. reflexivity.
      + now rewrite upd_same.
    - eapply TR_end; eauto.
      + intros j Hj. now rewrite upd_other.
      + rewrite upd_same, Hth. reflexivity.
      + now rewrite upd_same.
  Qed.

  Ltac silent t Hth :=
    let j := fresh "j" in
    intros j; pw j t; auto; rewrite ?Hth; cbn; auto.

  Lemma TRI_step s t s' :
    TI n fins s -> GE n fins s -> GI n s -> TRI s -> mstep n s t s' -> TRI s'.
  Proof.
    intros HTI HGE HGI HT Hs. revert HTI HGE HGI HT.
    destruct Hs; intros HTI HGE HGI HT; auto; unfold TRI in *; cbn [mgs_start mgs_endc mgs_ended mgs_th mgs_tr] in *.
    - (* load, ended, talkback still in its cell: the member disposes itself *)
      eapply TR_silent; [apply TR_up; eauto|]. silent t H.
    - (* load, ended, talkback already taken by the ending party *)
      eapply TR_silent; [eauto|]. silent t H.
    - eapply TR_silent; [eauto|]. silent t H.
    - eapply TR_silent; [apply TR_dh; eauto|]. silent t H.
    - (* next: stopped *)
      eapply TR_origin; eauto.
    - (* next: data *)
      pose proof (TR_origin HT H H0) as HT1.
      pose proof (HTI t) as Ht. unfold TIc in Ht. cbn in Ht. rewrite H in Ht. cbn in Ht.
      assert (Htn : t < n) by (apply (lt_of_pc (s := St st ec en tbs stp th tr)); auto; cbn; rewrite H; cbn; destruct H0; discriminate).
      assert (Hec : ec < n).
      { apply (not_counted_lt (s := St st ec en tbs stp th tr) HGI Htn).
        unfold counted, countedc. cbn. rewrite H. cbn. destruct H0; reflexivity. }
      eapply TR_dd; [exact HT1| | | | | |].
      + intros j Hj. now rewrite !upd_other.
      + now rewrite !upd_same.
      + now rewrite upd_same.
      + destruct H0; intuition lia.
      + destruct en; auto. destruct H0; intuition congruence.
      + lia.
    - eapply TR_silent; [eapply TR_origin; eauto|]. silent t H.
    - eapply TR_silent; [eapply TR_origin; eauto|]. silent t H.
    - eapply TR_silent; [eapply TR_origin; eauto|]. silent t H.
    - (* the last member counts itself: completion *)
      pose proof (HTI t) as Ht. unfold TIc in Ht. cbn in Ht. rewrite H in Ht. cbn in Ht.
      assert (Htn : t < n) by (apply (lt_of_pc (s := St st ec en tbs stp th tr)); auto; cbn; rewrite H; cbn; discriminate).
      eapply TR_silent; [apply TR_dt; eauto; try lia; try tauto|]; [|silent t H].
      intros j. destruct (Nat.eq_dec j t) as [->|Hj]; [now rewrite H|].
      destruct (Nat.lt_ge_cases j n) as [Hjn|Hjn].
      + assert (Hc : counted (St st ec en tbs stp th tr) j = true).
        { apply cnt_but_one with (k := n) (t := t); auto.
          - unfold counted, countedc. cbn. now rewrite H.
          - unfold GI in HGI. cbn in HGI. now rewrite <- HGI. }
        unfold counted, countedc in Hc. cbn in Hc.
        destruct (mg_pcv (th j)); cbn in *; auto; discriminate.
      + destruct (HTI j) as (_ & _ & _ & H2 & _). cbn in H2. now rewrite H2.
    - (* a member counts itself, not the last *)
      pose proof (HTI t) as Ht. unfold TIc in Ht. cbn in Ht. rewrite H in Ht. cbn in Ht.
      assert (Htn : t < n) by (apply (lt_of_pc (s := St st ec en tbs stp th tr)); auto; cbn; rewrite H; cbn; discriminate).
      assert (Hec : ec < n).
      { apply (not_counted_lt (s := St st ec en tbs stp th tr) HGI Htn).
        unfold counted, countedc. cbn. now rewrite H. }
      eapply TR_silent; [apply TR_ec; eauto|]. silent t H.
    - (* return from the terminal delivery *)
      eapply TR_end; eauto.
      + intros j Hj. now rewrite upd_other.
      + rewrite upd_same, H. reflexivity.
      + now rewrite upd_same.
    - (* the failing member: ended := true, siblings stopped, Error delivered *)
      assert (Hen : en = false).
      { apply (store_fresh (s := St st ec en tbs stp th tr) t (e := e)); auto. cbn. now rewrite H. }
      subst en.
      pose proof (HTI t) as Ht. unfold TIc in Ht. cbn in Ht. rewrite H in Ht. cbn in Ht.
      eapply TR_silent; [apply TR_de; [eapply TR_qext; eauto|tauto]|]. silent t H.
  Qed.
End MergeTrace.

(** ** The theorems (C18 for merge!, all schedules) *)

Definition at_most_one_err (n : nat) (fins : nat -> final) : Prop :=
  forall i j e1 e2, i < n -> j < n -> fins i = FinErr e1 -> fins j = FinErr e2 -> i = j.

Lemma at_most_one_err_of_global n fins :
  (forall i j e1 e2, fins i = FinErr e1 -> fins j = FinErr e2 -> i = j) -> at_most_one_err n fins.
Proof. intros H i j e1 e2 _ _. apply H. Qed.

Lemma merge_check_unfold n qs fins tr :
  merge_check n qs fins tr =
  flagt (Nat.eqb (count is_begin_greet tr) 1) TvGreetCount
  ++ flagt (before_greet_ok tr) TvBeforeGreet
  ++ flagt (count is_begin_term tr <=? 1) TvSinkTermTwice
  ++ flagt (negb (existsb is_panic tr)) TvPanic
  ++ scan_term o0 false tr
  ++ flat_map (fun t => flagt (is_prefix (delivered_by t tr) (qs t)) TvOrder) (seq 0 n)
  ++ (if any_err n fins then
        flagt (Nat.eqb (count isDE tr) 1 && Nat.eqb (count isDT tr) 0) TvNoTerminal
      else
        flat_map (fun t => flagt (list_val_eqb (delivered_by t tr) (qs t)) TvDataLost) (seq 0 n)
        ++ (if all_term n fins then flagt (Nat.eqb (count isDT tr) 1) TvNoTerminal else [])).
Proof. reflexivity. Qed.

Section MergeTheorems.
  Variable n : nat.
  Variable qs : nat -> list val.
  Variable fins : nat -> final.
  Hypothesis Hn : 1 <= n.
  Hypothesis amo : at_most_one_err n fins.

  Definition Inv (s : mg_state) : Prop := TI n fins s /\ GE n fins s /\ GI n s /\ TRI n qs s.

  Lemma reach_inv s : mg_reach n qs fins s -> Inv s.
  Proof.
    induction 1 as [|s t _ (H1 & H2 & H3 & H4)].
    - split; [|split; [|split]].
      + apply TI_init.
      + apply GE_init.
      + now apply GI_init.
      + now apply TRI_init.
    - pose proof (mstep_of n s t) as Hs. split; [|split; [|split]].
      + eapply TI_step; eauto.
      + eapply GE_step; eauto.
      + eapply GI_step; eauto.
      + eapply TRI_step; eauto.
  Qed.

  Lemma ended_lt s : Inv s -> mgs_ended s = true -> mgs_endc s < n.
  Proof.
    intros (H1 & H2 & H3 & _) He. destruct (H2 He) as (f & e & Hf & Hfe & _).
    apply (not_counted_lt H3 Hf). unfold counted, countedc.
    destruct (H1 f) as (Hfin & _). rewrite Hfin, Hfe. cbn. now rewrite andb_false_r.
  Qed.

  Lemma endc_le s : Inv s -> mgs_endc s <= n.
  Proof. intros (_ & _ & H3 & _). rewrite H3. apply cnt_le. Qed.

  (** 1. the sink is greeted at most once, and nothing is delivered before the greeting begins *)
  Theorem merge_threads_greet_once s :
    mg_reach n qs fins s ->
    count is_begin_greet (mgs_tr s) <= 1 /\ before_greet_ok (rev (mgs_tr s)) = true.
  Proof.
    intros Hr. destruct (reach_inv Hr) as (_ & _ & _ & [Xgreet Xbgo Xde Xdt Xpanic Xdeliv Xscan Xopen Xseen]). split; auto.
    rewrite Xgreet. destruct (mgs_start s =? 0); lia.
  Qed.

  (** 2. at most one terminal message (Terminate or Error) begins at the sink *)
  Theorem merge_threads_one_terminal s :
    mg_reach n qs fins s -> count is_begin_term (mgs_tr s) <= 1.
  Proof.
    intros Hr. pose proof (reach_inv Hr) as HI. pose proof (ended_lt HI) as Hlt.
    destruct HI as (_ & _ & _ & [Xgreet Xbgo Xde Xdt Xpanic Xdeliv Xscan Xopen Xseen]).
    rewrite count_term_split, Xdt, Xde.
    destruct (mgs_ended s); [|destruct (mgs_endc s =? n); lia].
    specialize (Hlt eq_refl). destruct (Nat.eqb_spec (mgs_endc s) n); lia.
  Qed.

  (** 3. each member's data arrive in its own order: nothing forged, nothing twice *)
  Theorem merge_threads_order s t :
    mg_reach n qs fins s -> is_prefix (delivered_by t (rev (mgs_tr s))) (qs t) = true.
  Proof.
    intros Hr. destruct (reach_inv Hr) as (_ & _ & _ & [Xgreet Xbgo Xde Xdt Xpanic Xdeliv Xscan Xopen Xseen]).
    rewrite <- (Xdeliv t). apply is_prefix_app.
  Qed.

  (** what is still to be delivered is exactly the rest of the queue *)
  Theorem merge_threads_delivered s t :
    mg_reach n qs fins s -> delivered_by t (rev (mgs_tr s)) ++ mg_q (mgs_th s t) = qs t.
  Proof. intros Hr. destruct (reach_inv Hr) as (_ & _ & _ & [Xgreet Xbgo Xde Xdt Xpanic Xdeliv Xscan Xopen Xseen]). apply Xdeliv. Qed.

  (** 4. the completion begins when no data delivery is in progress, and no data delivery
      begins after a terminal message began (the scan reports nothing at all); in state terms:
      once the end counter is full every member has returned from all its deliveries *)
  Theorem merge_threads_completion_after_data s :
    mg_reach n qs fins s ->
    scan_term (fun _ => false) false (rev (mgs_tr s)) = [] /\
    (mgs_endc s = n -> forall t, t < n ->
       mg_pcv (mgs_th s t) = MgInTerm \/ mg_pcv (mgs_th s t) = MgFinished) /\
    (forall t, scan_open (fun _ => false) (rev (mgs_tr s)) t = true <-> mg_pcv (mgs_th s t) = MgInData).
  Proof.
    intros Hr. destruct (reach_inv Hr) as (_ & _ & H3 & [Xgreet Xbgo Xde Xdt Xpanic Xdeliv Xscan Xopen Xseen]). split; [exact Xscan|split].
    - intros He t Ht. unfold GI in H3. rewrite H3 in He.
      pose proof (cnt_full _ He Ht) as Hc. unfold counted, countedc in Hc.
      destruct (mg_pcv (mgs_th s t)); cbn in Hc; auto; discriminate.
    - intros t. change (fun _ : nat => false) with o0. rewrite Xopen.
      destruct (mg_pcv (mgs_th s t)); cbn; split; congruence.
  Qed.

  Corollary merge_threads_no_term_during_data s :
    mg_reach n qs fins s ->
    ~ In TvTermDuringData (scan_term (fun _ => false) false (rev (mgs_tr s))).
  Proof. intros Hr. destruct (merge_threads_completion_after_data Hr) as [-> _]. auto. Qed.

  (** no panic is ever recorded *)
  Theorem merge_threads_no_panic s :
    mg_reach n qs fins s -> existsb is_panic (mgs_tr s) = false.
  Proof. intros Hr. destruct (reach_inv Hr) as (_ & _ & _ & [Xgreet Xbgo Xde Xdt Xpanic Xdeliv Xscan Xopen Xseen]). exact Xpanic. Qed.

  (** threads that are not members are finished from the start *)
  Lemma merge_threads_finished_ge s t : mg_reach n qs fins s -> n <= t -> mg_finished s t = true.
  Proof.
    intros Hr Ht. destruct (reach_inv Hr) as (H1 & _). destruct (H1 t) as (_ & _ & _ & H & _).
    unfold mg_finished. now rewrite (H Ht).
  Qed.

  (** a limit of the model, not a property of the code: the failing member's [ended.store(true)]
      and its [swap(None)] of every sibling's cell are ONE step of [mg_step], so a member that
      reads [ended = true] at MgAtEndedLoad always finds its cell already emptied and itself
      disposed; the branch of [mg_step] in which the member disposes itself ([ms_load_ended])
      is never taken from a reachable state.  In merge.rs the store and the swaps are separate
      atomic accesses, and the window between them is exactly where that branch matters. *)
  Theorem merge_threads_self_dispose_dead s t :
    mg_reach n qs fins s -> mg_pcv (mgs_th s t) = MgAtEndedLoad -> mgs_ended s = true ->
    mgs_tbs s t = false /\ mgs_stopped s t = true.
  Proof.
    intros Hr Hpc Hen. destruct (reach_inv Hr) as (H1 & _). pose proof (H1 t) as H.
    unfold TIc in H. rewrite Hpc in H. destruct H as (_ & _ & _ & _ & Htb & Hsp).
    rewrite Htb, (Hsp Hen). split; reflexivity.
  Qed.

  (** 5. the full C18 check on every final state (it is enough that the members are finished) *)
  Theorem merge_threads_final_n s :
    mg_reach n qs fins s -> (forall t, t < n -> mg_finished s t = true) ->
    merge_check n qs fins (rev (mgs_tr s)) = [].
  Proof.
    intros Hr Hfin. pose proof (reach_inv Hr) as HI. pose proof (ended_lt HI) as Hlt.
    pose proof (merge_threads_one_terminal Hr) as Hone.
    assert (Hpc : forall t, mg_pcv (mgs_th s t) = MgFinished).
    { intros t. assert (Hf : mg_finished s t = true).
      { destruct (Nat.lt_ge_cases t n); auto using merge_threads_finished_ge. }
      unfold mg_finished in Hf. destruct (mg_pcv (mgs_th s t)); congruence. }
    destruct HI as (H1 & H2 & H3 & [Xgreet Xbgo Xde Xdt Xpanic Xdeliv Xscan Xopen Xseen]).
    assert (HF : forall t, t < n ->
              mg_fin (mgs_th s t) = fins t /\ (mgs_stopped s t = true -> mgs_ended s = true) /\
              1 <= mgs_start s /\ (mgs_ended s = false -> mg_q (mgs_th s t) = []) /\
              (forall e, fins t = FinErr e -> mgs_ended s = true)).
    { intros t Ht. pose proof (H1 t) as H. unfold TIc in H. rewrite (Hpc t) in H.
      destruct H as (Ha & Hb & _ & _ & Hc). destruct (Hc Ht) as (Hd & He & Hf & _).
      rewrite Ha in Hf. auto. }
    rewrite merge_check_unfold, !count_rev, existsb_rev.
    (* greeted exactly once *)
    assert (Hst : 1 <= mgs_start s) by (destruct (HF 0 Hn) as (_ & _ & H & _); exact H).
    rewrite Xgreet. destruct (Nat.eqb_spec (mgs_start s) 0) as [|_]; [lia|]. cbn [Nat.eqb flagt app].
    rewrite Xbgo. cbn [flagt app].
    destruct (Nat.leb_spec (count is_begin_term (mgs_tr s)) 1); [|lia]. cbn [flagt app].
    rewrite Xpanic. cbn [negb flagt app].
    rewrite Xscan. cbn [app].
    rewrite flat_map_nil.
    2:{ intros t _. rewrite <- (Xdeliv t), is_prefix_app. reflexivity. }
    cbn [app].
    destruct (any_err n fins) eqn:Eany.
    - (* a member fails: exactly one Error, no Terminate *)
      apply existsb_exists in Eany. destruct Eany as (f & Hf & He).
      apply in_seq in Hf. destruct (fins f) as [|e|] eqn:Ef; try discriminate.
      destruct (HF f) as (_ & _ & _ & _ & Hen); [lia|].
      specialize (Hen e Ef). specialize (Hlt Hen).
      rewrite Xde, Xdt, Hen. destruct (Nat.eqb_spec (mgs_endc s) n); [lia|]. reflexivity.
    - (* nobody fails: everything delivered; all Terminate => exactly one completion *)
      assert (Hen : mgs_ended s = false).
      { destruct (mgs_ended s) eqn:E; auto. destruct (H2 E) as (f & e & Hf & He & _).
        assert (Hx : existsb (fun t => match fins t with FinErr _ => true | _ => false end) (seq 0 n) = true).
        { apply existsb_exists. exists f. split; [apply in_seq; lia|]. now rewrite He. }
        unfold any_err in Eany. congruence. }
      rewrite flat_map_nil.
      2:{ intros t Ht. apply in_seq in Ht. destruct (HF t) as (_ & _ & _ & Hq & _); [lia|].
          rewrite <- (Xdeliv t), (Hq Hen), app_nil_r, list_val_eqb_refl. reflexivity. }
      cbn [app].
      destruct (all_term n fins) eqn:Eall; [|reflexivity].
      assert (Hec : mgs_endc s = n).
      { unfold GI in H3. rewrite H3. apply cnt_all. intros t Ht.
        unfold counted, countedc. rewrite (Hpc t). cbn.
        destruct (HF t Ht) as (Ha & Hb & _).
        unfold all_term in Eall. rewrite forallb_forall in Eall.
        specialize (Eall t). rewrite Ha.
        destruct (fins t); try (exfalso; assert (false = true) by (apply Eall; apply in_seq; lia); discriminate).
        cbn. destruct (mgs_stopped s t); auto. specialize (Hb eq_refl). congruence. }
      rewrite Xdt, Hec, Nat.eqb_refl. reflexivity.
  Qed.

  Theorem merge_threads_final s :
    mg_reach n qs fins s -> (forall t, mg_finished s t = true) ->
    merge_check n qs fins (rev (mgs_tr s)) = [].
  Proof. intros Hr Hfin. apply merge_threads_final_n; auto. Qed.

  (** with a failing member (strongest statement; also a consequence of the above) *)
  Theorem merge_threads_final_err s f e :
    mg_reach n qs fins s -> (forall t, mg_finished s t = true) ->
    f < n -> fins f = FinErr e ->
    count isDE (mgs_tr s) = 1 /\ count isDT (mgs_tr s) = 0 /\ existsb is_panic (mgs_tr s) = false.
  Proof.
    intros Hr Hfin Hf He. pose proof (reach_inv Hr) as HI. pose proof (ended_lt HI) as Hlt.
    destruct HI as (H1 & H2 & H3 & [Xgreet Xbgo Xde Xdt Xpanic Xdeliv Xscan Xopen Xseen]).
    assert (Hen : mgs_ended s = true).
    { pose proof (H1 f) as H. unfold TIc in H. specialize (Hfin f). unfold mg_finished in Hfin.
      destruct (mg_pcv (mgs_th s f)); try discriminate.
      destruct H as (Ha & _ & _ & _ & Hc). destruct (Hc Hf) as (_ & _ & Hd & _).
      apply (Hd e). congruence. }
    specialize (Hlt Hen). rewrite Xde, Xdt, Hen.
    destruct (Nat.eqb_spec (mgs_endc s) n); [lia|]. auto.
  Qed.
End MergeTheorems.

(** ** What the driver runs is reachable *)

Lemma run_sched_reach n qs fins sch : forall s,
  mg_reach n qs fins s -> mg_reach n qs fins (run_sched (mg_step n) mg_finished sch s).
Proof.
  induction sch as [|t sch IH]; intros s Hr; cbn; auto.
  apply IH. destruct (mg_finished s t); auto. now constructor.
Qed.

Lemma drain_threads_reach n qs fins nth fuel : forall s,
  mg_reach n qs fins s -> mg_reach n qs fins (drain_threads (mg_step n) mg_finished nth fuel s).
Proof.
  induction fuel as [|fuel IH]; intros s Hr; cbn; auto.
  destruct (first_unfinished mg_finished nth s); auto. apply IH. now constructor.
Qed.

Lemma run_full_reach n qs fins nth sch fuel :
  mg_reach n qs fins (run_full (mg_step n) mg_finished nth sch fuel (mg_init n qs fins)).
Proof. unfold run_full. apply drain_threads_reach, run_sched_reach. constructor. Qed.

(** the driver's run, when it ends with every member finished, passes the full check *)
Corollary merge_driver_final n qs fins nth sch fuel :
  1 <= n -> at_most_one_err n fins ->
  let s := run_full (mg_step n) mg_finished nth sch fuel (mg_init n qs fins) in
  (forall t, t < n -> mg_finished s t = true) ->
  merge_check n qs fins (rev (mgs_tr s)) = [].
Proof. intros Hn Ha s Hf. apply merge_threads_final_n; auto. apply run_full_reach. Qed.

(** ** Replays *)

(** two failing members: both deliver their Error (so "at most one" is necessary) *)
Example two_failures_two_errors :
  let fins := fun t => match t with 0 => FinErr 100 | 1 => FinErr 101 | _ => FinNone end in
  let s := run_full (mg_step 2) mg_finished 2 [0;0;1;1;0;0;1] 100 (mg_init 2 (fun _ => []) fins) in
  rev (mgs_tr s) =
    [(0, TBegin DH); (0, TEnd); (0, TUp 1 UT); (0, TBegin (DE 100));
     (1, TUp 0 UT); (1, TBegin (DE 101)); (0, TEnd); (1, TEnd)]
  /\ merge_check 2 (fun _ => []) fins (rev (mgs_tr s)) = [TvSinkTermTwice; TvNoTerminal].
Proof. vm_compute. split; reflexivity. Qed.

(** one failing member: its Error begins while member 0 is inside a data delivery; member 0
    is told to stop, returns, and starts nothing further; [merge_check] accepts this *)
Example error_during_data :
  let qs := fun t => match t with 0 => [VN 1; VN 3] | _ => [] end in
  let fins := fun t => match t with 1 => FinErr 101 | _ => FinTerm end in
  let s := run_full (mg_step 2) mg_finished 2 [0;0;0;1;1;1;0;0;0;0;1] 100 (mg_init 2 qs fins) in
  rev (mgs_tr s) =
    [(0, TBegin DH); (0, TEnd); (0, TBegin (DD (VN 1))); (1, TUp 0 UT);
     (1, TBegin (DE 101)); (0, TEnd); (1, TEnd)]
  /\ merge_check 2 qs fins (rev (mgs_tr s)) = [].
Proof. vm_compute. split; reflexivity. Qed.

Print Assumptions merge_threads_greet_once.
Print Assumptions merge_threads_one_terminal.
Print Assumptions merge_threads_order.
Print Assumptions merge_threads_delivered.
Print Assumptions merge_threads_completion_after_data.
Print Assumptions merge_threads_no_term_during_data.
Print Assumptions merge_threads_no_panic.
Print Assumptions merge_threads_finished_ge.
Print Assumptions merge_threads_self_dispose_dead.
Print Assumptions merge_threads_final_n.
Print Assumptions merge_threads_final.
Print Assumptions merge_threads_final_err.
Print Assumptions run_full_reach.
Print Assumptions merge_driver_final.
