(** * Flow_relay: the flow facts ([stage_flow] of Flow.v) of the two pure relays, map and scan.

    Both operators forward every message one for one: a Pull from the sink becomes a Pull to the
    upstream, a datum from the upstream becomes a datum to the sink, a greeting becomes a greeting.
    Hence the demand equation [pout + dout = pin + din] and [hout = hin] hold in every reachable
    configuration, not only at rest.  The statements about [sk]/[us] follow from the [paired]
    fact of the Inv files plus one more invariant proved here: once the sink has subscribed, the
    upstream has been subscribed ([subd 0 = true -> us 0 <> UNone]). *)

From CB Require Import ProofLib Spec Flow.
From CB Require Inv_map Inv_scan.

Set Implicit Arguments.

(** compute the counts of the singleton event lists a step appends *)
Ltac counts :=
  unfold pin, pout, hin, hout, din, dout, cnt in *; cbn.

(** substitute the components [s' os a] of a handler result (equations [value = variable]) *)
Ltac subst_res :=
  repeat match goal with H : _ = ?x |- _ => is_var x; subst x end.

(** the equations a relay satisfies step by step; [Hh] is the equation of [handle] *)
Ltac relay_in_counts Hh inp :=
  cbn in Hh;
  destruct inp as [[|?s] ?aux|[|?s] [|?e|]|[|?i] [|?v|?e|]|?s]; inversion Hh; subst_res; counts; lia.

Section MapFlow.
  Variable f : val -> val.
  Variable p : mparams.
  Hypothesis Hns : nsinks p = 1.
  Hypothesis Hresub : resub p = false.
  Hypothesis Hnonest : no_nest p = false.
  Hypothesis Hc14 : c14 p = false.
  Let o := map_op f.

  (** demand is conserved and greetings are relayed, at every control point *)
  Lemma map_counts (c : cfg o) :
    reach p g_std c ->
    pout (trace c) + dout (trace c) = pin (trace c) + din (trace c) /\
    hout (trace c) = hin (trace c).
  Proof.
    induction 1 as [|c m Hr IH He]; [split; reflexivity|].
    destruct IH as [IHd IHh].
    pose proof (enabled_live _ _ _ _ He) as Hlive.
    destruct m as [inp|].
    - pose proof (enabled_deliverable _ _ _ _ He) as Hdel.
      destruct (handle o inp (cst c)) as [[s' os] a] eqn:Hh.
      rewrite (step_in_trace p c inp Hlive Hdel Hh),
        pin_step, pout_step, din_step, dout_step, hin_step, hout_step.
      relay_in_counts Hh inp.
    - destruct (enabled_ret_stack _ _ _ He) as (k & cl & rest & Hst).
      destruct (resume o k (cst c)) as [[s' os] a] eqn:Hres.
      rewrite (step_ret_trace p c Hlive Hst Hres),
        pin_step, pout_step, din_step, dout_step, hin_step, hout_step.
      cbn in Hres. inversion Hres; subst_res. counts. lia.
  Qed.

  (** once the sink has subscribed the upstream has been subscribed *)
  Lemma map_subd_us (c : cfg o) :
    reach p g_std c -> subd (ms c) 0 = true -> us (ms c) 0 <> UNone.
  Proof.
    induction 1 as [|c m Hr IH He]; [cbn; discriminate|].
    pose proof (Inv_map.inv_reach Hns Hresub Hnonest Hc14 Hr) as HI.
    pose proof (Inv_map.i_pair HI) as Hpair.
    pose proof (Inv_map.i_sk_other HI) as Hsko.
    pose proof (Inv_map.i_us_other HI) as Huso.
    pose proof (Inv_map.i_task HI) as Htask.
    destruct m as [[s aux|s u|i d|s]|].
    - (* the sink subscribes: the upstream is subscribed in the same activation *)
      start_in He Hlive Hdel Hg.
      cbn in He, Hg. rewrite Hns in He. destruct aux; [|discriminate].
      destruct (at_top c) eqn:Htop; cbn in He; try discriminate.
      destruct s; cbn in He; try discriminate.
      destruct (step_in p c (ISub 0 0) Hlive Hdel eq_refl) as (Hc & Hs & Hm & Hd).
      intros _. rewrite Hm. cbn -[add_viols]. rewrite ?add_viols_eq. cbn. rewrite ?upd_same. discriminate.
    - start_in He Hlive Hdel Hg.
      cbn in He. apply andb_prop in He. destruct He as [He Hu].
      apply andb_prop in He. destruct He as [Htop Hsk].
      destruct s as [|s]; [|rewrite Hsko in Hsk by lia; discriminate].
      destruct (step_in p c (IUp 0 u) Hlive Hdel eq_refl) as (Hc & Hs & Hm & Hd).
      rewrite Hm. destruct u as [|e|]; cbn -[add_viols]; rewrite ?add_viols_eq; cbn;
        rewrite ?upd_same; try exact IH; intros; discriminate.
    - start_in He Hlive Hdel Hg.
      cbn in He. apply andb_prop in He. destruct He as [Htop He].
      destruct i as [|i].
      2: { rewrite Huso in He by lia. destruct d; cbn in He; discriminate. }
      destruct d as [|v|e|].
      all: destruct (step_in p c (IDn 0 _) Hlive Hdel eq_refl) as (Hc & Hs & Hm & Hd).
      all: rewrite Hm; cbn -[add_viols]; rewrite ?add_viols_eq; cbn.
      all: try exact IH.
      all: repeat match goal with
                  | |- context [match ?x with _ => _ end] => destruct x
                  end; cbn; rewrite ?upd_same; intros; discriminate.
    - exfalso. unfold enabled in He.
      repeat (apply andb_prop in He; destruct He as [? He]).
      cbn in He. now rewrite Htask in He.
    - pose proof (enabled_live _ _ _ _ He) as Hlive.
      destruct (enabled_ret_stack _ _ _ He) as (k & cl & rest & Hst).
      destruct (step_ret p c Hlive Hst eq_refl) as (Hc & Hs & Hm & Hd).
      rewrite Hm. cbn -[add_viols]. destruct (tl (cstack (ms c))); rewrite ?add_viols_eq; cbn; exact IH.
  Qed.

  Lemma map_paired (c : cfg o) : reach p g_std c -> paired (sk (ms c) 0) (us (ms c) 0).
  Proof. intros Hr. exact (Inv_map.i_pair (Inv_map.inv_reach Hns Hresub Hnonest Hc14 Hr)). Qed.

  Lemma map_calls : calls_sat port0 o.
  Proof.
    split.
    - intros i s s' os c k Hh. cbn in Hh. unfold port0.
      destruct i as [[|?s] ?aux|[|?s] ?u|[|?i] [|?v|?e|]|?s]; inversion Hh; subst_res; eauto.
    - intros fr s s' os c k Hr. cbn in Hr. discriminate.
  Qed.

  Theorem map_stage_flow_sec : stage_flow o p None.
  Proof.
    constructor.
    - intros c Hr. destruct (map_counts Hr) as [Hd _]. lia.
    - intros c Hr _ _. destruct (map_counts Hr) as [Hd _]. exact Hd.
    - intros c Hr. destruct (map_counts Hr) as [_ Hh]. lia.
    - intros c Hr _ Hsub Hsk.
      pose proof (map_paired Hr) as Hp.
      pose proof (map_subd_us Hr Hsub) as Hne.
      rewrite Hsk in Hp. inversion Hp; congruence.
    - intros c Hr _ Hsk.
      pose proof (map_paired Hr) as Hp.
      rewrite Hsk in Hp. inversion Hp; congruence.
    - intros c Hr _ Hsk. left.
      pose proof (map_paired Hr) as Hp.
      rewrite Hsk in Hp. inversion Hp; congruence.
    - exact map_calls.
  Qed.
End MapFlow.

Theorem map_stage_flow (f : val -> val) p :
  nsinks p = 1 -> resub p = false -> no_nest p = false -> c14 p = false ->
  stage_flow (map_op f) p None.
Proof. intros H1 H2 H3 H4. exact (@map_stage_flow_sec f p H1 H2 H3 H4). Qed.
Print Assumptions map_stage_flow.

Section ScanFlow.
  Variable reducer : val -> val -> val.
  Variable seed : val.
  Variable p : mparams.
  Hypothesis Hns : nsinks p = 1.
  Hypothesis Hresub : resub p = false.
  Hypothesis Hnonest : no_nest p = false.
  Hypothesis Hc14 : c14 p = false.
  Let o := scan_op reducer seed.

  (** demand is conserved and greetings are relayed, at every control point *)
  Lemma scan_counts (c : cfg o) :
    reach p g_std c ->
    pout (trace c) + dout (trace c) = pin (trace c) + din (trace c) /\
    hout (trace c) = hin (trace c).
  Proof.
    induction 1 as [|c m Hr IH He]; [split; reflexivity|].
    destruct IH as [IHd IHh].
    pose proof (enabled_live _ _ _ _ He) as Hlive.
    destruct m as [inp|].
    - pose proof (enabled_deliverable _ _ _ _ He) as Hdel.
      destruct (handle o inp (cst c)) as [[s' os] a] eqn:Hh.
      rewrite (step_in_trace p c inp Hlive Hdel Hh),
        pin_step, pout_step, din_step, dout_step, hin_step, hout_step.
      relay_in_counts Hh inp.
    - destruct (enabled_ret_stack _ _ _ He) as (k & cl & rest & Hst).
      destruct (resume o k (cst c)) as [[s' os] a] eqn:Hres.
      rewrite (step_ret_trace p c Hlive Hst Hres),
        pin_step, pout_step, din_step, dout_step, hin_step, hout_step.
      cbn in Hres. inversion Hres; subst_res. counts. lia.
  Qed.

  (** once the sink has subscribed the upstream has been subscribed *)
  Lemma scan_subd_us (c : cfg o) :
    reach p g_std c -> subd (ms c) 0 = true -> us (ms c) 0 <> UNone.
  Proof.
    induction 1 as [|c m Hr IH He]; [cbn; discriminate|].
    pose proof (Inv_scan.inv_reach Hns Hresub Hnonest Hc14 Hr) as HI.
    pose proof (Inv_scan.i_pair HI) as Hpair.
    pose proof (Inv_scan.i_sk_other HI) as Hsko.
    pose proof (Inv_scan.i_us_other HI) as Huso.
    pose proof (Inv_scan.i_task HI) as Htask.
    destruct m as [[s aux|s u|i d|s]|].
    - (* the sink subscribes: the upstream is subscribed in the same activation *)
      start_in He Hlive Hdel Hg.
      cbn in He, Hg. rewrite Hns in He. destruct aux; [|discriminate].
      destruct (at_top c) eqn:Htop; cbn in He; try discriminate.
      destruct s; cbn in He; try discriminate.
      destruct (step_in p c (ISub 0 0) Hlive Hdel eq_refl) as (Hc & Hs & Hm & Hd).
      intros _. rewrite Hm. cbn -[add_viols]. rewrite ?add_viols_eq. cbn. rewrite ?upd_same. discriminate.
    - start_in He Hlive Hdel Hg.
      cbn in He. apply andb_prop in He. destruct He as [He Hu].
      apply andb_prop in He. destruct He as [Htop Hsk].
      destruct s as [|s]; [|rewrite Hsko in Hsk by lia; discriminate].
      destruct (step_in p c (IUp 0 u) Hlive Hdel eq_refl) as (Hc & Hs & Hm & Hd).
      rewrite Hm. destruct u as [|e|]; cbn -[add_viols]; rewrite ?add_viols_eq; cbn;
        rewrite ?upd_same; try exact IH; intros; discriminate.
    - start_in He Hlive Hdel Hg.
      cbn in He. apply andb_prop in He. destruct He as [Htop He].
      destruct i as [|i].
      2: { rewrite Huso in He by lia. destruct d; cbn in He; discriminate. }
      destruct d as [|v|e|].
      all: destruct (step_in p c (IDn 0 _) Hlive Hdel eq_refl) as (Hc & Hs & Hm & Hd).
      all: rewrite Hm; cbn -[add_viols]; rewrite ?add_viols_eq; cbn.
      all: try exact IH.
      all: repeat match goal with
                  | |- context [match ?x with _ => _ end] => destruct x
                  end; cbn; rewrite ?upd_same; intros; discriminate.
    - exfalso. unfold enabled in He.
      repeat (apply andb_prop in He; destruct He as [? He]).
      cbn in He. now rewrite Htask in He.
    - pose proof (enabled_live _ _ _ _ He) as Hlive.
      destruct (enabled_ret_stack _ _ _ He) as (k & cl & rest & Hst).
      destruct (step_ret p c Hlive Hst eq_refl) as (Hc & Hs & Hm & Hd).
      rewrite Hm. cbn -[add_viols]. destruct (tl (cstack (ms c))); rewrite ?add_viols_eq; cbn; exact IH.
  Qed.

  Lemma scan_paired (c : cfg o) : reach p g_std c -> paired (sk (ms c) 0) (us (ms c) 0).
  Proof. intros Hr. exact (Inv_scan.i_pair (Inv_scan.inv_reach Hns Hresub Hnonest Hc14 Hr)). Qed.

  Lemma scan_calls : calls_sat port0 o.
  Proof.
    split.
    - intros i s s' os c k Hh. cbn in Hh. unfold port0.
      destruct i as [[|?s] ?aux|[|?s] ?u|[|?i] [|?v|?e|]|?s]; inversion Hh; subst_res; eauto.
    - intros fr s s' os c k Hr. cbn in Hr. discriminate.
  Qed.

  Theorem scan_stage_flow_sec : stage_flow o p None.
  Proof.
    constructor.
    - intros c Hr. destruct (scan_counts Hr) as [Hd _]. lia.
    - intros c Hr _ _. destruct (scan_counts Hr) as [Hd _]. exact Hd.
    - intros c Hr. destruct (scan_counts Hr) as [_ Hh]. lia.
    - intros c Hr _ Hsub Hsk.
      pose proof (scan_paired Hr) as Hp.
      pose proof (scan_subd_us Hr Hsub) as Hne.
      rewrite Hsk in Hp. inversion Hp; congruence.
    - intros c Hr _ Hsk.
      pose proof (scan_paired Hr) as Hp.
      rewrite Hsk in Hp. inversion Hp; congruence.
    - intros c Hr _ Hsk. left.
      pose proof (scan_paired Hr) as Hp.
      rewrite Hsk in Hp. inversion Hp; congruence.
    - exact scan_calls.
  Qed.
End ScanFlow.

Theorem scan_stage_flow (r : val -> val -> val) (seed : val) p :
  nsinks p = 1 -> resub p = false -> no_nest p = false -> c14 p = false ->
  stage_flow (scan_op r seed) p None.
Proof. intros H1 H2 H3 H4. exact (@scan_stage_flow_sec r seed p H1 H2 H3 H4). Qed.
Print Assumptions scan_stage_flow.
