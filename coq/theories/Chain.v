(** * Chain: linear pipelines of components, and the composition theorem.

    The per-component theorems (Inv_*.v) are about ONE operator between environment puppets.
    A program of the crate wires operators to each other: [pipe!(source, op1, .., opk, sink)].
    Here a pipeline is a list of component configurations; node [i]'s upstream port 0 is wired
    to node [i-1]'s sink 0, node 0's port 0 and every other port are external, the last node's
    sink is external.  When a node's handler makes a call on a wired port, the neighbour's
    handler runs (an internal step, [NTau]) - its input is the translation of the call - and when
    a handler returns, control goes back to whoever called it.  Nothing but the components' own
    [step] functions is used: a net step is a [step] of exactly one node.

    The environment of the net is the conformant environment of Machine.v at the external ports,
    with local reaction at net level: while an external call is pending only that peer acts.

    [chain_sound]: if every node is safe in its regime (the per-component theorems), then in
    every reachable net every node's configuration is REACHABLE IN ITS OWN CONFORMANT
    ENVIRONMENT - each neighbour is, towards the node, a conformant peer (assume-guarantee, by
    induction on the run; the guarantee of one node at step k discharges the assumption of its
    neighbour at step k+1).  Hence every per-component theorem holds for every node of every
    pipeline, of any length, in any external environment.  *)

From CB Require Import ProofLib Spec.

Set Implicit Arguments.

(** ** Nodes *)

Record node : Type := mk_node {
  nop : op;
  npar : mparams;
  ngrd : mstate -> input -> bool;
  ncfg : cfg nop;
}.

Definition nstep (n : node) (m : move) : node :=
  mk_node (npar n) (ngrd n) (step (npar n) (ncfg n) m).

Definition nms (n : node) : mstate := ms (ncfg n).
Definition nlast (n : node) : option event := hd_error (rtrace (ncfg n)).
Definition nenabled (n : node) (m : move) : bool := enabled (npar n) (ngrd n) (ncfg n) m.
Definition nreach (n : node) : Prop := reach (npar n) (ngrd n) (ncfg n).
Definition ninit (n : node) : Prop := ncfg n = cfg0 (nop n).

(** what a node is, as opposed to where it is in its run *)
Definition nsig (n : node) : op * mparams * (mstate -> input -> bool) := (nop n, npar n, ngrd n).

Definition safe_sig (s : op * mparams * (mstate -> input -> bool)) : Prop :=
  let '(o, p, g) := s in
  forall c : cfg o, reach p g c -> viols (ms c) = [] /\ dead c = false.

Lemma nsig_nstep n m : nsig (nstep n m) = nsig n.
Proof. reflexivity. Qed.

(** ** Nets *)

Inductive gkind : Type := KExt | KUp | KDn.

Inductive pending : Type :=
| PIdle                              (* the environment's turn *)
| PTo (i : nat) (inp : input)        (* a node called its neighbour [i]: [i] runs [inp] next *)
| PRet (j : nat).                    (* the activation [j] called has returned: [j] resumes next *)

Record net : Type := mk_net {
  nodes : list node;
  gst : list (nat * gkind);          (* pending calls of all nodes, innermost first *)
  pend : pending;
}.

Fixpoint set_nth (A : Type) (i : nat) (x : A) (l : list A) : list A :=
  match l, i with
  | [], _ => []
  | _ :: l', 0 => x :: l'
  | y :: l', S i' => y :: set_nth i' x l'
  end.

(** how a call of node [i] (of [len]) is routed *)
Definition route (len i : nat) (c : call) : gkind :=
  match c with
  | CSub 0 | CUp 0 _ => if 0 <? i then KUp else KExt
  | CDn 0 _ => if S i <? len then KDn else KExt
  | _ => KExt
  end.

Definition xlate (c : call) : input :=
  match c with
  | CSub _ => ISub 0 0
  | CUp _ u => IUp 0 u
  | CDn _ d => IDn 0 d
  end.

(** the node whose handler runs while the call [e] is pending *)
Definition owner_above (e : nat * gkind) : nat :=
  match e with
  | (j, KExt) => j
  | (j, KUp) => pred j
  | (j, KDn) => S j
  end.

(** node [i] has just made a step and is now [n']: where does control go? *)
Definition after_step (N : net) (i : nat) (n' : node) : net :=
  let nodes' := set_nth i n' (nodes N) in
  match nlast n' with
  | Some (ECall c) =>
      match route (length (nodes N)) i c with
      | KExt => mk_net nodes' ((i, KExt) :: gst N) PIdle
      | KUp => mk_net nodes' ((i, KUp) :: gst N) (PTo (pred i) (xlate c))
      | KDn => mk_net nodes' ((i, KDn) :: gst N) (PTo (S i) (xlate c))
      end
  | Some EDone =>
      match gst N with
      | (j, KUp) :: _ | (j, KDn) :: _ => mk_net nodes' (gst N) (PRet j)
      | _ => mk_net nodes' (gst N) PIdle
      end
  | _ => mk_net nodes' (gst N) PIdle
  end.

Inductive nmove : Type :=
| NEnv (i : nat) (m : move)          (* the environment acts on node [i] *)
| NTau.                              (* the pending internal transfer happens *)

Definition net_step (N : net) (mv : nmove) : net :=
  match mv, pend N with
  | NEnv i m, PIdle =>
      match nth_error (nodes N) i with
      | Some n =>
          let N1 := match m with
                    | MRet => mk_net (nodes N) (tl (gst N)) PIdle
                    | MIn _ => N
                    end in
          after_step N1 i (nstep n m)
      | None => N
      end
  | NTau, PTo i inp =>
      match nth_error (nodes N) i with
      | Some n => after_step N i (nstep n (MIn inp))
      | None => N
      end
  | NTau, PRet j =>
      match nth_error (nodes N) j with
      | Some n => after_step (mk_net (nodes N) (tl (gst N)) PIdle) j (nstep n MRet)
      | None => N
      end
  | _, _ => N
  end.

(** which external inputs exist at node [i] of [len] *)
Definition ext_input_ok (len i : nat) (inp : input) : bool :=
  match inp with
  | ISub _ _ | IUp _ _ => S i =? len
  | IDn 0 _ => i =? 0
  | IDn (S _) _ => true
  | ITick _ => true
  end.

(** the conformant environment of the net: the node-level conformance of Machine.v at the
    external port, and local reaction at net level *)
Definition net_enabled (N : net) (mv : nmove) : bool :=
  match mv, pend N with
  | NTau, PIdle => false
  | NTau, _ => true
  | NEnv i m, PIdle =>
      match nth_error (nodes N) i with
      | None => false
      | Some n =>
          nenabled n m &&
          match m with
          | MRet => match gst N with (j, KExt) :: _ => j =? i | _ => false end
          | MIn inp =>
              ext_input_ok (length (nodes N)) i inp &&
              match gst N with
              | [] => true
              | (j, KExt) :: _ => j =? i
              | _ => false
              end
          end
      end
  | NEnv _ _, _ => false
  end.

Inductive net_reach (N0 : net) : net -> Prop :=
| nreach0 : net_reach N0 N0
| nreachS N mv : net_reach N0 N -> net_enabled N mv = true -> net_reach N0 (net_step N mv).

(** ** Facts about one node step, in terms of the monitor state only *)

Section OneNode.
  Variable p : mparams.
  Variable o : op.
  Variable g : mstate -> input -> bool.

  Definition mon_move (m0 : mstate) (m : move) : mstate :=
    match m with
    | MIn i => mon_input p m0 i
    | MRet => mon_event p m0 ERet
    end.

  (** the fields the links between neighbours talk about *)
  Definition same_core (a b : mstate) : Prop :=
    subd a = subd b /\ sk a = sk b /\ us a = us b /\ refused a = refused b
    /\ cstack a = cstack b.

  Lemma same_core_refl a : same_core a a.
  Proof. repeat split. Qed.

  Lemma same_core_trans a b c : same_core a b -> same_core b c -> same_core a c.
  Proof. unfold same_core. intuition congruence. Qed.

  Lemma obs_core os m0 : same_core (fold_left (mon_event p) (map EObs os) m0) m0.
  Proof.
    revert m0. induction os as [|ob os IH]; intros m0; cbn; [apply same_core_refl|].
    eapply same_core_trans; [apply IH|].
    destruct ob as [r|v|s [|]|s]; cbn; apply same_core_refl || (repeat split).
  Qed.

  Lemma done_core m0 : same_core (mon_event p m0 EDone) m0.
  Proof.
    cbn. destruct (cstack m0); [|apply same_core_refl].
    rewrite add_viols_eq. repeat split.
  Qed.

  (** summary of one enabled step that ends without violation and without panic *)
  Inductive step_sum (c : cfg o) (m : move) : Prop :=
  | sum_call (m1 : mstate) (cl : call) :
      same_core m1 (mon_move (ms c) m) ->
      hd_error (rtrace (step p c m)) = Some (ECall cl) ->
      check_call p m1 cl = [] ->
      same_core (ms (step p c m)) (set_cstack (mon_call_upd m1 cl) (cl :: cstack m1)) ->
      step_sum c m
  | sum_done :
      hd_error (rtrace (step p c m)) = Some EDone ->
      same_core (ms (step p c m)) (mon_move (ms c) m) ->
      step_sum c m.

  Lemma viols_add_nil vs m0 : viols (add_viols vs m0) = [] -> vs = [].
  Proof. rewrite add_viols_eq. cbn. intros H. now apply app_eq_nil in H. Qed.

  Lemma settle_sum (m0 : mstate) os (a : act (Fr o)) :
    viols (ms_settle p o m0 os a) = [] ->
    (exists m1 cl k, a = ACall cl k /\ same_core m1 m0 /\ check_call p m1 cl = [] /\
                     same_core (ms_settle p o m0 os a)
                               (set_cstack (mon_call_upd m1 cl) (cl :: cstack m1)))
    \/ (a = ARet /\ same_core (ms_settle p o m0 os a) m0)
    \/ a = APanic.
  Proof.
    intros Hv. unfold ms_settle in *.
    set (m1 := fold_left (mon_event p) (map EObs os) m0) in *.
    assert (H1 : same_core m1 m0) by apply obs_core.
    destruct a as [| |cl k].
    - right. left. split; [reflexivity|].
      eapply same_core_trans; [apply done_core | exact H1].
    - right. right. reflexivity.
    - left. exists m1, cl, k. split; [reflexivity|]. split; [exact H1|].
      cbn [mon_event] in *. split; [now apply viols_add_nil in Hv|].
      rewrite add_viols_eq, mon_call_upd_cstack. repeat split.
  Qed.

  Lemma step_summary (c : cfg o) (m : move) :
    enabled p g c m = true ->
    viols (ms (step p c m)) = [] -> dead (step p c m) = false ->
    step_sum c m.
  Proof.
    intros He Hv Hd.
    pose proof (enabled_live _ _ _ _ He) as Hlive.
    destruct m as [i|].
    - pose proof (enabled_deliverable _ _ _ _ He) as Hdel.
      destruct (handle o i (cst c)) as [[s' os] a] eqn:Hh.
      destruct (step_in p c i Hlive Hdel Hh) as (_ & _ & Hm & Hdd).
      pose proof (step_in_rtrace p c i Hlive Hdel Hh) as Hr.
      rewrite Hm in Hv.
      destruct (settle_sum _ _ _ Hv) as [(m1 & cl & k & -> & H1 & H2 & H3)|[[-> H1]| ->]].
      + eapply sum_call with (m1 := m1) (cl := cl); [exact H1| |exact H2|].
        * rewrite Hr. reflexivity.
        * rewrite Hm. exact H3.
      + apply sum_done; [rewrite Hr; reflexivity | rewrite Hm; exact H1].
      + rewrite Hdd in Hd. discriminate.
    - destruct (enabled_ret_stack _ _ _ He) as (k & cl & rest & Hst).
      destruct (resume o k (cst c)) as [[s' os] a] eqn:Hh.
      destruct (step_ret p c Hlive Hst Hh) as (_ & _ & Hm & Hdd).
      pose proof (step_ret_rtrace p c Hlive Hst Hh) as Hr.
      rewrite Hm in Hv.
      destruct (settle_sum _ _ _ Hv) as [(m1 & cl' & k' & -> & H1 & H2 & H3)|[[-> H1]| ->]].
      + eapply sum_call with (m1 := m1) (cl := cl'); [exact H1| |exact H2|].
        * rewrite Hr. reflexivity.
        * rewrite Hm. exact H3.
      + apply sum_done; [rewrite Hr; reflexivity | rewrite Hm; exact H1].
      + rewrite Hdd in Hd. discriminate.
  Qed.

  (** from the initial configuration only a subscription is possible *)
  Lemma enabled_cfg0 m :
    nsinks p = 1 -> enabled p g (cfg0 o) m = true -> exists aux, m = MIn (ISub 0 aux).
  Proof.
    intros Hn He. unfold enabled in He. cbn in He.
    destruct m as [[s aux|s u|i d|s]|]; cbn in He; try discriminate.
    - apply andb_prop in He. destruct He as [_ He]. apply andb_prop in He. destruct He as [He _].
      rewrite Hn in He. destruct s as [|s]; [now exists aux|]. cbn in He. discriminate.
    - rewrite andb_false_r in He. discriminate.
    - destruct d; cbn in He; rewrite ?andb_false_r in He; discriminate.
    - rewrite andb_false_r in He. discriminate.
  Qed.
End OneNode.
